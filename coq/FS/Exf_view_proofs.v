(* C12 - proofs about the model FS/Exf.v, part 3: the split of a request over windows and file, what a reader sees when
   MAP_PRIVATE windows are registered (the view), and write / read / copy against the flat array. *)
Require Import ZArith List Bool Lia.
Require Import IW.Lib.CInt IW.Gen.Facts IW.FS.Exf IW.FS.Exf_base_proofs IW.FS.Exf_inv_proofs.
Import ListNotations.
Local Open Scope Z_scope.
Ltac Zify.zify_post_hook ::= Z.div_mod_to_equations.

(* ---------------------------------------------------------------------------------------------- *)
(* 6. the split of a request over windows and file *)
Definition mapped (s : slot) (x : Z) : Prop := s_off s <= x < s_off s + s_len s.

Inductive Chain : Z -> list piece -> Z -> Prop :=
| Chain_nil : forall a, Chain a [] a
| Chain_cons : forall p tl a b, p_off p = a -> Chain (a + p_len p) tl b -> Chain a (p :: tl) b.

Lemma Chain_app : forall a b c x y, Chain a x b -> Chain b y c -> Chain a (x ++ y) c.
Proof. intros a b c x y H. induction H; intros; simpl; auto. constructor; auto. Qed.

(* a piece served through window number j lies inside the mapped part of that window;
   no byte of a piece served through the file is covered by a mapped window *)
Definition piece_ok_at (ss : list slot) (i : nat) (lo : Z) (p : piece) : Prop :=
  0 < p_len p /\ lo <= p_off p /\
  match p_loc p with
  | ViaWin j => (i <= j)%nat /\ exists s, nth_error ss (j - i) = Some s /\ s_off s <= p_off p /\ p_off p + p_len p <= s_off s + s_len s
  | ViaFile => forall s x, In s ss -> p_off p <= x < p_off p + p_len p -> ~ mapped s x
  end.
Definition piece_ok (ss : list slot) (p : piece) : Prop := piece_ok_at ss 0 (p_off p) p.

(* one iteration of the loop without the recursive call *)
Definition step_slot (s : slot) (i : nat) (off wp : Z) : list piece * Z * Z :=
  let '(p1, off1, wp1) :=
    if s_off s >? off then
      let len := Z.min wp (s_off s - off) in
      ([mkPiece ViaFile off len], off + len, wp - len)
    else ([], off, wp) in
  let '(p2, off2, wp2) :=
    if (wp1 >? 0) && (s_off s <=? off1) && (s_off s + s_len s >? off1) then
      let len := Z.min wp1 (s_off s + s_len s - off1) in
      ([mkPiece (ViaWin i) off1 len], off1 + len, wp1 - len)
    else ([], off1, wp1) in
  (p1 ++ p2, off2, wp2).

Lemma split_cons : forall s tl i off wp,
  split (s :: tl) i off wp =
    if wp <=? 0 then ([], off, wp)
    else if (s_len s =? 0) || (wp + off <=? s_off s) then ([], off, wp)
    else let '(p12, off2, wp2) := step_slot s i off wp in
         let '(ps, off3, wp3) := split tl (S i) off2 wp2 in (p12 ++ ps, off3, wp3).
Proof.
  intros. simpl. destruct (wp <=? 0); [reflexivity |].
  destruct ((s_len s =? 0) || (wp + off <=? s_off s)); [reflexivity |].
  unfold step_slot.
  destruct (s_off s >? off);
    match goal with |- context [if ?c then _ else _] => destruct c end;
    destruct (split tl (S i) _ _) as [[ps off3] wp3]; rewrite <- ?app_assoc; reflexivity.
Qed.

Lemma step_slot_ok : forall s i off wp p12 off2 wp2,
  0 < wp -> 0 < s_len s -> s_off s < wp + off ->
  step_slot s i off wp = (p12, off2, wp2) ->
  Chain off p12 off2 /\ off2 + wp2 = off + wp /\ 0 <= wp2 <= wp /\ (0 < wp2 -> s_off s + s_len s <= off2) /\
  Forall (fun p => 0 < p_len p /\ off <= p_off p /\
                   match p_loc p with
                   | ViaWin j => j = i /\ s_off s <= p_off p /\ p_off p + p_len p <= s_off s + s_len s
                   | ViaFile => p_off p + p_len p <= s_off s
                   end) p12.
Proof.
  intros s i off wp p12 off2 wp2 Hwp Hl Hb E. unfold step_slot in E.
  destruct (Z.gtb_spec (s_off s) off) as [Hgt | Hle].
  - (* a part before the window goes through the file, then the window *)
    replace (Z.min wp (s_off s - off)) with (s_off s - off) in E by lia.
    replace (off + (s_off s - off)) with (s_off s) in E by lia.
    destruct (Z.gtb_spec (wp - (s_off s - off)) 0); [| lia].
    destruct (Z.leb_spec (s_off s) (s_off s)); [| lia].
    destruct (Z.gtb_spec (s_off s + s_len s) (s_off s)); [| lia].
    simpl in E. inversion E; subst p12 off2 wp2. clear E.
    split; [| split; [| split; [| split]]].
    + constructor; [reflexivity |]. simpl. replace (off + (s_off s - off)) with (s_off s) by lia.
      constructor; [reflexivity |]. simpl. constructor.
    + lia.
    + lia.
    + lia.
    + constructor; [simpl; lia |]. constructor; [simpl; lia |]. constructor.
  - destruct (Z.gtb_spec wp 0); [| lia].
    destruct (Z.leb_spec (s_off s) off); [| lia].
    destruct (Z.gtb_spec (s_off s + s_len s) off) as [Hin | Hout]; simpl in E; inversion E; subst p12 off2 wp2; clear E.
    + split; [| split; [| split; [| split]]].
      * constructor; [reflexivity |]. simpl. constructor.
      * lia.
      * lia.
      * lia.
      * constructor; [simpl; lia |]. constructor.
    + split; [| split; [| split; [| split]]]; try lia; constructor.
Qed.

Lemma Chain_bounds : forall a pcs b, Chain a pcs b -> Forall (fun p => 0 < p_len p) pcs -> a <= b.
Proof.
  intros a pcs b H. induction H; intros F. - lia. - inversion F; subst. specialize (IHChain H4). lia.
Qed.

(* the geometry of a layout alone (shared or private windows) *)
Definition slot_geo (ps fsz : Z) (s : slot) : Prop :=
  0 <= s_off s /\ s_off s mod ps = 0 /\ 0 < s_maxlen s /\ s_maxlen s mod ps = 0 /\ s_len s = slot_nlen fsz s.
Inductive LayoutInv (ps fsz : Z) : list slot -> Prop :=
| LI_nil : LayoutInv ps fsz []
| LI_cons : forall s tl, slot_geo ps fsz s -> Forall (fun t => s_off s + s_maxlen s <= s_off t) tl ->
    LayoutInv ps fsz tl -> LayoutInv ps fsz (s :: tl).
Lemma SlotsInv_Layout : forall ps fsz ss, SlotsInv ps fsz ss -> FullL fsz ss -> LayoutInv ps fsz ss.
Proof.
  intros ps fsz ss H. induction H as [| s tl Hs Hf Ht IH]; intros F; [constructor |].
  inversion F as [| s0 tl0 Fs Ft]; subst. constructor; [| exact Hf | exact (IH Ft)].
  destruct Hs as [H1 [H2 [H3 [H4 _]]]]. unfold slot_geo. auto.
Qed.
Lemma LayoutInv_Forall : forall ps fsz ss, LayoutInv ps fsz ss -> Forall (slot_geo ps fsz) ss.
Proof. intros ps fsz ss H. induction H; constructor; auto. Qed.

Lemma slot_len_range : forall ps fsz s, slot_geo ps fsz s -> 0 <= s_len s <= s_maxlen s.
Proof. intros ps fsz s [_ [_ [Hm [_ Hl]]]]. rewrite Hl. apply slot_nlen_range. exact Hm. Qed.

Lemma slot_len0 : forall ps fsz s, slot_geo ps fsz s -> (s_len s = 0 <-> fsz <= s_off s).
Proof.
  intros ps fsz s [_ [_ [Hm [_ Hl]]]]. rewrite Hl. unfold slot_nlen.
  destruct (Z.geb_spec (s_off s) fsz); lia.
Qed.

Lemma split_ok : forall ps fsz ss, LayoutInv ps fsz ss -> forall i off wp pcs off' wp',
  split ss i off wp = (pcs, off', wp') ->
  Chain off pcs off' /\ off' + wp' = off + wp /\
  (wp <= 0 -> pcs = [] /\ wp' = wp) /\ (0 < wp -> 0 <= wp' <= wp) /\
  Forall (piece_ok_at ss i off) pcs /\
  (forall s x, In s ss -> off' <= x < off' + wp' -> ~ mapped s x).
Proof.
  intros ps fsz ss HS. induction HS as [| s tl Hs Hf Ht IH]; intros i off wp pcs off' wp' E.
  - simpl in E. inversion E; subst. repeat split; try lia; try constructor. intros s x [].
  - rewrite split_cons in E.
    pose proof (slot_len_range _ _ _ Hs) as Hlr.
    destruct (Z.leb_spec wp 0) as [Hwp | Hwp].
    { inversion E; subst. repeat split; try lia; try constructor; try (unfold mapped; intros; lia). }
    destruct ((s_len s =? 0) || (wp + off <=? s_off s)) eqn:Ebrk.
    { inversion E; subst. split; [constructor |]. split; [lia |]. split; [intros; lia |]. split; [intros; lia |].
      split; [constructor |].
      intros s0 x Hin Hx Hm. unfold mapped in Hm. apply orb_true_iff in Ebrk. destruct Ebrk as [E0 | E1].
      - apply Z.eqb_eq in E0. destruct Hin as [-> | Hin]; [lia |].
        (* the later windows start beyond the end of the file as well *)
        pose proof (proj1 (slot_len0 _ _ _ Hs) E0) as Hfs.
        rewrite Forall_forall in Hf. specialize (Hf _ Hin).
        pose proof (LayoutInv_Forall _ _ _ Ht) as Hall. rewrite Forall_forall in Hall. specialize (Hall _ Hin).
        pose proof (proj2 (slot_len0 _ _ _ Hall)) as H0. destruct Hs as [_ [_ [Hml _]]]. lia.
      - apply Z.leb_le in E1. destruct Hin as [-> | Hin]; [lia |].
        rewrite Forall_forall in Hf. specialize (Hf _ Hin). destruct Hs as [_ [_ [Hml _]]]. lia. }
    apply orb_false_iff in Ebrk. destruct Ebrk as [E0 E1]. apply Z.eqb_neq in E0. apply Z.leb_gt in E1.
    destruct (step_slot s i off wp) as [[p12 off2] wp2] eqn:Est.
    destruct (split tl (S i) off2 wp2) as [[pcs3 off3] wp3] eqn:Esp.
    inversion E; subst pcs off' wp'. clear E.
    destruct (step_slot_ok s i off wp p12 off2 wp2 Hwp ltac:(lia) ltac:(lia) Est) as [C1 [S1 [R1 [B1 F1]]]].
    destruct (IH (S i) off2 wp2 pcs3 off3 wp3 Esp) as [C2 [S2 [Z2 [R2 [F2 A2]]]]].
    assert (Hmax : 0 < s_maxlen s) by (destruct Hs as [_ [_ [Hml _]]]; exact Hml).
    assert (Hlater : forall t, In t tl -> s_off s + s_maxlen s <= s_off t) by (rewrite Forall_forall in Hf; exact Hf).
    split; [eapply Chain_app; eauto |]. split; [lia |]. split; [intros; lia |].
    split. { intros _. destruct (Z_le_gt_dec wp2 0) as [Hz | Hz]; [destruct (Z2 Hz); lia | specialize (R2 ltac:(lia)); lia]. }
    split.
    + apply Forall_app. split.
      * eapply Forall_impl; [| exact F1]. intros p [Hp1 [Hp2 Hp3]]. unfold piece_ok_at. split; [exact Hp1 |]. split; [exact Hp2 |].
        destruct (p_loc p) as [| j].
        -- intros s0 x Hin Hx Hm. unfold mapped in Hm. destruct Hin as [-> | Hin]; [lia |]. specialize (Hlater _ Hin). lia.
        -- destruct Hp3 as [-> [Ha Hb]]. split; [lia |]. exists s. rewrite Nat.sub_diag. simpl. auto.
      * destruct (Z_le_gt_dec wp2 0) as [Hz | Hz]; [destruct (Z2 Hz) as [-> _]; constructor |].
        specialize (B1 ltac:(lia)).
        eapply Forall_impl; [| exact F2]. intros p [Hp1 [Hp2 Hp3]]. unfold piece_ok_at. split; [exact Hp1 |]. split; [lia |].
        destruct (p_loc p) as [| j].
        -- intros s0 x Hin Hx Hm. destruct Hin as [-> | Hin]; [unfold mapped in Hm; lia | exact (Hp3 s0 x Hin Hx Hm)].
        -- destruct Hp3 as [Hij [s' [Hn Hr]]]. split; [lia |]. exists s'. split; [| exact Hr].
           replace (j - i)%nat with (S (j - S i)) by lia. simpl. exact Hn.
    + intros s0 x Hin Hx Hm. destruct Hin as [-> | Hin]; [| exact (A2 s0 x Hin Hx Hm)].
      unfold mapped in Hm. destruct (Z_le_gt_dec wp2 0) as [Hz | Hz]; [destruct (Z2 Hz); lia |].
      specialize (B1 ltac:(lia)). specialize (R2 ltac:(lia)). lia.
Qed.

Lemma piece_ok_at_lo : forall ss i lo p, piece_ok_at ss i lo p -> piece_ok_at ss i (p_off p) p.
Proof. intros ss i lo p [H1 [H2 H3]]. unfold piece_ok_at. split; [exact H1 |]. split; [lia | exact H3]. Qed.

(* THEOREM split_covers *)
Lemma split_covers : forall ps fsz ss off siz, LayoutInv ps fsz ss -> 0 <= siz ->
  Chain off (split_all ss off siz) (off + siz) /\ Forall (piece_ok ss) (split_all ss off siz).
Proof.
  intros ps fsz ss off siz HS Hsiz. unfold split_all.
  destruct (split ss 0 off siz) as [[pcs off'] wp'] eqn:E.
  destruct (split_ok ps fsz ss HS 0%nat off siz pcs off' wp' E) as [C [S [Z0 [R [F A]]]]].
  assert (Hw : 0 <= wp') by (destruct (Z_le_gt_dec siz 0) as [Hz | Hz]; [destruct (Z0 Hz); lia | specialize (R ltac:(lia)); lia]).
  destruct (Z.gtb_spec wp' 0) as [Hpos | Hzero].
  - split.
    + eapply Chain_app; [exact C |]. constructor; [reflexivity |]. simpl. replace (off' + wp') with (off + siz) by lia. constructor.
    + apply Forall_app. split.
      * eapply Forall_impl; [| exact F]. intros p Hp. exact (piece_ok_at_lo _ _ _ _ Hp).
      * constructor; [| constructor]. unfold piece_ok, piece_ok_at. simpl. split; [lia |]. split; [lia |]. exact A.
  - rewrite app_nil_r. split.
    + replace (off + siz) with off' by lia. exact C.
    + eapply Forall_impl; [| exact F]. intros p Hp. exact (piece_ok_at_lo _ _ _ _ Hp).
Qed.

(* ---------------------------------------------------------------------------------------------- *)
(* the same loop over a layout in which the operating system has left windows unmapped or shorter than the file allows:
   the pieces are still consecutive and a window piece lies inside the mapped part of its window *)
Definition piece_w_at (ss : list slot) (i : nat) (lo : Z) (p : piece) : Prop :=
  0 < p_len p /\ lo <= p_off p /\
  match p_loc p with
  | ViaWin j => (i <= j)%nat /\ exists s, nth_error ss (j - i) = Some s /\ s_off s <= p_off p /\ p_off p + p_len p <= s_off s + s_len s
  | ViaFile => True
  end.

Lemma split_ok_w : forall ps fsz ss, SlotsInv ps fsz ss -> forall i off wp pcs off' wp',
  split ss i off wp = (pcs, off', wp') ->
  Chain off pcs off' /\ off' + wp' = off + wp /\
  (wp <= 0 -> pcs = [] /\ wp' = wp) /\ (0 < wp -> 0 <= wp' <= wp) /\
  Forall (piece_w_at ss i off) pcs.
Proof.
  intros ps fsz ss HS. induction HS as [| s tl Hs Hf Ht IH]; intros i off wp pcs off' wp' E.
  - simpl in E. inversion E; subst. repeat split; try lia; try constructor.
  - rewrite split_cons in E.
    assert (Hlr : 0 <= s_len s) by (destruct Hs as [_ [_ [_ [_ [H5 _]]]]]; lia).
    destruct (Z.leb_spec wp 0) as [Hwp | Hwp].
    { inversion E; subst. repeat split; try lia; try constructor. }
    destruct ((s_len s =? 0) || (wp + off <=? s_off s)) eqn:Ebrk.
    { inversion E; subst. split; [constructor |]. split; [lia |]. split; [intros; lia |]. split; [intros; lia |]. constructor. }
    apply orb_false_iff in Ebrk. destruct Ebrk as [E0 E1]. apply Z.eqb_neq in E0. apply Z.leb_gt in E1.
    destruct (step_slot s i off wp) as [[p12 off2] wp2] eqn:Est.
    destruct (split tl (S i) off2 wp2) as [[pcs3 off3] wp3] eqn:Esp.
    inversion E; subst pcs off' wp'. clear E.
    destruct (step_slot_ok s i off wp p12 off2 wp2 Hwp ltac:(lia) ltac:(lia) Est) as [C1 [S1 [R1 [B1 F1]]]].
    destruct (IH (S i) off2 wp2 pcs3 off3 wp3 Esp) as [C2 [S2 [Z2 [R2 F2]]]].
    split; [eapply Chain_app; eauto |]. split; [lia |]. split; [intros; lia |].
    split. { intros _. destruct (Z_le_gt_dec wp2 0) as [Hz | Hz]; [destruct (Z2 Hz); lia | specialize (R2 ltac:(lia)); lia]. }
    apply Forall_app. split.
    + eapply Forall_impl; [| exact F1]. intros p [Hp1 [Hp2 Hp3]]. unfold piece_w_at. split; [exact Hp1 |]. split; [exact Hp2 |].
      destruct (p_loc p) as [| j]; [exact I |].
      destruct Hp3 as [-> [Ha Hb]]. split; [lia |]. exists s. rewrite Nat.sub_diag. simpl. auto.
    + destruct (Z_le_gt_dec wp2 0) as [Hz | Hz]; [destruct (Z2 Hz) as [-> _]; constructor |].
      eapply Forall_impl; [| exact F2]. intros p [Hp1 [Hp2 Hp3]]. unfold piece_w_at. split; [exact Hp1 |].
      assert (off <= off2) by lia. split; [lia |].
      destruct (p_loc p) as [| j]; [exact I |].
      destruct Hp3 as [Hij [s' [Hn Hr]]]. split; [lia |]. exists s'. split; [| exact Hr].
      replace (j - i)%nat with (S (j - S i)) by lia. simpl. exact Hn.
Qed.

(* a slot without its pages; two lists with the same erasure differ only in the content of private pages *)
Definition erase (s : slot) : slot := mkSlot (s_off s) (s_maxlen s) (s_len s) (s_priv s) [].

(* what the byte-level lemmas need of a piece: a window piece lies in the mapped part of its window, a file piece touches
   no byte of a mapped MAP_PRIVATE window *)
Definition piece_v (G : list slot) (p : piece) : Prop :=
  0 < p_len p /\
  match p_loc p with
  | ViaWin j => exists g, nth_error G j = Some g /\ s_off g <= p_off p /\ p_off p + p_len p <= s_off g + s_len g
  | ViaFile => forall g, In g G -> s_priv g = true -> 0 < s_len g -> p_off p + p_len p <= s_off g \/ s_off g + s_len g <= p_off p
  end.

Lemma nth_error_erase : forall ss j s, nth_error ss j = Some s -> nth_error (map erase ss) j = Some (erase s).
Proof. intros ss j s H. rewrite nth_error_map, H. reflexivity. Qed.

Lemma split_pieces_v : forall ps fsz ss off siz, SlotsInv ps fsz ss -> SharedL ss \/ FullL fsz ss -> 0 <= siz ->
  Chain off (split_all ss off siz) (off + siz) /\ Forall (piece_v (map erase ss)) (split_all ss off siz).
Proof.
  intros ps fsz ss off siz HS [HSh | HF] Hsiz.
  - (* shared windows, possibly unmapped ones *)
    unfold split_all. destruct (split ss 0 off siz) as [[pcs off'] wp'] eqn:E.
    destruct (split_ok_w ps fsz ss HS 0%nat off siz pcs off' wp' E) as [C [S [Z0 [R F]]]].
    assert (Hw : 0 <= wp') by (destruct (Z_le_gt_dec siz 0) as [Hz | Hz]; [destruct (Z0 Hz); lia | specialize (R ltac:(lia)); lia]).
    assert (Hnopriv : forall g, In g (map erase ss) -> s_priv g = true -> False).
    { intros g Hin Hp. apply in_map_iff in Hin. destruct Hin as [s [<- Hin]]. unfold SharedL in HSh. rewrite Forall_forall in HSh.
      simpl in Hp. rewrite (HSh s Hin) in Hp. discriminate Hp. }
    assert (Fv : Forall (piece_v (map erase ss)) pcs).
    { eapply Forall_impl; [| exact F]. intros p [Hp1 [_ Hp3]]. split; [exact Hp1 |]. destruct (p_loc p) as [| j].
      - intros g Hin Hp _. exfalso. exact (Hnopriv g Hin Hp).
      - destruct Hp3 as [_ [s [Hn Hr]]]. rewrite Nat.sub_0_r in Hn. exists (erase s). split; [apply nth_error_erase; exact Hn | exact Hr]. }
    destruct (Z.gtb_spec wp' 0) as [Hpos | Hzero].
    + split.
      * eapply Chain_app; [exact C |]. constructor; [reflexivity |]. simpl. replace (off' + wp') with (off + siz) by lia. constructor.
      * apply Forall_app. split; [exact Fv |]. constructor; [| constructor]. split; [simpl; lia |]. simpl.
        intros g Hin Hp _. exfalso. exact (Hnopriv g Hin Hp).
    + rewrite app_nil_r. split; [replace (off + siz) with off' by lia; exact C | exact Fv].
  - (* every window mapped as far as the file allows: a file piece touches no mapped window at all *)
    destruct (split_covers ps fsz ss off siz (SlotsInv_Layout _ _ _ HS HF) Hsiz) as [C F]. split; [exact C |].
    eapply Forall_impl; [| exact F]. intros p [Hp1 [_ Hp3]]. split; [exact Hp1 |]. destruct (p_loc p) as [| j].
    + intros g Hin Hp Hpos. apply in_map_iff in Hin. destruct Hin as [s [<- Hin]]. simpl in *.
      destruct (Z_le_gt_dec (p_off p + p_len p) (s_off s)) as [Hl | Hl]; [left; exact Hl |].
      destruct (Z_le_gt_dec (s_off s + s_len s) (p_off p)) as [Hr | Hr]; [right; exact Hr |]. exfalso.
      destruct (Z_le_gt_dec (s_off s) (p_off p)) as [Hc | Hc].
      * apply (Hp3 s (p_off p) Hin); unfold mapped; lia.
      * apply (Hp3 s (s_off s) Hin); unfold mapped; lia.
    + destruct Hp3 as [_ [s [Hn Hr]]]. rewrite Nat.sub_0_r in Hn. exists (erase s). split; [apply nth_error_erase; exact Hn | exact Hr].
Qed.

(* ---------------------------------------------------------------------------------------------- *)
(* the content of a private window, one byte at a time *)
Definition wfpage (ps : Z) (pg : option (list Z)) : Prop := match pg with Some b => zlen b = ps | None => True end.

(* byte x of the window: from its detached page, or still the file *)
Definition sbyte (ps : Z) (f : list Z) (s : slot) (x : Z) : Z :=
  match nth (Z.to_nat (x / ps)) (s_pages s) None with
  | Some b => znth (x mod ps) b
  | None => znth (s_off s + x) f
  end.

Lemma zlen_cons : forall (A : Type) (a : A) l, zlen (a :: l) = 1 + zlen l.
Proof. intros. unfold zlen. simpl length. lia. Qed.

Lemma pages_view_spec : forall ps f s pgs i, 0 < ps -> 0 <= s_off s -> Forall (wfpage ps) pgs ->
  s_off s + (Z.of_nat i + zlen pgs) * ps <= zlen f ->
  zlen (pages_view ps f s i pgs) = zlen pgs * ps /\
  forall x, 0 <= x < zlen pgs * ps ->
    znth x (pages_view ps f s i pgs) =
      match nth (Z.to_nat (x / ps)) pgs None with
      | Some b => znth (x mod ps) b
      | None => znth (s_off s + Z.of_nat i * ps + x) f
      end.
Proof.
  intros ps f s pgs. induction pgs as [| pg tl IH]; intros i Hps Ho Hwf Hfit.
  - simpl. split; [reflexivity |]. intros x Hx. change (zlen (@nil (option (list Z)))) with 0 in Hx. lia.
  - inversion Hwf as [| pg0 tl0 Hpg Htl]; subst. rewrite zlen_cons in Hfit.
    pose proof (zlen_nonneg tl) as Htn.
    assert (Hpl : zlen (page_view ps f s i pg) = ps).
    { destruct pg as [b |]; simpl; [exact Hpg |]. apply zlen_pread; nia. }
    destruct (IH (S i) Hps Ho Htl ltac:(rewrite Nat2Z.inj_succ; nia)) as [IL IX].
    simpl pages_view. rewrite zlen_app, Hpl, IL, zlen_cons. split; [lia |].
    intros x Hx. rewrite znth_app by lia. rewrite Hpl.
    destruct (Z.ltb_spec x ps) as [Hlt | Hge].
    + rewrite Z.div_small by lia. rewrite Z.mod_small by lia. simpl.
      destruct pg as [b |]; simpl; [reflexivity |]. rewrite znth_pread by lia. f_equal; lia.
    + assert (Hq : x / ps = (x - ps) / ps + 1).
      { replace x with ((x - ps) + 1 * ps) at 1 by lia. rewrite Z.div_add by lia. reflexivity. }
      assert (Hq0 : 0 <= (x - ps) / ps) by (apply Z.div_pos; lia).
      assert (Hm : x mod ps = (x - ps) mod ps).
      { replace x with ((x - ps) + 1 * ps) at 1 by lia. rewrite Z.mod_add by lia. reflexivity. }
      rewrite IX by lia. rewrite Hq, Hm.
      replace (Z.to_nat ((x - ps) / ps + 1)) with (S (Z.to_nat ((x - ps) / ps))) by lia. simpl nth.
      destruct (nth (Z.to_nat ((x - ps) / ps)) tl None); [reflexivity |]. f_equal. rewrite Nat2Z.inj_succ. lia.
Qed.

Lemma cow_pages_spec : forall ps v lo hi pgs i,
  length (cow_pages ps v lo hi i pgs) = length pgs /\
  forall k, (k < length pgs)%nat ->
    nth k (cow_pages ps v lo hi i pgs) None =
      if (lo <=? Z.of_nat (i + k)) && (Z.of_nat (i + k) <=? hi) then Some (pread v (Z.of_nat (i + k) * ps) ps) else nth k pgs None.
Proof.
  intros ps v lo hi pgs. induction pgs as [| pg tl IH]; intros i.
  - simpl. split; [reflexivity |]. intros k Hk. lia.
  - destruct (IH (S i)) as [IL IX]. simpl. split; [f_equal; exact IL |].
    intros k Hk. destruct k as [| k].
    + rewrite Nat.add_0_r. reflexivity.
    + rewrite IX by lia. replace (S i + k)%nat with (i + S k)%nat by lia. reflexivity.
Qed.

(* the window as a byte list *)
Lemma win_view_priv : forall ps fsz f s, 0 < ps -> slot_ok ps fsz s -> s_priv s = true -> zlen f = fsz ->
  zlen (win_view ps f s) = s_len s /\ forall x, 0 <= x < s_len s -> znth x (win_view ps f s) = sbyte ps f s x.
Proof.
  intros ps fsz f s Hps Hs Hp Hf. pose proof Hs as [H1 [H2 [H3 [H4 [H5 [H6 H7]]]]]]. destruct (H7 Hp) as [Hn Hw].
  unfold win_view. rewrite Hp.
  assert (Hlen : zlen (s_pages s) * ps = s_len s).
  { rewrite Hn. pose proof (Z.div_mod (s_len s) ps ltac:(lia)). lia. }
  destruct (Z.eq_dec (s_len s) 0) as [Hz | Hnz].
  { assert (s_pages s = []) by (apply zlen_0_nil; rewrite Hn, Hz; apply Z.div_0_l; lia).
    rewrite H. simpl. split; [rewrite Hz; reflexivity | intros; lia]. }
  assert (Hfit : s_off s + (Z.of_nat 0 + zlen (s_pages s)) * ps <= zlen f).
  { simpl. rewrite Hlen. pose proof (slot_in_file ps fsz s Hs ltac:(lia)). lia. }
  destruct (pages_view_spec ps f s (s_pages s) 0 Hps H1 Hw Hfit) as [A B].
  split; [lia |]. intros x Hx. rewrite B by lia. unfold sbyte. simpl. rewrite Z.add_0_r. reflexivity.
Qed.

(* a slot that differs from s only in its pages *)
Definition same_shape (s s' : slot) : Prop := erase s' = erase s.

Lemma same_shape_fields : forall s s', same_shape s s' ->
  s_off s' = s_off s /\ s_maxlen s' = s_maxlen s /\ s_len s' = s_len s /\ s_priv s' = s_priv s.
Proof. intros s s' H. unfold same_shape, erase in H. inversion H. auto. Qed.

(* memcpy into a private window: the touched pages are detached; byte for byte the window now holds the data in the
   written range and what it held before elsewhere *)
Lemma win_write_priv : forall ps fsz f s p d, 0 < ps -> slot_ok ps fsz s -> s_priv s = true -> zlen f = fsz ->
  0 <= p -> p + zlen d <= s_len s ->
  exists s', win_write ps f s p d = Some (s', f) /\ same_shape s s' /\ slot_ok ps fsz s' /\
    forall x, 0 <= x < s_len s -> sbyte ps f s' x = if (p <=? x) && (x <? p + zlen d) then znth (x - p) d else sbyte ps f s x.
Proof.
  intros ps fsz f s p d Hps Hs Hp Hf Hp0 Hfit. pose proof (zlen_nonneg d) as Hdn.
  pose proof Hs as [H1 [H2 [H3 [H4 [H5 [H6 H7]]]]]]. destruct (H7 Hp) as [Hn Hw].
  unfold win_write, in_win. destruct (Z.leb_spec 0 p); [| lia]. destruct (Z.leb_spec (p + zlen d) (s_len s)); [| lia]. simpl. rewrite Hp.
  destruct (Z.eqb_spec (zlen d) 0) as [Hz | Hnz].
  { exists s. split; [reflexivity |]. split; [reflexivity |]. split; [exact Hs |]. intros x Hx.
    destruct (Z.leb_spec p x); destruct (Z.ltb_spec x (p + zlen d)); simpl; try reflexivity; lia. }
  destruct (win_view_priv ps fsz f s Hps Hs Hp Hf) as [VL VX].
  set (v := splice (win_view ps f s) p d).
  set (lo := p / ps). set (hi := (p + zlen d - 1) / ps).
  destruct (cow_pages_spec ps v lo hi (s_pages s) 0) as [CL CX].
  eexists. split; [reflexivity |]. split; [unfold same_shape, erase; simpl; rewrite Hp; reflexivity |].
  assert (Hvl : zlen v = s_len s) by (unfold v; rewrite zlen_splice by lia; exact VL).
  assert (Hcnt : forall k, (k < length (s_pages s))%nat -> (Z.of_nat k + 1) * ps <= s_len s).
  { intros k Hk. unfold zlen in Hn. pose proof (Z.div_mod (s_len s) ps ltac:(lia)). nia. }
  split.
  { apply slot_ok_intro; simpl; auto. intros _. unfold pages_wf. simpl. split.
    - unfold zlen. rewrite CL. exact Hn.
    - apply Forall_forall. intros pg Hin. destruct (In_nth _ _ None Hin) as [k [Hk Hnth]]. rewrite CL in Hk.
      rewrite CX in Hnth by exact Hk. simpl in Hnth.
      destruct ((lo <=? Z.of_nat k) && (Z.of_nat k <=? hi)).
      + subst pg. simpl. apply zlen_pread; try lia. specialize (Hcnt k Hk). lia.
      + rewrite Forall_forall in Hw. apply Hw. rewrite <- Hnth. apply nth_In. exact Hk. }
  intros x Hx. unfold sbyte at 1. simpl.
  assert (Hk : (Z.to_nat (x / ps) < length (s_pages s))%nat).
  { unfold zlen in Hn. assert (x / ps < s_len s / ps); [| lia].
    apply Z.div_lt_upper_bound; [lia |]. pose proof (Z.div_mod (s_len s) ps ltac:(lia)). lia. }
  rewrite CX by exact Hk. simpl. rewrite Z2Nat.id by (apply Z.div_pos; lia).
  pose proof (Z.div_mod x ps ltac:(lia)) as Hdm. pose proof (Z.mod_pos_bound x ps Hps) as Hmb.
  assert (Hq0 : 0 <= x / ps) by (apply Z.div_pos; lia). assert (Hqq : 0 <= x / ps * ps) by nia.
  destruct ((lo <=? x / ps) && (x / ps <=? hi)) eqn:Ein.
  - (* a detached page: it holds the window's bytes after the write *)
    rewrite znth_pread by lia. replace (x / ps * ps + x mod ps) with x by lia.
    unfold v. rewrite znth_splice by lia. rewrite VX by lia. reflexivity.
  - (* an untouched page lies outside the written range *)
    assert (Hout : ~ (p <= x < p + zlen d)).
    { intros [Ha Hb]. apply andb_false_iff in Ein. destruct Ein as [Ein | Ein].
      - apply Z.leb_gt in Ein. unfold lo in Ein. pose proof (Z.div_le_mono p x ps Hps Ha). lia.
      - apply Z.leb_gt in Ein. unfold hi in Ein. pose proof (Z.div_le_mono x (p + zlen d - 1) ps Hps ltac:(lia)). lia. }
    destruct (Z.leb_spec p x); destruct (Z.ltb_spec x (p + zlen d)); simpl; try lia; reflexivity.
Qed.

(* ---------------------------------------------------------------------------------------------- *)
(* what a reader sees at offset x: the byte of the mapped private window that covers x, else the byte of `v` *)
Definition covers (s : slot) (x : Z) : bool := s_priv s && (s_off s <=? x) && (x <? s_off s + s_len s).

Fixpoint vb (ps : Z) (f v : list Z) (ss : list slot) (x : Z) : Z :=
  match ss with
  | [] => znth x v
  | s :: tl => if covers s x then sbyte ps f s (x - s_off s) else vb ps f v tl x
  end.

Lemma vb_base_ext : forall ps f v1 v2 ss x, znth x v1 = znth x v2 -> vb ps f v1 ss x = vb ps f v2 ss x.
Proof. intros ps f v1 v2 ss x H. induction ss as [| s tl IH]; simpl; [exact H |]. destruct (covers s x); [reflexivity | exact IH]. Qed.

Lemma vb_below : forall ps f v ss x, Forall (fun t => x < s_off t) ss -> vb ps f v ss x = znth x v.
Proof.
  intros ps f v ss x H. induction H as [| s tl Hs Ht IH]; simpl; [reflexivity |].
  unfold covers. destruct (Z.leb_spec (s_off s) x); [lia |]. rewrite andb_false_r. simpl. exact IH.
Qed.

Lemma vb_shared : forall ps f v ss x, SharedL ss -> vb ps f v ss x = znth x v.
Proof.
  intros ps f v ss x H. induction H as [| s tl Hs Ht IH]; simpl; [reflexivity |]. unfold covers. rewrite Hs. simpl. exact IH.
Qed.

Lemma overlay_shared : forall ps f v ss, SharedL ss -> overlay ps f v ss = v.
Proof. intros ps f v ss H. revert v. induction H as [| s tl Hs Ht IH]; intros v; simpl; [reflexivity |]. rewrite Hs. simpl. apply IH. Qed.

(* the overlay, byte for byte *)
Lemma overlay_spec : forall ps fsz f ss, 0 < ps -> SlotsInv ps fsz ss -> zlen f = fsz -> forall v, zlen v = fsz ->
  zlen (overlay ps f v ss) = fsz /\ forall x, 0 <= x -> znth x (overlay ps f v ss) = vb ps f v ss x.
Proof.
  intros ps fsz f ss Hps HS Hf. induction HS as [| s tl Hs Hfa Ht IH]; intros v Hv.
  - simpl. split; [exact Hv | reflexivity].
  - simpl. pose proof Hs as [H1 [H2 [H3 [H4 [H5 [H6 H7]]]]]].
    destruct (s_priv s) eqn:Ep; simpl.
    + destruct (Z.ltb_spec 0 (s_len s)) as [Hpos | Hz].
      * destruct (win_view_priv ps fsz f s Hps Hs Ep Hf) as [VL VX].
        pose proof (slot_in_file ps fsz s Hs Hpos) as Hin.
        assert (Hv' : zlen (splice v (s_off s) (win_view ps f s)) = fsz) by (rewrite zlen_splice by lia; exact Hv).
        destruct (IH _ Hv') as [A B]. split; [exact A |]. intros x Hx. rewrite B by exact Hx.
        unfold covers. rewrite Ep. simpl.
        destruct (Z.leb_spec (s_off s) x) as [Hge | Hlt]; simpl.
        -- destruct (Z.ltb_spec x (s_off s + s_len s)) as [Hin2 | Hout].
           ++ (* x lies in this window: no later window covers it *)
              rewrite vb_below.
              ** rewrite znth_splice by lia. rewrite VL.
                 destruct (Z.leb_spec (s_off s) x); [| lia]. destruct (Z.ltb_spec x (s_off s + s_len s)); [| lia]. simpl.
                 apply VX. lia.
              ** eapply Forall_impl; [| exact Hfa]. intros t Htt. simpl in Htt.
                 pose proof (slot_nlen_range fsz s H3). lia.
           ++ apply vb_base_ext. rewrite znth_splice by lia. rewrite VL.
              destruct (Z.ltb_spec x (s_off s + s_len s)); [lia |]. rewrite andb_false_r. reflexivity.
        -- apply vb_base_ext. rewrite znth_splice by lia. destruct (Z.leb_spec (s_off s) x); [lia |]. reflexivity.
      * destruct (IH _ Hv) as [A B]. split; [exact A |]. intros x Hx. rewrite B by exact Hx.
        unfold covers. rewrite Ep. simpl. destruct (Z.leb_spec (s_off s) x); simpl; [| reflexivity].
        destruct (Z.ltb_spec x (s_off s + s_len s)); [lia | reflexivity].
    + destruct (IH _ Hv) as [A B]. split; [exact A |]. intros x Hx. rewrite B by exact Hx. unfold covers. rewrite Ep. reflexivity.
Qed.

(* the reader's view of a state *)
Definition V (ps : Z) (f : list Z) (ss : list slot) (x : Z) : Z := vb ps f f ss x.

Lemma view_spec : forall st, Inv st ->
  zlen (view st) = fsize st /\ forall x, 0 <= x -> znth x (view st) = V (psize st) (file st) (slots st) x.
Proof.
  intros st HI. unfold view, V. pose proof (PsOk_pos _ (inv_ps st HI)).
  apply (overlay_spec (psize st) (fsize st)); try lia; [exact (inv_slots st HI) | exact (inv_file st HI) | exact (inv_file st HI)].
Qed.

Lemma view_shared : forall st, Shared st -> view st = file st.
Proof. intros st H. unfold view. apply overlay_shared. exact H. Qed.

(* (E1) the file changes in a range that touches no mapped private window *)
Lemma V_file_write : forall ps fsz f ss a d, SlotsInv ps fsz ss -> zlen f = fsz -> 0 <= a -> a + zlen d <= fsz ->
  (forall s, In s ss -> s_priv s = true -> 0 < s_len s -> a + zlen d <= s_off s \/ s_off s + s_len s <= a) ->
  forall x, 0 <= x -> V ps (splice f a d) ss x = if (a <=? x) && (x <? a + zlen d) then znth (x - a) d else V ps f ss x.
Proof.
  intros ps fsz f ss a d HS Hf Ha Hfit Hdis x Hx. unfold V.
  assert (Hbase : znth x (splice f a d) = if (a <=? x) && (x <? a + zlen d) then znth (x - a) d else znth x f)
    by (apply znth_splice; lia).
  induction HS as [| s tl Hs Hfa Ht IH]; simpl; [exact Hbase |].
  unfold covers. destruct (s_priv s) eqn:Ep; simpl.
  2:{ apply IH. intros t Hin. apply Hdis. right; exact Hin. }
  destruct (Z.leb_spec (s_off s) x) as [Hge | Hlt]; simpl.
  2:{ apply IH. intros t Hin. apply Hdis. right; exact Hin. }
  destruct (Z.ltb_spec x (s_off s + s_len s)) as [Hin | Hout].
  2:{ apply IH. intros t Hin. apply Hdis. right; exact Hin. }
  (* x inside a mapped private window: outside the written range, and the page is detached or shows an unchanged file byte *)
  destruct (Hdis s (or_introl eq_refl) Ep ltac:(lia)) as [Hd | Hd].
  - destruct (Z.ltb_spec x (a + zlen d)); [lia |]. rewrite andb_false_r.
    unfold sbyte. destruct (nth _ (s_pages s) None); [reflexivity |].
    rewrite znth_splice by lia. replace (s_off s + (x - s_off s)) with x by lia.
    destruct (Z.ltb_spec x (a + zlen d)); [lia |]. rewrite andb_false_r. reflexivity.
  - destruct (Z.leb_spec a x); [lia |]. simpl.
    unfold sbyte. destruct (nth _ (s_pages s) None); [reflexivity |].
    rewrite znth_splice by lia. replace (s_off s + (x - s_off s)) with x by lia.
    destruct (Z.leb_spec a x); [lia |]. reflexivity.
Qed.

(* (E3) the pages of one private window change *)
Lemma V_slot_write : forall ps fsz f ss, SlotsInv ps fsz ss -> forall j s s' p d v,
  nth_error ss j = Some s -> s_priv s = true -> same_shape s s' -> 0 <= p -> p + zlen d <= s_len s ->
  (forall x, 0 <= x < s_len s -> sbyte ps f s' x = if (p <=? x) && (x <? p + zlen d) then znth (x - p) d else sbyte ps f s x) ->
  forall x, vb ps f v (set_nth j s' ss) x =
    if (s_off s + p <=? x) && (x <? s_off s + p + zlen d) then znth (x - (s_off s + p)) d else vb ps f v ss x.
Proof.
  intros ps fsz f ss HS. induction HS as [| h tl Hh Hfa Ht IH]; intros j s s' p d v Hn Hp Hsh Hp0 Hfit Hb x.
  - destruct j; discriminate Hn.
  - destruct (same_shape_fields _ _ Hsh) as [So [Sm [Sl Sp]]]. pose proof (zlen_nonneg d) as Hdn.
    destruct j as [| j]; simpl in Hn |- *.
    + inversion Hn; subst h. unfold covers. rewrite So, Sl, Sp, Hp. simpl.
      destruct (Z.leb_spec (s_off s) x) as [Hge | Hlt]; simpl.
      * destruct (Z.ltb_spec x (s_off s + s_len s)) as [Hin | Hout].
        -- rewrite Hb by lia.
           destruct (Z.leb_spec p (x - s_off s)), (Z.leb_spec (s_off s + p) x); try lia;
             destruct (Z.ltb_spec (x - s_off s) (p + zlen d)), (Z.ltb_spec x (s_off s + p + zlen d)); try lia; simpl; try reflexivity.
           f_equal. lia.
        -- destruct (Z.ltb_spec x (s_off s + p + zlen d)); [lia |]. rewrite andb_false_r. reflexivity.
      * destruct (Z.leb_spec (s_off s + p) x); [lia |]. reflexivity.
    + (* the window written lies behind this one *)
      pose proof (nth_error_In _ _ Hn) as Hin. rewrite Forall_forall in Hfa. specialize (Hfa s Hin).
      destruct Hh as [_ [_ [Hm [_ [Hl _]]]]]. pose proof (slot_nlen_range fsz h Hm).
      unfold covers. destruct (s_priv h); simpl; [| apply IH; assumption].
      destruct (Z.leb_spec (s_off h) x) as [Hge | Hlt]; simpl; [| apply IH; assumption].
      destruct (Z.ltb_spec x (s_off h + s_len h)) as [Hc | Hc]; [| apply IH; assumption].
      destruct (Z.leb_spec (s_off s + p) x); [lia |]. reflexivity.
Qed.

(* ---------------------------------------------------------------------------------------------- *)
(* lists of slots: positions, disjointness, replacing one slot by one of the same shape *)
Lemma nth_error_erase_inv : forall ss j g, nth_error (map erase ss) j = Some g -> exists s, nth_error ss j = Some s /\ g = erase s.
Proof.
  intros ss j g H. rewrite nth_error_map in H. destruct (nth_error ss j) as [s |]; [| discriminate].
  inversion H. exists s. auto.
Qed.

Lemma slots_disjoint : forall ps fsz ss, SlotsInv ps fsz ss -> forall j s t, nth_error ss j = Some s -> In t ss ->
  t = s \/ s_off t + s_maxlen t <= s_off s \/ s_off s + s_maxlen s <= s_off t.
Proof.
  intros ps fsz ss HS. induction HS as [| h tl Hh Hfa Ht IH]; intros j s t Hn Hin; [destruct j; discriminate |].
  rewrite Forall_forall in Hfa. destruct j as [| j]; simpl in Hn.
  - inversion Hn; subst h. destruct Hin as [<- | Hin]; [left; reflexivity | right; right; exact (Hfa t Hin)].
  - destruct Hin as [<- | Hin]; [right; left; exact (Hfa s (nth_error_In _ _ Hn)) | exact (IH j s t Hn Hin)].
Qed.

Lemma set_nth_erase : forall ss j s s', nth_error ss j = Some s -> same_shape s s' -> map erase (set_nth j s' ss) = map erase ss.
Proof.
  induction ss as [| h tl IH]; intros j s s' Hn Hsh; [destruct j; discriminate |].
  destruct j as [| j]; simpl in Hn |- *.
  - inversion Hn; subst h. f_equal. exact Hsh.
  - f_equal. eapply IH; eauto.
Qed.

Lemma erase_Forall_off : forall ss ss' c, map erase ss' = map erase ss -> Forall (fun t => c <= s_off t) ss -> Forall (fun t => c <= s_off t) ss'.
Proof.
  induction ss as [| h tl IH]; intros ss' c E F; destruct ss' as [| h' tl']; simpl in E; try discriminate; [constructor |].
  inversion E as [[Eo Em El Ep Et]]. inversion F; subst. constructor; [lia | eapply IH; eauto].
Qed.

Lemma set_nth_inv : forall ps fsz ss, SlotsInv ps fsz ss -> forall j s s', nth_error ss j = Some s -> same_shape s s' ->
  slot_ok ps fsz s' -> SlotsInv ps fsz (set_nth j s' ss).
Proof.
  intros ps fsz ss HS. induction HS as [| h tl Hh Hfa Ht IH]; intros j s s' Hn Hsh Hok; [destruct j; discriminate |].
  destruct j as [| j]; simpl in Hn |- *.
  - inversion Hn; subst h. destruct (same_shape_fields _ _ Hsh) as [So [Sm _]]. constructor; [exact Hok | rewrite So, Sm; exact Hfa | exact Ht].
  - constructor; [exact Hh | | eapply IH; eauto].
    eapply erase_Forall_off; [eapply set_nth_erase; eauto | exact Hfa].
Qed.

(* a byte no mapped private window covers is the byte of the file *)
Lemma V_outside : forall ps f ss x, (forall s, In s ss -> s_priv s = true -> 0 < s_len s -> x < s_off s \/ s_off s + s_len s <= x) ->
  V ps f ss x = znth x f.
Proof.
  intros ps f ss x H. unfold V. induction ss as [| s tl IH]; simpl; [reflexivity |].
  unfold covers. destruct (s_priv s) eqn:Ep; simpl; [| apply IH; intros t Hin; apply H; right; exact Hin].
  destruct (Z.leb_spec (s_off s) x); simpl; [| apply IH; intros t Hin; apply H; right; exact Hin].
  destruct (Z.ltb_spec x (s_off s + s_len s)); [| apply IH; intros t Hin; apply H; right; exact Hin].
  destruct (H s (or_introl eq_refl) Ep ltac:(lia)); lia.
Qed.

(* a byte inside a mapped private window is the byte of that window *)
Lemma V_in_slot : forall ps fsz f ss, SlotsInv ps fsz ss -> forall j s x, nth_error ss j = Some s -> s_priv s = true ->
  s_off s <= x < s_off s + s_len s -> V ps f ss x = sbyte ps f s (x - s_off s).
Proof.
  intros ps fsz f ss HS. unfold V. induction HS as [| h tl Hh Hfa Ht IH]; intros j s x Hn Hp Hx; [destruct j; discriminate |].
  destruct j as [| j]; simpl in Hn |- *.
  - inversion Hn; subst h. unfold covers. rewrite Hp. simpl.
    destruct (Z.leb_spec (s_off s) x); [| lia]. destruct (Z.ltb_spec x (s_off s + s_len s)); [| lia]. reflexivity.
  - rewrite Forall_forall in Hfa. specialize (Hfa s (nth_error_In _ _ Hn)).
    destruct Hh as [_ [_ [Hm [_ [Hl _]]]]]. pose proof (slot_nlen_range fsz h Hm).
    unfold covers. destruct (s_priv h); simpl; [| eapply IH; eauto].
    destruct (Z.leb_spec (s_off h) x); simpl; [| eapply IH; eauto].
    destruct (Z.ltb_spec x (s_off h + s_len h)); [lia | eapply IH; eauto].
Qed.

(* the mapped part of a shared window touches no mapped private window *)
Lemma shared_range_clear : forall ps fsz ss j s, SlotsInv ps fsz ss -> nth_error ss j = Some s -> s_priv s = false ->
  forall a L, s_off s <= a -> a + L <= s_off s + s_len s ->
  forall t, In t ss -> s_priv t = true -> 0 < s_len t -> a + L <= s_off t \/ s_off t + s_len t <= a.
Proof.
  intros ps fsz ss j s HS Hn Hp a L Ha Hb t Hin Hpt Hlt.
  pose proof (SlotsInv_Forall _ _ _ HS) as Hall. rewrite Forall_forall in Hall.
  pose proof (Hall s (nth_error_In _ _ Hn)) as [_ [_ [Hms [_ [Hls _]]]]]. pose proof (Hall t Hin) as [_ [_ [Hmt [_ [Hlt' _]]]]].
  pose proof (slot_nlen_range fsz s Hms). pose proof (slot_nlen_range fsz t Hmt).
  destruct (slots_disjoint ps fsz ss HS j s t Hn Hin) as [-> | [Hd | Hd]]; [congruence | right; lia | left; lia].
Qed.

(* ---------------------------------------------------------------------------------------------- *)
(* 7. the pieces written one by one amount to one write into what the reader sees *)
Lemma write_pieces_view : forall ps fsz, 0 < ps -> forall pcs ss f a b data,
  SlotsInv ps fsz ss -> zlen f = fsz ->
  Chain a pcs b -> Forall (piece_v (map erase ss)) pcs -> 0 <= a -> b <= fsz -> zlen data = b - a ->
  exists f' ss', write_pieces ps pcs data f ss = Some (f', ss') /\ zlen f' = fsz /\ SlotsInv ps fsz ss' /\
    map erase ss' = map erase ss /\
    forall x, 0 <= x -> V ps f' ss' x = if (a <=? x) && (x <? b) then znth (x - a) data else V ps f ss x.
Proof.
  intros ps fsz Hps pcs. induction pcs as [| p tl IH]; intros ss f a b data HS Hf C F Ha Hb Hd.
  - inversion C; subst. simpl. exists f, ss. split; [reflexivity |]. split; [reflexivity |]. split; [exact HS |]. split; [reflexivity |].
    intros x Hx. destruct (Z.leb_spec b x), (Z.ltb_spec x b); simpl; try reflexivity; lia.
  - revert HS Hf Hb. inversion C as [| p' tl' a' b' Hpo C']; subst. inversion F as [| p' tl' Fp Ft]; subst. intros HS Hf Hb.
    assert (Flen : Forall (fun q => 0 < p_len q) tl) by (eapply Forall_impl; [| exact Ft]; intros q [Hq _]; exact Hq).
    pose proof (Chain_bounds _ _ _ C' Flen) as Hle.
    destruct Fp as [Hlen Hloc].
    set (d := ztake (p_len p) data).
    assert (Hdl : zlen d = p_len p) by (apply zlen_ztake; lia).
    (* one piece *)
    assert (Estep : exists f1 ss1,
              match p_loc p with
              | ViaFile => Some (pwrite f (p_off p) d, ss)
              | ViaWin i => match nth_error ss i with
                            | Some s => match win_write ps f s (p_off p - s_off s) d with
                                        | Some (s', f') => Some (f', set_nth i s' ss)
                                        | None => None end
                            | None => None end
              end = Some (f1, ss1) /\ zlen f1 = fsz /\ SlotsInv ps fsz ss1 /\ map erase ss1 = map erase ss /\
              forall x, 0 <= x -> V ps f1 ss1 x = if (p_off p <=? x) && (x <? p_off p + p_len p) then znth (x - p_off p) d else V ps f ss x).
    { destruct (p_loc p) as [| j].
      - exists (splice f (p_off p) d), ss. rewrite pwrite_splice by lia. split; [reflexivity |].
        split; [rewrite zlen_splice by lia; exact Hf |]. split; [exact HS |]. split; [reflexivity |].
        intros x Hx. rewrite <- Hdl. apply (V_file_write ps fsz); try assumption; try lia.
        intros s Hin Hp Hpos. rewrite Hdl. apply (Hloc (erase s)); [apply in_map; exact Hin | exact Hp | exact Hpos].
      - destruct Hloc as [g [Hg [H1 H2]]]. destruct (nth_error_erase_inv _ _ _ Hg) as [s [Hn ->]]. simpl in H1, H2. rewrite Hn.
        pose proof (SlotsInv_Forall _ _ _ HS) as Hall. rewrite Forall_forall in Hall. pose proof (Hall s (nth_error_In _ _ Hn)) as Hsok.
        pose proof (slot_in_file ps fsz s Hsok ltac:(lia)) as Hinf.
        destruct (s_priv s) eqn:Ep.
        + destruct (win_write_priv ps fsz f s (p_off p - s_off s) d Hps Hsok Ep Hf ltac:(lia) ltac:(lia)) as [s' [Ew [Hsh [Hok' Hb']]]].
          rewrite Ew. exists f, (set_nth j s' ss). split; [reflexivity |]. split; [exact Hf |].
          split; [eapply set_nth_inv; eauto |]. split; [eapply set_nth_erase; eauto |].
          intros x Hx. unfold V.
          rewrite (V_slot_write ps fsz f ss HS j s s' (p_off p - s_off s) d f Hn Ep Hsh ltac:(lia) ltac:(lia) Hb' x).
          replace (s_off s + (p_off p - s_off s)) with (p_off p) by lia. rewrite Hdl. reflexivity.
        + unfold win_write, in_win. rewrite Hdl, Ep.
          destruct (Z.leb_spec 0 (p_off p - s_off s)); [| lia]. destruct (Z.leb_spec (p_off p - s_off s + p_len p) (s_len s)); [| lia]. simpl.
          replace (s_off s + (p_off p - s_off s)) with (p_off p) by lia. rewrite pwrite_splice by lia.
          rewrite set_nth_same by exact Hn.
          exists (splice f (p_off p) d), ss. split; [reflexivity |].
          split; [rewrite zlen_splice by lia; exact Hf |]. split; [exact HS |]. split; [reflexivity |].
          intros x Hx. rewrite <- Hdl. apply (V_file_write ps fsz); try assumption; try lia.
          intros t Hin Hpt Hpos. rewrite Hdl. eapply (shared_range_clear ps fsz ss j s); eauto. }
    destruct Estep as [f1 [ss1 [E1 [Hf1 [HS1 [Er1 HV1]]]]]].
    assert (Ft1 : Forall (piece_v (map erase ss1)) tl) by (rewrite Er1; exact Ft).
    destruct (IH ss1 f1 (p_off p + p_len p) b (zdrop (p_len p) data) HS1 Hf1 C' Ft1 ltac:(lia) Hb ltac:(rewrite zlen_zdrop by lia; lia))
      as [f2 [ss2 [E2 [Hf2 [HS2 [Er2 HV2]]]]]].
    exists f2, ss2. split.
    { simpl. fold d. rewrite E1. exact E2. }
    split; [exact Hf2 |]. split; [exact HS2 |]. split; [congruence |].
    intros x Hx. rewrite HV2 by exact Hx. rewrite HV1 by exact Hx.
    destruct (Z.leb_spec (p_off p + p_len p) x) as [Hxa | Hxa]; simpl.
    + destruct (Z.ltb_spec x b) as [Hxb | Hxb].
      * destruct (Z.leb_spec (p_off p) x); [| lia]. simpl. rewrite znth_zdrop by lia. f_equal. lia.
      * destruct (Z.ltb_spec x (p_off p + p_len p)); [lia |]. rewrite andb_false_r. reflexivity.
    + destruct (Z.ltb_spec x (p_off p + p_len p)); [| lia]. destruct (Z.ltb_spec x b); [| lia]. rewrite !andb_true_r.
      destruct (Z.leb_spec (p_off p) x); [| reflexivity]. unfold d. apply znth_ztake. lia.
Qed.

Lemma read_pieces_view : forall ps fsz, 0 < ps -> forall ss f, SlotsInv ps fsz ss -> zlen f = fsz -> forall pcs a b,
  Chain a pcs b -> Forall (piece_v (map erase ss)) pcs -> 0 <= a -> b <= fsz ->
  exists l, read_pieces ps pcs f ss = Some l /\ zlen l = b - a /\ forall k, 0 <= k < b - a -> znth k l = V ps f ss (a + k).
Proof.
  intros ps fsz Hps ss f HS Hf pcs. induction pcs as [| p tl IH]; intros a b C F Ha Hb.
  - inversion C; subst. simpl. exists []. split; [reflexivity |]. split; [rewrite Z.sub_diag; reflexivity |]. intros k Hk. lia.
  - revert HS Hf Hb. inversion C as [| p' tl' a' b' Hpo C']; subst. inversion F as [| p' tl' Fp Ft]; subst. intros HS Hf Hb.
    assert (Flen : Forall (fun q => 0 < p_len q) tl) by (eapply Forall_impl; [| exact Ft]; intros q [Hq _]; exact Hq).
    pose proof (Chain_bounds _ _ _ C' Flen) as Hle.
    destruct Fp as [Hlen Hloc].
    assert (Estep : exists l1,
              match p_loc p with
              | ViaFile => Some (pread f (p_off p) (p_len p))
              | ViaWin i => match nth_error ss i with
                            | Some s => win_read ps f s (p_off p - s_off s) (p_len p)
                            | None => None end
              end = Some l1 /\ zlen l1 = p_len p /\ forall k, 0 <= k < p_len p -> znth k l1 = V ps f ss (p_off p + k)).
    { destruct (p_loc p) as [| j].
      - exists (pread f (p_off p) (p_len p)). split; [reflexivity |]. split; [apply zlen_pread; lia |].
        intros k Hk. rewrite znth_pread by lia. symmetry. apply V_outside.
        intros s Hin Hp Hpos. destruct (Hloc (erase s) (in_map erase _ _ Hin) Hp Hpos) as [Hd | Hd]; simpl in Hd; lia.
      - destruct Hloc as [g [Hg [H1 H2]]]. destruct (nth_error_erase_inv _ _ _ Hg) as [s [Hn ->]]. simpl in H1, H2. rewrite Hn.
        pose proof (SlotsInv_Forall _ _ _ HS) as Hall. rewrite Forall_forall in Hall. pose proof (Hall s (nth_error_In _ _ Hn)) as Hsok.
        pose proof (slot_in_file ps fsz s Hsok ltac:(lia)) as Hinf.
        unfold win_read, in_win.
        destruct (Z.leb_spec 0 (p_off p - s_off s)); [| lia]. destruct (Z.leb_spec (p_off p - s_off s + p_len p) (s_len s)); [| lia]. simpl.
        destruct (s_priv s) eqn:Ep.
        + destruct (win_view_priv ps fsz f s Hps Hsok Ep Hf) as [VL VX].
          eexists. split; [reflexivity |]. split; [apply zlen_pread; lia |].
          intros k Hk. rewrite znth_pread by lia. rewrite VX by lia.
          rewrite (V_in_slot ps fsz f ss HS j s (p_off p + k) Hn Ep ltac:(lia)). f_equal. lia.
        + eexists. split; [reflexivity |]. split; [apply zlen_pread; lia |].
          intros k Hk. rewrite znth_pread by lia. replace (s_off s + (p_off p - s_off s) + k) with (p_off p + k) by lia.
          symmetry. apply V_outside. intros t Hin Hpt Hpos.
          destruct (shared_range_clear ps fsz ss j s HS Hn Ep (p_off p) (p_len p) ltac:(lia) ltac:(lia) t Hin Hpt Hpos); lia. }
    destruct Estep as [l1 [E1 [L1 X1]]].
    destruct (IH (p_off p + p_len p) b C' Ft ltac:(lia) Hb) as [l2 [E2 [L2 X2]]].
    exists (l1 ++ l2). split; [simpl; rewrite E1, E2; reflexivity |]. split; [rewrite zlen_app; lia |].
    intros k Hk. rewrite znth_app by lia. rewrite L1. destruct (Z.ltb_spec k (p_len p)).
    + apply X1. lia.
    + rewrite X2 by lia. f_equal. lia.
Qed.

(* ---------------------------------------------------------------------------------------------- *)
(* 8. the two regimes in which the flat array describes what a reader sees, and what a size change does to the view *)
(* every mapped private window keeps its mapped length when the file size becomes n (it is not remapped: "between remaps") *)
Definition PrivKept (st : exf) (n : Z) : Prop :=
  Forall (fun s => s_priv s = true -> 0 < s_len s -> slot_nlen n s = s_len s) (slots st).
(* all windows shared (the operating system may refuse mappings), or private windows allowed and every window mapped as
   far as the file allows *)
Definition Reg (st : exf) : Prop := Shared st \/ Full st.
Definition Regime (ok : os_ok) (st : exf) : Prop := Shared st \/ (MapAll ok /\ Full st).

Lemma Regime_Reg : forall ok st, Regime ok st -> Reg st.
Proof. intros ok st [H | [_ H]]; [left | right]; exact H. Qed.

Lemma PrivKept_shared : forall st n, Shared st -> PrivKept st n.
Proof. intros st n H. unfold PrivKept. eapply Forall_impl; [| exact H]. simpl. intros s Hs Hp. congruence. Qed.

Lemma nth_repeat_none : forall (A : Type) k n, nth k (repeat (@None A) n) None = None.
Proof. intros A k n. revert k. induction n as [| n IH]; intros k; destruct k; simpl; auto. Qed.

Lemma erase_total : forall ss ss', map erase ss' = map erase ss -> mapped_total ss' = mapped_total ss.
Proof.
  induction ss as [| h tl IH]; intros ss' E; destruct ss' as [| h' tl']; simpl in E; try discriminate; [reflexivity |].
  inversion E as [[Eo Em El Ep Et]]. simpl. rewrite El. rewrite (IH _ Et). reflexivity.
Qed.
Lemma erase_shared : forall ss ss', map erase ss' = map erase ss -> SharedL ss -> SharedL ss'.
Proof.
  induction ss as [| h tl IH]; intros ss' E F; destruct ss' as [| h' tl']; simpl in E; try discriminate; [constructor |].
  inversion E as [[Eo Em El Ep Et]]. inversion F; subst. constructor; [congruence | eapply IH; eauto].
Qed.
Lemma erase_full : forall fsz ss ss', map erase ss' = map erase ss -> FullL fsz ss -> FullL fsz ss'.
Proof.
  induction ss as [| h tl IH]; intros ss' E F; destruct ss' as [| h' tl']; simpl in E; try discriminate; [constructor |].
  inversion E as [[Eo Em El Ep Et]]. inversion F; subst. constructor; [| eapply IH; eauto].
  unfold slot_nlen in *. rewrite Eo, Em, El. assumption.
Qed.

(* re-deriving the windows at size n and cutting/extending the file to n: a reader sees the old view cut/extended to n,
   provided every mapped private window keeps its length *)
Lemma vb_resize : forall ps fsz f n ss, SlotsInv ps fsz ss -> FullL fsz ss ->
  Forall (fun s => s_priv s = true -> 0 < s_len s -> slot_nlen n s = s_len s) ss ->
  forall x, 0 <= x < n -> vb ps (ftrunc f n) (ftrunc f n) (pinit ps n ss) x = vb ps f f ss x.
Proof.
  intros ps fsz f n ss HS. induction HS as [| s tl Hs Hfa Ht IH]; intros HF HK x Hx; simpl.
  - apply znth_ftrunc. exact Hx.
  - inversion HF as [| s0 tl0 Fs Ft]; subst. inversion HK as [| s0 tl0 Ks Kt]; subst.
    destruct Hs as [H1 [H2 [H3 [H4 [H5 [H6 H7]]]]]].
    destruct (s_priv s) eqn:Ep.
    + destruct (Z.ltb_spec 0 (s_len s)) as [Hpos | Hz].
      * (* kept as it is *)
        rewrite pinit_slot_full_id by (symmetry; apply Ks; auto).
        destruct (covers s x) eqn:Ec; [| apply IH; assumption].
        unfold sbyte. destruct (nth _ (s_pages s) None); [reflexivity |]. apply znth_ftrunc.
        unfold covers in Ec. apply andb_true_iff in Ec. destruct Ec as [Ec _]. apply andb_true_iff in Ec. destruct Ec as [_ Ec].
        apply Z.leb_le in Ec. lia.
      * (* was not mapped: whatever it is now, no page of it is detached *)
        assert (Hl0 : s_len s = 0) by lia.
        assert (Hold : covers s x = false).
        { unfold covers. rewrite Hl0. destruct (Z.leb_spec (s_off s) x), (Z.ltb_spec x (s_off s + 0)); try lia; rewrite ?andb_false_r; reflexivity. }
        rewrite Hold. destruct (covers (pinit_slot ps n s) x) eqn:Ec; [| apply IH; assumption].
        destruct (pinit_slot_fields ps n s) as [Eo [Em [Epp El]]].
        unfold covers in Ec. rewrite Eo, El, Epp in Ec. apply andb_true_iff in Ec. destruct Ec as [Ec Ec2]. apply andb_true_iff in Ec. destruct Ec as [_ Ec1].
        apply Z.leb_le in Ec1. apply Z.ltb_lt in Ec2. pose proof (slot_nlen_range n s H3) as Hnr.
        rewrite vb_below by (eapply Forall_impl; [| exact Hfa]; simpl; intros t Htt; lia).
        assert (Hpg : forall k, nth k (s_pages (pinit_slot ps n s)) None = None).
        { intros k. unfold pinit_slot. destruct (slot_nlen n s =? s_len s).
          - destruct (H7 eq_refl) as [Hn _]. rewrite Hl0, Z.div_0_l in Hn by lia. apply zlen_0_nil in Hn. rewrite Hn. destruct k; reflexivity.
          - simpl. apply nth_repeat_none. }
        unfold sbyte. rewrite Hpg. rewrite Eo. replace (s_off s + (x - s_off s)) with x by lia. apply znth_ftrunc. exact Hx.
    + assert (Hc : forall t, s_priv t = false -> covers t x = false) by (intros t Hp; unfold covers; rewrite Hp; reflexivity).
      destruct (pinit_slot_fields ps n s) as [_ [_ [Epp _]]]. rewrite (Hc s Ep), (Hc _ (eq_trans Epp Ep)). apply IH; assumption.
Qed.

Lemma view_resize : forall st st1, Inv st -> Inv st1 -> psize st1 = psize st -> file st1 = ftrunc (file st) (fsize st1) ->
  (Shared st /\ GeoSame (slots st) (slots st1)) \/
  (Full st /\ slots st1 = pinit (psize st) (fsize st1) (slots st) /\ PrivKept st (fsize st1)) ->
  view st1 = ftrunc (view st) (fsize st1).
Proof.
  intros st st1 HI HI1 Hps Hfile Hcase.
  destruct (view_spec st HI) as [L0 X0]. destruct (view_spec st1 HI1) as [L1 X1].
  pose proof (inv_fs st1 HI1) as [Hf1 _].
  apply list_eq_znth.
  - rewrite L1, zlen_ftrunc by lia. reflexivity.
  - intros x Hx. rewrite L1 in Hx. rewrite znth_ftrunc by lia. rewrite X1, X0 by lia. unfold V. rewrite Hps, Hfile.
    destruct Hcase as [[HSh HG] | [HF [Hsl HK]]].
    + rewrite !vb_shared by (try exact HSh; eapply GeoSame_shared; eauto). apply znth_ftrunc. lia.
    + rewrite Hsl. eapply vb_resize; eauto. exact (inv_slots st HI).
Qed.

Lemma view_same : forall st st1, Inv st -> Inv st1 -> psize st1 = psize st -> fsize st1 = fsize st -> file st1 = ftrunc (file st) (fsize st1) ->
  (Shared st /\ GeoSame (slots st) (slots st1)) \/
  (Full st /\ slots st1 = pinit (psize st) (fsize st1) (slots st)) ->
  view st1 = view st.
Proof.
  intros st st1 HI HI1 Hps Hfs Hfile Hcase.
  assert (HK : Full st -> PrivKept st (fsize st1)).
  { intros HF. unfold PrivKept. rewrite Hfs. eapply Forall_impl; [| exact HF]. simpl. intros s Hs _ _. symmetry. exact Hs. }
  rewrite (view_resize st st1 HI HI1 Hps Hfile).
  - rewrite Hfs. destruct (view_spec st HI) as [L0 _]. rewrite <- L0. apply ftrunc_id.
  - destruct Hcase as [H | [HF Hsl]]; [left; exact H | right; auto].
Qed.
