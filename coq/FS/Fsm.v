(* Executable model of the free-space-managed file allocator, src/fs/iwfsmfile.c.
   State: the bitmap (list bool, one bit per block), the free-extent AVL tree as the list of its keys (len, off) in
   _fsm_cmp_key order (the tree is only ever used through lookup / lookup_bounds / insert / remove / in-order walk, all
   of which are functions of the sorted key sequence), the lfbkoff/lfbklen cache, bmoff/bmlen/hdrlen/bpow/aunit, the
   size of the underlying file, the allocation counters.  Same case splits and the same order of updates as the C code.
   Not modelled: mmap windows (every probe_mmap is assumed to succeed), locks, the data listener, the 64-bit wrap of
   offset_bits+length_bits, file contents other than the bitmap.  crzvar and the double-precision over-allocation
   decision are replaced by the oracle boolean [ovr] (consulted only where the C code evaluates the decision).
   [vr] selects the code variant: all-false = src/fs/iwfsmfile.c as it is; fx_lfbk / fx_strict / fx_sync / fx_short / fx_realloc /
   fx_hint / fx_leak follow the code after fixes/fsm-lfbk.diff / fsm-strict-dealloc.diff / fsm-syncbmap.diff / fsm-dealloc-short.diff /
   fsm-realloc-guard.diff / fsm-alloc-overflow.diff / fsm-resize-leak.diff / fsm-realloc-recheck.diff (fx_recheck) / fsm-solid-rollback.diff (fx_solid).
   64-bit arguments: the public functions take off_t values; every `(uint64_t) x >> bpow` of the C code is [blk_of] (the
   cast is modelled, so negative and huge arguments are inside the model).  [maxoff]: the exfile's limit on the file size
   (0 = none); a growth beyond it fails with IWFS_ERROR_MAXOFF in _exfile_ensure_size_lw ([ensure_ok]).  No proofs here. *)
Require Import ZArith List Bool. Require Import IW.Lib.CInt IW.Gen.Facts IW.FS.Bits. Import ListNotations.
Local Open Scope Z_scope. Local Open Scope bool_scope.

Definition key := (Z * Z)%type. (* (len, off) : struct bkey *)
Definition b2z (b : bool) : Z := if b then 1 else 0.
(* _fsm_cmp_key *)
Definition cmp_key (a b : key) : Z :=
  let '(al, ao) := a in let '(bl, bo) := b in
  let ret := b2z (bl <? al) - b2z (al <? bl) in
  if negb (ret =? 0) then ret else b2z (bo <? ao) - b2z (ao <? bo).

(* iwavl_insert: (new sequence, inserted?) ; an equal key is left in place *)
Fixpoint tree_insert (k : key) (t : list key) : list key * bool :=
  match t with
  | [] => ([k], true)
  | x :: r => let c := cmp_key k x in
              if c <? 0 then (k :: x :: r, true)
              else if c =? 0 then (x :: r, false)
              else let '(r', ins) := tree_insert k r in (x :: r', ins)
  end.
(* iwavl_lookup + iwavl_remove: (new sequence, found?) *)
Fixpoint tree_remove (k : key) (t : list key) : list key * bool :=
  match t with
  | [] => ([], false)
  | x :: r => let c := cmp_key k x in
              if c <? 0 then (x :: r, false)
              else if c =? 0 then (r, true)
              else let '(r', f) := tree_remove k r in (x :: r', f)
  end.
(* iwavl_lookup_bounds: lb = greatest key <= k, ub = least key >= k *)
Fixpoint lookup_bounds (k : key) (t : list key) (lb : option key) : option key * option key :=
  match t with
  | [] => (lb, None)
  | x :: r => let c := cmp_key k x in
              if c <? 0 then (lb, Some x)
              else if c =? 0 then (Some x, Some x)
              else lookup_bounds k r (Some x)
  end.

(* code variant + the one open-time option that changes control flow (mmap_all) *)
Record variant := mkVariant { fx_lfbk : bool; fx_strict : bool; fx_sync : bool; fx_short : bool; fx_realloc : bool; fx_hint : bool; fx_leak : bool; fx_recheck : bool; fx_solid : bool;
                             mmap_all : bool }.

Record fsm := mkFsm {
  bm : list bool; tree : list key; lfbkoff : Z; lfbklen : Z;
  bmoff : Z; bmlen : Z; hdrlen : Z; bpow : Z; aunit : Z; fsize : Z;
  crzsum : Z; crznum : Z; p_crzsum : Z; p_crznum : Z; (* p_* = counters as last written to the file header *)
  p_bmoff : Z; p_bmlen : Z;  (* bitmap offset / length as last written to the file header: what the next open is told *)
  maxoff : Z;                (* exfile: maximum allowed file size, a multiple of the page size; 0 = unlimited *)
  strict : bool; vr : variant }.

Definition set_bm s x := mkFsm x (tree s) (lfbkoff s) (lfbklen s) (bmoff s) (bmlen s) (hdrlen s) (bpow s) (aunit s) (fsize s) (crzsum s) (crznum s) (p_crzsum s) (p_crznum s) (p_bmoff s) (p_bmlen s) (maxoff s) (strict s) (vr s).
Definition set_tree s x := mkFsm (bm s) x (lfbkoff s) (lfbklen s) (bmoff s) (bmlen s) (hdrlen s) (bpow s) (aunit s) (fsize s) (crzsum s) (crznum s) (p_crzsum s) (p_crznum s) (p_bmoff s) (p_bmlen s) (maxoff s) (strict s) (vr s).
Definition set_lfbk s o l := mkFsm (bm s) (tree s) o l (bmoff s) (bmlen s) (hdrlen s) (bpow s) (aunit s) (fsize s) (crzsum s) (crznum s) (p_crzsum s) (p_crznum s) (p_bmoff s) (p_bmlen s) (maxoff s) (strict s) (vr s).
Definition set_bmloc s o l := mkFsm (bm s) (tree s) (lfbkoff s) (lfbklen s) o l (hdrlen s) (bpow s) (aunit s) (fsize s) (crzsum s) (crznum s) (p_crzsum s) (p_crznum s) (p_bmoff s) (p_bmlen s) (maxoff s) (strict s) (vr s).
Definition set_fsize s x := mkFsm (bm s) (tree s) (lfbkoff s) (lfbklen s) (bmoff s) (bmlen s) (hdrlen s) (bpow s) (aunit s) x (crzsum s) (crznum s) (p_crzsum s) (p_crznum s) (p_bmoff s) (p_bmlen s) (maxoff s) (strict s) (vr s).
Definition set_crz s sum num := mkFsm (bm s) (tree s) (lfbkoff s) (lfbklen s) (bmoff s) (bmlen s) (hdrlen s) (bpow s) (aunit s) (fsize s) sum num (p_crzsum s) (p_crznum s) (p_bmoff s) (p_bmlen s) (maxoff s) (strict s) (vr s).
(* _fsm_write_meta_lw: what a later open reads back *)
Definition write_meta s := mkFsm (bm s) (tree s) (lfbkoff s) (lfbklen s) (bmoff s) (bmlen s) (hdrlen s) (bpow s) (aunit s) (fsize s) (crzsum s) (crznum s) (crzsum s) (crznum s) (bmoff s) (bmlen s) (maxoff s) (strict s) (vr s).

Definition has (opts flag : Z) : bool := negb (Z.land opts flag =? 0).
Definition shl (x n : Z) : Z := Z.shiftl x n.
Definition shr (x n : Z) : Z := Z.shiftr x n.
Definition U64MAX : Z := 2 ^ 64 - 1.
Definition nbits s : Z := bmlen s * 8.

(* _fsm_init_bkey / _fsm_init_bkey_node succeed *)
Definition bkey_ok (off len : Z) : bool := (off <=? FSM_BKEY_MAX) && (len <=? FSM_BKEY_MAX).

(* _fsm_put_fbk *)
Definition put_fbk (s : fsm) (off len : Z) : fsm :=
  if negb (bkey_ok off len) then s else
  let '(t', ins) := tree_insert (len, off) (tree s) in
  if negb ins then s else
  let s1 := set_tree s t' in
  if off + len >=? lfbkoff s + lfbklen s then set_lfbk s1 off len else s1.

(* _fsm_del_fbk2 on a node known to be in the tree *)
Definition del_fbk2 (s : fsm) (k : key) : fsm :=
  let '(t', _) := tree_remove k (tree s) in
  let s1 := set_tree s t' in
  if snd k =? lfbkoff s then set_lfbk s1 0 0 else s1.
(* _fsm_del_fbk: lookup first; a missing node is skipped (assert(n) compiled out) *)
Definition del_fbk (s : fsm) (off len : Z) : fsm :=
  if negb (bkey_ok off len) then s else
  let '(_, found) := tree_remove (len, off) (tree s) in
  if found then del_fbk2 s (len, off) else s.

(* _fsm_find_matching_fblock_lw.  After fixes/fsm-alloc-overflow.diff the offset - a locality hint only - is clamped to the
   largest value a block key can hold; before, a hint of 2^32 blocks or more made every lookup fail *)
Definition hint_of (s : fsm) (off : Z) : Z := if fx_hint (vr s) && (off >? FSM_BKEY_MAX) then FSM_BKEY_MAX else off.
Definition fm_lookup (s : fsm) (off len : Z) : option key :=
  if negb (bkey_ok off len) then None else
  let '(lb, ub) := lookup_bounds (len, off) (tree s) None in
  let lkl := match lb with Some k => fst k | None => 0 end in
  let ukl := match ub with Some k => fst k | None => 0 end in
  if lkl =? len then lb else if ukl =? len then ub
  else if lkl >? len then lb else if ukl >? len then ub else None.
Definition find_matching (s : fsm) (off len : Z) : option key := fm_lookup s (hint_of s off) len.

(* _fsm_set_bit_status_lw; v = bit_status, dry = FSM_BM_DRY_RUN, chk = FSM_BM_STRICT *)
Definition set_bit_status (s : fsm) (off len : Z) (v dry chk : bool) : Z * fsm :=
  if nbits s <? off + len then (IWFS_ERROR_FSM_SEGMENTATION, s) else
  let bad := chk && negb (all_range (bm s) off len (negb v)) in
  let s' := if dry then s else set_bm s (set_range (bm s) off len v) in
  (if bad then IWFS_ERROR_FSM_SEGMENTATION else 0, s').

(* _fsm_ensure_size_lw = _exfile_ensure_size_lw over an exfile with the default resize policy (page round-up):
   [ensure_target] is the size handed to _exfile_truncate_lw (capped by maxoff), [ensure_ok] says whether the call returns 0
   (otherwise IWFS_ERROR_MAXOFF and nothing changes), [ensure_size] is the state after a successful call *)
Definition ensure_target (s : fsm) (sz : Z) : Z :=
  let nsz := IW_ROUNDUP sz (aunit s) in
  if negb (maxoff s =? 0) && (nsz >? maxoff s) then maxoff s else nsz.
Definition ensure_ok (s : fsm) (sz : Z) : bool := (fsize s >=? sz) || (sz <=? ensure_target s sz).
Definition ensure_size (s : fsm) (sz : Z) : fsm :=
  if fsize s >=? sz then s else set_fsize s (ensure_target s sz).

Definition aret := (Z * fsm * Z * Z)%type. (* rc, state, offset_blk, olength_blk *)

Definition al_fits (koff klen noff length_blk max_offset_blk : Z) : bool :=
  (noff <=? max_offset_blk) && (noff <? klen + koff) && (klen - (noff - koff) >=? length_blk).
Definition al_take (s : fsm) (akoff aklen length_blk aunit_blk : Z) : aret :=
  let noff := IW_ROUNDUP akoff aunit_blk in
  let s1 := del_fbk s akoff aklen in
  let aklen' := aklen - (noff - akoff) in
  let s2 := if noff >? akoff then put_fbk s1 akoff (noff - akoff) else s1 in
  let s3 := if aklen' >? length_blk then put_fbk s2 (noff + length_blk) (aklen' - length_blk) else s2 in
  let '(rc, s4) := set_bit_status s3 noff length_blk true false (strict s) in
  (rc, s4, noff, length_blk).
Definition al_scan_step (length_blk max_offset_blk aunit_blk : Z) (acc : Z * Z) (k : key) : Z * Z :=
  let '(akoff, aklen) := acc in
  let '(klen, koff) := k in
  if koff <? akoff then
    (if al_fits koff klen (IW_ROUNDUP koff aunit_blk) length_blk max_offset_blk then (koff, klen) else acc)
  else acc.
(* _fsm_blk_allocate_aligned_lw *)
Definition blk_allocate_aligned (s : fsm) (length_blk max_offset_blk : Z) : aret :=
  let aunit_blk := shr (aunit s) (bpow s) in
  let nn := match find_matching s 0 (length_blk + aunit_blk) with
            | Some k => Some k
            | None => find_matching s 0 length_blk
            end in
  match nn with
  | None => (IWFS_ERROR_NO_FREE_SPACE, s, 0, 0)
  | Some (aklen, akoff) =>
    if al_fits akoff aklen (IW_ROUNDUP akoff aunit_blk) length_blk max_offset_blk
    then al_take s akoff aklen length_blk aunit_blk
    else
      let '(akoff2, aklen2) := fold_left (al_scan_step length_blk max_offset_blk aunit_blk) (tree s) (U64MAX, 0) in
      if akoff2 =? U64MAX then (IWFS_ERROR_NO_FREE_SPACE, s, 0, 0)
      else al_take s akoff2 aklen2 length_blk aunit_blk
  end.

(* right neighbour discovery of _fsm_blk_deallocate_lw; s1 = state after the bits were cleared *)
Definition dealloc_right (s1 : fsm) (lfbkoff0 end_blk : Z) : option Z :=
  if negb (lfbkoff0 =? 0) && (lfbkoff0 =? end_blk) then Some (lfbkoff0 + lfbklen s1)
  else if fx_lfbk (vr s1) then
    match find_next_set_bit (bm s1) end_blk (nbits s1) with
    | Some r => Some r
    | None => if end_blk <? nbits s1 then Some (nbits s1) else None
    end
  else find_next_set_bit (bm s1) end_blk (if negb (lfbkoff0 =? 0) then lfbkoff0 else nbits s1).

(* _fsm_blk_deallocate_lw *)
Definition blk_deallocate (s : fsm) (offset_blk length_blk : Z) : Z * fsm :=
  let lfbkoff0 := lfbkoff s in
  let end_blk := offset_blk + length_blk in
  let pre := if fx_strict (vr s) && strict s
             then fst (set_bit_status s offset_blk length_blk false true true) else 0 in
  if negb (pre =? 0) then (pre, s) else
  let '(rc, s1) := set_bit_status s offset_blk length_blk false false (strict s) in
  if negb (rc =? 0) then (rc, s1) else
  let left := find_prev_set_bit (bm s1) offset_blk 0 in
  let right := dealloc_right s1 lfbkoff0 end_blk in
  let '(s2, koff, klen) :=
    match left with
    | Some l => if offset_blk >? l + 1
                then (del_fbk s1 (l + 1) (offset_blk - (l + 1)), l + 1, length_blk + (offset_blk - (l + 1)))
                else (s1, offset_blk, length_blk)
    | None => if offset_blk >? 0 then (del_fbk s1 0 offset_blk, 0, length_blk + offset_blk)
              else (s1, offset_blk, length_blk)
    end in
  let '(s3, klen') :=
    match right with
    | Some r => if r >? end_blk then (del_fbk s2 end_blk (r - end_blk), klen + (r - end_blk)) else (s2, klen)
    | None => (s2, klen)
    end in
  (0, put_fbk s3 koff klen').

(* _fsm_load_fsm_lw over the current bitmap (the lfbk cache is NOT reset by the C code) *)
Definition load_fsm (s : fsm) : fsm :=
  fold_left (fun a r => put_fbk a (fst r) (snd r)) (load_runs (bm s) (bmlen s)) (set_tree s []).

Definition pow2 (n : Z) : Z := shl 1 n.

(* _fsm_init_lw *)
Definition init_lw (s : fsm) (nbmoff nbmlen : Z) : Z * fsm :=
  if negb (nbmlen mod pow2 (bpow s) =? 0) || negb (nbmoff mod pow2 (bpow s) =? 0) || negb (nbmoff mod aunit s =? 0)
  then (IWFS_ERROR_RANGE_NOT_ALIGNED, s) else
  if nbmlen <? bmlen s then (FSM_IW_ERROR_INVALID_ARGS, s) else
  if nbmlen * 8 <? shr (nbmoff + nbmlen) (bpow s) + 1 then (FSM_IW_ERROR_INVALID_ARGS, s) else
  if negb (ensure_ok s (nbmoff + nbmlen)) then (FSM_E_MAXOFF, s) else
  let s0 := ensure_size s (nbmoff + nbmlen) in
  if negb (bmlen s =? 0) && negb (IW_RANGES_OVERLAP (bmoff s) (bmoff s + bmlen s) nbmoff (nbmoff + nbmlen) =? 0)
  then (FSM_IW_ERROR_INVALID_ARGS, s0) else
  let nbm := if negb (bmlen s =? 0)
             then bm s ++ repeat false (Z.to_nat (8 * (nbmlen - bmlen s)))
             else repeat false (Z.to_nat (8 * nbmlen)) in
  let old_bmlen := bmlen s in let old_bmoff := bmoff s in
  let s1 := set_bmloc (set_bm s0 nbm) nbmoff nbmlen in
  let rollback (rc : Z) := (rc, load_fsm (set_bmloc (set_bm s1 (bm s)) old_bmoff old_bmlen)) in
  let '(rc, s2) := set_bit_status s1 (shr nbmoff (bpow s)) (shr nbmlen (bpow s)) true false false in
  if negb (rc =? 0) then rollback rc else
  let '(rc, s3) := if old_bmlen =? 0 then set_bit_status s2 0 (shr (hdrlen s) (bpow s)) true false false
                   else (0, s2) in
  if negb (rc =? 0) then rollback rc else
  let s4 := write_meta (load_fsm s3) in
  if negb (old_bmlen =? 0) then blk_deallocate s4 (shr old_bmoff (bpow s)) (shr old_bmlen (bpow s))
  else (0, s4).

Definition NOEXT_FLAGS : Z := Z.lor IWFSM_ALLOC_NO_STATS (Z.lor IWFSM_ALLOC_NO_EXTEND IWFSM_ALLOC_NO_OVERALLOCATE).

(* _fsm_resize_fsm_bitmap_lw *)
Definition resize_fsm_bitmap (s : fsm) (size : Z) : Z * fsm :=
  if bmlen s >=? size then (0, s) else
  let nbmlen := IW_ROUNDUP size (aunit s) in
  let '(rc, s1, off, sp) := blk_allocate_aligned s (shr nbmlen (bpow s)) U64MAX in
  let '(nbmoff, nbmlen') :=
    if rc =? 0 then (shl off (bpow s), shl sp (bpow s))
    else if rc =? IWFS_ERROR_NO_FREE_SPACE
         then (IW_ROUNDUP (bmlen s * pow2 (bpow s) * 8) (aunit s), nbmlen)
         else (0, nbmlen) in
  let '(rc2, s2) := init_lw s1 nbmoff nbmlen' in
  (* after fixes/fsm-resize-leak.diff: the area carved out for a bitmap that could not be set up is given back *)
  if fx_leak (vr s) && negb (rc2 =? 0) && (rc =? 0) then (rc2, snd (blk_deallocate s2 off sp)) else (rc2, s2).

Definition RESIZE_FUEL : nat := 64%nat.
Definition FUEL_OUT : Z := -1. (* never observed: the bitmap doubles on every round *)

(* allocation statistics of _fsm_blk_allocate_lw (crzvar is not modelled) *)
Definition stats_update (s : fsm) (length_blk : Z) : fsm :=
  let s1 := if crznum s >? FSM_MAX_STATS_COUNT then set_crz s 0 0 else s in
  set_crz s1 (crzsum s1 + length_blk) (crznum s1 + 1).

(* IWFSM_SOLID_ALLOCATED_SPACE epilogue: [solid_rc] is what _fsm_ensure_size_lw returns, [solid] the state it leaves *)
Definition solid_sz (s : fsm) (off olen : Z) : Z := shl off (bpow s) + shl olen (bpow s).
Definition solid_rc (s : fsm) (off olen : Z) : Z := if ensure_ok s (solid_sz s off olen) then 0 else FSM_E_MAXOFF.
Definition solid (s : fsm) (off olen : Z) : fsm :=
  if ensure_ok s (solid_sz s off olen) then ensure_size s (solid_sz s off olen)
  else if fx_solid (vr s) then snd (blk_deallocate s off olen) (* after fixes/fsm-solid-rollback.diff (7b9f72c): the region is given back *)
  else s.

(* _fsm_blk_allocate_lw, IWFSM_ALLOC_PAGE_ALIGNED branch *)
Fixpoint blk_allocate_al (fuel : nat) (s : fsm) (length_blk opts : Z) : aret :=
  let '(rc, s1, off, olen) := blk_allocate_aligned s length_blk U64MAX in
  if rc =? IWFS_ERROR_NO_FREE_SPACE then
    if has opts IWFSM_ALLOC_NO_EXTEND then (IWFS_ERROR_NO_FREE_SPACE, s1, off, olen) else
    match fuel with
    | O => (FUEL_OUT, s1, off, olen)
    | S f => let '(rc2, s2) := resize_fsm_bitmap s1 (shl (bmlen s1) 1) in
             if negb (rc2 =? 0) then (rc2, s2, off, olen) else blk_allocate_al f s2 length_blk opts
    end
  else if (rc =? 0) && has opts IWFSM_SOLID_ALLOCATED_SPACE then (solid_rc s1 off olen, solid s1 off olen, off, olen)
  else (rc, s1, off, olen).

(* _fsm_blk_allocate_lw, the `start:` loop *)
Fixpoint blk_allocate_na (fuel : nat) (s : fsm) (length_blk offset_blk opts : Z) (ovr : bool) : aret :=
  match find_matching s offset_blk length_blk with
  | Some (nlength, noff) =>
    let s1 := del_fbk2 s (nlength, noff) in
    let '(s2, olen) :=
      if nlength >? length_blk then
        if negb (has opts IWFSM_ALLOC_NO_OVERALLOCATE) && negb (crznum s =? 0) then
          (if ovr then (s1, nlength) else (put_fbk s1 (noff + length_blk) (nlength - length_blk), length_blk))
        else (put_fbk s1 (noff + length_blk) (nlength - length_blk), length_blk)
      else (s1, length_blk) in
    let '(rc, s3) := set_bit_status s2 noff olen true false (strict s) in
    let s4 := if (rc =? 0) && negb (has opts IWFSM_ALLOC_NO_STATS) then stats_update s3 length_blk else s3 in
    let s5 := if (rc =? 0) && has opts IWFSM_SOLID_ALLOCATED_SPACE then solid s4 noff olen else s4 in
    let rc := if (rc =? 0) && has opts IWFSM_SOLID_ALLOCATED_SPACE then solid_rc s4 noff olen else rc in
    (* IWFSM_SYNC_BMAP: pool->sync_mmap(pool, fsm->bmoff) finds no window at bmoff when the whole file is one window *)
    let rc' := if (rc =? 0) && has opts IWFSM_SYNC_BMAP && mmap_all (vr s) && negb (fx_sync (vr s))
               then IWFS_ERROR_NOT_MMAPED else rc in
    (rc', s5, noff, olen)
  | None =>
    if has opts IWFSM_ALLOC_NO_EXTEND then (IWFS_ERROR_NO_FREE_SPACE, s, offset_blk, length_blk) else
    match fuel with
    | O => (FUEL_OUT, s, offset_blk, length_blk)
    | S f => let '(rc, s1) := resize_fsm_bitmap s (shl (bmlen s) 1) in
             if negb (rc =? 0) then (rc, s1, offset_blk, length_blk)
             else blk_allocate_na f s1 length_blk offset_blk opts ovr
    end
  end.

Definition blk_allocate (s : fsm) (length_blk offset_blk opts : Z) (ovr : bool) : aret :=
  (* after fixes/fsm-alloc-overflow.diff: no free extent can hold 2^32 blocks or more (struct bkey), growing the bitmap cannot help *)
  if fx_hint (vr s) && (length_blk >? FSM_BKEY_MAX) then (FSM_IW_ERROR_OVERFLOW, s, offset_blk, length_blk) else
  if has opts IWFSM_ALLOC_PAGE_ALIGNED then blk_allocate_al RESIZE_FUEL s length_blk opts
  else blk_allocate_na RESIZE_FUEL s length_blk offset_blk opts ovr.

(* _fsm_trim_tail_lw (file opened for writing) *)
Definition trim_tail (s : fsm) : Z * fsm :=
  let '(rc, s1, offset, length) := blk_allocate_aligned s (shr (bmlen s) (bpow s)) (shr (bmoff s) (bpow s)) in
  if negb (rc =? 0) && negb (rc =? IWFS_ERROR_NO_FREE_SPACE) then (rc, s1) else
  let '(rc2, s2) :=
    if negb (rc =? 0) then (0, s1)
    else if shl offset (bpow s) <? bmoff s then init_lw s1 (shl offset (bpow s)) (shl length (bpow s))
    else blk_deallocate s1 offset length in
  if negb (rc2 =? 0) then (rc2, s2) else
  let lastblk := shr (bmoff s2 + bmlen s2) (bpow s2) in
  let lastblk := match find_prev_set_bit (bm s2) (nbits s2) lastblk with Some o => o + 1 | None => lastblk end in
  if fsize s2 >? shl lastblk (bpow s2)
  then (0, set_fsize s2 (IW_ROUNDUP (shl lastblk (bpow s2)) (aunit s2)))
  else (0, s2).

(* ---------------------------------------------------------------- public API *)
Definition blkmask s : Z := pow2 (bpow s) - 1.
(* (uint64_t) x >> fsm->bpow for an off_t argument x *)
Definition blk_of (s : fsm) (x : Z) : Z := shr (uw 64 x) (bpow s).

(* _fsm_allocate: (rc, state, addr, len) *)
Definition allocate (s : fsm) (len addr opts : Z) (ovr : bool) : aret :=
  if len <=? 0 then (FSM_IW_ERROR_INVALID_ARGS, s, addr, 0) else
  let sbnum := blk_of s addr in
  let len' := IW_ROUNDUP len (pow2 (bpow s)) in
  let '(rc, s1, off, nlen) := blk_allocate s (shr len' (bpow s)) sbnum opts ovr in
  if rc =? 0 then (0, s1, shl off (bpow s), shl nlen (bpow s)) else (rc, s1, addr, 0).

(* the guard of _fsm_deallocate / _fsm_check_allocation_status: the range touches the header or the bitmap area *)
Definition touches_meta (s : fsm) (offset_blk length_blk : Z) : bool :=
  negb (IW_RANGES_OVERLAP offset_blk (offset_blk + length_blk) 0 (shr (hdrlen s) (bpow s)) =? 0)
  || negb (IW_RANGES_OVERLAP offset_blk (offset_blk + length_blk) (shr (bmoff s) (bpow s))
             (shr (bmoff s) (bpow s) + shr (bmlen s) (bpow s)) =? 0).

(* _fsm_reallocate *)
Definition reallocate (s : fsm) (nlen addr olen opts : Z) (ovr : bool) : aret :=
  if negb (Z.land addr (blkmask s) =? 0) || negb (Z.land olen (blkmask s) =? 0)
  then (IWFS_ERROR_RANGE_NOT_ALIGNED, s, addr, olen) else
  let nlen_blk := shr (IW_ROUNDUP nlen (pow2 (bpow s))) (bpow s) in
  let olen_blk := blk_of s olen in
  let oaddr_blk := blk_of s addr in
  (* after fixes/fsm-realloc-recheck.diff: a negative new length is refused (it used to wrap to "zero blocks": everything released) *)
  if fx_recheck (vr s) && (nlen <? 0) then (FSM_IW_ERROR_INVALID_ARGS, s, addr, olen) else
  if nlen_blk =? olen_blk then (0, s, addr, olen) else
  (* after fixes/fsm-realloc-guard.diff: the old region is neither empty nor part of the header / the bitmap area *)
  if fx_realloc (vr s) && (olen_blk <? 1) then (FSM_IW_ERROR_INVALID_ARGS, s, addr, olen) else
  if fx_realloc (vr s) && touches_meta s oaddr_blk olen_blk then (IWFS_ERROR_FSM_SEGMENTATION, s, addr, olen) else
  if nlen_blk <? olen_blk then
    let '(rc, s1) := blk_deallocate s (oaddr_blk + nlen_blk) (olen_blk - nlen_blk) in
    if rc =? 0 then (0, s1, shl oaddr_blk (bpow s), shl nlen_blk (bpow s)) else (rc, s1, addr, olen)
  else
    (* after fixes/fsm-realloc-recheck.diff: the old range is probed (range guard; strict: fully allocated) BEFORE the new region
       is taken; after the allocation - which may have grown and moved the bitmap - the bitmap guard is evaluated again; when
       the call fails from here on the new region is given back *)
    let pre := if fx_recheck (vr s) then fst (set_bit_status s oaddr_blk olen_blk false true (strict s)) else 0 in
    if negb (pre =? 0) then (pre, s, addr, olen) else
    let '(rc, s1, naddr_blk, sp) := blk_allocate s nlen_blk oaddr_blk opts ovr in
    if negb (rc =? 0) then (rc, s1, addr, olen) else
    if fx_recheck (vr s) &&
       negb (IW_RANGES_OVERLAP oaddr_blk (oaddr_blk + olen_blk) (shr (bmoff s1) (bpow s))
               (shr (bmoff s1) (bpow s) + shr (bmlen s1) (bpow s)) =? 0)
    then (IWFS_ERROR_FSM_SEGMENTATION, snd (blk_deallocate s1 naddr_blk sp), addr, olen) else
    (* pool.copy: the destination range is brought inside the file (_exfile_copy: _exfile_ensure_size_lw first) *)
    let csz := shl naddr_blk (bpow s) + uw 64 olen in
    if negb (naddr_blk =? oaddr_blk) && negb (ensure_ok s1 csz)
    then (FSM_E_MAXOFF, (if fx_recheck (vr s) then snd (blk_deallocate s1 naddr_blk sp) else s1), addr, olen) else
    let s1 := if negb (naddr_blk =? oaddr_blk) then ensure_size s1 csz else s1 in
    let '(rc2, s2) := blk_deallocate s1 oaddr_blk olen_blk in
    if negb (rc2 =? 0) then (rc2, s2, addr, olen) else
    (0, s2, shl naddr_blk (bpow s), shl sp (bpow s)).

(* _fsm_deallocate *)
Definition deallocate (s : fsm) (addr len : Z) : Z * fsm :=
  let offset_blk := blk_of s addr in
  let length_blk := blk_of s len in
  if negb (Z.land addr (blkmask s) =? 0) then (IWFS_ERROR_RANGE_NOT_ALIGNED, s) else
  if fx_short (vr s) && (length_blk <? 1) then (FSM_IW_ERROR_INVALID_ARGS, s) else
  if touches_meta s offset_blk length_blk then (IWFS_ERROR_FSM_SEGMENTATION, s) else
  blk_deallocate s offset_blk length_blk.

(* _fsm_check_allocation_status *)
Definition check_allocation_status (s : fsm) (addr len : Z) (allocated : bool) : Z :=
  if negb (Z.land addr (blkmask s) =? 0) || negb (Z.land len (blkmask s) =? 0) then IWFS_ERROR_RANGE_NOT_ALIGNED else
  let offset_blk := blk_of s addr in
  let length_blk := blk_of s len in
  if touches_meta s offset_blk length_blk then IWFS_ERROR_FSM_SEGMENTATION else
  fst (set_bit_status s offset_blk length_blk (negb allocated) true true).

(* _fsm_is_fully_allocated_lr and the guards of _fsm_write / _fsm_read (file contents are not modelled) *)
Definition is_fully_allocated (s : fsm) (offset_blk length_blk : Z) : bool :=
  if (length_blk <? 1) || (nbits s <? offset_blk + length_blk) then false
  else fst (set_bit_status s offset_blk length_blk false true true) =? 0.
Definition rw_status (s : fsm) (off siz : Z) : Z :=
  if strict s then
    (if is_fully_allocated s (shr off (bpow s)) (shr (IW_ROUNDUP siz (pow2 (bpow s))) (bpow s)) then 0
     else IWFS_ERROR_FSM_SEGMENTATION)
  else 0.
(* _fsm_write: the exfile grows to hold the written range (_exfile_write refuses a range that ends behind maxoff) *)
Definition write_op (s : fsm) (off siz : Z) : Z * fsm :=
  let rc := rw_status s off siz in
  if negb (rc =? 0) then (rc, s) else
  if negb (maxoff s =? 0) && (off + siz >? maxoff s) then (FSM_E_MAXOFF, s) else
  if negb (ensure_ok s (off + siz)) then (FSM_E_MAXOFF, s) else (0, ensure_size s (off + siz)).

(* _fsm_clear *)
Definition clear (s : fsm) (trim : bool) : Z * fsm :=
  if bmlen s =? 0 then (0, s) else
  let nbmoff := IW_ROUNDUP (hdrlen s) (aunit s) in
  let '(rc, s1) := init_lw (set_bmloc s 0 0) nbmoff (bmlen s) in
  if (rc =? 0) && trim then trim_tail s1 else (rc, s1).

(* _fsm_sync *)
Definition sync (s : fsm) : fsm := write_meta s.

(* _fsm_close of a writable file: the state that is left in the file.  `if (fsm->root && (fsm->omode & IWFS_OWRITE))`:
   with an empty free-extent tree (every block of the file allocated) the close neither trims nor writes the header -
   what the next open is told about the bitmap is what the last _fsm_write_meta_lw before the close said. *)
Definition close (s : fsm) (notrim : bool) : Z * fsm :=
  match tree s with
  | [] => (0, s)
  | _ => let '(rc, s1) := if notrim then (0, s) else trim_tail s in (rc, write_meta s1)
  end.

(* iwfs_fsmfile_open of the file left by [close]: _fsm_read_meta_lr + _fsm_load_fsm_lw on a calloc'ed struct fsm.
   The bitmap area is the one NAMED BY THE HEADER (p_bmoff, p_bmlen), not the one the closed handle used last.  When the
   header names the current area ([hdr_current]) the bits found there are the current bitmap.  A header naming a former
   area would expose bytes that are no longer the allocator's (the old area is released and reused by the client); file
   contents are not modelled, [disk_bm] then stands for "p_bmlen * 8 bits nobody vouches for" (the driver answers such a
   reopen with ?stale-header so that the differential run flags it).  Fsm_hdr_proofs.v: no path of the allocator
   leaves the header behind (hdr_ok_run), so this branch is dead for every state the API can produce. *)
Definition hdr_current (s : fsm) : bool := (p_bmoff s =? bmoff s) && (p_bmlen s =? bmlen s).
Definition disk_bm (s : fsm) : list bool :=
  if hdr_current s then bm s
  else firstn (Z.to_nat (8 * p_bmlen s)) (bm s ++ repeat true (Z.to_nat (8 * p_bmlen s))).
Definition reopen (s : fsm) (strict' mmap_all' : bool) : fsm :=
  load_fsm (mkFsm (disk_bm s) [] 0 0 (p_bmoff s) (p_bmlen s) (hdrlen s) (bpow s) (aunit s) (fsize s)
                  (p_crzsum s) (p_crznum s) (p_crzsum s) (p_crznum s) (p_bmoff s) (p_bmlen s) (maxoff s) strict'
                  (mkVariant (fx_lfbk (vr s)) (fx_strict (vr s)) (fx_sync (vr s)) (fx_short (vr s)) (fx_realloc (vr s))
                             (fx_hint (vr s)) (fx_leak (vr s)) (fx_recheck (vr s)) (fx_solid (vr s)) mmap_all')).

(* iwfs_fsmfile_open of a new (truncated) file: _fsm_init_impl + _fsm_init_new_lw; omaxoff = opts->exfile.maxoff
   (iwfs_exfile_open keeps it, rounded down to the page size, when it is at least one page) *)
Definition open_new_max (v : variant) (obpow ohdrlen obmlen omaxoff : Z) (strict' : bool) : Z * fsm :=
  let bp := if obpow =? 0 then FSM_DEFAULT_BPOW else obpow in
  let mx := if omaxoff >=? FSM_AUNIT then IW_ROUNDOWN omaxoff FSM_AUNIT else 0 in
  let s0 := mkFsm [] [] 0 0 0 0 0 bp FSM_AUNIT 0 0 0 0 0 0 0 mx strict' v in
  if bp >? FSM_MAX_BLOCK_POW then (IWFS_ERROR_INVALID_BLOCK_SIZE, s0) else
  if pow2 bp >? FSM_AUNIT then (IWFS_ERROR_PLATFORM_PAGE, s0) else
  let hl := IW_ROUNDUP (uw 32 (ohdrlen + IWFSM_CUSTOM_HDR_DATA_OFFSET)) (pow2 bp) in
  let s1 := mkFsm [] [] 0 0 0 0 (uw 32 hl) bp FSM_AUNIT 0 0 0 0 0 0 0 mx strict' v in
  let nbmlen := if obmlen >? 0 then IW_ROUNDUP obmlen FSM_AUNIT else FSM_AUNIT in
  init_lw s1 (IW_ROUNDUP (uw 32 hl) FSM_AUNIT) nbmlen.
Definition open_new (v : variant) (obpow ohdrlen obmlen : Z) (strict' : bool) : Z * fsm :=
  open_new_max v obpow ohdrlen obmlen 0 strict'.

(* ---------------------------------------------------------------- one client operation *)
Inductive op :=
| OAlloc (len hint opts : Z) (ovr : bool)
| ORealloc (nlen addr olen opts : Z) (ovr : bool)
| OFree (addr len : Z)
| OClear (trim : bool)
| OSync
| OCloseReopen (notrim strict' mmap_all' : bool).

Definition step (s : fsm) (o : op) : aret :=
  match o with
  | OAlloc len hint opts ovr => allocate s len hint opts ovr
  | ORealloc nlen addr olen opts ovr => reallocate s nlen addr olen opts ovr
  | OFree addr len => let '(rc, s1) := deallocate s addr len in (rc, s1, 0, 0)
  | OClear trim => let '(rc, s1) := clear s trim in (rc, s1, 0, 0)
  | OSync => (0, sync s, 0, 0)
  | OCloseReopen notrim strict' mm => let '(rc, s1) := close s notrim in (rc, reopen s1 strict' mm, 0, 0)
  end.
Definition state_of (r : aret) : fsm := let '(_, s, _, _) := r in s.
Definition run (s : fsm) (ops : list op) : fsm := fold_left (fun a o => state_of (step a o)) ops s.
