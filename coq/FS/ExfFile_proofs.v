(* C12 - proofs about the model of the plain file FS/ExfFile.v (src/fs/iwfile.c) *)
Require Import ZArith List Bool Lia.
Require Import IW.Lib.CInt IW.Gen.Facts IW.FS.Exf IW.FS.ExfFile IW.FS.Exf_base_proofs.
Import ListNotations.
Local Open Scope Z_scope.

(* ---------------------------------------------------------------------------------------------- *)
(* 1. the normalisation of the open options: omode is a uint8_t and the lock mode has three defined bits (IWP_RLOCK, IWP_WLOCK,
   IWP_NBLOCK), so the statement is checked for every omode in [0, 256) and every lock mode in [0, 16) (4096 cases, by
   computation on the definitions of the current tree) and holds for every file mode *)
Definition zrange (n : nat) : list Z := map Z.of_nat (seq 0 n).

Lemma in_zrange : forall n x, 0 <= x < Z.of_nat n -> In x (zrange n).
Proof.
  intros n x H. unfold zrange. apply in_map_iff. exists (Z.to_nat x). split; [lia |]. apply in_seq. lia.
Qed.

Definition nm (om lk : Z) : Z := fo_omode (norm_opts (mkFo om lk 0)).
Definition nl (om lk : Z) : Z := fo_lock (norm_opts (mkFo om lk 0)).
Definition p_idem (om lk : Z) : bool :=
  (fo_omode (norm_opts (norm_opts (mkFo om lk 0))) =? nm om lk) && (fo_lock (norm_opts (norm_opts (mkFo om lk 0))) =? nl om lk).
Definition p_rng (om lk : Z) : bool := (0 <=? nm om lk) && (nm om lk <? 256) && (0 <=? nl om lk) && (nl om lk <? 16).
Definition p_read (om lk : Z) : bool := has (nm om lk) EXF_OREAD.
Definition p_trunc (om lk : Z) : bool := implb (has (nm om lk) EXF_OTRUNC) (has (nm om lk) EXF_OWRITE && has (nm om lk) EXF_OCREATE).
Definition p_tmp (om lk : Z) : bool := implb (has (nm om lk) EXF_OTMP) (has (nm om lk) EXF_OTRUNC && has (nl om lk) EXF_WLOCK).
Definition p_create (om lk : Z) : bool := implb (has (nm om lk) EXF_OCREATE) (has (nm om lk) EXF_OWRITE).
Definition p_unlink (om lk : Z) : bool := implb (has (nm om lk) EXF_OUNLINK) (has (nm om lk) EXF_OWRITE).
Definition p_wlock (om lk : Z) : bool := implb (has (nl om lk) EXF_WLOCK) (has (nm om lk) EXF_OWRITE).
Definition p_kept (om lk : Z) : bool := implb (negb (om =? 0)) (Z.land (nm om lk) om =? om).       (* every requested mode bit is kept *)
Definition p_default (om lk : Z) : bool := implb (om =? 0) (nm om lk =? Z.lor (Z.lor EXF_DEFAULT_OMODE EXF_OREAD) EXF_OWRITE).
Definition norm_props (om lk : Z) : bool :=
  p_idem om lk && p_rng om lk && p_read om lk && p_trunc om lk && p_tmp om lk && p_create om lk && p_unlink om lk && p_wlock om lk &&
  p_kept om lk && p_default om lk.

Lemma norm_sweep : forallb (fun om => forallb (fun lk => norm_props om lk) (zrange 16)) (zrange 256) = true.
Proof. vm_compute. reflexivity. Qed.

Lemma norm_props_all : forall om lk, 0 <= om < 256 -> 0 <= lk < 16 -> norm_props om lk = true.
Proof.
  intros om lk Ho Hl. pose proof norm_sweep as H. rewrite forallb_forall in H.
  specialize (H om (in_zrange 256 om Ho)). rewrite forallb_forall in H. exact (H lk (in_zrange 16 lk Hl)).
Qed.

(* the mode and lock parts do not depend on the file mode; the file mode is defaulted once *)
Lemma norm_opts_fm : forall om lk fm,
  fo_omode (norm_opts (mkFo om lk fm)) = fo_omode (norm_opts (mkFo om lk 0)) /\
  fo_lock (norm_opts (mkFo om lk fm)) = fo_lock (norm_opts (mkFo om lk 0)) /\
  fo_filemode (norm_opts (mkFo om lk fm)) = (if fm =? 0 then EXF_DEFAULT_FILEMODE else fm).
Proof. intros. repeat split. Qed.

(* the facts of the sweep, one by one *)
Record norm_facts (om lk : Z) : Prop := mkNF {
  nf_om_idem : fo_omode (norm_opts (norm_opts (mkFo om lk 0))) = nm om lk;
  nf_lk_idem : fo_lock (norm_opts (norm_opts (mkFo om lk 0))) = nl om lk;
  nf_om_rng : 0 <= nm om lk < 256;
  nf_lk_rng : 0 <= nl om lk < 16;
  nf_read : has (nm om lk) EXF_OREAD = true;
  nf_trunc : has (nm om lk) EXF_OTRUNC = true -> has (nm om lk) EXF_OWRITE = true /\ has (nm om lk) EXF_OCREATE = true;
  nf_tmp : has (nm om lk) EXF_OTMP = true -> has (nm om lk) EXF_OTRUNC = true /\ has (nl om lk) EXF_WLOCK = true;
  nf_create : has (nm om lk) EXF_OCREATE = true -> has (nm om lk) EXF_OWRITE = true;
  nf_unlink : has (nm om lk) EXF_OUNLINK = true -> has (nm om lk) EXF_OWRITE = true;
  nf_wlock : has (nl om lk) EXF_WLOCK = true -> has (nm om lk) EXF_OWRITE = true;
  nf_kept : om <> 0 -> Z.land (nm om lk) om = om;
  nf_default : om = 0 -> nm om lk = Z.lor (Z.lor EXF_DEFAULT_OMODE EXF_OREAD) EXF_OWRITE
}.

Lemma implb_elim : forall a b, implb a b = true -> a = true -> b = true.
Proof. intros a b H Ha. subst a. exact H. Qed.

Lemma norm_facts_all : forall om lk, 0 <= om < 256 -> 0 <= lk < 16 -> norm_facts om lk.
Proof.
  intros om lk Ho Hl. pose proof (norm_props_all om lk Ho Hl) as H. unfold norm_props in H.
  repeat match type of H with _ && _ = true => let P := fresh "P" in apply andb_true_iff in H; destruct H as [H P] end.
  unfold p_idem in H. apply andb_true_iff in H. destruct H as [H1 H2].
  unfold p_rng in P7. repeat match type of P7 with _ && _ = true => let R := fresh "R" in apply andb_true_iff in P7; destruct P7 as [P7 R] end.
  constructor.
  - apply Z.eqb_eq. exact H1.
  - apply Z.eqb_eq. exact H2.
  - apply Z.leb_le in P7. apply Z.ltb_lt in R1. lia.
  - apply Z.leb_le in R0. apply Z.ltb_lt in R. lia.
  - exact P6.
  - intros Ht. apply andb_true_iff. exact (implb_elim _ _ P5 Ht).
  - intros Ht. apply andb_true_iff. exact (implb_elim _ _ P4 Ht).
  - intros Ht. exact (implb_elim _ _ P3 Ht).
  - intros Ht. exact (implb_elim _ _ P2 Ht).
  - intros Ht. exact (implb_elim _ _ P1 Ht).
  - intros Hne. apply Z.eqb_eq. apply (implb_elim _ _ P0). apply negb_true_iff. apply Z.eqb_neq. exact Hne.
  - intros He. apply Z.eqb_eq. apply (implb_elim _ _ P). apply Z.eqb_eq. exact He.
Qed.

Lemma fopts_eta : forall x, x = mkFo (fo_omode x) (fo_lock x) (fo_filemode x).
Proof. intros x; destruct x; reflexivity. Qed.

(* THEOREM: normalising normalised options changes nothing *)
Lemma norm_idem : forall o, 0 <= fo_omode o < 256 -> 0 <= fo_lock o < 16 -> norm_opts (norm_opts o) = norm_opts o.
Proof.
  intros [om lk fm] Ho Hl. simpl in Ho, Hl. pose proof (norm_facts_all om lk Ho Hl) as F.
  destruct (norm_opts_fm om lk fm) as [A1 [A2 A3]].
  rewrite (fopts_eta (norm_opts (norm_opts _))). rewrite (fopts_eta (norm_opts (mkFo om lk fm))) at 4.
  rewrite (fopts_eta (norm_opts (mkFo om lk fm))) at 1 2 3.
  destruct (norm_opts_fm (fo_omode (norm_opts (mkFo om lk fm))) (fo_lock (norm_opts (mkFo om lk fm))) (fo_filemode (norm_opts (mkFo om lk fm)))) as [B1 [B2 B3]].
  rewrite B1, B2, B3. rewrite A1, A2, A3.
  pose proof (nf_om_idem _ _ F) as I1. pose proof (nf_lk_idem _ _ F) as I2. unfold nm in I1. unfold nl in I2.
  rewrite (fopts_eta (norm_opts (mkFo om lk 0))) in I1 at 1. rewrite (fopts_eta (norm_opts (mkFo om lk 0))) in I2 at 1.
  destruct (norm_opts_fm (fo_omode (norm_opts (mkFo om lk 0))) (fo_lock (norm_opts (mkFo om lk 0))) (fo_filemode (norm_opts (mkFo om lk 0)))) as [C1 [C2 _]].
  rewrite C1 in I1. rewrite C2 in I2. rewrite I1, I2. f_equal.
  destruct (Z.eqb_spec fm 0) as [-> | Hne]; [reflexivity |]. destruct (Z.eqb_spec fm 0); [contradiction | reflexivity].
Qed.

(* ---------------------------------------------------------------------------------------------- *)
(* 2. what an open does to the file and what the next open sees *)
(* opening a file that exists: never fails; IWFS_OTRUNC empties it and reports NEW, otherwise the bytes are kept and the status
   is EXISTING *)
Lemma file_open_existing : forall o b, 0 <= fo_omode o < 256 -> 0 <= fo_lock o < 16 ->
  let n := norm_opts o in
  let b' := if has (fo_omode n) EXF_OTRUNC then [] else b in
  file_open o (Some b) =
    (0, Some (mkPf n (if has (fo_omode n) EXF_OTRUNC then EXF_OPEN_NEW else EXF_OPEN_EXISTING) b'), Some b').
Proof.
  intros [om lk fm] b Ho Hl. simpl in Ho, Hl. cbv zeta. unfold file_open. cbv zeta.
  pose proof (norm_facts_all om lk Ho Hl) as F. destruct (norm_opts_fm om lk fm) as [A1 _].
  set (n := norm_opts (mkFo om lk fm)) in *.
  destruct (has (fo_omode n) EXF_OTRUNC) eqn:Et.
  - rewrite A1 in Et. destruct (nf_trunc _ _ F Et) as [Hw _]. unfold nm in Hw. rewrite <- A1 in Hw. rewrite Hw. reflexivity.
  - rewrite andb_false_r. reflexivity.
Qed.

(* opening a file that does not exist: created empty (status NEW) exactly when the normalised mode has IWFS_OCREATE,
   else IW_ERROR_NOT_EXISTS and still no file *)
Lemma file_open_missing : forall o, 0 <= fo_omode o < 256 -> 0 <= fo_lock o < 16 ->
  let n := norm_opts o in
  file_open o None =
    if has (fo_omode n) EXF_OCREATE then (0, Some (mkPf n EXF_OPEN_NEW []), Some []) else (EXF_E_NOT_EXISTS, None, None).
Proof.
  intros [om lk fm] Ho Hl. simpl in Ho, Hl. cbv zeta. unfold file_open. cbv zeta.
  pose proof (norm_facts_all om lk Ho Hl) as F. destruct (norm_opts_fm om lk fm) as [A1 _].
  set (n := norm_opts (mkFo om lk fm)) in *.
  destruct (has (fo_omode n) EXF_OCREATE) eqn:Ec.
  - rewrite A1 in Ec. pose proof (nf_create _ _ F Ec) as Hw. unfold nm in Hw. rewrite <- A1 in Hw. rewrite Hw. reflexivity.
  - rewrite andb_false_r. reflexivity.
Qed.

(* what the next open sees: the bytes the closed handle held (nothing, if it was opened with IWFS_OUNLINK) *)
Lemma close_then_open : forall p o, 0 <= fo_omode o < 256 -> 0 <= fo_lock o < 16 ->
  has (fo_omode (pf_opts p)) EXF_OUNLINK = false -> has (fo_omode (norm_opts o)) EXF_OTRUNC = false ->
  file_open o (pf_close p) = (0, Some (mkPf (norm_opts o) EXF_OPEN_EXISTING (pf_bytes p)), Some (pf_bytes p)).
Proof.
  intros p o Ho Hl Hu Ht. unfold pf_close. rewrite Hu. rewrite (file_open_existing o (pf_bytes p) Ho Hl). cbv zeta. rewrite Ht. reflexivity.
Qed.

(* ---------------------------------------------------------------------------------------------- *)
(* 3. reads and writes around the end of the file *)
(* a read transfers what there is: min n (size - off) bytes, nothing beyond the end, and answers 0 *)
Lemma pf_read_count : forall p off n, 0 <= off -> 0 <= n ->
  pf_read p off n = (0, Z.max 0 (Z.min n (zlen (pf_bytes p) - off)), pread (pf_bytes p) off n).
Proof. intros p off n Ho Hn. unfold pf_read. rewrite zlen_pread_gen by assumption. reflexivity. Qed.

(* pwrite byte for byte: the data in its range, the old byte elsewhere (beyond the old end: zero) *)
Lemma znth_pwrite : forall f off d x, 0 <= off -> 0 <= x ->
  znth x (pwrite f off d) = if (off <=? x) && (x <? off + zlen d) then znth (x - off) d else znth x f.
Proof.
  intros f off d x Ho Hx. pose proof (zlen_nonneg d) as Hd. pose proof (zlen_nonneg f) as Hf.
  destruct d as [| d0 d'].
  { simpl. change (zlen (@nil Z)) with 0. destruct (Z.leb_spec off x), (Z.ltb_spec x (off + 0)); simpl; try lia; reflexivity. }
  unfold pwrite. set (d := d0 :: d') in *.
  rewrite znth_app by lia. rewrite zlen_ztake_min by lia.
  destruct (Z.ltb_spec x (Z.min off (zlen f))) as [H1 | H1].
  - destruct (Z.leb_spec off x); [lia |]. simpl. apply znth_ztake. lia.
  - rewrite znth_app by lia.
    destruct (Z_le_gt_dec off (zlen f)) as [Hin | Hout].
    + rewrite zeros_neg by lia. change (zlen (@nil Z)) with 0. destruct (Z.ltb_spec (x - Z.min off (zlen f)) 0); [lia |].
      rewrite Z.min_l by lia. rewrite Z.sub_0_r. rewrite znth_app by lia.
      destruct (Z.leb_spec off x); [| lia]. simpl.
      destruct (Z.ltb_spec (x - off) (zlen d)), (Z.ltb_spec x (off + zlen d)); try lia; try reflexivity.
      rewrite znth_zdrop by lia. f_equal. lia.
    + rewrite Z.min_r by lia. rewrite zlen_zeros by lia.
      destruct (Z.ltb_spec (x - zlen f) (off - zlen f)) as [Hz | Hz].
      * rewrite znth_zeros. destruct (Z.leb_spec off x); [lia |]. simpl. symmetry. apply znth_beyond. lia.
      * rewrite znth_app by lia. destruct (Z.leb_spec off x); [| lia]. simpl.
        replace (x - zlen f - (off - zlen f)) with (x - off) by lia.
        destruct (Z.ltb_spec (x - off) (zlen d)), (Z.ltb_spec x (off + zlen d)); try lia; try reflexivity.
        rewrite znth_zdrop by lia. rewrite !znth_beyond by lia. reflexivity.
Qed.

Lemma zlen_pwrite : forall f off d, 0 <= off -> d <> [] -> zlen (pwrite f off d) = Z.max (zlen f) (off + zlen d).
Proof.
  intros f off d Ho Hd. pose proof (zlen_nonneg d) as Hdn. pose proof (zlen_nonneg f) as Hf.
  destruct d as [| d0 d']; [contradiction |]. unfold pwrite. set (d := d0 :: d') in *.
  rewrite !zlen_app. rewrite zlen_ztake_min by lia.
  destruct (Z_le_gt_dec off (zlen f)) as [Hin | Hout].
  - rewrite zeros_neg by lia. change (zlen (@nil Z)) with 0.
    destruct (Z_le_gt_dec (off + zlen d) (zlen f)); [rewrite zlen_zdrop by lia | rewrite zdrop_all by lia; change (zlen (@nil Z)) with 0]; lia.
  - rewrite zlen_zeros by lia. rewrite zdrop_all by lia. change (zlen (@nil Z)) with 0. lia.
Qed.

(* a write on a writable file transfers everything, extends the file as far as needed, reads back, and leaves the other
   bytes alone (the gap between the old end and the offset reads as zero) *)
Lemma pf_write_spec : forall p off d, has (fo_omode (pf_opts p)) EXF_OWRITE = true -> 0 <= off -> d <> [] ->
  let '(rc, sp, p') := pf_write p off d in
  rc = 0 /\ sp = Some (zlen d) /\ zlen (pf_bytes p') = Z.max (zlen (pf_bytes p)) (off + zlen d) /\
  pread (pf_bytes p') off (zlen d) = d /\
  forall x, 0 <= x -> ~ (off <= x < off + zlen d) -> znth x (pf_bytes p') = znth x (pf_bytes p).
Proof.
  intros p off d Hw Ho Hd. unfold pf_write. rewrite Hw. simpl. pose proof (zlen_nonneg d) as Hdn.
  split; [reflexivity |]. split; [reflexivity |]. split; [apply zlen_pwrite; assumption |]. split.
  - apply list_eq_znth.
    + rewrite zlen_pread; [reflexivity | lia | lia |]. rewrite zlen_pwrite by assumption. lia.
    + intros x Hx. rewrite zlen_pread in Hx; [| lia | lia | rewrite zlen_pwrite by assumption; lia].
      rewrite znth_pread by lia. rewrite znth_pwrite by lia.
      destruct (Z.leb_spec off (off + x)), (Z.ltb_spec (off + x) (off + zlen d)); simpl; try lia. f_equal. lia.
  - intros x Hx Hout. rewrite znth_pwrite by lia.
    destruct (Z.leb_spec off x), (Z.ltb_spec x (off + zlen d)); simpl; try lia; reflexivity.
Qed.

(* a read-only handle refuses writes and copies and leaves the file alone *)
Lemma pf_readonly : forall q p off d siz noff, has (fo_omode (pf_opts p)) EXF_OWRITE = false ->
  pf_write p off d = (EXF_E_READONLY, None, p) /\ pf_copy q p off siz noff = (EXF_E_READONLY, p).
Proof. intros q p off d siz noff H. unfold pf_write, pf_copy. rewrite H. split; reflexivity. Qed.
