(* Proofs about FS/Bits.v: pointwise meaning of set_range / all_range / the two scans, maximal zero runs and
   load_is_runs (the loader of _fsm_load_fsm_lw emits exactly the maximal zero runs, for every bitmap). *)
Require Import ZArith List Bool Lia. Require Import IW.Lib.CInt IW.FS.Bits. Import ListNotations.
Local Open Scope Z_scope. Local Open Scope bool_scope.
Ltac Zify.zify_post_hook ::= Z.div_mod_to_equations.

Definition len_z (l : list bool) : Z := Z.of_nat (length l).

Lemma len_z_nonneg : forall l, 0 <= len_z l.
Proof. intros; unfold len_z; lia. Qed.
Lemma len_z_cons : forall b l, len_z (b :: l) = len_z l + 1.
Proof. intros; unfold len_z; simpl length; lia. Qed.
Lemma len_z_nil : len_z [] = 0.
Proof. reflexivity. Qed.
Lemma len_z_app : forall a b, len_z (a ++ b) = len_z a + len_z b.
Proof. intros; unfold len_z; rewrite app_length; lia. Qed.
Lemma len_z_repeat : forall (v : bool) n, len_z (repeat v n) = Z.of_nat n.
Proof. intros; unfold len_z; rewrite repeat_length; reflexivity. Qed.

Lemma getb_cons_0 : forall b l, getb (b :: l) 0 = b.
Proof. reflexivity. Qed.
Lemma getb_cons_pos : forall b l i, 0 < i -> getb (b :: l) i = getb l (i - 1).
Proof.
  intros b l i Hi. unfold getb.
  replace (Z.to_nat i) with (S (Z.to_nat (i - 1))) by lia. reflexivity.
Qed.
Lemma getb_app_l : forall a b i, 0 <= i < len_z a -> getb (a ++ b) i = getb a i.
Proof. intros a b i Hi. unfold getb, len_z in *. apply app_nth1. lia. Qed.
Lemma getb_app_r : forall a b i, len_z a <= i -> getb (a ++ b) i = getb b (i - len_z a).
Proof.
  intros a b i Hi. unfold getb, len_z in *. rewrite app_nth2 by lia. f_equal. lia.
Qed.
Lemma getb_repeat : forall (v : bool) n i, 0 <= i < Z.of_nat n -> getb (repeat v n) i = v.
Proof.
  intros v n. induction n as [|n IH]; intros i Hi; [lia|].
  simpl repeat. destruct (Z.eq_dec i 0) as [->|Hne]; [reflexivity|].
  rewrite getb_cons_pos by lia. apply IH. lia.
Qed.

(* ---------------------------------------------------------------- set_range *)
Lemma set_range_length : forall l off n v, len_z (set_range l off n v) = len_z l.
Proof.
  induction l as [|b t IH]; intros off n v; simpl; [reflexivity|].
  destruct (0 <? off) eqn:Ho.
  - rewrite !len_z_cons, IH. reflexivity.
  - destruct (0 <? n) eqn:Hn; [rewrite !len_z_cons, IH|]; reflexivity.
Qed.

Lemma getb_set_range : forall l off n v i, 0 <= off -> 0 <= i < len_z l ->
  getb (set_range l off n v) i = if (off <=? i) && (i <? off + n) then v else getb l i.
Proof.
  induction l as [|b t IH]; intros off n v i Hoff Hi.
  - rewrite len_z_nil in Hi. lia.
  - rewrite len_z_cons in Hi. simpl.
    destruct (0 <? off) eqn:Ho.
    + apply Z.ltb_lt in Ho.
      destruct (Z.eq_dec i 0) as [->|Hne].
      * rewrite !getb_cons_0. replace (off <=? 0) with false by lia. reflexivity.
      * rewrite !getb_cons_pos by lia. rewrite IH by lia.
        replace (off - 1 <=? i - 1) with (off <=? i) by lia.
        replace (i - 1 <? off - 1 + n) with (i <? off + n) by lia. reflexivity.
    + apply Z.ltb_ge in Ho. assert (off = 0) by lia. subst off.
      destruct (0 <? n) eqn:Hn.
      * apply Z.ltb_lt in Hn.
        destruct (Z.eq_dec i 0) as [->|Hne].
        -- rewrite getb_cons_0. replace (0 <=? 0) with true by lia. replace (0 <? 0 + n) with true by lia. reflexivity.
        -- rewrite !getb_cons_pos by lia. rewrite IH by lia.
           replace (0 <=? i - 1) with true by lia. replace (0 <=? i) with true by lia.
           replace (i - 1 <? 0 + (n - 1)) with (i <? 0 + n) by lia. reflexivity.
      * apply Z.ltb_ge in Hn. replace (i <? 0 + n) with false by lia. rewrite andb_false_r. reflexivity.
Qed.

(* ---------------------------------------------------------------- all_range *)
Lemma all_range_spec : forall l off n v, 0 <= off -> 0 <= n -> off + n <= len_z l ->
  (all_range l off n v = true <-> forall i, off <= i < off + n -> getb l i = v).
Proof.
  induction l as [|b t IH]; intros off n v Hoff Hn Hle.
  - rewrite len_z_nil in Hle. simpl. split; [intros _ i Hi; lia | intros _; lia].
  - rewrite len_z_cons in Hle. simpl.
    destruct (0 <? off) eqn:Ho.
    + apply Z.ltb_lt in Ho. rewrite IH by lia. split; intros H i Hi.
      * rewrite getb_cons_pos by lia. apply H. lia.
      * specialize (H (i + 1)). rewrite getb_cons_pos in H by lia. replace (i + 1 - 1) with i in H by lia. apply H. lia.
    + apply Z.ltb_ge in Ho. assert (off = 0) by lia. subst off.
      destruct (0 <? n) eqn:Hn0.
      * apply Z.ltb_lt in Hn0. rewrite andb_true_iff, IH by lia. split.
        -- intros [Hb H] i Hi. destruct (Z.eq_dec i 0) as [->|Hne].
           ++ rewrite getb_cons_0. apply eqb_prop. exact Hb.
           ++ rewrite getb_cons_pos by lia. apply H. lia.
        -- intros H. split.
           ++ specialize (H 0). rewrite getb_cons_0 in H. rewrite H by lia. apply eqb_reflx.
           ++ intros i Hi. specialize (H (i + 1)). rewrite getb_cons_pos in H by lia.
              replace (i + 1 - 1) with i in H by lia. apply H. lia.
      * apply Z.ltb_ge in Hn0. split; [intros _ i Hi; lia | reflexivity].
Qed.

(* ---------------------------------------------------------------- find_next_set_bit *)
Lemma find_next_from_spec : forall l k off max,
  match find_next_from l k off max with
  | Some r => k <= r /\ off <= r < max /\ r < k + len_z l /\ getb l (r - k) = true /\
              (forall j, k <= j < r -> off <= j -> getb l (j - k) = false)
  | None => forall j, k <= j < k + len_z l -> off <= j < max -> getb l (j - k) = false
  end.
Proof.
  induction l as [|b t IH]; intros k off max; simpl.
  - intros j Hj. rewrite len_z_nil in Hj. lia.
  - destruct (max <=? k) eqn:Hm.
    + apply Z.leb_le in Hm. intros j Hj Hj2. lia.
    + apply Z.leb_gt in Hm.
      destruct (b && (off <=? k)) eqn:Hb.
      * apply andb_true_iff in Hb. destruct Hb as [Hb Hk]. apply Z.leb_le in Hk. subst b.
        rewrite len_z_cons. replace (k - k) with 0 by lia. rewrite getb_cons_0.
        repeat split; try lia. pose proof (len_z_nonneg t). lia.
      * specialize (IH (k + 1) off max).
        destruct (find_next_from t (k + 1) off max) as [r|].
        -- destruct IH as (H1 & H2 & H3 & H4 & H5). rewrite len_z_cons.
           repeat split; try lia.
           ++ rewrite getb_cons_pos by lia. replace (r - k - 1) with (r - (k + 1)) by lia. exact H4.
           ++ intros j Hj Hoj. destruct (Z.eq_dec j k) as [->|Hne].
              ** replace (k - k) with 0 by lia. rewrite getb_cons_0.
                 apply andb_false_iff in Hb. destruct Hb as [Hb|Hb]; [exact Hb|]. apply Z.leb_gt in Hb. lia.
              ** rewrite getb_cons_pos by lia. replace (j - k - 1) with (j - (k + 1)) by lia. apply H5; lia.
        -- intros j Hj Hj2. rewrite len_z_cons in Hj. destruct (Z.eq_dec j k) as [->|Hne].
           ++ replace (k - k) with 0 by lia. rewrite getb_cons_0.
              apply andb_false_iff in Hb. destruct Hb as [Hb|Hb]; [exact Hb|]. apply Z.leb_gt in Hb. lia.
           ++ rewrite getb_cons_pos by lia. replace (j - k - 1) with (j - (k + 1)) by lia. apply IH; lia.
Qed.

Lemma find_next_spec : forall l off max, 0 <= off -> max <= len_z l ->
  match find_next_set_bit l off max with
  | Some r => off <= r < max /\ getb l r = true /\ (forall j, off <= j < r -> getb l j = false)
  | None => forall j, off <= j < max -> getb l j = false
  end.
Proof.
  intros l off max Hoff Hmax. unfold find_next_set_bit.
  destruct (max <=? off) eqn:Hm.
  - apply Z.leb_le in Hm. intros j Hj. lia.
  - pose proof (find_next_from_spec l 0 off max) as H.
    destruct (find_next_from l 0 off max) as [r|].
    + destruct H as (H1 & H2 & H3 & H4 & H5). replace (r - 0) with r in H4 by lia.
      repeat split; try lia; [exact H4|]. intros j Hj. specialize (H5 j). replace (j - 0) with j in H5 by lia. apply H5; lia.
    + intros j Hj. specialize (H j). replace (j - 0) with j in H by lia. apply H; lia.
Qed.

(* ---------------------------------------------------------------- find_prev_set_bit *)
Lemma find_prev_from_spec : forall l k off mn acc,
  (match acc with
   | Some a => mn <= a < k /\ a < off
   | None => True end) ->
  match find_prev_from l k off mn acc with
  | Some r => (acc = Some r /\ (forall j, k <= j < k + len_z l -> mn <= j < off -> getb l (j - k) = false))
              \/ (k <= r < k + len_z l /\ mn <= r < off /\ getb l (r - k) = true /\
                  (forall j, r < j < k + len_z l -> j < off -> getb l (j - k) = false))
  | None => acc = None /\ forall j, k <= j < k + len_z l -> mn <= j < off -> getb l (j - k) = false
  end.
Proof.
  induction l as [|b t IH]; intros k off mn acc Hacc; simpl.
  - destruct acc as [a|].
    + left. split; [reflexivity|]. intros j Hj. rewrite len_z_nil in Hj. lia.
    + split; [reflexivity|]. intros j Hj. rewrite len_z_nil in Hj. lia.
  - destruct (off <=? k) eqn:Hk.
    + apply Z.leb_le in Hk. destruct acc as [a|].
      * left. split; [reflexivity|]. intros j Hj Hj2. lia.
      * split; [reflexivity|]. intros j Hj Hj2. lia.
    + apply Z.leb_gt in Hk. rewrite len_z_cons.
      set (acc' := if b && (mn <=? k) then Some k else acc).
      assert (Hacc' : match acc' with Some a => mn <= a < k + 1 /\ a < off | None => True end).
      { unfold acc'. destruct (b && (mn <=? k)) eqn:Hb.
        - apply andb_true_iff in Hb. destruct Hb as [_ Hb]. apply Z.leb_le in Hb. lia.
        - destruct acc as [a|]; [lia|exact I]. }
      specialize (IH (k + 1) off mn acc' Hacc').
      destruct (find_prev_from t (k + 1) off mn acc') as [r|].
      * destruct IH as [[He Hz]|(H1 & H2 & H3 & H4)].
        -- unfold acc' in He. destruct (b && (mn <=? k)) eqn:Hb.
           ++ injection He as <-. apply andb_true_iff in Hb. destruct Hb as [Hb Hmk]. apply Z.leb_le in Hmk. subst b.
              right. replace (k - k) with 0 by lia. rewrite getb_cons_0. pose proof (len_z_nonneg t).
              repeat split; try lia. intros j Hj Hjo.
              rewrite getb_cons_pos by lia. replace (j - k - 1) with (j - (k + 1)) by lia. apply Hz; lia.
           ++ left. split; [exact He|]. intros j Hj Hj2. destruct (Z.eq_dec j k) as [->|Hne].
              ** replace (k - k) with 0 by lia. rewrite getb_cons_0.
                 apply andb_false_iff in Hb. destruct Hb as [Hb|Hb]; [exact Hb|]. apply Z.leb_gt in Hb. lia.
              ** rewrite getb_cons_pos by lia. replace (j - k - 1) with (j - (k + 1)) by lia. apply Hz; lia.
        -- right. repeat split; try lia.
           ++ rewrite getb_cons_pos by lia. replace (r - k - 1) with (r - (k + 1)) by lia. exact H3.
           ++ intros j Hj Hjo. rewrite getb_cons_pos by lia. replace (j - k - 1) with (j - (k + 1)) by lia. apply H4; lia.
      * destruct IH as [He Hz]. unfold acc' in He. destruct (b && (mn <=? k)) eqn:Hb; [discriminate|].
        split; [exact He|]. intros j Hj Hj2. destruct (Z.eq_dec j k) as [->|Hne].
        -- replace (k - k) with 0 by lia. rewrite getb_cons_0.
           apply andb_false_iff in Hb. destruct Hb as [Hb|Hb]; [exact Hb|]. apply Z.leb_gt in Hb. lia.
        -- rewrite getb_cons_pos by lia. replace (j - k - 1) with (j - (k + 1)) by lia. apply Hz; lia.
Qed.

Lemma find_prev_spec : forall l off mn, 0 <= mn -> off <= len_z l ->
  match find_prev_set_bit l off mn with
  | Some r => mn <= r < off /\ getb l r = true /\ (forall j, r < j < off -> getb l j = false)
  | None => forall j, mn <= j < off -> getb l j = false
  end.
Proof.
  intros l off mn Hmn Hoff. unfold find_prev_set_bit.
  destruct (off <=? mn) eqn:Hm.
  - apply Z.leb_le in Hm. intros j Hj. lia.
  - pose proof (find_prev_from_spec l 0 off mn None I) as H.
    destruct (find_prev_from l 0 off mn None) as [r|].
    + destruct H as [[He _]|(H1 & H2 & H3 & H4)]; [discriminate|].
      replace (r - 0) with r in H3 by lia. repeat split; try lia; [exact H3|].
      intros j Hj. specialize (H4 j). replace (j - 0) with j in H4 by lia. apply H4; lia.
    + destruct H as [_ H]. intros j Hj. specialize (H j). replace (j - 0) with j in H by lia. apply H; lia.
Qed.

(* ---------------------------------------------------------------- maximal zero runs *)
Definition free_in (l : list bool) (o n : Z) : Prop := forall i, o <= i < o + n -> getb l i = false.
Definition is_run (l : list bool) (o n : Z) : Prop :=
  0 <= o /\ 0 < n /\ o + n <= len_z l /\ free_in l o n /\
  (o = 0 \/ getb l (o - 1) = true) /\ (o + n = len_z l \/ getb l (o + n) = true).

(* two maximal runs that share a block are the same run *)
Lemma runs_overlap_eq : forall l o n o' n', is_run l o n -> is_run l o' n' ->
  o < o' + n' -> o' < o + n -> o = o' /\ n = n'.
Proof.
  intros l o n o' n' (H1 & H2 & H3 & H4 & H5 & H6) (G1 & G2 & G3 & G4 & G5 & G6) Ha Hb.
  assert (o = o').
  { destruct (Z.lt_trichotomy o o') as [Hlt|[Heq|Hgt]]; [|exact Heq|].
    - destruct G5 as [G5|G5]; [lia|]. rewrite H4 in G5 by lia. discriminate.
    - destruct H5 as [H5|H5]; [lia|]. rewrite G4 in H5 by lia. discriminate. }
  subst o'. split; [reflexivity|].
  destruct (Z.lt_trichotomy n n') as [Hlt|[Heq|Hgt]]; [|exact Heq|].
  - destruct H6 as [H6|H6]; [lia|]. rewrite G4 in H6 by lia. discriminate.
  - destruct G6 as [G6|G6]; [lia|]. rewrite H4 in G6 by lia. discriminate.
Qed.

(* every free block lies in a maximal run *)
Lemma zero_in_run : forall l i, 0 <= i < len_z l -> getb l i = false ->
  exists o n, is_run l o n /\ o <= i < o + n.
Proof.
  intros l i Hi Hz.
  pose proof (find_prev_spec l i 0 ltac:(lia) ltac:(lia)) as Hp.
  pose proof (find_next_spec l i (len_z l) ltac:(lia) ltac:(lia)) as Hn.
  destruct (find_prev_set_bit l i 0) as [p|]; destruct (find_next_set_bit l i (len_z l)) as [r|].
  - destruct Hp as (P1 & P2 & P3). destruct Hn as (N1 & N2 & N3).
    assert (r <> i) by (intros ->; congruence).
    exists (p + 1), (r - (p + 1)). split; [|lia].
    unfold is_run, free_in. repeat split; try lia.
    + intros j Hj. destruct (Z_lt_le_dec j i); [apply P3; lia|]. destruct (Z.eq_dec j i) as [->|]; [exact Hz|apply N3; lia].
    + right. replace (p + 1 - 1) with p by lia. exact P2.
    + right. replace (p + 1 + (r - (p + 1))) with r by lia. exact N2.
  - destruct Hp as (P1 & P2 & P3).
    exists (p + 1), (len_z l - (p + 1)). split; [|lia].
    unfold is_run, free_in. repeat split; try lia.
    + intros j Hj. destruct (Z_lt_le_dec j i); [apply P3; lia|apply Hn; lia].
    + right. replace (p + 1 - 1) with p by lia. exact P2.
  - destruct Hn as (N1 & N2 & N3).
    assert (r <> i) by (intros ->; congruence).
    exists 0, r. split; [|lia].
    unfold is_run, free_in. repeat split; try lia.
    + intros j Hj. destruct (Z_lt_le_dec j i); [apply Hp; lia|]. destruct (Z.eq_dec j i) as [->|]; [exact Hz|apply N3; lia].
    + right. replace (0 + r) with r by lia. exact N2.
  - exists 0, (len_z l). split; [|lia].
    unfold is_run, free_in. repeat split; try lia.
    intros j Hj. destruct (Z_lt_le_dec j i); [apply Hp; lia|apply Hn; lia].
Qed.

(* ---------------------------------------------------------------- the loader *)
Lemma scan_bit_true_pos : forall cb fl acc, (0 <? fl) = true ->
  scan_bit (cb, fl, acc) true = (cb + 1, 0, (cb - fl, fl) :: acc).
Proof. intros cb fl acc H. unfold scan_bit, emit. rewrite H. reflexivity. Qed.
Lemma scan_bit_true_zero : forall cb fl acc, (0 <? fl) = false ->
  scan_bit (cb, fl, acc) true = (cb + 1, fl, acc).
Proof. intros cb fl acc H. unfold scan_bit, emit. rewrite H. reflexivity. Qed.
Lemma scan_bit_false : forall cb fl acc, scan_bit (cb, fl, acc) false = (cb + 1, fl + 1, acc).
Proof. reflexivity. Qed.

Lemma scan_byte_bits : forall b0 b1 b2 b3 b4 b5 b6 b7 st,
  scan_byte [b0; b1; b2; b3; b4; b5; b6; b7] st = fold_left scan_bit [b0; b1; b2; b3; b4; b5; b6; b7] st.
Proof.
  intros. destruct st as [[cb fl] acc].
  destruct b0, b1, b2, b3, b4, b5, b6, b7; unfold scan_byte; simpl forallb; cbv iota; try reflexivity.
  - unfold scan_ff_byte, emit. cbn [fold_left]. destruct (0 <? fl) eqn:Hfl.
    + rewrite (scan_bit_true_pos _ _ _ Hfl). rewrite !scan_bit_true_zero by reflexivity.
      f_equal. f_equal. lia.
    + rewrite !scan_bit_true_zero by exact Hfl. f_equal. f_equal. lia.
  - unfold scan_zero_byte. cbn [fold_left]. rewrite !scan_bit_false. f_equal. f_equal; lia.
Qed.

Lemma load_scan_bits : forall l st, load_scan l st = fold_left scan_bit l st.
Proof.
  assert (H : forall n l, (length l <= n)%nat -> forall st, load_scan l st = fold_left scan_bit l st).
  { induction n as [|n IH]; intros l Hl st.
    - destruct l; [reflexivity|simpl in Hl; lia].
    - destruct l as [|b0 [|b1 [|b2 [|b3 [|b4 [|b5 [|b6 [|b7 t]]]]]]]]; try reflexivity.
      change (load_scan (b0 :: b1 :: b2 :: b3 :: b4 :: b5 :: b6 :: b7 :: t) st)
        with (load_scan t (scan_byte [b0; b1; b2; b3; b4; b5; b6; b7] st)).
      rewrite scan_byte_bits. rewrite IH by (simpl in Hl; lia).
      change (b0 :: b1 :: b2 :: b3 :: b4 :: b5 :: b6 :: b7 :: t) with ([b0; b1; b2; b3; b4; b5; b6; b7] ++ t).
      rewrite fold_left_app. reflexivity. }
  intros l st. apply (H (length l)). lia.
Qed.

(* Invariant of the per-bit scan after k bits: cb = k, the last fl bits are free and preceded by a set bit (or the
   start), acc = the maximal runs that end before the pending one. *)
Definition scan_inv (l : list bool) (k : Z) (st : scan_st) : Prop :=
  let '(cb, fl, acc) := st in
  cb = k /\ 0 <= fl <= k /\ free_in l (k - fl) fl /\ (k - fl = 0 \/ getb l (k - fl - 1) = true) /\
  (forall o n, In (o, n) acc <-> (is_run l o n /\ o + n <= k - fl)).

Lemma is_run_end_set : forall l o n, is_run l o n -> o + n < len_z l -> getb l (o + n) = true.
Proof. intros l o n (H1 & H2 & H3 & H4 & H5 & H6) Hlt. destruct H6; [lia|assumption]. Qed.

Lemma is_run_not_end_at_set : forall l o n k, is_run l o n -> getb l k = true -> o <= k -> o + n <> k + 1.
Proof.
  intros l o n k (R1 & R2 & R3 & R4 & R5 & R6) Hb Hk He. specialize (R4 k). rewrite R4 in Hb by lia. discriminate.
Qed.

Lemma scan_bit_inv : forall l k st, 0 <= k < len_z l -> scan_inv l k st -> scan_inv l (k + 1) (scan_bit st (getb l k)).
Proof.
  intros l k [[cb fl] acc] Hk (Hcb & Hfl & Hfree & Hleft & Hacc). subst cb.
  destruct (getb l k) eqn:Hb.
  - (* set bit: the pending run (if any) is complete *)
    destruct (0 <? fl) eqn:Hpos.
    + rewrite (scan_bit_true_pos _ _ _ Hpos). apply Z.ltb_lt in Hpos.
      assert (Hrun : is_run l (k - fl) fl).
      { unfold is_run. split; [lia|]. split; [lia|]. split; [lia|]. split; [exact Hfree|]. split.
        - destruct Hleft as [Hl|Hl]; [left; lia|right; exact Hl].
        - right. replace (k - fl + fl) with k by lia. exact Hb. }
      unfold scan_inv. split; [reflexivity|]. split; [lia|]. split; [intros i Hi; lia|]. split.
      { right. replace (k + 1 - 0 - 1) with k by lia. exact Hb. }
      intros o n. split.
      * intros [H|H].
        -- injection H as <- <-. split; [exact Hrun|lia].
        -- apply Hacc in H. destruct H as (Hr & Hle). split; [exact Hr|lia].
      * intros (Hr & Hle).
        assert (Hne : o + n <> k + 1).
        { destruct (Z_le_gt_dec o k); [apply (is_run_not_end_at_set l o n k Hr Hb); lia|].
          destruct Hr as (R1 & R2 & _). lia. }
        destruct (Z_le_gt_dec (o + n) (k - fl)) as [Hle2|Hgt].
        -- right. apply Hacc. split; [exact Hr|lia].
        -- left. assert (0 < n) by (destruct Hr as (_ & R2 & _); exact R2).
           destruct (runs_overlap_eq l o n (k - fl) fl Hr Hrun) as [-> ->]; [lia|lia|reflexivity].
    + rewrite (scan_bit_true_zero _ _ _ Hpos). apply Z.ltb_ge in Hpos. assert (fl = 0) by lia. subst fl.
      unfold scan_inv. split; [reflexivity|]. split; [lia|]. split; [intros i Hi; lia|]. split.
      { right. replace (k + 1 - 0 - 1) with k by lia. exact Hb. }
      intros o n. split.
      * intros H. apply Hacc in H. destruct H as (Hr & Hle). split; [exact Hr|lia].
      * intros (Hr & Hle). apply Hacc. split; [exact Hr|].
        assert (Hne : o + n <> k + 1).
        { destruct (Z_le_gt_dec o k); [apply (is_run_not_end_at_set l o n k Hr Hb); lia|].
          destruct Hr as (R1 & R2 & _). lia. }
        lia.
  - (* free bit: the pending run grows *)
    rewrite scan_bit_false.
    unfold scan_inv. split; [reflexivity|]. split; [lia|]. split.
    { intros i Hi. destruct (Z.eq_dec i k) as [->|]; [exact Hb|apply Hfree; lia]. }
    split.
    { destruct Hleft as [Hl|Hl]; [left; lia|right]. replace (k + 1 - (fl + 1) - 1) with (k - fl - 1) by lia. exact Hl. }
    intros o n. split.
    * intros H. apply Hacc in H. destruct H as (Hr & Hle). split; [exact Hr|lia].
    * intros (Hr & Hle). apply Hacc. split; [exact Hr|lia].
Qed.

Lemma fold_scan_inv : forall q p st, scan_inv (p ++ q) (len_z p) st ->
  scan_inv (p ++ q) (len_z p + len_z q) (fold_left scan_bit q st).
Proof.
  induction q as [|b q IH]; intros p st Hinv.
  - simpl. rewrite len_z_nil. replace (len_z p + 0) with (len_z p) by lia. exact Hinv.
  - simpl fold_left. rewrite len_z_cons.
    replace (p ++ b :: q) with ((p ++ [b]) ++ q) in * by (rewrite <- app_assoc; reflexivity).
    replace (len_z p + (len_z q + 1)) with (len_z (p ++ [b]) + len_z q) by (rewrite len_z_app, len_z_cons, len_z_nil; lia).
    apply IH.
    assert (Hb : getb ((p ++ [b]) ++ q) (len_z p) = b).
    { rewrite getb_app_l by (rewrite len_z_app, len_z_cons, len_z_nil; pose proof (len_z_nonneg p); lia).
      rewrite getb_app_r by lia. replace (len_z p - len_z p) with 0 by lia. reflexivity. }
    assert (Hrange : 0 <= len_z p < len_z ((p ++ [b]) ++ q)).
    { rewrite !len_z_app, len_z_cons, len_z_nil. pose proof (len_z_nonneg p). pose proof (len_z_nonneg q). lia. }
    pose proof (scan_bit_inv ((p ++ [b]) ++ q) (len_z p) st Hrange Hinv) as Hs. rewrite Hb in Hs.
    replace (len_z (p ++ [b])) with (len_z p + 1) by (rewrite len_z_app, len_z_cons, len_z_nil; lia).
    exact Hs.
Qed.

(* load_is_runs: _fsm_load_fsm_lw emits exactly the maximal zero runs of the bitmap *)
Theorem load_is_runs : forall l len, len_z l = len * 8 ->
  forall o n, In (o, n) (load_runs l len) <-> is_run l o n.
Proof.
  intros l len Hlen o n. unfold load_runs. rewrite load_scan_bits.
  pose proof (fold_scan_inv l [] (0, 0, [])) as H. simpl app in H. rewrite len_z_nil in H.
  assert (H0 : scan_inv l 0 (0, 0, [])).
  { unfold scan_inv. split; [reflexivity|]. split; [lia|]. split; [intros i Hi; lia|]. split; [left; lia|].
    intros o' n'. split; [intros []|]. intros (Hr & Hle). destruct Hr as (R1 & R2 & _). lia. }
  specialize (H H0). replace (0 + len_z l) with (len_z l) in H by lia.
  destruct (fold_left scan_bit l (0, 0, [])) as [[cb fl] acc].
  destruct H as (Hcb & Hfl & Hfree & Hleft & Hacc).
  rewrite <- in_rev.
  destruct (0 <? fl) eqn:Hpos.
  - apply Z.ltb_lt in Hpos. rewrite <- Hlen.
    assert (Hrun : is_run l (len_z l - fl) fl).
    { unfold is_run. split; [lia|]. split; [lia|]. split; [lia|]. split; [exact Hfree|]. split; [|left; lia].
      destruct Hleft as [Hl|Hl]; [left; lia|right; exact Hl]. }
    split.
    + intros [H|H]; [injection H as <- <-; exact Hrun|apply Hacc in H; destruct H as (Hr & _); exact Hr].
    + intros Hr. destruct (Z_le_gt_dec (o + n) (len_z l - fl)) as [Hle|Hgt].
      * right. apply Hacc. split; [exact Hr|lia].
      * left. assert (o + n <= len_z l) by (destruct Hr as (_ & _ & R3 & _); exact R3).
        assert (0 < n) by (destruct Hr as (_ & R2 & _); exact R2).
        destruct (runs_overlap_eq l o n (len_z l - fl) fl Hr Hrun) as [-> ->]; [lia|lia|reflexivity].
  - apply Z.ltb_ge in Hpos. assert (fl = 0) by lia. subst fl. split.
    + intros H. apply Hacc in H. destruct H as (Hr & _). exact Hr.
    + intros Hr. apply Hacc. split; [exact Hr|]. destruct Hr as (R1 & R2 & R3 & _). lia.
Qed.

(* ---------------------------------------------------------------- bits with a wall around the bitmap *)
(* wbit = the bit, reading "allocated" outside the bitmap: removes the case splits at both ends *)
Definition wbit (l : list bool) (i : Z) : bool := if (i <? 0) || (len_z l <=? i) then true else getb l i.

Lemma wbit_in : forall l i, 0 <= i < len_z l -> wbit l i = getb l i.
Proof. intros l i Hi. unfold wbit. replace (i <? 0) with false by lia. replace (len_z l <=? i) with false by lia. reflexivity. Qed.
Lemma wbit_out : forall l i, i < 0 \/ len_z l <= i -> wbit l i = true.
Proof.
  intros l i Hi. unfold wbit. destruct (i <? 0) eqn:H1; [reflexivity|]. destruct (len_z l <=? i) eqn:H2; [reflexivity|]. lia.
Qed.
Lemma wbit_false_in : forall l i, wbit l i = false -> 0 <= i < len_z l.
Proof.
  intros l i H. destruct (Z_lt_dec i 0); [rewrite wbit_out in H by lia; discriminate|].
  destruct (Z_le_dec (len_z l) i); [rewrite wbit_out in H by lia; discriminate|]. lia.
Qed.

Lemma is_run_w : forall l o n, is_run l o n <->
  (0 < n /\ (forall i, o <= i < o + n -> wbit l i = false) /\ wbit l (o - 1) = true /\ wbit l (o + n) = true).
Proof.
  intros l o n. split.
  - intros (H1 & H2 & H3 & H4 & H5 & H6). split; [exact H2|]. split; [|split].
    + intros i Hi. rewrite wbit_in by lia. apply H4. exact Hi.
    + destruct H5 as [->|H5]; [apply wbit_out; lia|].
      destruct (Z.eq_dec o 0) as [->|]; [apply wbit_out; lia|]. rewrite wbit_in by lia. exact H5.
    + destruct H6 as [H6|H6]; [apply wbit_out; lia|].
      destruct (Z.eq_dec (o + n) (len_z l)); [apply wbit_out; lia|]. rewrite wbit_in by lia. exact H6.
  - intros (H2 & H4 & H5 & H6).
    pose proof (wbit_false_in l o (H4 o ltac:(lia))) as Ho.
    pose proof (wbit_false_in l (o + n - 1) (H4 (o + n - 1) ltac:(lia))) as He.
    split; [lia|]. split; [exact H2|]. split; [lia|]. split; [|split].
    + intros i Hi. rewrite <- wbit_in by lia. apply H4. exact Hi.
    + destruct (Z.eq_dec o 0); [left; assumption|right]. rewrite <- wbit_in by lia. exact H5.
    + destruct (Z.eq_dec (o + n) (len_z l)); [left; assumption|right]. rewrite <- wbit_in by lia. exact H6.
Qed.

Lemma wbit_set_range : forall l a m v i, 0 <= a -> a + m <= len_z l ->
  wbit (set_range l a m v) i = if (a <=? i) && (i <? a + m) then v else wbit l i.
Proof.
  intros l a m v i Ha Hm. unfold wbit. rewrite set_range_length.
  destruct ((i <? 0) || (len_z l <=? i)) eqn:Hout.
  - apply orb_true_iff in Hout. destruct Hout as [H|H].
    + apply Z.ltb_lt in H. replace (a <=? i) with false by lia. reflexivity.
    + apply Z.leb_le in H. replace (i <? a + m) with false by lia. rewrite andb_false_r. reflexivity.
  - apply orb_false_iff in Hout. destruct Hout as [H1 H2]. apply Z.ltb_ge in H1. apply Z.leb_gt in H2.
    apply getb_set_range; lia.
Qed.

Lemma zero_in_run_w : forall l i, wbit l i = false -> exists o n, is_run l o n /\ o <= i < o + n.
Proof.
  intros l i H. pose proof (wbit_false_in l i H) as Hi. rewrite wbit_in in H by lia. apply zero_in_run; assumption.
Qed.

(* the agreement of two bitmaps outside a window, as produced by set_range *)
Definition agree_out (l l' : list bool) (a m : Z) (v : bool) : Prop :=
  forall i, wbit l' i = if (a <=? i) && (i <? a + m) then v else wbit l i.

Lemma agree_in : forall l l' a m v i, agree_out l l' a m v -> a <= i < a + m -> wbit l' i = v.
Proof. intros l l' a m v i H Hi. rewrite H. replace (a <=? i) with true by lia. replace (i <? a + m) with true by lia. reflexivity. Qed.
Lemma agree_off : forall l l' a m v i, agree_out l l' a m v -> i < a \/ a + m <= i -> wbit l' i = wbit l i.
Proof.
  intros l l' a m v i H Hi. rewrite H. destruct (a <=? i) eqn:H1; [|reflexivity].
  destruct (i <? a + m) eqn:H2; [|reflexivity]. apply Z.leb_le in H1. apply Z.ltb_lt in H2. lia.
Qed.

(* ---- allocation inside a maximal run: the run is replaced by what is left of it on both sides *)
Section AllocRuns.
  Variables (l l' : list bool) (ro rn a m : Z).
  Hypothesis Hag : agree_out l l' a m true.
  Hypothesis Hrun : is_run l ro rn.
  Hypothesis Ha : ro <= a.
  Hypothesis Hm : 0 < m.
  Hypothesis Hend : a + m <= ro + rn.

  Lemma alloc_keeps_other : forall o n, is_run l o n -> (o, n) <> (ro, rn) -> is_run l' o n.
  Proof.
    intros o n Hr Hne. pose proof Hr as Hr0. apply is_run_w in Hr. destruct Hr as (H2 & H4 & H5 & H6).
    assert (Hsep : ro + rn <= o \/ o + n <= ro).
    { destruct (Z_le_gt_dec (ro + rn) o); [left; assumption|]. destruct (Z_le_gt_dec (o + n) ro); [right; assumption|].
      destruct (runs_overlap_eq l o n ro rn Hr0 Hrun) as [-> ->]; [lia|lia|]. congruence. }
    apply is_run_w. split; [exact H2|]. split; [|split].
    - intros i Hi. rewrite (agree_off l l' a m true i Hag) by lia. apply H4. exact Hi.
    - rewrite Hag. destruct ((a <=? o - 1) && (o - 1 <? a + m)); [reflexivity|exact H5].
    - rewrite Hag. destruct ((a <=? o + n) && (o + n <? a + m)); [reflexivity|exact H6].
  Qed.

  Lemma alloc_left_rest : ro < a -> is_run l' ro (a - ro).
  Proof.
    intros Hlt. apply is_run_w in Hrun. destruct Hrun as (H2 & H4 & H5 & H6).
    apply is_run_w. split; [lia|]. split; [|split].
    - intros i Hi. rewrite (agree_off l l' a m true i Hag) by lia. apply H4. lia.
    - rewrite (agree_off l l' a m true (ro - 1) Hag) by lia. exact H5.
    - replace (ro + (a - ro)) with a by lia. apply (agree_in l l' a m true a Hag). lia.
  Qed.

  Lemma alloc_right_rest : a + m < ro + rn -> is_run l' (a + m) (ro + rn - (a + m)).
  Proof.
    intros Hlt. apply is_run_w in Hrun. destruct Hrun as (H2 & H4 & H5 & H6).
    apply is_run_w. split; [lia|]. split; [|split].
    - intros i Hi. rewrite (agree_off l l' a m true i Hag) by lia. apply H4. lia.
    - apply (agree_in l l' a m true (a + m - 1) Hag). lia.
    - replace (a + m + (ro + rn - (a + m))) with (ro + rn) by lia.
      rewrite (agree_off l l' a m true (ro + rn) Hag) by lia. exact H6.
  Qed.

  Theorem runs_after_alloc : forall o n, is_run l' o n <->
    ((is_run l o n /\ (o, n) <> (ro, rn)) \/ (o = ro /\ n = a - ro /\ ro < a) \/
     (o = a + m /\ n = ro + rn - (a + m) /\ a + m < ro + rn)).
  Proof.
    intros o n. split.
    - intros Hr'. pose proof Hr' as Hw. apply is_run_w in Hw. destruct Hw as (H2 & H4 & H5 & H6).
      assert (Ho' : wbit l' o = false) by (apply H4; lia).
      assert (Hnotin : o < a \/ a + m <= o).
      { destruct (Z_lt_le_dec o a); [left; assumption|]. destruct (Z_le_gt_dec (a + m) o); [right; assumption|].
        rewrite (agree_in l l' a m true o Hag) in Ho' by lia. discriminate. }
      assert (Ho : wbit l o = false) by (rewrite <- (agree_off l l' a m true o Hag) by lia; exact Ho').
      destruct (zero_in_run_w l o Ho) as (o2 & n2 & Hr2 & Hin2).
      destruct (Z.eq_dec o2 ro) as [E1|N1]; [destruct (Z.eq_dec n2 rn) as [E2|N2]|].
      + subst o2 n2. destruct Hnotin as [Hl|Hg].
        * right; left. destruct (runs_overlap_eq l' o n ro (a - ro) Hr' (alloc_left_rest ltac:(lia))) as [-> ->]; [lia|lia|]. lia.
        * right; right.
          destruct (runs_overlap_eq l' o n (a + m) (ro + rn - (a + m)) Hr' (alloc_right_rest ltac:(lia))) as [-> ->]; [lia|lia|]. lia.
      + left. assert (Hne : (o2, n2) <> (ro, rn)) by congruence.
        destruct (runs_overlap_eq l' o n o2 n2 Hr' (alloc_keeps_other o2 n2 Hr2 Hne)) as [-> ->]; [lia|lia|]. split; assumption.
      + left. assert (Hne : (o2, n2) <> (ro, rn)) by congruence.
        destruct (runs_overlap_eq l' o n o2 n2 Hr' (alloc_keeps_other o2 n2 Hr2 Hne)) as [-> ->]; [lia|lia|]. split; assumption.
    - intros [[Hr Hne]|[(-> & -> & Hlt)|(-> & -> & Hlt)]].
      + apply alloc_keeps_other; assumption.
      + apply alloc_left_rest; assumption.
      + apply alloc_right_rest; assumption.
  Qed.
End AllocRuns.

(* ---- release of an allocated range: it merges with the free neighbours lo..a and a+m..hi *)
Section FreeRuns.
  Variables (l l' : list bool) (a m lo hi : Z).
  Hypothesis Hag : agree_out l l' a m false.
  Hypothesis Hones : forall i, a <= i < a + m -> wbit l i = true.
  Hypothesis Hm : 0 < m.
  Hypothesis Hlo : lo <= a.
  Hypothesis Hhi : a + m <= hi.
  Hypothesis Hlob : wbit l (lo - 1) = true.
  Hypothesis Hhib : wbit l hi = true.
  Hypothesis Hlfree : forall i, lo <= i < a -> wbit l i = false.
  Hypothesis Hrfree : forall i, a + m <= i < hi -> wbit l i = false.

  Lemma free_merged : is_run l' lo (hi - lo).
  Proof.
    apply is_run_w. split; [lia|]. split; [|split].
    - intros i Hi. destruct (Z_lt_le_dec i a).
      + rewrite (agree_off l l' a m false i Hag) by lia. apply Hlfree. lia.
      + destruct (Z_lt_le_dec i (a + m)).
        * apply (agree_in l l' a m false i Hag). lia.
        * rewrite (agree_off l l' a m false i Hag) by lia. apply Hrfree. lia.
    - rewrite (agree_off l l' a m false (lo - 1) Hag) by lia. exact Hlob.
    - replace (lo + (hi - lo)) with hi by lia. rewrite (agree_off l l' a m false hi Hag) by lia. exact Hhib.
  Qed.

  Lemma free_keeps_far : forall o n, is_run l o n -> o + n < lo \/ hi < o -> is_run l' o n.
  Proof.
    intros o n Hr Hfar. apply is_run_w in Hr. destruct Hr as (H2 & H4 & H5 & H6).
    apply is_run_w. split; [exact H2|]. split; [|split].
    - intros i Hi. rewrite (agree_off l l' a m false i Hag) by lia. apply H4. exact Hi.
    - rewrite (agree_off l l' a m false (o - 1) Hag) by lia. exact H5.
    - rewrite (agree_off l l' a m false (o + n) Hag) by lia. exact H6.
  Qed.

  Theorem runs_after_free : forall o n, is_run l' o n <->
    ((o = lo /\ n = hi - lo) \/ (is_run l o n /\ (o + n < lo \/ hi < o))).
  Proof.
    intros o n. split.
    - intros Hr'. pose proof free_merged as Hmg.
      destruct (Z_lt_le_dec o hi) as [H1|H1]; [destruct (Z_lt_le_dec lo (o + n)) as [H2|H2]|].
      + left. destruct (runs_overlap_eq l' o n lo (hi - lo) Hr' Hmg) as [-> ->]; [lia|lia|]. split; reflexivity.
      + right. pose proof Hr' as Hw. apply is_run_w in Hw. destruct Hw as (W2 & W4 & W5 & W6).
        assert (o + n <> lo).
        { intros He. rewrite He in W6. apply is_run_w in Hmg. destruct Hmg as (_ & M4 & _). rewrite M4 in W6 by lia. discriminate. }
        split; [|left; lia]. apply is_run_w. split; [exact W2|]. split; [|split].
        * intros i Hi. rewrite <- (agree_off l l' a m false i Hag) by lia. apply W4. exact Hi.
        * rewrite <- (agree_off l l' a m false (o - 1) Hag) by lia. exact W5.
        * rewrite <- (agree_off l l' a m false (o + n) Hag) by lia. exact W6.
      + right. pose proof Hr' as Hw. apply is_run_w in Hw. destruct Hw as (W2 & W4 & W5 & W6).
        assert (o <> hi).
        { intros He. apply is_run_w in Hmg. destruct Hmg as (_ & _ & _ & M6). replace (lo + (hi - lo)) with hi in M6 by lia.
          rewrite <- He in M6. rewrite W4 in M6 by lia. discriminate. }
        split; [|right; lia]. apply is_run_w. split; [exact W2|]. split; [|split].
        * intros i Hi. rewrite <- (agree_off l l' a m false i Hag) by lia. apply W4. exact Hi.
        * rewrite <- (agree_off l l' a m false (o - 1) Hag) by lia. exact W5.
        * rewrite <- (agree_off l l' a m false (o + n) Hag) by lia. exact W6.
    - intros [[-> ->]|[Hr Hfar]]; [apply free_merged|apply free_keeps_far; assumption].
  Qed.

  (* the far runs of l are exactly its runs other than the two neighbours *)
  Lemma far_iff_not_neighbour : forall o n, is_run l o n ->
    ((o + n < lo \/ hi < o) <-> ((o, n) <> (lo, a - lo) /\ (o, n) <> (a + m, hi - (a + m)))).
  Proof.
    intros o n Hr. split.
    - intros Hfar. split; intros He; injection He as -> ->; lia.
    - intros [Hn1 Hn2]. pose proof Hr as Hw. apply is_run_w in Hw. destruct Hw as (W2 & W4 & W5 & W6).
      (* the run does not meet the allocated window *)
      assert (Hw1 : o + n <= a \/ a + m <= o).
      { destruct (Z_le_gt_dec (o + n) a); [left; assumption|]. destruct (Z_le_gt_dec (a + m) o); [right; assumption|].
        exfalso. destruct (Z_lt_le_dec o a).
        - specialize (W4 a). rewrite Hones in W4 by lia. specialize (W4 ltac:(lia)). discriminate.
        - specialize (W4 o). rewrite Hones in W4 by lia. specialize (W4 ltac:(lia)). discriminate. }
      destruct Hw1 as [Hl|Hg].
      + left. destruct (Z_lt_le_dec (o + n) lo) as [|Hge]; [assumption|exfalso].
        destruct (Z.eq_dec lo a) as [Hla|Hla].
        * (* no left neighbour: bit a-1 is set, the run would have to end at a *)
          assert (o + n = a) by lia. assert (Hx : wbit l (a - 1) = true) by (rewrite <- Hla; exact Hlob).
          specialize (W4 (a - 1) ltac:(lia)). rewrite Hx in W4. discriminate.
        * assert (Hleft : is_run l lo (a - lo)).
          { apply is_run_w. split; [lia|]. split; [|split].
            - intros i Hi. apply Hlfree. lia.
            - exact Hlob.
            - replace (lo + (a - lo)) with a by lia. apply Hones. lia. }
          destruct (Z.eq_dec (o + n) lo) as [He|].
          -- rewrite He in W6. rewrite Hlfree in W6 by lia. discriminate.
          -- destruct (runs_overlap_eq l o n lo (a - lo) Hr Hleft) as [-> ->]; [lia|lia|]. apply Hn1. reflexivity.
      + right. destruct (Z_lt_le_dec hi o) as [|Hle]; [assumption|exfalso].
        destruct (Z.eq_dec hi (a + m)) as [Hha|Hha].
        * assert (Ho : o = a + m) by lia. assert (Hx : wbit l (a + m) = true) by (rewrite <- Hha; exact Hhib).
          specialize (W4 o ltac:(lia)). rewrite Ho, Hx in W4. discriminate.
        * assert (Hright : is_run l (a + m) (hi - (a + m))).
          { apply is_run_w. split; [lia|]. split; [|split].
            - intros i Hi. apply Hrfree. lia.
            - apply Hones. lia.
            - replace (a + m + (hi - (a + m))) with hi by lia. exact Hhib. }
          destruct (Z.eq_dec o hi) as [He|].
          -- specialize (W4 o ltac:(lia)). rewrite He, Hhib in W4. discriminate.
          -- destruct (runs_overlap_eq l o n (a + m) (hi - (a + m)) Hr Hright) as [-> ->]; [lia|lia|]. apply Hn2. reflexivity.
  Qed.
End FreeRuns.
