(* C12 - executable model of the auto-expandable file, src/fs/iwexfile.c (+ iwfile.c, iwp_copy_bytes,
   pread/pwrite/ftruncate of platform/unix/unix.c).  NO proofs here (see Exf_proofs.v).

   State: the bytes of the file as the kernel sees them, the logical size `fsize`, `maxoff`, the page
   size, the sorted list of mmap slots and the state of the resize policy.
   A MAP_SHARED window is a view of `file`; a MAP_PRIVATE window is a per-page copy-on-write overlay
   (a page that was written through the window is detached from the file; untouched pages still show
   the file) which is dropped when the slot is remapped - this is what Linux does.

   Deliberate abstractions (each covered by the differential run, T2):
   * file I/O is complete (pread/pwrite transfer what is available/asked; no EINTR, ENOSPC);
   * a memcpy outside [0, len) of a window is the outcome EXF_CRASH (the real code has undefined behaviour);
   * no data listener (dlsnr = 0); the file is opened read-write (a read-only open is modelled up to the open itself:
     exfile_open_ro); the rwlock of the handle is modelled for one caller only (lstep: a call that needs the write lock while
     the caller holds a read lock never returns, EXF_HANG).
   The operating system is an oracle `ok : os_ok` handed to every function that can reach it:
   * os_grow ok n = false: ftruncate/fallocate to n bytes fails (RLIMIT_FSIZE -> EFBIG, ENOSPC, EDQUOT); _exfile_truncate_lw
     takes its `truncfail` exit.  Shrinking is never refused, and pwrite never extends the file in the repaired tree;
   * os_map ok t = false: an mmap that would bring the windows of this file to t bytes fails (ENOMEM: RLIMIT_AS,
     vm.max_map_count); _exfile_initmmap_slot_lw leaves the slot unmapped (len = 0: served through the file),
     _exfile_initmmap_lw stops at that slot, a growth is rolled back (70a7dcd).
   Places where the current tree may be in its unrepaired or repaired form are switched by behavioural facts
   (tools/probes/probe_exf.c -> record `quirks`), see notes/exf.md.  The plain file underneath (iwfile.c) is FS/ExfFile.v. *)
Require Import ZArith List Bool Lia.
Require Import IW.Lib.CInt IW.Gen.Facts.
Import ListNotations.
Local Open Scope Z_scope.

(* ---------------------------------------------------------------------------------------------- *)
(* byte lists addressed by Z *)
Definition zlen {A} (l : list A) : Z := Z.of_nat (length l).
Definition ztake {A} (n : Z) (l : list A) : list A := firstn (Z.to_nat n) l.
Definition zdrop {A} (n : Z) (l : list A) : list A := skipn (Z.to_nat n) l.
Definition zeros (n : Z) : list Z := repeat 0 (Z.to_nat n).

(* the kernel: ftruncate, pread, pwrite on a regular file *)
Definition ftrunc (file : list Z) (n : Z) : list Z := ztake n file ++ zeros (n - zlen file).
Definition pread (file : list Z) (off n : Z) : list Z := ztake n (zdrop off file).
Definition pwrite (file : list Z) (off : Z) (d : list Z) : list Z :=
  match d with
  | [] => file
  | _ => ztake off file ++ zeros (off - zlen file) ++ d ++ zdrop (off + zlen d) file
  end.
Definition splice (v : list Z) (p : Z) (d : list Z) : list Z := ztake p v ++ d ++ zdrop (p + zlen d) v.

(* ---------------------------------------------------------------------------------------------- *)
(* places where the tree may be in its unrepaired or repaired form (behavioural facts, tools/probes/probe_exf.c):
   q_mul_ge / q_copy_ensures / q_copy_src: repaired in the current tree (428feb8, c774cc5);
   q_copy_fwd:     iwp_copy_bytes carries out a forward-overlapping copy (back to front) instead of IW_ERROR_OVERFLOW;
   q_acq_unlocks:  _exfile_acquire_mmap releases the read lock when it answers IWFS_ERROR_NOT_MMAPED;
   q_maxoff_small: iwfs_exfile_open rejects a maximum offset below one page instead of treating it as "unlimited" *)
Record quirks := mkQ { q_mul_ge : bool; q_copy_ensures : bool; q_copy_src : bool;
                       q_copy_fwd : bool; q_acq_unlocks : bool; q_maxoff_small : bool }.
Definition tree_quirks : quirks :=
  mkQ EXF_MUL_GE_NSIZE EXF_COPY_ENSURES EXF_COPY_SRC_CHECKED EXF_COPY_FWD_OK EXF_ACQ_FAIL_UNLOCKS EXF_SMALL_MAXOFF_REJECTED.
Definition fixed_quirks : quirks := mkQ true true true true true true.
Definition orig_quirks : quirks := mkQ false false false false false false.

Definition EXF_CRASH : Z := -1.

(* the operating system as seen by one call:
   os_grow n = may the file grow to n bytes (ftruncate/fallocate; false = EFBIG/ENOSPC/EDQUOT);
   os_map t  = may a window be mapped when the windows of this file then hold t bytes of address space in total
               (mmap; false = ENOMEM: RLIMIT_AS, vm.max_map_count, exhausted address space) *)
Record os_ok := mkOs { os_grow : Z -> bool; os_map : Z -> bool }.
Definition os_any : os_ok := mkOs (fun _ => true) (fun _ => true).                 (* no refusal *)
Definition os_limit (l : Z) : os_ok := mkOs (fun n => n <=? l) (fun _ => true).    (* RLIMIT_FSIZE = l *)
Definition os_maplimit (b : Z) : os_ok := mkOs (fun _ => true) (fun t => t <=? b). (* RLIMIT_AS leaves b bytes for windows *)
Definition os_limits (l b : option Z) : os_ok :=
  mkOs (fun n => match l with Some l => n <=? l | None => true end)
       (fun t => match b with Some b => t <=? b | None => true end).

Record slot := mkSlot {
  s_off : Z;                            (* MMAPSLOT.off *)
  s_maxlen : Z;                         (* MMAPSLOT.maxlen *)
  s_len : Z;                            (* MMAPSLOT.len: mapped length, 0 = not mapped *)
  s_priv : bool;                        (* mmopts & IWFS_MMAP_PRIVATE *)
  s_pages : list (option (list Z))      (* private window: page i detached (Some bytes) or still the file *)
}.

Inductive policy :=
| PDefault                              (* _exfile_default_szpolicy *)
| PFibo (prev_sz : Z)                   (* iw_exfile_szpolicy_fibo with its context *)
| PMul (n dn : Z)                       (* iw_exfile_szpolicy_mul with IW_RNUM {n, dn} *)
| PMulNull.                             (* iw_exfile_szpolicy_mul with a null context *)

Record exf := mkExf {
  file : list Z; fsize : Z; maxoff : Z; psize : Z; slots : list slot; pol : policy
}.
Definition set_file st f := mkExf f (fsize st) (maxoff st) (psize st) (slots st) (pol st).
Definition set_slots st ss := mkExf (file st) (fsize st) (maxoff st) (psize st) ss (pol st).
Definition set_pol st p := mkExf (file st) (fsize st) (maxoff st) (psize st) (slots st) p.
Definition set_fs st f ss := mkExf f (fsize st) (maxoff st) (psize st) ss (pol st).

Definition aligned (x ps : Z) : bool := Z.land (uw 64 x) (ps - 1) =? 0.   (* !(x & (psize - 1)) *)

(* ---------------------------------------------------------------------------------------------- *)
(* resize policies: (nsize, csize) -> new size, new context *)
Definition clamp_off (x : Z) : Z := if x >? EXF_OFF_T_MAX then EXF_OFF_T_MAX else x.

Definition default_szpolicy (ps nsize : Z) : Z := sw 64 (IW_ROUNDUP (uw 64 nsize) ps).

Definition policy_call (q : quirks) (ps : Z) (p : policy) (nsize csize : Z) : Z * policy :=
  match p with
  | PDefault => (default_szpolicy ps nsize, p)
  | PFibo prev =>
    let res := uw 64 (uw 64 csize + uw 64 prev) in
    let res := if res >? uw 64 nsize then res else uw 64 nsize in           (* MAX(res, nsize) *)
    let res := IW_ROUNDUP res ps in
    (clamp_off res, PFibo csize)
  | PMulNull => (default_szpolicy ps nsize, p)
  | PMul n dn =>
    if (dn =? 0) || (n <? dn) then (default_szpolicy ps nsize, p)
    else
      let ret := uw 64 nsize / uw 64 dn in
      let ret := uw 64 (ret * uw 64 n) in
      let ret := if q_mul_ge q && (ret <? uw 64 nsize) then uw 64 nsize else ret in
      let ret := IW_ROUNDUP ret ps in
      (clamp_off ret, p)
  end.

(* ---------------------------------------------------------------------------------------------- *)
(* _exfile_initmmap_slot_lw / _exfile_initmmap_lw *)
Definition slot_nlen (fsz : Z) (s : slot) : Z :=
  if s_off s >=? fsz then 0 else Z.min (s_maxlen s) (fsz - s_off s).

(* bytes of address space held by the windows of a list *)
Definition mapped_total (ss : list slot) : Z := fold_right (fun s a => s_len s + a) 0 ss.

(* one slot: nothing to do when the length is right; otherwise the old mapping is dropped (munmap) and, when the new
   length is not zero, mmap is asked for it - `others` is what the other windows hold.  A refused mmap leaves the slot
   unmapped (len = 0, mmap = 0: readers and writers fall back to the file) and answers IW_ERROR_ERRNO. *)
Definition initmmap_slot (ok : os_ok) (ps fsz others : Z) (s : slot) : Z * slot :=
  let nlen := slot_nlen fsz s in
  if nlen =? s_len s then (0, s)
  else if (nlen >? 0) && negb (os_map ok (others + nlen)) then
    (EXF_E_ERRNO, mkSlot (s_off s) (s_maxlen s) 0 (s_priv s) [])
  else (0, mkSlot (s_off s) (s_maxlen s) nlen (s_priv s) (repeat None (Z.to_nat (nlen / ps)))).

(* _exfile_initmmap_lw: the slots in list order, stops at the first slot that cannot be mapped (the later ones keep
   what they had); `before` = bytes held by the slots already visited *)
Fixpoint initmmap_from (ok : os_ok) (ps fsz before : Z) (ss : list slot) : Z * list slot :=
  match ss with
  | [] => (0, [])
  | s :: tl =>
    let '(rc, s') := initmmap_slot ok ps fsz (before + mapped_total tl) s in
    if rc =? 0 then
      let '(rc', tl') := initmmap_from ok ps fsz (before + s_len s') tl in (rc', s' :: tl')
    else (rc, s' :: tl)
  end.
Definition initmmap (ok : os_ok) (ps fsz : Z) (ss : list slot) : Z * list slot := initmmap_from ok ps fsz 0 ss.

(* _exfile_truncate_lw (no listener, write mode).
   A refused growth: impl->fsize = size; iwp_fallocate fails; truncfail: impl->fsize = old_size; _exfile_initmmap_lw(f) -
   the windows are re-derived from the old size (the first error code is the one reported).
   Windows that cannot follow a growth: the file has grown already; iwp_ftruncate(old_size) gives the space back, then
   truncfail.  Windows that cannot follow a shrink: the file has not been cut yet (initmmap comes first); truncfail. *)
Definition truncate_lw (ok : os_ok) (st : exf) (size : Z) : Z * exf :=
  if size <? 0 then (EXF_E_OOB, st) else          (* a negative size is refused (it used to round to 0 and empty the file) *)
  let size := IW_ROUNDUP (uw 64 size) (psize st) in
  let old := fsize st in
  if old =? size then (0, st)
  else if old <? size then
    if negb (maxoff st =? 0) && (size >? maxoff st) then (EXF_E_MAXOFF, st)
    else if negb (os_grow ok size) then (EXF_E_IO, set_slots st (snd (initmmap ok (psize st) old (slots st))))
    else
      let '(rc, ss1) := initmmap ok (psize st) size (slots st) in
      if rc =? 0 then (0, mkExf (ftrunc (file st) size) size (maxoff st) (psize st) ss1 (pol st))
      else (rc, mkExf (ftrunc (ftrunc (file st) size) old) old (maxoff st) (psize st)
                      (snd (initmmap ok (psize st) old ss1)) (pol st))
  else
    let '(rc, ss1) := initmmap ok (psize st) size (slots st) in
    if rc =? 0 then (0, mkExf (ftrunc (file st) size) size (maxoff st) (psize st) ss1 (pol st))
    else (rc, set_slots st (snd (initmmap ok (psize st) old ss1))).

(* _exfile_ensure_size_lw *)
Definition ensure_size_lw (q : quirks) (ok : os_ok) (st : exf) (sz : Z) : Z * exf :=
  if sz <? 0 then (EXF_E_OOB, st)                 (* -1 is the "dispose" call of the policies: it used to empty the file *)
  else if fsize st >=? uw 64 sz then (0, st)
  else
    let '(nsz, pol') := policy_call q (psize st) (pol st) sz (fsize st) in
    let st1 := set_pol st pol' in
    if (nsz <? sz) || negb (aligned nsz (psize st)) then (EXF_E_POLFAIL, st1)
    else if negb (maxoff st =? 0) && (uw 64 nsz >? maxoff st) then
      let nsz := sw 64 (maxoff st) in
      if nsz <? sz then (EXF_E_MAXOFF, st1) else truncate_lw ok st1 nsz
    else truncate_lw ok st1 nsz.

(* ---------------------------------------------------------------------------------------------- *)
(* access through one window; position p is relative to the window start *)
Definition in_win (s : slot) (p n : Z) : bool := (0 <=? p) && (p + n <=? s_len s).

Definition page_view (ps : Z) (file : list Z) (s : slot) (i : nat) (pg : option (list Z)) : list Z :=
  match pg with
  | Some b => b
  | None => pread file (s_off s + Z.of_nat i * ps) ps
  end.

Fixpoint pages_view (ps : Z) (file : list Z) (s : slot) (i : nat) (pgs : list (option (list Z))) : list Z :=
  match pgs with
  | [] => []
  | pg :: tl => page_view ps file s i pg ++ pages_view ps file s (S i) tl
  end.

Definition win_view (ps : Z) (file : list Z) (s : slot) : list Z :=
  if s_priv s then pages_view ps file s 0 (s_pages s) else pread file (s_off s) (s_len s).

Definition win_read (ps : Z) (file : list Z) (s : slot) (p n : Z) : option (list Z) :=
  if in_win s p n then
    Some (if s_priv s then pread (win_view ps file s) p n else pread file (s_off s + p) n)
  else None.

Fixpoint cow_pages (ps : Z) (v : list Z) (lo hi : Z) (i : nat) (pgs : list (option (list Z))) : list (option (list Z)) :=
  match pgs with
  | [] => []
  | pg :: tl =>
    (if (lo <=? Z.of_nat i) && (Z.of_nat i <=? hi) then Some (pread v (Z.of_nat i * ps) ps) else pg)
      :: cow_pages ps v lo hi (S i) tl
  end.

Definition win_write (ps : Z) (file : list Z) (s : slot) (p : Z) (d : list Z) : option (slot * list Z) :=
  let n := zlen d in
  if in_win s p n then
    if s_priv s then
      if n =? 0 then Some (s, file) else            (* memcpy/memmove of nothing touches no page *)
      let v := splice (win_view ps file s) p d in
      Some (mkSlot (s_off s) (s_maxlen s) (s_len s) true (cow_pages ps v (p / ps) ((p + n - 1) / ps) 0 (s_pages s)), file)
    else Some (s, pwrite file (s_off s + p) d)
  else None.

(* ---------------------------------------------------------------------------------------------- *)
(* The loop shared by _exfile_write and _exfile_read: which part of [off, off+wp) is served from where.
   Mirrors the C loop statement by statement; `i` is the index of the slot in the list. *)
Inductive loc := ViaFile | ViaWin (i : nat).
Record piece := mkPiece { p_loc : loc; p_off : Z; p_len : Z }.

Fixpoint split (ss : list slot) (i : nat) (off wp : Z) : list piece * Z * Z :=
  match ss with
  | [] => ([], off, wp)
  | s :: tl =>
    if wp <=? 0 then ([], off, wp)                                                 (* while (s && wp > 0) *)
    else if (s_len s =? 0) || (wp + off <=? s_off s) then ([], off, wp)          (* break *)
    else
      let '(p1, off1, wp1) :=
        if s_off s >? off then
          let len := Z.min wp (s_off s - off) in
          ([mkPiece ViaFile off len], off + len, wp - len)
        else ([], off, wp) in
      let '(p2, off2, wp2) :=
        if (wp1 >? 0) && (s_off s <=? off1) && (s_off s + s_len s >? off1) then
          let len := Z.min wp1 (s_off s + s_len s - off1) in
          ([mkPiece (ViaWin i) off1 len], off1 + len, wp1 - len)
        else ([], off1, wp1) in
      let '(ps, off3, wp3) := split tl (S i) off2 wp2 in
      (p1 ++ p2 ++ ps, off3, wp3)
  end.

Definition split_all (ss : list slot) (off siz : Z) : list piece :=
  let '(ps, off', wp') := split ss 0 off siz in
  ps ++ (if wp' >? 0 then [mkPiece ViaFile off' wp'] else []).

Fixpoint set_nth {A} (i : nat) (x : A) (l : list A) : list A :=
  match l, i with
  | [], _ => []
  | _ :: tl, O => x :: tl
  | a :: tl, S k => a :: set_nth k x tl
  end.

Fixpoint write_pieces (ps : Z) (pcs : list piece) (data : list Z) (f : list Z) (ss : list slot) : option (list Z * list slot) :=
  match pcs with
  | [] => Some (f, ss)
  | p :: tl =>
    let d := ztake (p_len p) data in
    let r := match p_loc p with
             | ViaFile => Some (pwrite f (p_off p) d, ss)
             | ViaWin i =>
               match nth_error ss i with
               | Some s => match win_write ps f s (p_off p - s_off s) d with
                           | Some (s', f') => Some (f', set_nth i s' ss)
                           | None => None
                           end
               | None => None
               end
             end in
    match r with
    | Some (f', ss') => write_pieces ps tl (zdrop (p_len p) data) f' ss'
    | None => None
    end
  end.

Fixpoint read_pieces (ps : Z) (pcs : list piece) (f : list Z) (ss : list slot) : option (list Z) :=
  match pcs with
  | [] => Some []
  | p :: tl =>
    let r := match p_loc p with
             | ViaFile => Some (pread f (p_off p) (p_len p))
             | ViaWin i =>
               match nth_error ss i with
               | Some s => win_read ps f s (p_off p - s_off s) (p_len p)
               | None => None
               end
             end in
    match r, read_pieces ps tl f ss with
    | Some a, Some b => Some (a ++ b)
    | _, _ => None
    end
  end.

(* _exfile_write: rc, *sp, state *)
Definition exfile_write (q : quirks) (ok : os_ok) (st : exf) (off : Z) (data : list Z) : Z * Z * exf :=
  let siz := zlen data in
  let end_ := sw 64 (off + siz) in
  if (off <? 0) || (end_ <? 0) then (EXF_E_OOB, 0, st)
  else if negb (maxoff st =? 0) && (uw 64 (off + siz) >? maxoff st) then (EXF_E_MAXOFF, 0, st)
  else
    let '(rc, st1) := if end_ >? fsize st then ensure_size_lw q ok st end_ else (0, st) in
    if negb (rc =? 0) then (rc, 0, st1)
    else
      match write_pieces (psize st1) (split_all (slots st1) off siz) data (file st1) (slots st1) with
      | Some (f', ss') => (0, siz, set_fs st1 f' ss')
      | None => (EXF_CRASH, 0, st1)
      end.

(* on a handle opened read-only (omode without IWFS_OWRITE): _exfile_write and _exfile_copy answer IW_ERROR_READONLY whether the
   range is served by a window (a PROT_READ mapping) or by the file; rc, *sp *)
Definition exfile_write_ro (st : exf) (off : Z) (data : list Z) : Z * Z :=
  let end_ := sw 64 (off + zlen data) in
  if (off <? 0) || (end_ <? 0) then (EXF_E_OOB, 0)
  else if negb (maxoff st =? 0) && (uw 64 (off + zlen data) >? maxoff st) then (EXF_E_MAXOFF, 0)
  else (EXF_E_READONLY, 0).
Definition exfile_copy_ro (st : exf) (off siz noff : Z) : Z := EXF_E_READONLY.

(* _exfile_read: rc, *sp, bytes *)
Definition exfile_read (st : exf) (off siz : Z) : Z * Z * list Z :=
  let end_ := sw 64 (off + siz) in
  if (off <? 0) || (end_ <? 0) then (EXF_E_OOB, 0, [])
  else
    let siz := if end_ >? fsize st then fsize st - off else siz in
    match read_pieces (psize st) (split_all (slots st) off siz) (file st) (slots st) with
    | Some b => (0, zlen b, b)
    | None => (EXF_CRASH, 0, [])
    end.

(* iwp_copy_bytes: chunked pread/pwrite, the buffer is 4096 bytes (function-local in src/platform/iwp.c) *)
Definition COPY_CHUNK : Z := 4096.

Fixpoint copy_loop (fuel : nat) (f : list Z) (off siz noff pos : Z) : list Z :=
  match fuel with
  | O => f
  | S k =>
    if pos <? siz then
      match pread f (off + pos) (Z.min COPY_CHUNK (siz - pos)) with
      | [] => f
      | b => copy_loop k (pwrite f (noff + pos) b) off siz noff (pos + zlen b)
      end
    else f
  end.

(* the repaired variant of the forward-overlapping case: the chunks are moved back to front *)
Fixpoint copy_loop_back (fuel : nat) (f : list Z) (off noff pos : Z) : list Z :=
  match fuel with
  | O => f
  | S k =>
    if 0 <? pos then
      let c := Z.min COPY_CHUNK pos in
      copy_loop_back k (pwrite f (noff + pos - c) (pread f (off + pos - c) c)) off noff (pos - c)
    else f
  end.

Definition file_copy (q : quirks) (f : list Z) (off siz noff : Z) : Z * list Z :=
  if negb (IW_RANGES_OVERLAP off (off + siz) noff (noff + siz) =? 0) && (noff >? off) then
    if q_copy_fwd q then (0, copy_loop_back (S (Z.to_nat siz)) f off noff siz) else (EXF_E_OVERFLOW, f)
  else (0, copy_loop (S (Z.to_nat siz)) f off siz noff 0).

(* _exfile_copy *)
Definition exfile_copy (q : quirks) (ok : os_ok) (st : exf) (off siz noff : Z) : Z * exf :=
  let '(rc0, st0) := if q_copy_ensures q then ensure_size_lw q ok st (sw 64 (noff + siz)) else (0, st) in
  if negb (rc0 =? 0) then (rc0, st0)
  else
    let via_file := let '(rc, f') := file_copy q (file st0) off siz noff in (rc, set_file st0 f') in
    match slots st0 with
    | s :: tl =>
      if (0 <? s_len s) && (s_off s =? 0) && (s_len s >=? uw 64 (noff + siz)) then
        if q_copy_src q && negb (s_len s >=? uw 64 (off + siz)) then via_file
        else
          match win_read (psize st0) (file st0) s off siz with
          | Some b =>
            match win_write (psize st0) (file st0) s noff b with
            | Some (s', f') => (0, set_fs st0 f' (s' :: tl))
            | None => (EXF_CRASH, st0)
            end
          | None => (EXF_CRASH, st0)
          end
      else via_file
    | [] => via_file
    end.

(* _exfile_add_mmap_lw *)
Fixpoint insert_slot (ss : list slot) (ns : slot) : option (list slot) :=
  match ss with
  | [] => Some [ns]
  | s :: tl =>
    if negb (IW_RANGES_OVERLAP (s_off s) (s_off s + s_maxlen s) (s_off ns) (s_off ns + s_maxlen ns) =? 0) then None
    else if s_off ns <? s_off s then Some (ns :: s :: tl)
    else match insert_slot tl ns with
         | Some tl' => Some (s :: tl')
         | None => None
         end
  end.

Definition round_maxlen (ps off maxlen : Z) : Z :=
  let maxlen := if EXF_OFF_T_MAX - off <? maxlen then EXF_OFF_T_MAX - off else maxlen in
  let tmp := IW_ROUNDUP maxlen ps in
  if (tmp <? maxlen) || (EXF_OFF_T_MAX - off <? tmp) then IW_ROUNDOWN maxlen ps else tmp.

Definition add_mmap_lw (ok : os_ok) (st : exf) (off maxlen flags : Z) : Z * exf :=
  if negb (aligned off (psize st)) then (EXF_E_NOT_ALIGNED, st)
  else
    let maxlen := round_maxlen (psize st) off maxlen in
    if maxlen =? 0 then (EXF_E_OOB, st)
    else
      let '(rc, ns) := initmmap_slot ok (psize st) (fsize st) (mapped_total (slots st))
                         (mkSlot off maxlen 0 (negb (Z.land flags EXF_MMAP_PRIVATE =? 0)) []) in
      if negb (rc =? 0) then (rc, st)                 (* the new window is mapped before the overlap test *)
      else
        match insert_slot (slots st) ns with
        | Some ss' => (0, set_slots st ss')
        | None => (EXF_E_OVERLAP, st)
        end.

(* _exfile_remove_mmap_lw *)
Fixpoint remove_slot (ss : list slot) (off : Z) : option (list slot) :=
  match ss with
  | [] => None
  | s :: tl => if s_off s =? off then Some tl
               else match remove_slot tl off with Some tl' => Some (s :: tl') | None => None end
  end.

Definition remove_mmap_lw (st : exf) (off : Z) : Z * exf :=
  match remove_slot (slots st) off with
  | Some ss' => (0, set_slots st ss')
  | None => (EXF_E_NOTMM, st)
  end.

(* _exfile_probe_mmap_lr: rc, *sp *)
Fixpoint probe_mmap (ss : list slot) (off : Z) : Z * Z :=
  match ss with
  | [] => (EXF_E_NOTMM, 0)
  | s :: tl => if s_off s =? off then (if s_len s =? 0 then (EXF_E_NOTMM, 0) else (0, s_len s))
               else probe_mmap tl off
  end.

(* _exfile_acquire_mmap: rc, *sp (the read lock it keeps on success is outside the model: single caller, use_locks = 0) *)
Fixpoint acquire_mmap (ss : list slot) (off : Z) : Z * Z :=
  match ss with
  | [] => (EXF_E_NOTMM, 0)
  | s :: tl => if s_off s =? off then (if negb (s_len s =? 0) then (0, s_len s) else (EXF_E_NOTMM, 0))
               else acquire_mmap tl off
  end.

(* _exfile_sync_mmap_lr (msync itself does not fail in the model) *)
Fixpoint sync_mmap (ss : list slot) (off : Z) : Z :=
  match ss with
  | [] => EXF_E_NOTMM
  | s :: tl => if s_off s =? off then (if s_len s =? 0 then EXF_E_NOTMM else 0) else sync_mmap tl off
  end.

(* _exfile_remap_all: rc of _exfile_initmmap_lw, the slots as it left them *)
Definition remap_all (ok : os_ok) (st : exf) : Z * exf :=
  let '(rc, ss) := initmmap ok (psize st) (fsize st) (slots st) in (rc, set_slots st ss).

(* iwfs_exfile_open on an existing kernel file `f` (empty list = new file), write mode; when the initial
   growth is refused the handle is not created (the caller must ignore the state returned with rc <> 0) *)
Definition exfile_open (q : quirks) (ok : os_ok) (f : list Z) (initial maxoff_opt : Z) (p : policy) : Z * exf :=
  let ps := EXF_PSIZE in
  let mo := if maxoff_opt >=? ps then IW_ROUNDOWN maxoff_opt ps else 0 in
  let st := mkExf f (zlen f) mo ps [] p in
  if q_maxoff_small q && (0 <? maxoff_opt) && (maxoff_opt <? ps) then (EXF_E_INVARGS, st)
  else if zlen f <? initial then truncate_lw ok st initial
  else if negb (aligned (zlen f) ps) then truncate_lw ok st (zlen f)
  else (0, st).

(* the same on a file opened read-only (omode = IWFS_OREAD): _exfile_truncate_lw answers IW_ERROR_READONLY whenever the size
   would have to change - an initial size above the length of the file, or a length that is not a multiple of the page size *)
Definition exfile_open_ro (q : quirks) (f : list Z) (initial maxoff_opt : Z) (p : policy) : Z * exf :=
  let ps := EXF_PSIZE in
  let mo := if maxoff_opt >=? ps then IW_ROUNDOWN maxoff_opt ps else 0 in
  let st := mkExf f (zlen f) mo ps [] p in
  let trunc_ro size := if zlen f =? IW_ROUNDUP (uw 64 size) ps then (0, st) else (EXF_E_READONLY, st) in
  if q_maxoff_small q && (0 <? maxoff_opt) && (maxoff_opt <? ps) then (EXF_E_INVARGS, st)
  else if zlen f <? initial then trunc_ro initial
  else if negb (aligned (zlen f) ps) then trunc_ro (zlen f)
  else (0, st).

(* ---------------------------------------------------------------------------------------------- *)
(* one call of the public interface *)
Inductive op :=
| OWrite (off : Z) (d : list Z)
| ORead (off n : Z)
| OCopy (off siz noff : Z)
| OTruncate (sz : Z)
| OEnsure (sz : Z)
| OAddMmap (off maxlen flags : Z)
| ORemoveMmap (off : Z)
| ORemap
| OSync
| OProbe (off : Z)            (* probe_mmap: rc, length of the window *)
| OAcquire (off : Z)          (* acquire_mmap: rc, length of the window *)
| ORelease                    (* release_mmap *)
| OSyncMmap (off : Z)         (* sync_mmap *)
| OState.                     (* state: rc, fsize *)

Record out := mkOut { o_rc : Z; o_sp : Z; o_data : list Z }.

Definition step (q : quirks) (ok : os_ok) (st : exf) (o : op) : out * exf :=
  match o with
  | OWrite off d => let '(rc, sp, st') := exfile_write q ok st off d in (mkOut rc sp [], st')
  | ORead off n => let '(rc, sp, b) := exfile_read st off n in (mkOut rc sp b, st)
  | OCopy off siz noff => let '(rc, st') := exfile_copy q ok st off siz noff in (mkOut rc 0 [], st')
  | OTruncate sz => let '(rc, st') := truncate_lw ok st sz in (mkOut rc 0 [], st')
  | OEnsure sz => let '(rc, st') := ensure_size_lw q ok st sz in (mkOut rc 0 [], st')
  | OAddMmap off maxlen flags => let '(rc, st') := add_mmap_lw ok st off maxlen flags in (mkOut rc 0 [], st')
  | ORemoveMmap off => let '(rc, st') := remove_mmap_lw st off in (mkOut rc 0 [], st')
  | ORemap => let '(rc, st') := remap_all ok st in (mkOut rc 0 [], st')
  | OSync => (mkOut 0 0 [], st)
  | OProbe off => let '(rc, sp) := probe_mmap (slots st) off in (mkOut rc sp [], st)
  | OAcquire off => let '(rc, sp) := acquire_mmap (slots st) off in (mkOut rc sp [], st)
  | ORelease => (mkOut 0 0 [], st)
  | OSyncMmap off => (mkOut (sync_mmap (slots st) off) 0 [], st)
  | OState => (mkOut 0 (fsize st) [], st)
  end.

(* ---------------------------------------------------------------------------------------------- *)
(* the read/write lock of the handle (use_locks = 1), one caller.  `held` = read locks the caller still holds: a successful
   acquire_mmap keeps one until release_mmap.  A call that needs the write lock while the caller holds a read lock never
   returns (pthread_rwlock_wrlock waits for the reader, which is the caller itself): outcome EXF_HANG. *)
Definition EXF_HANG : Z := -2.

Definition needs_wlock (st : exf) (o : op) : bool :=
  match o with
  | OTruncate _ | OAddMmap _ _ _ | ORemoveMmap _ | ORemap => true
  | OWrite off d =>
    let end_ := sw 64 (off + zlen d) in
    negb ((off <? 0) || (end_ <? 0)) && negb (negb (maxoff st =? 0) && (uw 64 (off + zlen d) >? maxoff st)) && (end_ >? fsize st)
  | OEnsure sz => negb (fsize st >=? sz)
  | _ => false
  end.

Definition lstep (q : quirks) (ok : os_ok) (held : Z) (st : exf) (o : op) : out * Z * exf :=
  if needs_wlock st o && (0 <? held) then (mkOut EXF_HANG 0 [], held, st)
  else
    let '(r, st') := step q ok st o in
    let held' := match o with
                 | OAcquire _ => if o_rc r =? 0 then held + 1 else if q_acq_unlocks q then held else held + 1
                 | ORelease => held - 1
                 | _ => held
                 end in
    (r, held', st').

Fixpoint run (q : quirks) (ok : os_ok) (st : exf) (os : list op) : list out * exf :=
  match os with
  | [] => ([], st)
  | o :: tl => let '(r, st1) := step q ok st o in let '(rs, st2) := run q ok st1 tl in (r :: rs, st2)
  end.

(* ---------------------------------------------------------------------------------------------- *)
(* The specification: a flat byte array (its length is the size), a limit and a policy; no windows,
   no macros.  `rup` is rounding up to a multiple of the page size. *)
Definition rup (x ps : Z) : Z := (x + ps - 1) / ps * ps.

Definition spec_policy (ps : Z) (p : policy) (nsize csize : Z) : Z * policy :=
  match p with
  | PDefault => (rup nsize ps, p)
  | PFibo prev => (rup (Z.max (csize + prev) nsize) ps, PFibo csize)
  | PMulNull => (rup nsize ps, p)
  | PMul n dn => if (dn =? 0) || (n <? dn) then (rup nsize ps, p)
                 else (rup (Z.max (nsize / dn * n) nsize) ps, p)
  end.

Record flat := mkFlat { a_bytes : list Z; a_maxoff : Z; a_pol : policy }.

Definition spec_resize (a : flat) (n : Z) (p : policy) : flat := mkFlat (ftrunc (a_bytes a) n) (a_maxoff a) p.

(* a size change the rules allow: carried out, unless it is a growth the operating system refuses - then the
   answer is an I/O error and not one byte changes (the policy has been consulted: its context may have advanced) *)
Definition spec_grow (ok : os_ok) (a : flat) (n : Z) (p : policy) : Z * flat :=
  if (zlen (a_bytes a) <? n) && negb (os_grow ok n) then (EXF_E_IO, mkFlat (a_bytes a) (a_maxoff a) p)
  else (0, spec_resize a n p).

(* size request: grow (never shrink) to the size the policy names, limited by maxoff *)
Definition spec_ensure (ps : Z) (ok : os_ok) (a : flat) (sz : Z) : Z * flat :=
  if zlen (a_bytes a) >=? sz then (0, a)
  else
    let '(n, p) := spec_policy ps (a_pol a) sz (zlen (a_bytes a)) in
    if negb (a_maxoff a =? 0) && (n >? a_maxoff a) then
      if a_maxoff a <? sz then (EXF_E_MAXOFF, mkFlat (a_bytes a) (a_maxoff a) p)
      else spec_grow ok a (a_maxoff a) p
    else spec_grow ok a n p.

Definition spec_truncate (ps : Z) (ok : os_ok) (a : flat) (sz : Z) : Z * flat :=
  let n := rup sz ps in
  if negb (a_maxoff a =? 0) && (zlen (a_bytes a) <? n) && (n >? a_maxoff a) then (EXF_E_MAXOFF, a)
  else spec_grow ok a n (a_pol a).

Definition spec_write (ps : Z) (ok : os_ok) (a : flat) (off : Z) (d : list Z) : Z * Z * flat :=
  if negb (a_maxoff a =? 0) && (off + zlen d >? a_maxoff a) then (EXF_E_MAXOFF, 0, a)
  else
    let '(rc, a1) := spec_ensure ps ok a (off + zlen d) in
    if negb (rc =? 0) then (rc, 0, a1)
    else (0, zlen d, mkFlat (splice (a_bytes a1) off d) (a_maxoff a1) (a_pol a1)).

Definition spec_read (a : flat) (off n : Z) : list Z := pread (a_bytes a) off n.

Definition abs (st : exf) : flat := mkFlat (file st) (maxoff st) (pol st).

(* what a reader sees when MAP_PRIVATE windows are registered: the file with the content of every mapped private
   window (its detached pages; untouched pages still show the file) laid over it.  Without private windows it is the file. *)
Fixpoint overlay (ps : Z) (f v : list Z) (ss : list slot) : list Z :=
  match ss with
  | [] => v
  | s :: tl => overlay ps f (if s_priv s && (0 <? s_len s) then splice v (s_off s) (win_view ps f s) else v) tl
  end.
Definition view (st : exf) : list Z := overlay (psize st) (file st) (file st) (slots st).
Definition vabs (st : exf) : flat := mkFlat (view st) (maxoff st) (pol st).

(* copy: the size request for the destination, then the bytes of the source range that exist are moved - whatever the
   direction of an overlap and whether the ranges are served by a window or by the file (8dc0de1: iwp_copy_bytes moves a
   forward-overlapping range back to front; before, it was refused with IW_ERROR_OVERFLOW after the file had grown) *)
Definition spec_copy (ps : Z) (ok : os_ok) (a : flat) (off siz noff rc : Z) (a' : flat) : Prop :=
  let '(rc1, a1) := spec_ensure ps ok a (noff + siz) in
  if rc1 =? 0 then
    rc = 0 /\ a' = mkFlat (splice (a_bytes a1) noff (pread (a_bytes a1) off siz)) (a_maxoff a1) (a_pol a1)
  else rc = rc1 /\ a' = a1.

(* the flat array has no windows; what it says about a call during which the operating system refuses to map a window:
   the answer is IW_ERROR_ERRNO, nothing is transferred and not one byte changes (the resize policy may have been
   consulted) - and this answer is possible only if the operating system does refuse some mapping *)
Definition spec_mapfail (ok : os_ok) (a : flat) (r : out) (a' : flat) : Prop :=
  o_rc r = EXF_E_ERRNO /\ o_sp r = 0 /\ o_data r = [] /\ a_bytes a' = a_bytes a /\ a_maxoff a' = a_maxoff a /\
  exists t, os_map ok t = false.

(* what the flat array machine allows as the answer `r` and next state `a'` of one call; registering,
   removing, remapping, probing and syncing windows do not change it *)
Definition spec_step_rel (ps : Z) (ok : os_ok) (a : flat) (o : op) (r : out) (a' : flat) : Prop :=
  match o with
  | OWrite off d => spec_write ps ok a off d = (o_rc r, o_sp r, a') \/ spec_mapfail ok a r a'
  | ORead off n => o_rc r = 0 /\ o_data r = spec_read a off n /\ o_sp r = zlen (o_data r) /\ a' = a
  | OCopy off siz noff => spec_copy ps ok a off siz noff (o_rc r) a' \/ spec_mapfail ok a r a'
  | OTruncate sz => spec_truncate ps ok a sz = (o_rc r, a') \/ spec_mapfail ok a r a'
  | OEnsure sz => spec_ensure ps ok a sz = (o_rc r, a') \/ spec_mapfail ok a r a'
  | OAddMmap _ _ _ | ORemap => a' = a /\ (o_rc r = EXF_E_ERRNO -> exists t, os_map ok t = false)
  | ORemoveMmap _ | OSync | OProbe _ | OAcquire _ | ORelease | OSyncMmap _ => a' = a
  | OState => a' = a /\ o_rc r = 0 /\ o_sp r = zlen (a_bytes a)
  end.

Inductive spec_run_rel (ps : Z) (ok : os_ok) : flat -> list op -> list out -> flat -> Prop :=
| SR_nil : forall a, spec_run_rel ps ok a [] [] a
| SR_cons : forall a o r a1 os rs a2, spec_step_rel ps ok a o r a1 -> spec_run_rel ps ok a1 os rs a2 ->
    spec_run_rel ps ok a (o :: os) (r :: rs) a2.
