(* C12 - executable model of the plain file underneath the extensible file, src/fs/iwfile.c: the normalisation of the open
   options in iwfs_file_open, the open status, what open(2) does to the file, and the method table (read, write, copy,
   sync, state, close).  NO proofs here (see ExfFile_proofs.v).
   The kernel side: a file is `Some bytes` or does not exist (`None`).  pread/pwrite/the chunked copy are those of FS/Exf.v.
   Not modelled: permissions (filemode is only normalised), flock between processes (the lock is granted; the refusal is
   exercised by the harness only), the data listener. *)
Require Import ZArith List Bool Lia.
Require Import IW.Lib.CInt IW.Gen.Facts IW.FS.Exf.
Import ListNotations.
Local Open Scope Z_scope.

Record fopts := mkFo { fo_omode : Z; fo_lock : Z; fo_filemode : Z }.

Definition has (x flag : Z) : bool := negb (Z.land x flag =? 0).

(* iwfs_file_open, from `if (!opts->lock_mode)` to `opts->lock_mode &= ~IWP_WLOCK`, statement by statement;
   omode and lock_mode are uint8_t *)
Definition norm_opts (o : fopts) : fopts :=
  let lock := if fo_lock o =? 0 then EXF_DEFAULT_LOCKMODE else fo_lock o in
  let om := if fo_omode o =? 0 then EXF_DEFAULT_OMODE else fo_omode o in
  let fm := if fo_filemode o =? 0 then EXF_DEFAULT_FILEMODE else fo_filemode o in
  let om := Z.lor om EXF_OREAD in
  let om1 := if has om EXF_OTMP then Z.lor om EXF_OTRUNC else om in
  let lock1 := if has om EXF_OTMP then Z.lor lock EXF_WLOCK else lock in
  let om2 := if has om1 EXF_OTRUNC then Z.lor (Z.lor om1 EXF_OWRITE) EXF_OCREATE else om1 in
  let om3 := if has om2 EXF_OUNLINK then Z.lor om2 EXF_OWRITE else om2 in
  let om4 := if has om3 EXF_OCREATE || has om3 EXF_OTRUNC then Z.lor om3 EXF_OWRITE else om3 in
  let lock2 := if negb (has om4 EXF_OWRITE) && has lock1 EXF_WLOCK then Z.land lock1 (255 - EXF_WLOCK) else lock1 in
  mkFo om4 lock2 fm.

(* an open plain file *)
Record pfile := mkPf { pf_opts : fopts; pf_ostatus : Z; pf_bytes : list Z }.

(* iwfs_file_open on the kernel file k (an IWFS_OTMP open names a fresh file: pass None): rc, the handle, the kernel file afterwards *)
Definition file_open (o : fopts) (k : option (list Z)) : Z * option pfile * option (list Z) :=
  let n := norm_opts o in
  let om := fo_omode n in
  let ostatus := match k with
                 | Some _ => if has om EXF_OTRUNC then EXF_OPEN_NEW else EXF_OPEN_EXISTING
                 | None => EXF_OPEN_NEW
                 end in
  (* open(2): O_RDWR [| O_CREAT] [| O_TRUNC] when IWFS_OWRITE, else O_RDONLY *)
  match k with
  | None =>
    if has om EXF_OWRITE && has om EXF_OCREATE then (0, Some (mkPf n ostatus []), Some [])
    else (EXF_E_NOT_EXISTS, None, None)
  | Some b =>
    let b' := if has om EXF_OWRITE && has om EXF_OTRUNC then [] else b in
    (0, Some (mkPf n ostatus b'), Some b')
  end.

(* _iwfs_write: rc, *sp (left alone when the file is read-only), the file *)
Definition pf_write (p : pfile) (off : Z) (d : list Z) : Z * option Z * pfile :=
  if negb (has (fo_omode (pf_opts p)) EXF_OWRITE) then (EXF_E_READONLY, None, p)
  else (0, Some (zlen d), mkPf (pf_opts p) (pf_ostatus p) (pwrite (pf_bytes p) off d)).

(* _iwfs_read: rc, *sp, the bytes *)
Definition pf_read (p : pfile) (off n : Z) : Z * Z * list Z :=
  let b := pread (pf_bytes p) off n in (0, zlen b, b).

(* _iwfs_copy *)
Definition pf_copy (q : quirks) (p : pfile) (off siz noff : Z) : Z * pfile :=
  if negb (has (fo_omode (pf_opts p)) EXF_OWRITE) then (EXF_E_READONLY, p)
  else let '(rc, b) := file_copy q (pf_bytes p) off siz noff in (rc, mkPf (pf_opts p) (pf_ostatus p) b).

(* _iwfs_close: the kernel file afterwards (IWFS_OUNLINK removes it) *)
Definition pf_close (p : pfile) : option (list Z) :=
  if has (fo_omode (pf_opts p)) EXF_OUNLINK then None else Some (pf_bytes p).
