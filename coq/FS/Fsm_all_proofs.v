(* Deepening round of the fsm family (C10, C11), src/fs/iwfsmfile.c.
   A. the defects reported on the unchanged library, as statements about the model: reallocate without the header / bitmap
      guard (refuted on the code as it is, proved for the code after fixes/fsm-realloc-guard.diff); address hints and
      requests of 2^32 blocks and more (the lookup is complete after fixes/fsm-alloc-overflow.diff, refuted before).
   B. [hdr_current] and the state predicate [Full] as invariants of EVERY history (bitmap growth through both retry loops
      of _fsm_blk_allocate_lw, _fsm_trim_tail_lw, _fsm_clear, close with trim + reopen), starting from a new file. *)
Require Import ZArith List Bool Lia Sorted.
Require Import IW.Lib.CInt IW.Gen.Facts IW.FS.Bits IW.FS.Bits_proofs IW.FS.Fsm IW.FS.Fsm_hdr_proofs IW.FS.Fsm_proofs.
Import ListNotations.
Local Open Scope Z_scope. Local Open Scope bool_scope.
Ltac Zify.zify_post_hook ::= Z.div_mod_to_equations.

(* ================================================================ A1. reallocate and the allocator's own areas *)
(* code after fixes/fsm-realloc-guard.diff: an old range that is empty or touches the header / the bitmap area changes
   nothing; the call answers 0 only in the no-op case (same number of blocks asked as held) *)
Theorem realloc_meta_refused : forall s nlen addr olen opts ovr, fx_realloc (vr s) = true ->
  blk_of s olen < 1 \/ touches_meta s (blk_of s addr) (blk_of s olen) = true ->
  let '(rc, s', a, l) := reallocate s nlen addr olen opts ovr in
  s' = s /\ a = addr /\ l = olen /\ (rc = 0 -> shr (IW_ROUNDUP nlen (pow2 (bpow s))) (bpow s) = blk_of s olen).
Proof.
  intros s nlen addr olen opts ovr Hfx H. unfold reallocate.
  destruct (negb (Z.land addr (blkmask s) =? 0) || negb (Z.land olen (blkmask s) =? 0));
    [repeat split; intros Hc; discriminate Hc|].
  destruct (fx_recheck (vr s) && (nlen <? 0)); [repeat split; intros Hc; discriminate Hc|].
  destruct (shr (IW_ROUNDUP nlen (pow2 (bpow s))) (bpow s) =? blk_of s olen) eqn:E;
    [repeat split; intros _; apply Z.eqb_eq; exact E|].
  rewrite Hfx. simpl andb.
  destruct (blk_of s olen <? 1) eqn:E1; [repeat split; intros Hc; discriminate Hc|].
  destruct H as [H|H]; [apply Z.ltb_ge in E1; lia|]. rewrite H.
  repeat split; intros Hc; discriminate Hc.
Qed.

(* the code as it is (v_head = /repo at the time of this round): on a NEW file, reallocate(192, &a = 0, &l = 128) answers 0 with
   a = 128 - the two header blocks have been released - and the next allocate(64) returns address 0: the file header *)
Theorem realloc_meta_refused_refuted : exists s nlen addr olen opts,
  touches_meta s (blk_of s addr) (blk_of s olen) = true /\
  (let '(rc, s1, a, l) := reallocate s nlen addr olen opts false in
   rc = 0 /\ getb (bm s1) 0 = false /\
   (let '(rc2, _, a2, l2) := allocate s1 64 0 0 false in rc2 = 0 /\ a2 = 0 /\ a2 < hdrlen s)).
Proof.
  exists (fresh v_head false), 192, 0, 128, 0. split; [vm_compute; reflexivity|].
  vm_compute. repeat split; reflexivity.
Qed.

Definition rc_of (r : aret) : Z := let '(rc, _, _, _) := r in rc.
Definition addr_of (r : aret) : Z := let '(_, _, a, _) := r in a.
Definition len_of (r : aret) : Z := let '(_, _, _, l) := r in l.

(* ... and in strict mode the allocator's own bitmap (blocks 64..127 of a new file) shrunk to one block: 63 of its 64 blocks
   are free afterwards (the strict probe does not object: these blocks ARE allocated) *)
Theorem realloc_bitmap_refuted : exists s, strict s = true /\ BmArea s /\
  (let r := reallocate s 64 4096 4096 0 false in
   rc_of r = 0 /\ bmoff (state_of r) = 4096 /\ bmlen (state_of r) = 4096 /\
   getb (bm (state_of r)) 65 = false /\ getb (bm (state_of r)) 127 = false /\ ~ BmArea (state_of r)).
Proof.
  exists (fresh v_head true). split; [reflexivity|]. split.
  - unfold BmArea. split; [dec_goal|]. split; [dec_goal|]. split; [dec_goal|].
    split; [dec_goal|]. intros i Hi.
    change (shr (bmoff (fresh v_head true)) (bpow (fresh v_head true))) with 64 in Hi.
    change (shr (bmlen (fresh v_head true)) (bpow (fresh v_head true))) with 64 in Hi.
    assert (Hall : all_range (bm (fresh v_head true)) 64 64 true = true) by (vm_compute; reflexivity).
    apply (proj1 (all_range_spec (bm (fresh v_head true)) 64 64 true ltac:(lia) ltac:(lia) ltac:(dec_goal)) Hall). lia.
  - cbv zeta. set (s1 := state_of (reallocate (fresh v_head true) 64 4096 4096 0 false)).
    split; [vm_compute; reflexivity|]. split; [vm_compute; reflexivity|]. split; [vm_compute; reflexivity|].
    split; [vm_compute; reflexivity|]. split; [vm_compute; reflexivity|].
    intros (_ & _ & _ & _ & B). specialize (B 65).
    assert (Hb : getb (bm s1) 65 = false) by (vm_compute; reflexivity).
    rewrite B in Hb; [discriminate|]. split; dec_goal.
Qed.

(* the same two calls on the model of the code after the fix: refused, nothing changes *)
Example realloc_meta_fixed_on_new_file :
  (let r := reallocate (fresh v_fixed false) 192 0 128 0 false in
   rc_of r = IWFS_ERROR_FSM_SEGMENTATION /\ state_of r = fresh v_fixed false /\ (addr_of r, len_of r) = (0, 128)) /\
  (let r := reallocate (fresh v_fixed true) 64 4096 4096 0 false in
   rc_of r = IWFS_ERROR_FSM_SEGMENTATION /\ state_of r = fresh v_fixed true /\ (addr_of r, len_of r) = (4096, 4096)).
Proof.
  split; cbv zeta.
  - assert (Ht : touches_meta (fresh v_fixed false) (blk_of (fresh v_fixed false) 0) (blk_of (fresh v_fixed false) 128) = true)
      by (vm_compute; reflexivity).
    pose proof (realloc_meta_refused (fresh v_fixed false) 192 0 128 0 false eq_refl (or_intror Ht)) as H.
    split; [vm_compute; reflexivity|].
    destruct (reallocate (fresh v_fixed false) 192 0 128 0 false) as [[[rc s'] a] l].
    cbv beta iota in H. destruct H as (-> & -> & -> & _). split; reflexivity.
  - assert (Ht : touches_meta (fresh v_fixed true) (blk_of (fresh v_fixed true) 4096) (blk_of (fresh v_fixed true) 4096) = true)
      by (vm_compute; reflexivity).
    pose proof (realloc_meta_refused (fresh v_fixed true) 64 4096 4096 0 false eq_refl (or_intror Ht)) as H.
    split; [vm_compute; reflexivity|].
    destruct (reallocate (fresh v_fixed true) 64 4096 4096 0 false) as [[[rc s'] a] l].
    cbv beta iota in H. destruct H as (-> & -> & -> & _). split; reflexivity.
Qed.

(* ================================================================ A2. address hints and requests of 2^32 blocks and more *)
(* iwavl_lookup_bounds: the lower bound is the GREATEST entry not above the key *)
Lemma lookup_bounds_lb : forall k t lb0 lb ub, tsorted t -> lookup_bounds k t lb0 = (lb, ub) ->
  (lb = lb0 /\ forall x, In x t -> klt k x) \/
  (exists l, lb = Some l /\ In l t /\ (l = k \/ klt l k) /\ forall x, In x t -> (x = k \/ klt x k) -> (x = l \/ klt x l)).
Proof.
  induction t as [|y r IH]; intros lb0 lb ub Hs H; simpl in H.
  - injection H as <- <-. left. split; [reflexivity|intros x []].
  - apply tsorted_inv in Hs. destruct Hs as [Hr Hall]. rewrite Forall_forall in Hall.
    destruct (cmp_key k y <? 0) eqn:E1.
    + injection H as <- <-. apply cmp_key_lt in E1. left. split; [reflexivity|].
      intros x [<-|Hx]; [exact E1|]. eapply klt_trans; [exact E1|apply Hall; exact Hx].
    + destruct (cmp_key k y =? 0) eqn:E2.
      * injection H as <- <-. apply cmp_key_eq in E2. subst y. right. exists k.
        split; [reflexivity|]. split; [left; reflexivity|]. split; [left; reflexivity|]. intros x _ Hx. exact Hx.
      * pose proof (cmp_key_gt _ _ E1 E2) as Hyk.
        destruct (IH (Some y) lb ub Hr H) as [[-> Hgt]|(l & -> & Hl & Hlk & Hmax)]; right.
        -- exists y. split; [reflexivity|]. split; [left; reflexivity|]. split; [right; exact Hyk|].
           intros x [<-|Hx] Hxk; [left; reflexivity|]. exfalso. specialize (Hgt x Hx).
           destruct Hxk as [->|Hxk]; [exact (klt_irrefl _ Hgt)|exact (klt_irrefl _ (klt_trans _ _ _ Hgt Hxk))].
        -- exists l. split; [reflexivity|]. split; [right; exact Hl|]. split; [exact Hlk|].
           intros x [<-|Hx] Hxk; [right; apply Hall; exact Hl|apply Hmax; assumption].
Qed.

(* _fsm_find_matching_fblock_lw is COMPLETE when the key can be formed: it finds an extent whenever one is long enough *)
Lemma fm_lookup_complete : forall s off len, tsorted (tree s) -> bkey_ok off len = true -> 0 < len ->
  (exists x, In x (tree s) /\ len <= fst x) -> exists k, fm_lookup s off len = Some k.
Proof.
  intros s off len Hs Hok Hlen (x & Hx & Hxl). unfold fm_lookup. rewrite Hok. simpl negb. cbv iota.
  destruct (lookup_bounds (len, off) (tree s) None) as [lb ub] eqn:E.
  pose proof (lookup_bounds_ub _ _ _ _ _ E) as [Hn Hu]. pose proof (lookup_bounds_lb _ _ _ _ _ Hs E) as Hlb.
  destruct (klt_total x (len, off)) as [Hlt|Hge].
  - (* an entry of exactly this length at a lower offset: it is under the lower bound, which has this length too *)
    assert (Hfx : fst x = len) by (destruct Hlt as [Hq|[Hq _]]; simpl in Hq; lia).
    destruct Hlb as [[_ Hgt]|(l & -> & Hl & Hlk & Hmax)].
    + exfalso. exact (klt_irrefl _ (klt_trans _ _ _ Hlt (Hgt x Hx))).
    + assert (Hfl : fst l = len).
      { specialize (Hmax x Hx (or_intror Hlt)).
        assert (fst x <= fst l) by (destruct Hmax as [->|[Hq|[Hq _]]]; lia).
        assert (fst l <= len) by (destruct Hlk as [->|[Hq|[Hq _]]]; simpl in *; lia). lia. }
      cbv beta iota zeta. rewrite Hfl, Z.eqb_refl. exists l. reflexivity.
  - (* an entry at or above the key: the upper bound exists and is at least as long *)
    destruct ub as [u|].
    + assert (Hul : len <= fst u).
      { destruct (Hu u eq_refl) as [->|[Hq|[Hq _]]]; simpl in *; lia. }
      destruct lb as [l|]; cbv beta iota zeta.
      * destruct (fst l =? len); [exists l; reflexivity|]. destruct (fst u =? len) eqn:E2; [exists u; reflexivity|].
        destruct (fst l >? len); [exists l; reflexivity|]. apply Z.eqb_neq in E2.
        replace (fst u >? len) with true by (symmetry; apply Z.gtb_lt; lia). exists u. reflexivity.
      * replace (0 =? len) with false by (symmetry; apply Z.eqb_neq; lia).
        destruct (fst u =? len) eqn:E2; [exists u; reflexivity|]. apply Z.eqb_neq in E2.
        replace (0 >? len) with false by (symmetry; rewrite Z.gtb_ltb; apply Z.ltb_ge; lia).
        replace (fst u >? len) with true by (symmetry; apply Z.gtb_lt; lia). exists u. reflexivity.
    + exfalso. specialize (Hn eq_refl x Hx). destruct Hge as [->|Hgt]; [exact (klt_irrefl _ Hn)|exact (klt_irrefl _ (klt_trans _ _ _ Hn Hgt))].
Qed.

(* after fixes/fsm-alloc-overflow.diff the hint can always be put into a key *)
Lemma hint_of_ok : forall s off len, 0 <= len <= FSM_BKEY_MAX -> fx_hint (vr s) = true \/ off <= FSM_BKEY_MAX ->
  bkey_ok (hint_of s off) len = true.
Proof.
  intros s off len Hl H. unfold hint_of, bkey_ok. apply andb_true_iff. split; [|apply Z.leb_le; lia].
  destruct (off >? FSM_BKEY_MAX) eqn:E.
  - destruct H as [->|H]; [simpl; apply Z.leb_le; lia|apply Z.gtb_lt in E; lia].
  - rewrite andb_false_r. apply Z.leb_le. rewrite Z.gtb_ltb in E. apply Z.ltb_ge in E. exact E.
Qed.

(* THE HINT IS A HINT (code after the fix, or any hint below 2^32 blocks): in a state satisfying the invariant, a request
   that is not page aligned is served - from the current bitmap, which does not grow or move - whenever SOME free run is
   long enough, whatever the hint *)
Theorem alloc_hint_harmless : forall s length_blk hint opts ovr, Inv s -> 0 < length_blk ->
  fx_hint (vr s) = true \/ hint <= FSM_BKEY_MAX ->
  has opts IWFSM_ALLOC_PAGE_ALIGNED = false ->
  (exists o n, is_run (bm s) o n /\ length_blk <= n) ->
  let '(rc, s', off, olen) := blk_allocate s length_blk hint opts ovr in
  na_outcome s rc s' off olen /\ length_blk <= olen.
Proof.
  intros s L hint opts ovr Hi HL Hh Hpa (o & n & Hrun & Hn).
  pose proof Hrun as (R1 & R2 & R3 & _). rewrite (inv_len s Hi) in R3. pose proof (inv_u32 s Hi) as Hu.
  unfold blk_allocate.
  replace (L >? FSM_BKEY_MAX) with false by (symmetry; rewrite Z.gtb_ltb; apply Z.ltb_ge; lia). rewrite andb_false_r, Hpa.
  destruct (fm_lookup_complete s (hint_of s hint) L (proj1 (inv_ts s Hi)) (hint_of_ok s hint L ltac:(lia) Hh) HL) as [[nl no] Hk].
  { exists (n, o). split; [apply (inv_runs s Hi); exact Hrun|exact Hn]. }
  pose proof (blk_allocate_na_found RESIZE_FUEL s L hint opts ovr nl no Hi HL Hk) as H.
  destruct (blk_allocate_na RESIZE_FUEL s L hint opts ovr) as [[[rc s'] off] olen].
  destruct H as (H1 & H2 & H3 & H5). split; [exact H1|exact H3].
Qed.

(* the code as it is: on a new, almost empty file (32702 free blocks) a one-block request with the hint address 2^40 is answered
   NO_FREE_SPACE under IWFSM_ALLOC_NO_EXTEND ... *)
Theorem alloc_hint_refuted_noext : exists s hint,
  (exists o n, is_run (bm s) o n /\ 1 <= n) /\ rc_of (allocate s 64 hint IWFSM_ALLOC_NO_EXTEND false) = IWFS_ERROR_NO_FREE_SPACE.
Proof.
  exists (fresh v_head false), (2 ^ 40). split; [|vm_compute; reflexivity].
  exists 128, 32640. split; [|lia].
  assert (Hg : Good (reopen (fresh v_head false) false false)).
  { apply reopen_good; [vm_compute; reflexivity|vm_compute; reflexivity|dec_goal| |reflexivity].
    constructor; [dec_goal|]. exists 12. split; [reflexivity|]. split; dec_goal. }
  destruct Hg as (Hi & _).
  assert (Eb : bm (reopen (fresh v_head false) false false) = bm (fresh v_head false)).
  { apply reopen_current. apply hs_iff. vm_compute. reflexivity. }
  rewrite <- Eb. apply (proj1 (inv_runs _ Hi 128 32640)). vm_compute. right; left; reflexivity.
Qed.

(* ... and without the flag the bitmap doubles as long as the file may grow (here: a size limit of 64 KB; without a limit the
   model's loop runs out of fuel and the C loop does not end): the call fails, the bitmap has grown from 4 KB to 32 KB, the
   file from 8 KB to 64 KB - for a request that fits 32000 times *)
Theorem alloc_hint_refuted_growth : exists v hint, fx_hint v = false /\
  let s := snd (open_new_max v 6 0 0 65536 false) in
  let r := allocate s 64 hint 0 false in
  (bmlen s, fsize s) = (4096, 8192) /\ rc_of r = FSM_E_MAXOFF /\ (bmlen (state_of r), fsize (state_of r)) = (32768, 65536).
Proof.
  exists v_head, (2 ^ 40). split; [reflexivity|]. cbv zeta.
  split; [vm_compute; reflexivity|]. split; vm_compute; reflexivity.
Qed.

(* the same calls on the model of the code after the fix *)
Example alloc_hint_fixed : 
  let s := snd (open_new_max v_fixed 6 0 0 65536 false) in
  (let r := allocate s 64 (2 ^ 40) IWFSM_ALLOC_NO_EXTEND false in (rc_of r, addr_of r, len_of r)) = (0, 128, 64) /\
  (let r := allocate s 64 (-1) 0 false in (rc_of r, addr_of r, len_of r, bmlen (state_of r))) = (0, 128, 64, 4096) /\
  (let r := allocate s (2 ^ 38) 0 0 false in (rc_of r, bmlen (state_of r), fsize (state_of r))) = (FSM_IW_ERROR_OVERFLOW, 4096, 8192).
Proof. cbv zeta. split; [|split]; vm_compute; reflexivity. Qed.

(* ================================================================ B. every history *)
(* ---------------------------------------------------------------- B1. the bitmap only grows *)
Lemma loc_bmlen : forall s s', loc s s' -> bmlen s' = bmlen s.
Proof. intros s s' (_ & H & _). exact H. Qed.

(* _fsm_init_lw leaves bmlen alone or sets it to the length asked for, which is not smaller; it answers 0 only in the second case *)
Lemma init_lw_bmlen : forall s o l,
  (bmlen (snd (init_lw s o l)) = bmlen s /\ fst (init_lw s o l) <> 0) \/
  (bmlen (snd (init_lw s o l)) = l /\ bmlen s <= l /\ l mod pow2 (bpow s) = 0).
Proof.
  intros s nbmoff nbmlen. unfold init_lw.
  destruct (negb (nbmlen mod pow2 (bpow s) =? 0) || negb (nbmoff mod pow2 (bpow s) =? 0) || negb (nbmoff mod aunit s =? 0)) eqn:E1;
    [left; split; [reflexivity|vm_compute; discriminate]|].
  destruct (nbmlen <? bmlen s) eqn:E2; [left; split; [reflexivity|vm_compute; discriminate]|]. apply Z.ltb_ge in E2.
  destruct (nbmlen * 8 <? shr (nbmoff + nbmlen) (bpow s) + 1); [left; split; [reflexivity|vm_compute; discriminate]|].
  destruct (negb (ensure_ok s (nbmoff + nbmlen))); [left; split; [reflexivity|vm_compute; discriminate]|].
  destruct (negb (bmlen s =? 0) && negb (IW_RANGES_OVERLAP (bmoff s) (bmoff s + bmlen s) nbmoff (nbmoff + nbmlen) =? 0));
    [left; split; [apply (loc_bmlen _ _ (loc_ensure_size s (nbmoff + nbmlen)))|vm_compute; discriminate]|].
  assert (Hal : nbmlen mod pow2 (bpow s) = 0).
  { apply orb_false_iff in E1. destruct E1 as [E1 _]. apply orb_false_iff in E1. destruct E1 as [E1 _].
    apply negb_false_iff in E1. apply Z.eqb_eq in E1. exact E1. }
  set (nbm := if negb (bmlen s =? 0) then bm s ++ repeat false (Z.to_nat (8 * (nbmlen - bmlen s)))
              else repeat false (Z.to_nat (8 * nbmlen))).
  set (s1 := set_bmloc (set_bm (ensure_size s (nbmoff + nbmlen)) nbm) nbmoff nbmlen).
  assert (GR : bmlen (load_fsm (set_bmloc (set_bm s1 (bm s)) (bmoff s) (bmlen s))) = bmlen s).
  { rewrite (loc_bmlen _ _ (loc_load_fsm _)). reflexivity. }
  pose proof (loc_set_bit_status s1 (shr nbmoff (bpow s)) (shr nbmlen (bpow s)) true false false) as H2.
  destruct (set_bit_status s1 (shr nbmoff (bpow s)) (shr nbmlen (bpow s)) true false false) as [rc s2]. simpl in H2.
  destruct (negb (rc =? 0)) eqn:Erc.
  { left. split; [exact GR|]. simpl. intros ->. discriminate Erc. }
  set (P := if bmlen s =? 0 then set_bit_status s2 0 (shr (hdrlen s) (bpow s)) true false false else (0, s2)).
  assert (H3 : loc s2 (snd P)).
  { unfold P. destruct (bmlen s =? 0); [apply loc_set_bit_status|apply loc_refl]. }
  destruct P as [rc3 s3]. simpl in H3.
  destruct (negb (rc3 =? 0)) eqn:Erc3.
  { left. split; [exact GR|]. simpl. intros ->. discriminate Erc3. }
  right. split; [|split; [exact E2|exact Hal]].
  assert (G4 : bmlen (write_meta (load_fsm s3)) = nbmlen).
  { change (bmlen (write_meta (load_fsm s3))) with (bmlen (load_fsm s3)).
    rewrite (loc_bmlen _ _ (loc_load_fsm s3)), (loc_bmlen _ _ H3), (loc_bmlen _ _ H2). reflexivity. }
  destruct (negb (bmlen s =? 0)); [|exact G4].
  rewrite (loc_bmlen _ _ (loc_blk_deallocate _ _ _)). exact G4.
Qed.

Lemma init_lw_ok_bmlen : forall s o l, fst (init_lw s o l) = 0 ->
  bmlen (snd (init_lw s o l)) = l /\ bmlen s <= l /\ l mod pow2 (bpow s) = 0.
Proof. intros s o l H. destruct (init_lw_bmlen s o l) as [[_ Hn]|Hr]; [contradiction|exact Hr]. Qed.

Definition mono (s s' : fsm) : Prop := bmlen s <= bmlen s'.
Lemma mono_refl : forall s, mono s s. Proof. intros s. unfold mono. lia. Qed.
Lemma mono_trans : forall a b c, mono a b -> mono b c -> mono a c. Proof. unfold mono. intros. lia. Qed.
Lemma mono_loc : forall s s', loc s s' -> mono s s'. Proof. intros s s' H. unfold mono. rewrite (loc_bmlen _ _ H). lia. Qed.

Lemma mono_init_lw : forall s o l, mono s (snd (init_lw s o l)).
Proof. intros s o l. unfold mono. destruct (init_lw_bmlen s o l) as [[H _]|(H & H2 & _)]; lia. Qed.

Lemma mono_resize : forall s size, mono s (snd (resize_fsm_bitmap s size)).
Proof.
  intros s size. unfold resize_fsm_bitmap. destruct (bmlen s >=? size); [apply mono_refl|].
  pose proof (loc_blk_allocate_aligned s (shr (IW_ROUNDUP size (aunit s)) (bpow s)) U64MAX) as H1.
  destruct (blk_allocate_aligned s (shr (IW_ROUNDUP size (aunit s)) (bpow s)) U64MAX) as [[[rc s1] off] sp].
  simpl in H1.
  destruct (if rc =? 0 then (shl off (bpow s), shl sp (bpow s))
            else if rc =? IWFS_ERROR_NO_FREE_SPACE
                 then (IW_ROUNDUP (bmlen s * pow2 (bpow s) * 8) (aunit s), IW_ROUNDUP size (aunit s))
                 else (0, IW_ROUNDUP size (aunit s))) as [nbmoff nbmlen'].
  eapply mono_trans; [apply mono_loc; exact H1|].
  pose proof (mono_init_lw s1 nbmoff nbmlen') as H2. destruct (init_lw s1 nbmoff nbmlen') as [rc2 s2]. simpl in H2.
  destruct (fx_leak (vr s) && negb (rc2 =? 0) && (rc =? 0)); [|exact H2].
  simpl. eapply mono_trans; [exact H2|apply mono_loc; apply loc_blk_deallocate].
Qed.

Lemma mono_blk_allocate_na : forall fuel s length_blk offset_blk opts ovr,
  mono s (state_of (blk_allocate_na fuel s length_blk offset_blk opts ovr)).
Proof.
  induction fuel as [|f IH]; intros s length_blk offset_blk opts ovr;
    destruct (find_matching s offset_blk length_blk) as [[nlength noff]|] eqn:Efm;
    try (apply mono_loc; apply loc_na_found with (nlength := nlength) (noff := noff); assumption);
    rewrite blk_allocate_na_unfold', Efm;
    (destruct (has opts IWFSM_ALLOC_NO_EXTEND); [apply mono_refl|]).
  - apply mono_refl.
  - pose proof (mono_resize s (shl (bmlen s) 1)) as Hg.
    destruct (resize_fsm_bitmap s (shl (bmlen s) 1)) as [rc s1]. simpl in Hg.
    destruct (negb (rc =? 0)); [exact Hg|].
    eapply mono_trans; [exact Hg|apply IH].
Qed.

Lemma mono_blk_allocate_al : forall fuel s length_blk opts,
  mono s (state_of (blk_allocate_al fuel s length_blk opts)).
Proof.
  induction fuel as [|f IH]; intros s length_blk opts; rewrite blk_allocate_al_unfold';
    pose proof (loc_blk_allocate_aligned s length_blk U64MAX) as G1;
    destruct (blk_allocate_aligned s length_blk U64MAX) as [[[rc s1] off] olen]; simpl in G1;
    (destruct (rc =? IWFS_ERROR_NO_FREE_SPACE);
     [destruct (has opts IWFSM_ALLOC_NO_EXTEND); [apply mono_loc; exact G1|]
     |destruct ((rc =? 0) && has opts IWFSM_SOLID_ALLOCATED_SPACE);
      [apply mono_loc; eapply loc_trans; [exact G1|apply loc_solid]|apply mono_loc; exact G1]]).
  - apply mono_loc. exact G1.
  - pose proof (mono_resize s1 (shl (bmlen s1) 1)) as Hg.
    destruct (resize_fsm_bitmap s1 (shl (bmlen s1) 1)) as [rc2 s2]. simpl in Hg.
    assert (G2 : mono s s2) by (eapply mono_trans; [apply mono_loc; exact G1|exact Hg]).
    destruct (negb (rc2 =? 0)); [exact G2|].
    eapply mono_trans; [exact G2|apply IH].
Qed.

Lemma mono_blk_allocate : forall s length_blk offset_blk opts ovr,
  mono s (state_of (blk_allocate s length_blk offset_blk opts ovr)).
Proof.
  intros. unfold blk_allocate. destruct (fx_hint (vr s) && (length_blk >? FSM_BKEY_MAX)); [apply mono_refl|].
  destruct (has opts IWFSM_ALLOC_PAGE_ALIGNED); [apply mono_blk_allocate_al|apply mono_blk_allocate_na].
Qed.

Lemma mono_trim_tail : forall s, mono s (snd (trim_tail s)).
Proof.
  intros s. unfold trim_tail.
  pose proof (loc_blk_allocate_aligned s (shr (bmlen s) (bpow s)) (shr (bmoff s) (bpow s))) as H1.
  destruct (blk_allocate_aligned s (shr (bmlen s) (bpow s)) (shr (bmoff s) (bpow s))) as [[[rc s1] offset] length].
  simpl in H1.
  destruct (negb (rc =? 0) && negb (rc =? IWFS_ERROR_NO_FREE_SPACE)); [apply mono_loc; exact H1|].
  set (P := if negb (rc =? 0) then (0, s1)
            else if shl offset (bpow s) <? bmoff s then init_lw s1 (shl offset (bpow s)) (shl length (bpow s))
            else blk_deallocate s1 offset length).
  assert (HP : mono s1 (snd P)).
  { unfold P. destruct (negb (rc =? 0)); [apply mono_refl|].
    destruct (shl offset (bpow s) <? bmoff s); [apply mono_init_lw|apply mono_loc; apply loc_blk_deallocate]. }
  destruct P as [rc2 s2]. simpl in HP.
  assert (H2 : mono s s2) by (eapply mono_trans; [apply mono_loc; exact H1|exact HP]).
  destruct (negb (rc2 =? 0)); [exact H2|].
  destruct (fsize s2 >? shl (match find_prev_set_bit (bm s2) (nbits s2) (shr (bmoff s2 + bmlen s2) (bpow s2)) with
                            | Some o => o + 1 | None => shr (bmoff s2 + bmlen s2) (bpow s2) end) (bpow s2)); exact H2.
Qed.

Lemma mono_allocate : forall s len addr opts ovr, mono s (state_of (allocate s len addr opts ovr)).
Proof.
  intros s len addr opts ovr. unfold allocate. destruct (len <=? 0); [apply mono_refl|].
  pose proof (mono_blk_allocate s (shr (IW_ROUNDUP len (pow2 (bpow s))) (bpow s)) (blk_of s addr) opts ovr) as H.
  destruct (blk_allocate s (shr (IW_ROUNDUP len (pow2 (bpow s))) (bpow s)) (blk_of s addr) opts ovr) as [[[rc s1] off] nlen].
  simpl in H. destruct (rc =? 0); exact H.
Qed.

Lemma mono_deallocate : forall s addr len, mono s (snd (deallocate s addr len)).
Proof.
  intros s addr len. unfold deallocate.
  destruct (negb (Z.land addr (blkmask s) =? 0)); [apply mono_refl|].
  destruct (fx_short (vr s) && (blk_of s len <? 1)); [apply mono_refl|].
  destruct (touches_meta s (blk_of s addr) (blk_of s len)); [apply mono_refl|].
  apply mono_loc. apply loc_blk_deallocate.
Qed.

Lemma mono_reallocate : forall s nlen addr olen opts ovr, mono s (state_of (reallocate s nlen addr olen opts ovr)).
Proof.
  intros s nlen addr olen opts ovr. unfold reallocate.
  destruct (negb (Z.land addr (blkmask s) =? 0) || negb (Z.land olen (blkmask s) =? 0)); [apply mono_refl|].
  set (nb := shr (IW_ROUNDUP nlen (pow2 (bpow s))) (bpow s)). set (ob := blk_of s olen). set (ab := blk_of s addr).
  destruct (fx_recheck (vr s) && (nlen <? 0)); [apply mono_refl|].
  destruct (nb =? ob); [apply mono_refl|].
  destruct (fx_realloc (vr s) && (ob <? 1)); [apply mono_refl|].
  destruct (fx_realloc (vr s) && touches_meta s ab ob); [apply mono_refl|].
  destruct (nb <? ob).
  - pose proof (loc_blk_deallocate s (ab + nb) (ob - nb)) as H.
    destruct (blk_deallocate s (ab + nb) (ob - nb)) as [rc s1]. simpl in H. destruct (rc =? 0); apply mono_loc; exact H.
  - destruct (negb ((if fx_recheck (vr s) then fst (set_bit_status s ab ob false true (strict s)) else 0) =? 0)); [apply mono_refl|].
    pose proof (mono_blk_allocate s nb ab opts ovr) as H.
    destruct (blk_allocate s nb ab opts ovr) as [[[rc s1] naddr] sp]. simpl in H.
    destruct (negb (rc =? 0)); [exact H|].
    assert (Hrel : mono s (snd (blk_deallocate s1 naddr sp))) by (eapply mono_trans; [exact H|apply mono_loc; apply loc_blk_deallocate]).
    destruct (fx_recheck (vr s) && negb (IW_RANGES_OVERLAP ab (ab + ob) (shr (bmoff s1) (bpow s)) (shr (bmoff s1) (bpow s) + shr (bmlen s1) (bpow s)) =? 0)); [exact Hrel|].
    destruct (negb (naddr =? ab) && negb (ensure_ok s1 (shl naddr (bpow s) + uw 64 olen)));
      [destruct (fx_recheck (vr s)); [exact Hrel|exact H]|].
    set (s1' := if negb (naddr =? ab) then ensure_size s1 (shl naddr (bpow s) + uw 64 olen) else s1).
    assert (H1 : mono s s1').
    { eapply mono_trans; [exact H|]. apply mono_loc. unfold s1'. destruct (negb (naddr =? ab)); [apply loc_ensure_size|apply loc_refl]. }
    pose proof (loc_blk_deallocate s1' ab ob) as H2.
    destruct (blk_deallocate s1' ab ob) as [rc2 s2]. simpl in H2.
    assert (H3 : mono s s2) by (eapply mono_trans; [exact H1|apply mono_loc; exact H2]).
    destruct (negb (rc2 =? 0)); exact H3.
Qed.

(* a clear that returns 0 keeps the length of the bitmap (its place changes) *)
Lemma mono_clear : forall s tr, fst (clear s tr) = 0 -> mono s (snd (clear s tr)).
Proof.
  intros s tr. unfold clear. destruct (bmlen s =? 0); [intros _; apply mono_refl|].
  pose proof (init_lw_bmlen (set_bmloc s 0 0) (IW_ROUNDUP (hdrlen s) (aunit s)) (bmlen s)) as H.
  destruct (init_lw (set_bmloc s 0 0) (IW_ROUNDUP (hdrlen s) (aunit s)) (bmlen s)) as [rc s1]. simpl in H.
  destruct (rc =? 0) eqn:Erc; simpl andb.
  - apply Z.eqb_eq in Erc. subst rc. destruct H as [[_ Hn]|(H & _)]; [contradiction|].
    assert (M1 : mono s s1) by (unfold mono; lia).
    destruct tr; [|intros _; exact M1].
    pose proof (mono_trim_tail s1) as Ht. destruct (trim_tail s1) as [rc2 s2]. simpl in Ht. intros _. simpl.
    eapply mono_trans; eassumption.
  - simpl. intros H0. apply Z.eqb_neq in Erc. contradiction.
Qed.

Lemma mono_close : forall s notrim, mono s (snd (close s notrim)).
Proof.
  intros s notrim. unfold close. destruct (tree s); [apply mono_refl|].
  destruct notrim; [unfold mono; simpl; lia|].
  pose proof (mono_trim_tail s) as H. destruct (trim_tail s) as [rc s1]. simpl in H. exact H.
Qed.

Lemma reopen_bmlen : forall s st mm, bmlen (reopen s st mm) = p_bmlen s.
Proof. intros s st mm. unfold reopen. rewrite (loc_bmlen _ _ (loc_load_fsm _)). reflexivity. Qed.

(* the header is current and every clear succeeds: the bitmap length never decreases along a history *)
Definition clears_ok (s : fsm) (o : op) : Prop := forall tr, o = OClear tr -> fst (clear s tr) = 0.

Lemma mono_step : forall s o, HS s -> clears_ok s o -> mono s (state_of (step s o)).
Proof.
  intros s o Hs Hc. destruct o as [len hint opts ovr|nlen addr olen opts ovr|addr len|tr| |nt st mm]; unfold step.
  - apply mono_allocate.
  - apply mono_reallocate.
  - pose proof (mono_deallocate s addr len) as H. destruct (deallocate s addr len) as [rc s1]. exact H.
  - pose proof (mono_clear s tr (Hc tr eq_refl)) as H. destruct (clear s tr) as [rc s1]. exact H.
  - unfold mono. simpl. lia.
  - pose proof (mono_close s nt) as H. pose proof (hk_close s nt) as Hk.
    destruct (close s nt) as [rc s1]. simpl in *. unfold mono. rewrite reopen_bmlen.
    destruct (hk_hs _ _ Hk Hs) as [_ E]. rewrite E. exact H.
Qed.

Fixpoint clears_ok_run (s : fsm) (ops : list op) : Prop :=
  match ops with
  | [] => True
  | o :: r => clears_ok s o /\ clears_ok_run (state_of (step s o)) r
  end.

Lemma mono_run : forall ops s, HS s -> clears_ok_run s ops -> mono s (run s ops).
Proof.
  induction ops as [|o ops IH]; intros s Hs Hc; [apply mono_refl|].
  destruct Hc as [Hc1 Hc2]. unfold run. simpl.
  eapply mono_trans; [exact (mono_step s o Hs Hc1)|]. apply IH; [apply hs_step; [exact Hs|exact Hc1]|exact Hc2].
Qed.

(* ---------------------------------------------------------------- B2. the state predicate of every reachable state *)
(* IW_RANGES_OVERLAP, clause by clause *)
Lemma overlap_zero_iff : forall s1 e1 s2 e2, IW_RANGES_OVERLAP s1 e1 s2 e2 = 0 <->
  ~ (s2 < e1 /\ e1 <= e2) /\ ~ (s2 <= s1 /\ s1 < e2) /\ ~ (s1 <= s2 /\ e2 <= e1).
Proof.
  intros s1 e1 s2 e2. unfold IW_RANGES_OVERLAP.
  destruct (Z.gtb e1 s2) eqn:A; destruct (Z.leb e1 e2) eqn:B; destruct (Z.geb s1 s2) eqn:C; destruct (Z.ltb s1 e2) eqn:D;
    destruct (Z.leb s1 s2) eqn:E; destruct (Z.geb e1 e2) eqn:F; simpl;
    rewrite ?Z.gtb_lt, ?Z.leb_le, ?Z.geb_le, ?Z.ltb_lt, ?Z.leb_gt, ?Z.ltb_ge in *;
    repeat match goal with H : (_ >? _) = false |- _ => rewrite Z.gtb_ltb in H; apply Z.ltb_ge in H
                      | H : (_ >=? _) = false |- _ => rewrite Z.geb_leb in H; apply Z.leb_gt in H end;
    split; intros H; try discriminate; try reflexivity; try lia.
Qed.

(* a non-empty part of a range that does not touch [s2, e2) does not touch it either *)
Lemma overlap_sub : forall s1 e1 s1' e1' s2 e2, s1 <= s1' -> s1' < e1' -> e1' <= e1 ->
  IW_RANGES_OVERLAP s1 e1 s2 e2 = 0 -> IW_RANGES_OVERLAP s1' e1' s2 e2 = 0.
Proof. intros s1 e1 s1' e1' s2 e2 H1 H2 H3 H. apply overlap_zero_iff in H. apply overlap_zero_iff. lia. Qed.

(* two non-empty ranges without a common point do not overlap *)
Lemma overlap_pointwise : forall s1 e1 s2 e2, s1 < e1 -> s2 < e2 -> (forall i, s1 <= i < e1 -> ~ (s2 <= i < e2)) ->
  IW_RANGES_OVERLAP s1 e1 s2 e2 = 0.
Proof.
  intros s1 e1 s2 e2 H1 H2 H. apply overlap_zero_iff.
  assert (e1 <= s2 \/ e2 <= s1).
  { destruct (Z_le_gt_dec e1 s2) as [|G1]; [left; assumption|]. destruct (Z_le_gt_dec e2 s1) as [|G2]; [right; assumption|].
    exfalso. apply (H (Z.max s1 s2)); lia. }
  lia.
Qed.

Lemma touches_meta_false : forall s a m, touches_meta s a m = false ->
  IW_RANGES_OVERLAP a (a + m) 0 (shr (hdrlen s) (bpow s)) = 0 /\
  IW_RANGES_OVERLAP a (a + m) (shr (bmoff s) (bpow s)) (shr (bmoff s) (bpow s) + shr (bmlen s) (bpow s)) = 0.
Proof.
  intros s a m H. unfold touches_meta in H. apply orb_false_iff in H. destruct H as [H1 H2].
  apply negb_false_iff in H1. apply negb_false_iff in H2. apply Z.eqb_eq in H1. apply Z.eqb_eq in H2. split; assumption.
Qed.
Lemma touches_meta_intro : forall s a m,
  IW_RANGES_OVERLAP a (a + m) 0 (shr (hdrlen s) (bpow s)) = 0 ->
  IW_RANGES_OVERLAP a (a + m) (shr (bmoff s) (bpow s)) (shr (bmoff s) (bpow s) + shr (bmlen s) (bpow s)) = 0 ->
  touches_meta s a m = false.
Proof. intros s a m H1 H2. unfold touches_meta. rewrite H1, H2. reflexivity. Qed.

Lemma touches_meta_sub : forall s a m a' m', touches_meta s a m = false -> a <= a' -> 0 < m' -> a' + m' <= a + m ->
  touches_meta s a' m' = false.
Proof.
  intros s a m a' m' H H1 H2 H3. destruct (touches_meta_false s a m H) as [Ha Hb].
  apply touches_meta_intro; eapply overlap_sub; try eassumption; lia.
Qed.

Definition PageLen (s : fsm) : Prop := bmlen s mod aunit s = 0.
(* the blocks of the file header lie in front of the bitmap area and are marked allocated *)
Definition HdrArea (s : fsm) : Prop :=
  shr (hdrlen s) (bpow s) <= shr (bmoff s) (bpow s) /\ forall i, 0 <= i < shr (hdrlen s) (bpow s) -> getb (bm s) i = true.

Lemma hdrarea_keeps : forall s s', HdrArea s -> BmArea s -> same_cfg s s' -> Keeps s s' -> HdrArea s'.
Proof.
  intros s s' [H1 H2] (B1 & B2 & B3 & B4 & _) (_ & C2 & _ & C4 & C5 & C6 & _) K. unfold HdrArea. rewrite C2, C5, C6.
  split; [exact H1|]. intros i Hi. apply K; [lia|apply H2; exact Hi].
Qed.

Lemma hdrarea_grown : forall s s', HdrArea s -> BmArea s -> BmArea s' -> Grown s s' -> HdrArea s'.
Proof.
  intros s s' [H1 H2] (B1 & B2 & B3 & B4 & _) (D1 & D2 & D3 & _) (N & P & Q & G). unfold HdrArea. rewrite P, Q.
  set (hb := shr (hdrlen s) (bpow s)) in *.
  assert (Hin : forall i, 0 <= i < hb -> getb (bm s') i = true /\ ~ in_area s' i).
  { intros i Hi. apply G; [lia|apply H2; exact Hi|]. unfold in_area. lia. }
  split; [|intros i Hi; apply Hin; exact Hi].
  assert (H0 : 0 <= shr (bmoff s') (bpow s)) by (unfold shr; apply Z.shiftr_nonneg; exact D1).
  destruct (Z_le_gt_dec hb (shr (bmoff s') (bpow s))) as [|Hgt]; [assumption|]. exfalso.
  destruct (Hin (shr (bmoff s') (bpow s)) ltac:(lia)) as [_ Hn]. apply Hn. unfold in_area. rewrite P in *. lia.
Qed.
(* invariant of the index (Inv), geometry (WF), code with the cache fix, the allocator's own area marked allocated, the
   file header naming the bitmap area in use, bitmap length a multiple of the page size *)
Record Full (s : fsm) : Prop := mkFull { fu_good : Good s; fu_bm : BmArea s; fu_hs : HS s; fu_pl : PageLen s;
  fu_hdr : 0 <= hdrlen s < 2 ^ 32 (* uint32_t hdrlen *); fu_ha : HdrArea s }.

Lemma full_cfg : forall s s', Full s -> Inv s' -> BmArea s' -> HS s' -> HdrArea s' -> same_cfg s s' -> Full s'.
Proof.
  intros s s' [Hg Hb Hh Hp Hd Ha] I B H A C. constructor; [apply (good_cfg s); assumption|exact B|exact H| | |exact A].
  - destruct C as (_ & _ & C3 & C4 & _). unfold PageLen. rewrite C3, C4. exact Hp.
  - destruct C as (_ & _ & _ & _ & _ & C6 & _). rewrite C6. exact Hd.
Qed.

Lemma full_ensure_size : forall s z, Full s -> Full (ensure_size s z).
Proof.
  intros s z Hf. pose proof Hf as [Hg Hb Hh Hp Hhd Hha]. destruct (ensure_fields s z) as [E C].
  apply (full_cfg s); [exact Hf|apply Inv_ensure_size; apply Hg| |eapply hs_loc; [apply loc_ensure_size|exact Hh]| |exact C].
  - destruct C as (_ & C2 & _ & C4 & C5 & _). unfold BmArea, nbits. rewrite E, C2, C4, C5. exact Hb.
  - apply (hdrarea_keeps s); [exact Hha|exact Hb|exact C|intros i _ Hb1; rewrite E; exact Hb1].
Qed.
Lemma full_solid : forall s a b, Full s -> fx_solid (vr s) = false -> Full (solid s a b).
Proof.
  intros s a b H Hfx. unfold solid. destruct (ensure_ok s (solid_sz s a b)); [apply full_ensure_size; exact H|]. rewrite Hfx. exact H.
Qed.

Lemma full_allocated : forall s s' off n, Full s -> allocated_from s s' off n -> HS s' -> Full s'.
Proof.
  intros s s' off n Hf Ha Hh. pose proof Ha as (I & C & _).
  apply (full_cfg s); [exact Hf|exact I|eapply bmarea_after_alloc; [exact Ha|apply Hf]|exact Hh| |exact C].
  apply (hdrarea_keeps s); [apply Hf|apply Hf|exact C|apply (keeps_alloc s s' off n Ha)].
Qed.

(* a live range that does not touch the header / the bitmap area is released: merge with the neighbours, everything else stays *)
Lemma free_full : forall s a m, Full s -> live_range s a m -> touches_meta s a m = false ->
  fst (blk_deallocate s a m) = 0 /\ Full (snd (blk_deallocate s a m)) /\ same_cfg s (snd (blk_deallocate s a m)) /\
  bm (snd (blk_deallocate s a m)) = set_range (bm s) a m false.
Proof.
  intros s a m Hf Hl Ht. pose proof Hf as [Hg Hb Hh Hp Hhd Hha]. pose proof Hl as (L1 & L2 & L3 & L4).
  pose proof (blk_deallocate_good s a m Hg Hl) as H. pose proof (loc_blk_deallocate s a m) as Hloc.
  destruct (blk_deallocate s a m) as [rc s']. simpl in *. destruct H as (-> & (I' & _) & C & B).
  split; [reflexivity|]. split; [|split; assumption].
  destruct (touches_meta_false s a m Ht) as [Thd _]. apply ranges_overlap_zero in Thd.
  apply (full_cfg s); [exact Hf|exact I'| |eapply hs_loc; eassumption| |exact C].
  2:{ destruct Hha as [A1 A2]. destruct C as (W1 & W2 & W3 & W4 & W5 & W6 & W7). unfold HdrArea. rewrite W2, W5, W6.
      split; [exact A1|]. intros i Hi. rewrite B.
      destruct Hb as (B1 & B2 & B3 & B4 & B5). destruct Hg as (Hi0 & _). pose proof (inv_len s Hi0) as Hlen. unfold nbits in *.
      rewrite getb_set_range by lia.
      replace ((a <=? i) && (i <? a + m)) with false
        by (symmetry; destruct (a <=? i) eqn:Q1; [|reflexivity]; destruct (i <? a + m) eqn:Q2; [|reflexivity];
            apply Z.leb_le in Q1; apply Z.ltb_lt in Q2; lia).
      apply A2. exact Hi. }
  destruct Hb as (B1 & B2 & B3 & B4 & B5). destruct C as (W1 & W2 & W3 & W4 & W5 & W6 & W7).
  unfold BmArea, nbits in *. rewrite W2, W4, W5.
  split; [exact B1|]. split; [exact B2|]. split; [exact B3|]. split; [exact B4|].
  intros i Hi. rewrite B.
  assert (H0 : 0 <= shr (bmoff s) (bpow s)) by (unfold shr; apply Z.shiftr_nonneg; exact B1).
  destruct (touches_meta_false s a m Ht) as [_ Hov]. apply ranges_overlap_zero in Hov.
  destruct Hg as (Hi0 & _). pose proof (inv_len s Hi0) as Hlen. unfold nbits in Hlen.
  rewrite getb_set_range by lia.
  replace ((a <=? i) && (i <? a + m)) with false
    by (symmetry; destruct (a <=? i) eqn:Q1; [|reflexivity]; destruct (i <? a + m) eqn:Q2; [|reflexivity];
        apply Z.leb_le in Q1; apply Z.ltb_lt in Q2; lia).
  apply B5. exact Hi.
Qed.

Lemma deallocate_full : forall s addr len, Full s -> live_range s (blk_of s addr) (blk_of s len) ->
  Full (snd (deallocate s addr len)).
Proof.
  intros s addr len Hf Hl. unfold deallocate.
  destruct (negb (Z.land addr (blkmask s) =? 0)); [exact Hf|].
  destruct (fx_short (vr s) && (blk_of s len <? 1)); [exact Hf|].
  destruct (touches_meta s (blk_of s addr) (blk_of s len)) eqn:Et; [exact Hf|].
  apply (free_full s _ _ Hf Hl Et).
Qed.

(* ---------------------------------------------------------------- B3. bitmap growth inside _fsm_blk_allocate_lw *)
Lemma roundup_multiple : forall x j, 0 <= j < 32 -> 0 <= x < 2 ^ 62 -> x mod 2 ^ j = 0 -> IW_ROUNDUP x (2 ^ j) = x.
Proof.
  intros x j Hj Hx Hm. assert (Hp : 0 < 2 ^ j) by (apply Z.pow_pos_nonneg; lia).
  assert (Hp2 : 2 ^ j < 2 ^ 32) by (apply Z.pow_lt_mono_r; lia).
  destruct (roundup_pow2_props x j ltac:(lia) ltac:(lia)
              ltac:(change (2 ^ 64) with (2 ^ 62 * 4); change (2 ^ 32) with 4294967296 in Hp2; lia)) as [Hr Hm2].
  set (R := IW_ROUNDUP x (2 ^ j)) in *.
  apply Z.mod_divide in Hm; [|lia]. apply Z.mod_divide in Hm2; [|lia]. destruct Hm as [a Ha]. destruct Hm2 as [b Hb].
  assert (a <= b) by nia. assert (b < a + 1) by nia. assert (b = a) by lia. subst b. lia.
Qed.

(* one doubling of the bitmap (_fsm_resize_fsm_bitmap_lw(fsm, fsm->bmlen << 1)) in a state whose bitmap is below 2^28 bits *)
Lemma resize_full : forall s, Full s -> bmlen s * 16 <= FSM_BKEY_MAX ->
  Full (snd (resize_fsm_bitmap s (shl (bmlen s) 1))) /\
  (fst (resize_fsm_bitmap s (shl (bmlen s) 1)) = 0 -> Grown s (snd (resize_fsm_bitmap s (shl (bmlen s) 1)))).
Proof.
  intros s Hf Hb. pose proof Hf as [(Hi & Hwf & Hfx) Hba Hh Hp Hhd Hha].
  pose proof Hba as (B1 & B2 & _). pose proof Hwf as [Hbp (j & Hj & Hjr)].
  assert (Hsz : shl (bmlen s) 1 = bmlen s * 2) by (rewrite shl_mul by lia; reflexivity).
  assert (Hru : IW_ROUNDUP (shl (bmlen s) 1) (aunit s) = bmlen s * 2).
  { rewrite Hsz, Hj. apply roundup_multiple; [lia| |].
    - change FSM_BKEY_MAX with 4294967295 in Hb. change (2 ^ 62) with 4611686018427387904. lia.
    - unfold PageLen in Hp. rewrite Hj in Hp. rewrite Z.mul_comm. apply Z.mod_divide; [apply Z.pow_nonzero; lia|].
      apply Z.mod_divide in Hp; [|apply Z.pow_nonzero; lia]. destruct Hp as [q ->]. exists (2 * q). ring. }
  pose proof (resize_keeps_inv s (shl (bmlen s) 1) Hi Hwf Hfx Hba
                ltac:(rewrite Hsz; change FSM_BKEY_MAX with 4294967295 in Hb; change (2 ^ 62) with 4611686018427387904; lia)
                ltac:(rewrite Hru; lia)) as Ho.
  pose proof (hk_resize s (shl (bmlen s) 1)) as Hk.
  destruct (resize_fsm_bitmap s (shl (bmlen s) 1)) as [rc s']. simpl in *. unfold resize_outcome in Ho.
  pose proof (hk_hs _ _ Hk Hh) as Hh'.
  destruct Ho as [[-> ->]|[(Hrc & I' & Ba' & C & K)|(-> & I' & Ba' & HG & Hl & Hlt & O3 & O4 & O5 & O6 & O7)]].
  - split; [exact Hf|intros _; apply grown_refl].
  - split; [apply (full_cfg s); try assumption; apply (hdrarea_keeps s); assumption|intros H0; contradiction].
  - split; [|intros _; exact HG]. constructor; [|exact Ba'|exact Hh'| |rewrite O6; exact Hhd|apply (hdrarea_grown s); assumption].
    + split; [exact I'|]. split; [|rewrite O3; exact Hfx].
      constructor; [rewrite O4; exact Hbp|]. exists j. rewrite O4, O5. split; assumption.
    + unfold PageLen. rewrite Hl, Hru, O5. unfold PageLen in Hp. rewrite Z.mul_comm.
      apply Z.mod_divide; [rewrite Hj; apply Z.pow_nonzero; lia|].
      apply Z.mod_divide in Hp; [|rewrite Hj; apply Z.pow_nonzero; lia]. destruct Hp as [q ->]. exists (2 * q). ring.
Qed.

Definition off_of (r : aret) : Z := let '(_, _, o, _) := r in o.
Definition olen_of (r : aret) : Z := let '(_, _, _, l) := r in l.

(* what a successful block allocation means when the bitmap may have grown on the way: the bitmap was relocated zero or more
   times (state sg: every block that was in use is still in use and outside the allocator's own area), then the region was
   carved out of a free run of sg *)
Definition served (s : fsm) (r : aret) (L opts : Z) : Prop :=
  exists sg, Full sg /\ Grown s sg /\ allocated_from sg (state_of r) (off_of r) (olen_of r) /\ L <= olen_of r /\
    (has opts IWFSM_ALLOC_NO_OVERALLOCATE = true -> olen_of r = L) /\
    (has opts IWFSM_ALLOC_PAGE_ALIGNED = true -> off_of r mod shr (aunit s) (bpow s) = 0 /\ olen_of r = L).

Lemma full_geo : forall s s', Full s -> Full s' -> Grown s s' -> True. Proof. trivial. Qed.

(* the region marked and given back: the state predicate holds again, every block is as before *)
Lemma full_given_back : forall s s' off n, Full s -> given_back s s' off n -> HS s' -> Full s'.
Proof.
  intros s s' off n Hf (s4 & Ha & ->) Hh.
  destruct (carved_release s s4 off n (fu_good s Hf) (fu_bm s Hf) Ha) as (I2 & B2 & C2 & K2).
  apply (full_cfg s); [exact Hf|exact I2|exact B2|exact Hh|apply (hdrarea_keeps s); [apply Hf|apply Hf|exact C2|exact K2]|exact C2].
Qed.

Lemma given_back_bits : forall s s' off n, Good s -> given_back s s' off n ->
  Good s' /\ same_cfg s s' /\ forall i, 0 <= i < nbits s -> getb (bm s') i = getb (bm s) i.
Proof.
  intros s s' off n Hg (s4 & Ha & ->). pose proof Ha as (I4 & C4 & A1 & A2 & A3 & A4 & A5).
  pose proof C4 as (V1 & V2 & V3 & V4 & V5 & V6 & V7). pose proof (inv_len s (proj1 Hg)) as Hl.
  assert (Hg4 : Good s4) by (apply (good_cfg s); assumption).
  assert (Hlive : live_range s4 off n).
  { split; [exact A1|]. split; [exact A2|]. split; [unfold nbits in *; rewrite V4; exact A3|].
    intros j Hj. rewrite A5. rewrite getb_set_range by lia.
    replace ((off <=? j) && (j <? off + n)) with true; [reflexivity|].
    symmetry. apply andb_true_iff. split; [apply Z.leb_le|apply Z.ltb_lt]; lia. }
  pose proof (blk_deallocate_good s4 off n Hg4 Hlive) as H.
  destruct (blk_deallocate s4 off n) as [rc s2]. destruct H as (_ & G2 & C2 & B2). simpl.
  split; [exact G2|]. split; [eapply same_cfg_trans; eassumption|]. intros i Hi1. rewrite B2, A5.
  rewrite getb_set_range by (rewrite ?set_range_length; lia). rewrite getb_set_range by lia.
  destruct ((off <=? i) && (i <? off + n)) eqn:E; [|reflexivity].
  apply andb_true_iff in E. destruct E as [E1 E2]. apply Z.leb_le in E1. apply Z.ltb_lt in E2. symmetry. apply A4. lia.
Qed.

(* CONSERVATION ACROSS A FAILED CALL (code after 7b9f72c; requests that may not extend the bitmap): whatever makes
   _fsm_blk_allocate_lw fail - no free extent, a length no key can hold, the file size limit hit by the SOLID epilogue - the
   configuration is unchanged, the state is good and every block is allocated or free exactly as before.  (The sync error of a5711d1
   aside: there the region IS handed out in the map although the call reports an error.)
   _partial: requests that may extend the bitmap are not covered by this statement - a doubling that succeeded before the call
   failed has legitimately moved the bitmap; what is kept there is [Full] and [Grown] (allocate_full). *)
Theorem failed_allocate_conserves_partial : forall s L hint opts ovr, Good s -> 0 < L ->
  has opts IWFSM_ALLOC_NO_EXTEND = true -> fx_solid (vr s) = true ->
  let '(rc, s', off, olen) := blk_allocate s L hint opts ovr in
  rc <> 0 -> rc <> IWFS_ERROR_NOT_MMAPED ->
  Good s' /\ same_cfg s s' /\ forall i, 0 <= i < nbits s -> getb (bm s') i = getb (bm s) i.
Proof.
  intros s L hint opts ovr Hg HL Hne Hfx. pose proof Hg as (Hi & Hwf & _).
  pose proof (blk_allocate_noext s L hint opts ovr Hi Hwf HL Hne) as H.
  destruct (blk_allocate s L hint opts ovr) as [[[rc s'] off] olen]. unfold alloc_outcome in H.
  intros Hr0 Hr1. destruct H as [[_ ->]|[([Hc|[Hc|[_ Hc]]] & _)|(_ & _ & Hgb)]]; try contradiction.
  - split; [exact Hg|]. split; [apply same_cfg_refl|]. intros i _. reflexivity.
  - rewrite Hfx in Hc. discriminate Hc.
  - apply (given_back_bits s s' off olen Hg Hgb).
Qed.

(* the code before 7b9f72c (every other repair in): size limit 64 KB, 128 KB of solid space asked: the call fails and 2048 blocks stay
   allocated; the code after it: the same call fails and the bitmap is as before *)
Theorem failed_allocate_conserves_refuted : exists v s, fx_solid v = false /\ vr s = v /\
  (let r := allocate s 131072 0 (IWFSM_SOLID_ALLOCATED_SPACE + IWFSM_ALLOC_NO_STATS + IWFSM_ALLOC_NO_OVERALLOCATE) false in
   rc_of r = FSM_E_MAXOFF /\ getb (bm s) 128 = false /\ getb (bm (state_of r)) 128 = true /\ tree (state_of r) = [(62, 2); (30592, 2176)]).
Proof.
  exists (mkVariant true true true true true true true true false false), (snd (open_new_max (mkVariant true true true true true true true true false false) 6 0 0 65536 false)).
  split; [reflexivity|]. split; [vm_compute; reflexivity|]. cbv zeta.
  split; [vm_compute; reflexivity|]. split; [vm_compute; reflexivity|]. split; vm_compute; reflexivity.
Qed.
Example failed_allocate_conserves_fixed :
  let s := snd (open_new_max v_fixed 6 0 0 65536 false) in
  let r := allocate s 131072 0 (IWFSM_SOLID_ALLOCATED_SPACE + IWFSM_ALLOC_NO_STATS + IWFSM_ALLOC_NO_OVERALLOCATE) false in
  rc_of r = FSM_E_MAXOFF /\ getb (bm (state_of r)) 128 = false /\ tree (state_of r) = tree s /\ tree s = [(62, 2); (32640, 128)].
Proof. cbv zeta. split; [vm_compute; reflexivity|]. split; [vm_compute; reflexivity|]. split; vm_compute; reflexivity. Qed.

Lemma na_found_full : forall fuel s L hint opts ovr nl no, Full s -> 0 < L -> has opts IWFSM_ALLOC_PAGE_ALIGNED = false ->
  find_matching s hint L = Some (nl, no) ->
  let r := blk_allocate_na fuel s L hint opts ovr in
  Full (state_of r) /\ (rc_of r = 0 -> served s r L opts).
Proof.
  intros fuel s L hint opts ovr nl no Hf HL Hpa Efm. cbv zeta.
  pose proof (blk_allocate_na_found fuel s L hint opts ovr nl no (proj1 (fu_good s Hf)) HL Efm) as H.
  pose proof (loc_na_found fuel s L hint opts ovr nl no Efm) as Hloc.
  destruct (blk_allocate_na fuel s L hint opts ovr) as [[[rc s'] off] olen].
  simpl in *. destruct H as (H1 & H2 & H3 & H5).
  assert (Hh' : HS s') by (eapply hs_loc; [exact Hloc|apply Hf]).
  destruct H1 as [(Hrc & H4)|(Hrc & Hfx & Hg)].
  - split; [apply (full_allocated s s' off olen Hf H4 Hh')|].
    intros _. exists s. split; [exact Hf|]. split; [apply grown_refl|]. split; [exact H4|]. split; [exact H3|].
    split; [exact H5|intros Hc; congruence].
  - split; [apply (full_given_back s s' off olen Hf Hg Hh')|]. intros Hc. rewrite Hrc in Hc. discriminate Hc.
Qed.

(* the `start:` loop of _fsm_blk_allocate_lw *)
Lemma na_full : forall fuel s L hint opts ovr, Full s -> 0 < L -> has opts IWFSM_ALLOC_PAGE_ALIGNED = false ->
  let r := blk_allocate_na fuel s L hint opts ovr in
  bmlen (state_of r) * 16 <= FSM_BKEY_MAX ->
  Full (state_of r) /\ (rc_of r = 0 -> served s r L opts).
Proof.
  induction fuel as [|f IH]; intros s L hint opts ovr Hf HL Hpa; cbv zeta;
    (destruct (find_matching s hint L) as [[nl no]|] eqn:Efm;
     [intros _; apply (na_found_full _ s L hint opts ovr nl no Hf HL Hpa Efm)|]);
    rewrite blk_allocate_na_unfold', Efm;
    (destruct (has opts IWFSM_ALLOC_NO_EXTEND); [intros _; simpl; split; [exact Hf|intros Hc; discriminate Hc]|]).
  - intros _. simpl. split; [exact Hf|intros Hc; discriminate Hc].
  - intros Hb.
    (* the bound for this doubling: the bitmap only grows, so its current length is below the final one *)
    assert (Hm : bmlen s <= bmlen (state_of (let '(rc, s1) := resize_fsm_bitmap s (shl (bmlen s) 1) in
                   if negb (rc =? 0) then (rc, s1, hint, L) else blk_allocate_na f s1 L hint opts ovr))).
    { pose proof (mono_resize s (shl (bmlen s) 1)) as M1. destruct (resize_fsm_bitmap s (shl (bmlen s) 1)) as [rc s1]. simpl in M1.
      destruct (negb (rc =? 0)); [exact M1|]. eapply mono_trans; [exact M1|apply mono_blk_allocate_na]. }
    destruct (resize_full s Hf ltac:(lia)) as [Hf1 Hg1].
    destruct (resize_fsm_bitmap s (shl (bmlen s) 1)) as [rc s1]. simpl in Hf1, Hg1.
    destruct (negb (rc =? 0)) eqn:Erc.
    + simpl. split; [exact Hf1|]. intros ->. discriminate Erc.
    + apply negb_false_iff in Erc. apply Z.eqb_eq in Erc. specialize (Hg1 Erc).
      specialize (IH s1 L hint opts ovr Hf1 HL Hpa). cbv zeta in IH. specialize (IH Hb). destruct IH as [IF IS].
      split; [exact IF|]. intros H0. destruct (IS H0) as (sg & G1 & G2 & G3 & G4 & G5 & G6).
      exists sg. split; [exact G1|]. split; [eapply grown_trans; eassumption|]. split; [exact G3|]. split; [exact G4|].
      split; [exact G5|intros Hc; congruence].
Qed.

(* the IWFSM_ALLOC_PAGE_ALIGNED loop of _fsm_blk_allocate_lw *)
Lemma al_full : forall fuel s L opts, Full s -> 0 < L -> has opts IWFSM_ALLOC_PAGE_ALIGNED = true ->
  let r := blk_allocate_al fuel s L opts in
  bmlen (state_of r) * 16 <= FSM_BKEY_MAX ->
  Full (state_of r) /\ (rc_of r = 0 -> served s r L opts).
Proof.
  induction fuel as [|f IH]; intros s L opts Hf HL Hpa; cbv zeta; rewrite blk_allocate_al_unfold';
    pose proof (blk_allocate_aligned_spec s L U64MAX (proj1 (fu_good s Hf)) (proj1 (proj2 (fu_good s Hf))) HL) as Hsp;
    pose proof (loc_blk_allocate_aligned s L U64MAX) as Hloc;
    destruct (blk_allocate_aligned s L U64MAX) as [[[rc s1] off] olen]; simpl in Hloc;
    (destruct Hsp as [[-> ->]|(-> & -> & Ha & Hmod & _)];
     [rewrite Z.eqb_refl;
      (destruct (has opts IWFSM_ALLOC_NO_EXTEND); [intros _; simpl; split; [exact Hf|intros Hc; discriminate Hc]|])
     |replace (0 =? IWFS_ERROR_NO_FREE_SPACE) with false by reflexivity; simpl andb; intros _;
      assert (Hf1 : Full s1) by (apply (full_allocated s s1 off L Hf Ha); eapply hs_loc; [exact Hloc|apply Hf]);
      destruct (has opts IWFSM_SOLID_ALLOCATED_SPACE); simpl;
      [destruct (solid_cases s s1 off L Ha) as [[Ha5 Hr]|(Hr & Hfx & Hg)];
       [split; [apply (full_allocated s _ off L Hf Ha5); eapply hs_loc; [apply loc_solid|apply Hf1]|];
        intros _; exists s; cbn [off_of olen_of state_of rc_of];
        split; [exact Hf|]; split; [apply grown_refl|];
        split; [exact Ha5|]; split; [lia|]; split; [reflexivity|intros _; split; [exact Hmod|reflexivity]]
       |split; [apply (full_given_back s _ off L Hf Hg); eapply hs_loc; [apply loc_solid|apply Hf1]|];
        intros Hc; rewrite Hr in Hc; discriminate Hc]
      |split; [exact Hf1|]; intros _; exists s; cbn [off_of olen_of state_of rc_of];
       split; [exact Hf|]; split; [apply grown_refl|];
       split; [exact Ha|]; split; [lia|]; split; [reflexivity|intros _; split; [exact Hmod|reflexivity]]]]).
  - intros _. simpl. split; [exact Hf|intros Hc; discriminate Hc].
  - intros Hb.
    assert (Hm : bmlen s <= bmlen (state_of (let '(rc2, s2) := resize_fsm_bitmap s (shl (bmlen s) 1) in
                   if negb (rc2 =? 0) then (rc2, s2, off, olen) else blk_allocate_al f s2 L opts))).
    { pose proof (mono_resize s (shl (bmlen s) 1)) as M1. destruct (resize_fsm_bitmap s (shl (bmlen s) 1)) as [rc s1]. simpl in M1.
      destruct (negb (rc =? 0)); [exact M1|]. eapply mono_trans; [exact M1|apply mono_blk_allocate_al]. }
    destruct (resize_full s Hf ltac:(lia)) as [Hf1 Hg1]. pose proof (geo_resize s (shl (bmlen s) 1)) as Hgeo.
    destruct (resize_fsm_bitmap s (shl (bmlen s) 1)) as [rc s1]. simpl in Hf1, Hg1, Hgeo.
    destruct (negb (rc =? 0)) eqn:Erc.
    + simpl. split; [exact Hf1|]. intros ->. discriminate Erc.
    + apply negb_false_iff in Erc. apply Z.eqb_eq in Erc. specialize (Hg1 Erc).
      specialize (IH s1 L opts Hf1 HL Hpa). cbv zeta in IH. specialize (IH Hb). destruct IH as [IF IS].
      split; [exact IF|]. intros H0. destruct (IS H0) as (sg & G1 & G2 & G3 & G4 & G5 & G6).
      exists sg. split; [exact G1|]. split; [eapply grown_trans; eassumption|]. split; [exact G3|]. split; [exact G4|].
      split; [exact G5|]. destruct Hgeo as [E1 E2]. rewrite <- E1, <- E2. exact G6.
Qed.

Lemma blk_allocate_full : forall s L hint opts ovr, Full s -> 0 < L ->
  let r := blk_allocate s L hint opts ovr in
  bmlen (state_of r) * 16 <= FSM_BKEY_MAX ->
  Full (state_of r) /\ (rc_of r = 0 -> served s r L opts).
Proof.
  intros s L hint opts ovr Hf HL. cbv zeta. unfold blk_allocate.
  destruct (fx_hint (vr s) && (L >? FSM_BKEY_MAX)); [intros _; simpl; split; [exact Hf|intros Hc; discriminate Hc]|].
  destruct (has opts IWFSM_ALLOC_PAGE_ALIGNED) eqn:Epa; [apply al_full|apply na_full]; assumption.
Qed.

(* ---- _fsm_allocate, EVERY flag combination, bitmap growth included (C10, no _partial): the state predicate is kept; when the
   call returns 0 the region is block aligned, long enough (exactly the rounded request under NO_OVERALLOCATE), page aligned
   on request, and it was carved out of a FREE run of a state sg that differs from s by relocations of the bitmap only
   (Grown: every block that was in use in s - live regions, header - is in use in sg and is not part of the allocator's
   own area), so it is disjoint from everything that was in use and from the bitmap area in use. *)
Theorem allocate_full : forall s len addr opts ovr, Full s -> len < 2 ^ 62 ->
  let r := allocate s len addr opts ovr in
  bmlen (state_of r) * 16 <= FSM_BKEY_MAX ->
  Full (state_of r) /\
  (rc_of r = 0 -> exists sg off olen, Full sg /\ Grown s sg /\ allocated_from sg (state_of r) off olen /\
     addr_of r = off * 2 ^ bpow s /\ len_of r = olen * 2 ^ bpow s /\ len <= len_of r /\
     (has opts IWFSM_ALLOC_NO_OVERALLOCATE = true -> len_of r = IW_ROUNDUP len (pow2 (bpow s))) /\
     (has opts IWFSM_ALLOC_PAGE_ALIGNED = true -> addr_of r mod aunit s = 0)).
Proof.
  intros s len addr opts ovr Hf Hlen. cbv zeta. unfold allocate.
  destruct (len <=? 0) eqn:E0; [intros _; simpl; split; [exact Hf|intros Hc; discriminate Hc]|].
  apply Z.leb_gt in E0. pose proof (proj1 (proj2 (fu_good s Hf))) as Hwf. pose proof (wf_bpow_lt s Hwf) as Hb.
  destruct (req_blocks s len Hwf ltac:(lia)) as (Hlb & Hle & Hru). cbv zeta in Hlb, Hle, Hru.
  set (lb := shr (IW_ROUNDUP len (pow2 (bpow s))) (bpow s)) in *.
  pose proof (blk_allocate_full s lb (blk_of s addr) opts ovr Hf Hlb) as H. cbv zeta in H.
  destruct (blk_allocate s lb (blk_of s addr) opts ovr) as [[[rc s1] off] nlen]. simpl in H.
  destruct (rc =? 0) eqn:Erc; simpl; intros Hbd; destruct (H Hbd) as [HF HS]; (split; [exact HF|]).
  - intros _. apply Z.eqb_eq in Erc. destruct (HS Erc) as (sg & G1 & G2 & G3 & G4 & G5 & G6). simpl in *.
    exists sg, off, nlen. split; [exact G1|]. split; [exact G2|]. split; [exact G3|].
    rewrite !shl_mul by lia. split; [reflexivity|]. split; [reflexivity|].
    assert (Hp : 0 < 2 ^ bpow s) by (apply Z.pow_pos_nonneg; lia).
    split; [nia|]. split.
    + intros Ho. rewrite (G5 Ho). symmetry. exact Hru.
    + intros Hp1. destruct (G6 Hp1) as [Hm _].
      destruct Hwf as [_ (j & Hj & Hjr)]. rewrite Hj in *. rewrite shr_div in Hm by lia.
      assert (Hq : 2 ^ j / 2 ^ bpow s = 2 ^ (j - bpow s)).
      { replace j with ((j - bpow s) + bpow s) at 1 by lia. rewrite Z.pow_add_r by lia. apply Z.div_mul. lia. }
      rewrite Hq in Hm. apply Z.mod_divide in Hm; [|apply Z.pow_nonzero; lia]. destruct Hm as [q ->].
      replace (q * 2 ^ (j - bpow s) * 2 ^ bpow s) with (q * 2 ^ j)
        by (replace j with ((j - bpow s) + bpow s) at 1 by lia; rewrite Z.pow_add_r by lia; ring).
      apply Z.mod_mul. apply Z.pow_nonzero; lia.
  - intros Hc. apply Z.eqb_neq in Erc. contradiction.
Qed.

(* ---- _fsm_reallocate of a range the client owns: all of its blocks allocated and - client ranges never are - not part of
   the header or of the bitmap area (after fixes/fsm-realloc-guard.diff the code checks that itself).  Shrinking, growing in
   place or by moving, with or without bitmap growth on the way. *)
Lemma live_after_growth : forall s sg s1 off n a m, Grown s sg -> BmArea sg -> allocated_from sg s1 off n ->
  live_range s a m -> touches_meta s a m = false ->
  live_range s1 a m /\ touches_meta s1 a m = false.
Proof.
  intros s sg s1 off n a m (N & P & Q & G) Bg Ha (L1 & L2 & L3 & L4) Ht.
  pose proof Ha as (I1 & C1 & A1 & A2 & A3 & A4 & A5). destruct C1 as (V1 & V2 & V3 & V4 & V5 & V6 & V7).
  destruct (touches_meta_false s a m Ht) as [Th Tb]. pose proof (ranges_overlap_zero _ _ _ _ Tb) as Hdis.
  assert (Hout : forall i, a <= i < a + m -> ~ in_area s i) by (intros i Hi Hc; unfold in_area in Hc; lia).
  assert (Hbits : forall i, a <= i < a + m -> getb (bm sg) i = true /\ ~ in_area sg i).
  { intros i Hi. apply G; [lia|apply L4; exact Hi|apply Hout; exact Hi]. }
  split.
  - split; [exact L1|]. split; [exact L2|]. split; [unfold nbits in *; rewrite V4; lia|].
    intros i Hi. rewrite (alloc_flips_only_own sg s1 off n i Ha) by lia.
    destruct ((off <=? i) && (i <? off + n)); [reflexivity|apply Hbits; exact Hi].
  - apply touches_meta_intro.
    + rewrite V2, V6, P, Q. exact Th.
    + rewrite V2, V4, V5. destruct Bg as (_ & _ & B3 & _).
      apply overlap_pointwise; [lia|lia|]. intros i Hi Hc. destruct (Hbits i Hi) as [_ Hn]. apply Hn. exact Hc.
Qed.

Theorem reallocate_full : forall s nlen addr olen opts ovr, Full s -> 0 <= nlen < 2 ^ 62 ->
  live_range s (blk_of s addr) (blk_of s olen) ->
  fx_realloc (vr s) = true \/ touches_meta s (blk_of s addr) (blk_of s olen) = false ->
  let r := reallocate s nlen addr olen opts ovr in
  bmlen (state_of r) * 16 <= FSM_BKEY_MAX -> Full (state_of r).
Proof.
  intros s nlen addr olen opts ovr Hf Hnl Hl Hown. cbv zeta. pose proof Hf as [(Hi & Hwf & Hfx) Hba Hh Hp Hhd Hha]. unfold reallocate.
  destruct (negb (Z.land addr (blkmask s) =? 0) || negb (Z.land olen (blkmask s) =? 0)); [intros _; exact Hf|].
  set (nb := shr (IW_ROUNDUP nlen (pow2 (bpow s))) (bpow s)).
  set (ob := blk_of s olen) in *. set (ab := blk_of s addr) in *.
  destruct (fx_recheck (vr s) && (nlen <? 0)); [intros _; exact Hf|].
  destruct (nb =? ob) eqn:Eq; [intros _; exact Hf|].
  destruct (fx_realloc (vr s) && (ob <? 1)); [intros _; exact Hf|].
  destruct (fx_realloc (vr s) && touches_meta s ab ob) eqn:Eg; [intros _; exact Hf|].
  assert (Ht : touches_meta s ab ob = false).
  { destruct Hown as [Hx|Hx]; [rewrite Hx in Eg; exact Eg|exact Hx]. }
  assert (Hnb : 0 <= nb).
  { unfold nb. pose proof (wf_bpow_lt s Hwf) as Hb. destruct (Z.eq_dec nlen 0) as [->|Hz].
    - rewrite shr_div by lia. apply Z.div_pos; [|apply Z.pow_pos_nonneg; lia].
      rewrite pow2_shl by lia. assert (Hp2 : 2 ^ bpow s < 2 ^ 32) by (apply Z.pow_lt_mono_r; lia).
      destruct (roundup_pow2_props 0 (bpow s) ltac:(lia) ltac:(lia) ltac:(change (2 ^ 64) with (2 ^ 32 * 2 ^ 32); nia)) as [Hr _]. lia.
    - destruct (req_blocks s nlen Hwf ltac:(lia)) as (H & _). cbv zeta in H. fold nb in H. lia. }
  pose proof Hl as (L1 & L2 & L3 & L4).
  destruct (nb <? ob) eqn:Elt.
  - apply Z.ltb_lt in Elt. intros _.
    destruct (free_full s (ab + nb) (ob - nb) Hf (live_sub s ab ob (ab + nb) (ob - nb) Hl ltac:(lia) ltac:(lia) ltac:(lia))
                (touches_meta_sub s ab ob (ab + nb) (ob - nb) Ht ltac:(lia) ltac:(lia) ltac:(lia))) as (E & F & _).
    destruct (blk_deallocate s (ab + nb) (ob - nb)) as [rc s1]. simpl in *. subst rc. simpl. exact F.
  - apply Z.ltb_ge in Elt. apply Z.eqb_neq in Eq.
    assert (Hpos : 0 < nb) by lia.
    destruct (negb ((if fx_recheck (vr s) then fst (set_bit_status s ab ob false true (strict s)) else 0) =? 0)); [intros _; exact Hf|].
    pose proof (blk_allocate_full s nb ab opts ovr Hf Hpos) as H. cbv zeta in H.
    pose proof (hk_blk_allocate s nb ab opts ovr) as Hk.
    destruct (blk_allocate s nb ab opts ovr) as [[[rc s1] naddr] sp]. simpl in H, Hk.
    destruct (negb (rc =? 0)) eqn:Erc; [simpl; intros Hbd; apply H; exact Hbd|].
    apply negb_false_iff in Erc. apply Z.eqb_eq in Erc. subst rc.
    (* the new region given back (fixes/fsm-realloc-recheck.diff) *)
    assert (Hrel : bmlen (snd (blk_deallocate s1 naddr sp)) * 16 <= FSM_BKEY_MAX -> Full (snd (blk_deallocate s1 naddr sp))).
    { pose proof (loc_blk_deallocate s1 naddr sp) as Hl2. intros Hbd. rewrite (loc_bmlen _ _ Hl2) in Hbd.
      destruct (H Hbd) as [HF1 HS]. destruct (HS eq_refl) as (sg & G1 & G2 & G3 & _). simpl in G3.
      destruct (carved_release sg s1 naddr sp (fu_good sg G1) (fu_bm sg G1) G3) as (I2 & B2' & C2 & K2).
      apply (full_cfg sg); [exact G1|exact I2|exact B2'|eapply hs_loc; [exact Hl2|apply HF1]|
                            apply (hdrarea_keeps sg); [apply G1|apply G1|exact C2|exact K2]|exact C2]. }
    destruct (fx_recheck (vr s) && negb (IW_RANGES_OVERLAP ab (ab + ob) (shr (bmoff s1) (bpow s)) (shr (bmoff s1) (bpow s) + shr (bmlen s1) (bpow s)) =? 0)); [simpl; exact Hrel|].
    destruct (negb (naddr =? ab) && negb (ensure_ok s1 (shl naddr (bpow s) + uw 64 olen)));
      [simpl; destruct (fx_recheck (vr s)); [exact Hrel|intros Hbd; apply H; exact Hbd]|].
    set (s1' := if negb (naddr =? ab) then ensure_size s1 (shl naddr (bpow s) + uw 64 olen) else s1).
    assert (Hb1 : bmlen s1' = bmlen s1).
    { unfold s1'. destruct (negb (naddr =? ab)); [apply (loc_bmlen _ _ (loc_ensure_size _ _))|reflexivity]. }
    pose proof (loc_blk_deallocate s1' ab ob) as Hloc.
    assert (Hfin : bmlen s1 * 16 <= FSM_BKEY_MAX -> Full (snd (blk_deallocate s1' ab ob))).
    { intros Hbd. destruct (H Hbd) as [HF1 HS]. destruct (HS eq_refl) as (sg & G1 & G2 & G3 & _). simpl in G3.
      destruct (live_after_growth s sg s1 naddr sp ab ob G2 (fu_bm sg G1) G3 Hl Ht) as [Hl1 Ht1].
      assert (HF1' : Full s1') by (unfold s1'; destruct (negb (naddr =? ab)); [apply full_ensure_size|]; exact HF1).
      assert (Hl1' : live_range s1' ab ob /\ touches_meta s1' ab ob = false).
      { unfold s1'. destruct (negb (naddr =? ab)); [|split; assumption].
        destruct (ensure_fields s1 (shl naddr (bpow s) + uw 64 olen)) as [E (_ & C2 & _ & C4 & C5 & C6 & _)].
        destruct Hl1 as (M1 & M2 & M3 & M4). split.
        - split; [exact M1|]. split; [exact M2|]. split; [unfold nbits in *; rewrite C4; exact M3|]. rewrite E. exact M4.
        - unfold touches_meta in *. rewrite C2, C4, C5, C6. exact Ht1. }
      destruct Hl1' as [Hq1 Hq2]. apply (free_full s1' ab ob HF1' Hq1 Hq2). }
    destruct (blk_deallocate s1' ab ob) as [rc2 s2]. simpl in Hloc, Hfin.
    assert (Hb2 : bmlen s2 = bmlen s1) by (rewrite (loc_bmlen _ _ Hloc); exact Hb1).
    destruct (negb (rc2 =? 0)); simpl; intros Hbd; apply Hfin; rewrite <- Hb2; exact Hbd.
Qed.

(* ---------------------------------------------------------------- B4. _fsm_trim_tail_lw *)
Lemma full_set_fsize : forall s x, Full s -> Full (set_fsize s x).
Proof.
  intros s x Hf. pose proof Hf as [(Hi & Hwf & Hfx) Hb Hh Hp Hhd Hha].
  apply (full_cfg s); [exact Hf|apply (Inv_ext s); try reflexivity; exact Hi|exact Hb|exact Hh|exact Hha|unfold same_cfg; repeat split].
Qed.

(* after a relocation the new area is marked allocated, provided it has no block in common with the old one *)
Lemma reloc_area : forall s1 s' nbmoff nbmlen,
  len_z (bm s1) = nbits s1 -> bmlen s1 <= nbmlen -> 0 <= bmoff s1 -> 0 <= nbmoff -> 0 <= bpow s1 ->
  bm s' = reloc_result s1 nbmoff nbmlen -> bmoff s' = nbmoff -> bmlen s' = nbmlen -> bpow s' = bpow s1 ->
  0 < shr nbmlen (bpow s1) -> shr nbmoff (bpow s1) + shr nbmlen (bpow s1) <= nbmlen * 8 ->
  (forall i, shr nbmoff (bpow s1) <= i < shr nbmoff (bpow s1) + shr nbmlen (bpow s1) -> ~ in_area s1 i) ->
  BmArea s'.
Proof.
  intros s1 s' nbmoff nbmlen Hl Hle Hbo Hno Hbp Hbm O1 O2 O4 Hnl Hin Hdis.
  assert (H0 : 0 <= shr nbmoff (bpow s1)) by (unfold shr; apply Z.shiftr_nonneg; exact Hno).
  assert (Hlen : len_z (bm s1 ++ repeat false (Z.to_nat (8 * (nbmlen - bmlen s1)))) = nbmlen * 8).
  { rewrite len_z_app, len_z_repeat, Hl. unfold nbits. lia. }
  unfold BmArea. rewrite O1, O2, O4. unfold nbits. rewrite O2.
  split; [exact Hno|]. split; [unfold nbits in Hl; pose proof (len_z_nonneg (bm s1)); lia|]. split; [exact Hnl|]. split; [exact Hin|].
  intros i Hi. rewrite Hbm. unfold reloc_result.
  rewrite getb_set_range; [|unfold shr; apply Z.shiftr_nonneg; exact Hbo|rewrite set_range_length, Hlen; lia].
  replace ((shr (bmoff s1) (bpow s1) <=? i) && (i <? shr (bmoff s1) (bpow s1) + shr (bmlen s1) (bpow s1))) with false
    by (symmetry; destruct (shr (bmoff s1) (bpow s1) <=? i) eqn:Q1; [|reflexivity];
        destruct (i <? shr (bmoff s1) (bpow s1) + shr (bmlen s1) (bpow s1)) eqn:Q2; [|reflexivity];
        apply Z.leb_le in Q1; apply Z.ltb_lt in Q2; exfalso; apply (Hdis i Hi); unfold in_area; lia).
  rewrite getb_set_range; [|exact H0|rewrite Hlen; lia].
  replace ((shr nbmoff (bpow s1) <=? i) && (i <? shr nbmoff (bpow s1) + shr nbmlen (bpow s1))) with true
    by (symmetry; apply andb_true_iff; split; [apply Z.leb_le|apply Z.ltb_lt]; lia).
  reflexivity.
Qed.

Lemma page_len_blocks : forall s, WF s -> PageLen s -> 0 <= bmlen s -> shl (shr (bmlen s) (bpow s)) (bpow s) = bmlen s.
Proof.
  intros s [Hbp (j & Hj & Hjr)] Hp Hb. unfold PageLen in Hp. rewrite Hj in Hp.
  rewrite shl_mul, shr_div by lia.
  assert (Hq : 2 ^ j = 2 ^ (j - bpow s) * 2 ^ bpow s) by (rewrite <- Z.pow_add_r by lia; f_equal; lia).
  apply Z.mod_divide in Hp; [|apply Z.pow_nonzero; lia]. destruct Hp as [q Hq2].
  rewrite Hq2, Hq. replace (q * (2 ^ (j - bpow s) * 2 ^ bpow s)) with (q * 2 ^ (j - bpow s) * 2 ^ bpow s) by ring.
  rewrite Z.div_mul by (apply Z.pow_nonzero; lia). reflexivity.
Qed.

(* _fsm_trim_tail_lw: the bitmap is moved towards the start of the file when a page-aligned free run in front of it holds it
   (a relocation to an area of the SAME length), then the file is cut behind the last used block *)
(* the last step of _fsm_trim_tail_lw: the file is cut behind the last used block (not in front of the end of the bitmap area) *)
Definition cut_step (s2 : fsm) : Z * fsm :=
  let lastblk := shr (bmoff s2 + bmlen s2) (bpow s2) in
  let lastblk := match find_prev_set_bit (bm s2) (nbits s2) lastblk with Some o => o + 1 | None => lastblk end in
  if fsize s2 >? shl lastblk (bpow s2)
  then (0, set_fsize s2 (IW_ROUNDUP (shl lastblk (bpow s2)) (aunit s2))) else (0, s2).

Lemma trim_shape : forall s, Full s ->
  (fst (trim_tail s) <> 0 /\ Full (snd (trim_tail s))) \/ (exists s2, Full s2 /\ trim_tail s = cut_step s2).
Proof.
  intros s Hf. pose proof Hf as [(Hi & Hwf & Hfx) Hba Hh Hp Hhd Hha]. pose proof Hba as (B1 & B2 & B3 & B4 & B5).
  pose proof (wf_bpow_lt s Hwf) as Hb. unfold trim_tail.
  pose proof (blk_allocate_aligned_spec s (shr (bmlen s) (bpow s)) (shr (bmoff s) (bpow s)) Hi Hwf B3) as Hsp.
  pose proof (loc_blk_allocate_aligned s (shr (bmlen s) (bpow s)) (shr (bmoff s) (bpow s))) as Hloc.
  destruct (blk_allocate_aligned s (shr (bmlen s) (bpow s)) (shr (bmoff s) (bpow s))) as [[[rc s1] off] len]. simpl in Hloc.
  destruct Hsp as [[-> ->]|(-> & -> & Ha & Hmod & Hmx)].
  - replace (negb (IWFS_ERROR_NO_FREE_SPACE =? 0) && negb (IWFS_ERROR_NO_FREE_SPACE =? IWFS_ERROR_NO_FREE_SPACE)) with false by reflexivity.
    replace (negb (IWFS_ERROR_NO_FREE_SPACE =? 0)) with true by reflexivity. cbv iota.
    replace (negb (0 =? 0)) with false by reflexivity. cbv iota. right. exists s. split; [exact Hf|reflexivity].
  - replace (negb (0 =? 0) && negb (0 =? IWFS_ERROR_NO_FREE_SPACE)) with false by reflexivity.
    replace (negb (0 =? 0)) with false by reflexivity. cbv iota.
    set (L := shr (bmlen s) (bpow s)) in *.
    pose proof Ha as (I1 & C1 & A1 & A2 & A3 & A4 & A5). pose proof C1 as (V1 & V2 & V3 & V4 & V5 & V6 & V7).
    assert (Hf1 : Full s1) by (apply (full_allocated s s1 off L Hf Ha); eapply hs_loc; [exact Hloc|exact Hh]).
    assert (HgS : Good s) by (split; [exact Hi|split; [exact Hwf|exact Hfx]]).
    destruct (shl off (bpow s) <? bmoff s) eqn:Elt.
    + (* relocation to the area just carved out; its length is the old length *)
      assert (HL : shl L (bpow s) = bmlen s) by (apply page_len_blocks; assumption). rewrite HL.
      pose proof (bmarea_after_alloc s s1 off L Ha Hba) as Hba1. pose proof Hba1 as (D1 & D2 & D3 & D4 & D5).
      assert (Hshr : shr (shl off (bpow s)) (bpow s1) = off) by (rewrite V2; apply shr_shl; lia).
      assert (Hbl0 : bmlen s <> 0).
      { intros He. unfold L in B3. rewrite He in B3. unfold shr in B3. rewrite Z.shiftr_0_l in B3. lia. }
      assert (Hnew : forall i, shr (shl off (bpow s)) (bpow s1) <= i < shr (shl off (bpow s)) (bpow s1) + shr (bmlen s) (bpow s1) ->
                     i < nbits s1 -> getb (bm s1) i = true).
      { intros i Hi1 _. rewrite Hshr, V2 in Hi1. fold L in Hi1. rewrite (alloc_flips_only_own s s1 off _ i Ha) by (unfold nbits in *; lia).
        replace ((off <=? i) && (i <? off + L)) with true; [reflexivity|].
        symmetry. apply andb_true_iff. split; [apply Z.leb_le|apply Z.ltb_lt]; lia. }
      pose proof (init_lw_reloc s1 (shl off (bpow s)) (bmlen s) I1 ltac:(rewrite V1; exact Hfx) ltac:(rewrite V2; lia)
                    ltac:(rewrite V4; exact Hbl0) ltac:(rewrite shl_mul by lia; nia) D1 D2 D3 D4 D5 Hnew
                    ltac:(pose proof (inv_u32 s Hi) as Hu; unfold nbits in Hu; lia)) as Ho.
      pose proof (hk_init_lw s1 (shl off (bpow s)) (bmlen s)) as Hk.
      destruct (init_lw s1 (shl off (bpow s)) (bmlen s)) as [rc2 s2]. simpl in Hk. unfold init_outcome in Ho.
      pose proof (hk_hs _ _ Hk (fu_hs s1 Hf1)) as Hh2.
      assert (HF2 : Full s2).
      { destruct Ho as [(Hrc & [->| ->])|(-> & I' & O1 & O2 & O3 & O4 & O5 & O6 & O7 & O8)].
        - exact Hf1.
        - apply full_ensure_size. exact Hf1.
        - constructor; [|
            apply (reloc_area s1 s2 (shl off (bpow s)) (bmlen s) (inv_len s1 I1) ltac:(lia) D1 ltac:(rewrite shl_mul by lia; nia)
                     ltac:(rewrite V2; lia) O8 O1 O2 O4 ltac:(rewrite <- V4; exact D3) ltac:(rewrite Hshr, V2; fold L; unfold nbits in A3; lia))
            |exact Hh2|unfold PageLen; rewrite O2, O5, V3; exact Hp|rewrite O6, V6; exact Hhd|].
          + split; [exact I'|]. split; [|rewrite O3, V1; exact Hfx].
            destruct Hwf as [Hbp (j & Hj & Hjr)]. constructor; [rewrite O4, V2; exact Hbp|]. exists j. rewrite O4, O5, V2, V3. split; assumption.
          + intros i Hi1 Hc. rewrite Hshr, V2 in Hi1. fold L in Hi1. unfold in_area in Hc. rewrite V2, V4, V5 in Hc.
            assert (getb (bm s) i = true) by (apply B5; exact Hc). rewrite A4 in H by lia. discriminate.
          + (* the header: every block in use outside the old area stays in use and outside the new area *)
            assert (HG : Grown s s2).
            { apply (reloc_grown s s1 s2 (shl off (bpow s)) (bmlen s) (inv_len s1 I1) O8 O1 O2 ltac:(congruence) ltac:(congruence) C1).
              - apply (keeps_alloc s s1 off L Ha).
              - lia.
              - exact B1.
              - rewrite shr_shl by lia. lia.
              - intros i Hi1 _. rewrite shr_shl in Hi1 by lia. apply A4. exact Hi1. }
            apply (hdrarea_grown s s2 Hha Hba); [|exact HG].
            apply (reloc_area s1 s2 (shl off (bpow s)) (bmlen s) (inv_len s1 I1) ltac:(lia) D1 ltac:(rewrite shl_mul by lia; nia)
                     ltac:(rewrite V2; lia) O8 O1 O2 O4 ltac:(rewrite <- V4; exact D3) ltac:(rewrite Hshr, V2; fold L; unfold nbits in A3; lia)).
            intros i Hi1 Hc. rewrite Hshr, V2 in Hi1. fold L in Hi1. unfold in_area in Hc. rewrite V2, V4, V5 in Hc.
            assert (getb (bm s) i = true) by (apply B5; exact Hc). rewrite A4 in H by lia. discriminate. }
      destruct (negb (rc2 =? 0)) eqn:E;
        [left; split; [simpl; intros ->; discriminate E|exact HF2]|right; exists s2; split; [exact HF2|reflexivity]].
    + (* "should never be reached": the area is given back *)
      destruct (carved_release s s1 off L HgS Hba Ha) as (I2 & B2' & C2 & K2).
      pose proof (loc_blk_deallocate s1 off L) as Hl2.
      destruct (blk_deallocate s1 off L) as [rc2 s2]. simpl in *.
      assert (HF2 : Full s2) by (apply (full_cfg s); [exact Hf|exact I2|exact B2'|eapply hs_loc; [exact Hl2|apply Hf1]|
                                  apply (hdrarea_keeps s); assumption|exact C2]).
      destruct (negb (rc2 =? 0)) eqn:E;
        [left; split; [simpl; intros ->; discriminate E|exact HF2]|right; exists s2; split; [exact HF2|reflexivity]].
Qed.

Lemma cut_step_full : forall s2, Full s2 -> Full (snd (cut_step s2)).
Proof.
  intros s2 H2. unfold cut_step.
  destruct (fsize s2 >? shl (match find_prev_set_bit (bm s2) (nbits s2) (shr (bmoff s2 + bmlen s2) (bpow s2)) with
                             | Some o => o + 1 | None => shr (bmoff s2 + bmlen s2) (bpow s2) end) (bpow s2));
    simpl; [apply full_set_fsize|]; exact H2.
Qed.

Theorem trim_full : forall s, Full s -> Full (snd (trim_tail s)).
Proof.
  intros s Hf. destruct (trim_shape s Hf) as [[_ H]|(s2 & H2 & E)]; [exact H|]. rewrite E. apply cut_step_full. exact H2.
Qed.

(* C11 "closing trims the file to the end of the last used block": after a trim that returns 0 there is a block number [last] -
   the end of the bitmap area, or one past a used block behind it - such that no block from [last] on is in use and the file
   ends at most at the page round-up of [last] *)
Theorem trim_to_last_used : forall s, Full s -> fst (trim_tail s) = 0 ->
  let s' := snd (trim_tail s) in
  exists last,
    (forall j, last <= j < nbits s' -> getb (bm s') j = false) /\
    (last = shr (bmoff s' + bmlen s') (bpow s') \/
     (shr (bmoff s' + bmlen s') (bpow s') < last <= nbits s' /\ getb (bm s') (last - 1) = true)) /\
    fsize s' <= IW_ROUNDUP (shl last (bpow s')) (aunit s').
Proof.
  intros s Hf H0. cbv zeta. destruct (trim_shape s Hf) as [[Hn _]|(s2 & H2 & E)]; [contradiction|]. rewrite E. clear E H0.
  pose proof H2 as [(Hi & Hwf & Hfx) Hba Hh Hp Hhd Hha]. pose proof Hba as (B1 & B2 & B3 & B4 & B5).
  pose proof (wf_bpow_lt s2 Hwf) as Hb. destruct Hwf as [Hbp (j & Hj & Hjr)].
  set (lb0 := shr (bmoff s2 + bmlen s2) (bpow s2)).
  assert (Hlb0 : 0 <= lb0) by (unfold lb0, shr; apply Z.shiftr_nonneg; lia).
  pose proof (find_prev_spec (bm s2) (nbits s2) lb0 Hlb0 ltac:(rewrite (inv_len s2 Hi); lia)) as Hsp.
  unfold cut_step. fold lb0.
  set (last := match find_prev_set_bit (bm s2) (nbits s2) lb0 with Some o => o + 1 | None => lb0 end).
  assert (Hlast : (forall jx, last <= jx < nbits s2 -> getb (bm s2) jx = false) /\
                  (last = lb0 \/ (lb0 < last <= nbits s2 /\ getb (bm s2) (last - 1) = true))).
  { unfold last. destruct (find_prev_set_bit (bm s2) (nbits s2) lb0) as [r|].
    - destruct Hsp as (R1 & R2 & R3). split; [intros jx Hjx; apply R3; lia|right].
      split; [lia|]. replace (r + 1 - 1) with r by lia. exact R2.
    - split; [intros jx Hjx; apply Hsp; lia|left; reflexivity]. }
  destruct Hlast as [Hfree Hwhich].
  assert (Hlast_le : 0 <= last <= Z.max lb0 (nbits s2)) by (destruct Hwhich as [->|[? _]]; lia).
  assert (Hx : shl last (bpow s2) <= IW_ROUNDUP (shl last (bpow s2)) (aunit s2) \/ nbits s2 < lb0).
  { destruct (Z_lt_ge_dec (nbits s2) lb0) as [G|G]; [right; exact G|left].
    rewrite Hj. rewrite shl_mul by lia.
    pose proof (inv_u32 s2 Hi) as Hu. change FSM_BKEY_MAX with 4294967295 in Hu.
    assert (Hp1 : 0 < 2 ^ bpow s2) by (apply Z.pow_pos_nonneg; lia).
    assert (Hp2 : 2 ^ bpow s2 <= 2 ^ 31) by (apply Z.pow_le_mono_r; lia).
    assert (Hp3 : 2 ^ j < 2 ^ 32) by (apply Z.pow_lt_mono_r; lia).
    change (2 ^ 31) with 2147483648 in Hp2. change (2 ^ 32) with 4294967296 in Hp3.
    destruct (roundup_pow2_props (last * 2 ^ bpow s2) j ltac:(lia) ltac:(nia)
                ltac:(change (2 ^ 64) with 18446744073709551616; nia)) as [Hr _]. lia. }
  exists last.
  destruct (fsize s2 >? shl last (bpow s2)) eqn:Eg; simpl.
  - split; [exact Hfree|]. split; [exact Hwhich|]. unfold nbits. simpl. lia.
  - split; [exact Hfree|]. split; [exact Hwhich|].
    rewrite Z.gtb_ltb in Eg. apply Z.ltb_ge in Eg. destruct Hx as [Hx|Hx]; [lia|].
    (* the bitmap area cannot end behind the blocks the bitmap describes *)
    exfalso. unfold lb0 in Hx.
    (* the length of the bitmap is a multiple of the block size: the end of the area in blocks is exact *)
    assert (Hwf2 : WF s2) by (constructor; [exact Hbp|exists j; split; [exact Hj|exact Hjr]]).
    pose proof (page_len_blocks s2 Hwf2 Hp B2) as Hpl. rewrite shl_mul in Hpl by lia.
    assert (He : shr (bmoff s2 + bmlen s2) (bpow s2) = shr (bmoff s2) (bpow s2) + shr (bmlen s2) (bpow s2)).
    { rewrite <- Hpl at 1. rewrite (shr_div (bmoff s2 + _)) by lia. rewrite Z.div_add by (apply Z.pow_nonzero; lia).
      rewrite <- shr_div by lia. reflexivity. }
    lia.
Qed.

(* ---------------------------------------------------------------- B5. first-time layout: new file, _fsm_clear *)
Lemma getb_repeat_false : forall n i, getb (repeat false n) i = false.
Proof. intros n i. unfold getb. destruct (nth_in_or_default (Z.to_nat i) (repeat false n) false) as [H|H]; [|exact H]. apply repeat_spec in H. exact H. Qed.

Definition first_cfg (s0 s' : fsm) (nbmoff nbmlen : Z) : Prop :=
  bmoff s' = nbmoff /\ bmlen s' = nbmlen /\ vr s' = vr s0 /\ bpow s' = bpow s0 /\ aunit s' = aunit s0 /\
  hdrlen s' = hdrlen s0 /\ strict s' = strict s0 /\ maxoff s' = maxoff s0 /\
  (* header blocks and the blocks of the bitmap area are allocated, every other block is free *)
  (forall i, 0 <= i < nbmlen * 8 ->
     getb (bm s') i = ((0 <=? i) && (i <? shr (hdrlen s0) (bpow s0))) ||
                      ((shr nbmoff (bpow s0) <=? i) && (i <? shr nbmoff (bpow s0) + shr nbmlen (bpow s0)))).

(* _fsm_init_lw on an allocator without a bitmap (bmlen = 0: a new file, or _fsm_clear which has just zeroed bmoff/bmlen):
   when it answers 0 the result satisfies the state predicate *)
Lemma init_lw_first : forall s0 nbmoff nbmlen, bmlen s0 = 0 -> WF s0 -> fx_lfbk (vr s0) = true ->
  (lfbkoff s0 = 0 \/ (0 <= lfbkoff s0 + lfbklen s0 - 1 /\ lfbkoff s0 + lfbklen s0 <= nbmlen * 8)) ->
  nbmlen * 8 <= FSM_BKEY_MAX -> 0 <= nbmoff -> 0 <= hdrlen s0 <= nbmoff -> hdrlen s0 < 2 ^ 32 -> nbmlen mod aunit s0 = 0 ->
  fst (init_lw s0 nbmoff nbmlen) = 0 ->
  Full (snd (init_lw s0 nbmoff nbmlen)) /\ first_cfg s0 (snd (init_lw s0 nbmoff nbmlen)) nbmoff nbmlen.
Proof.
  intros s0 nbmoff nbmlen Hz Hwf Hfx Hcache Hmax Hno Hhd Hhd32 Hpl. pose proof (wf_bpow_lt s0 Hwf) as Hb. unfold init_lw.
  destruct (negb (nbmlen mod pow2 (bpow s0) =? 0) || negb (nbmoff mod pow2 (bpow s0) =? 0) || negb (nbmoff mod aunit s0 =? 0));
    [intros H; vm_compute in H; discriminate H|].
  rewrite Hz.
  destruct (nbmlen <? 0) eqn:E2; [intros H; vm_compute in H; discriminate H|]. apply Z.ltb_ge in E2.
  destruct (nbmlen * 8 <? shr (nbmoff + nbmlen) (bpow s0) + 1) eqn:E3; [intros H; vm_compute in H; discriminate H|]. apply Z.ltb_ge in E3.
  destruct (negb (ensure_ok s0 (nbmoff + nbmlen))); [intros H; vm_compute in H; discriminate H|].
  replace (0 =? 0) with true by reflexivity. simpl negb. simpl andb. cbv iota.
  set (s00 := ensure_size s0 (nbmoff + nbmlen)).
  destruct (ensure_fields s0 (nbmoff + nbmlen)) as [_ C0]. fold s00 in C0. destruct C0 as (G1 & G2 & G3 & G4 & G5 & G6 & G7).
  set (nbm := repeat false (Z.to_nat (8 * nbmlen))).
  assert (Hnbm : len_z nbm = nbmlen * 8) by (unfold nbm; rewrite len_z_repeat; lia).
  set (s1 := set_bmloc (set_bm s00 nbm) nbmoff nbmlen).
  set (nb := shr nbmoff (bpow s0)). set (nl := shr nbmlen (bpow s0)). set (hb := shr (hdrlen s0) (bpow s0)).
  assert (Hnn : nb + nl <= nbmlen * 8 - 1).
  { pose proof (shr_add_le nbmoff nbmlen (bpow s0) ltac:(lia) Hno E2). unfold nb, nl. lia. }
  assert (Hnl0 : 0 <= nl) by (unfold nl; rewrite shr_div by lia; apply Z.div_pos; [lia|apply Z.pow_pos_nonneg; lia]).
  assert (Hnb0 : 0 <= nb) by (unfold nb; rewrite shr_div by lia; apply Z.div_pos; [lia|apply Z.pow_pos_nonneg; lia]).
  assert (Hhb0 : 0 <= hb) by (unfold hb; rewrite shr_div by lia; apply Z.div_pos; [lia|apply Z.pow_pos_nonneg; lia]).
  assert (Hhb : hb <= nb) by (unfold hb, nb; apply shr_mono; lia).
  rewrite (set_bit_status_nochk s1 nb nl true) by (change (nbits s1) with (nbmlen * 8); lia).
  replace (negb (0 =? 0)) with false by reflexivity. cbv iota.
  set (bm2 := set_range (bm s1) nb nl true).
  set (s2 := set_bm s1 bm2).
  rewrite (set_bit_status_nochk s2 0 hb true) by (change (nbits s2) with (nbmlen * 8); lia).
  replace (negb (0 =? 0)) with false by reflexivity. cbv iota.
  set (bm3 := set_range (bm s2) 0 hb true).
  set (s3 := set_bm s2 bm3).
  intros _. simpl snd.
  assert (Hl3 : len_z bm3 = nbmlen * 8).
  { unfold bm3. rewrite set_range_length. change (bm s2) with bm2. unfold bm2. rewrite set_range_length. exact Hnbm. }
  assert (Hb3 : forall i, 0 <= i < nbmlen * 8 ->
            getb bm3 i = ((0 <=? i) && (i <? hb)) || ((nb <=? i) && (i <? nb + nl))).
  { intros i Hi. unfold bm3. change (bm s2) with bm2.
    assert (Hl2 : len_z bm2 = nbmlen * 8) by (unfold bm2; change (bm s1) with nbm; rewrite set_range_length; exact Hnbm).
    rewrite getb_set_range by lia. rewrite Z.add_0_l.
    destruct ((0 <=? i) && (i <? hb)); [reflexivity|]. unfold bm2. change (bm s1) with nbm.
    rewrite getb_set_range by (rewrite ?Hnbm; lia).
    destruct ((nb <=? i) && (i <? nb + nl)); [reflexivity|]. unfold nbm. apply getb_repeat_false. }
  destruct (load_fsm_spec s3 ltac:(exact Hl3) ltac:(change (nbits s3) with (nbmlen * 8); exact Hmax)) as (F & S & M & L).
  assert (HLF : LF (load_fsm s3)).
  { apply L. change (lfbkoff s3) with (lfbkoff s00). change (lfbklen s3) with (lfbklen s00).
    assert (E1 : lfbkoff s00 = lfbkoff s0) by (unfold s00, ensure_size; destruct (fsize s0 >=? nbmoff + nbmlen); reflexivity).
    assert (E2' : lfbklen s00 = lfbklen s0) by (unfold s00, ensure_size; destruct (fsize s0 >=? nbmoff + nbmlen); reflexivity).
    rewrite E1, E2'. destruct Hcache as [Hc|[Hc0 Hc]]; [left; exact Hc|right]. exists (nbmlen * 8 - 1). split; [lia|].
    change (bm s3) with bm3. rewrite wbit_in by (rewrite Hl3; lia). rewrite Hb3 by lia.
    replace (nbmlen * 8 - 1 <? hb) with false by (symmetry; apply Z.ltb_ge; lia). rewrite andb_false_r.
    replace (nbmlen * 8 - 1 <? nb + nl) with false by (symmetry; apply Z.ltb_ge; lia). rewrite andb_false_r. reflexivity. }
  set (s4 := write_meta (load_fsm s3)).
  pose proof (frame_same_cfg _ _ F) as C3. destruct F as (B1 & B2 & B3 & F4 & F5 & F6 & F7 & F8 & F9 & F10 & F11 & F12 & F13 & F14 & F15).
  assert (Hi4 : Inv s4).
  { constructor.
    - simpl. rewrite B1. unfold nbits. simpl. rewrite B3. exact Hl3.
    - unfold nbits. simpl. rewrite B3. exact Hmax.
    - split; [exact S|exact HLF].
    - intros o n. simpl. rewrite B1. apply M. }
  destruct C3 as (D1 & D2 & D3 & D4 & D5 & D6 & D7).
  assert (K : bmoff s4 = nbmoff /\ bmlen s4 = nbmlen /\ vr s4 = vr s0 /\ bpow s4 = bpow s0 /\ aunit s4 = aunit s0 /\
              hdrlen s4 = hdrlen s0 /\ strict s4 = strict s0 /\ bm s4 = bm3).
  { simpl in *. repeat split; congruence. }
  destruct K as (K1 & K2 & K3 & K4 & K5 & K6 & K7 & K8).
  assert (Kmx : maxoff s4 = maxoff s0).
  { change (maxoff s4) with (maxoff (load_fsm s3)).
    assert (Gm : forall R a, maxoff (fold_left (fun a r => put_fbk a (fst r) (snd r)) R a) = maxoff a).
    { induction R as [|r R IH]; intros a; simpl; [reflexivity|]. rewrite IH.
      unfold put_fbk. destruct (negb (bkey_ok (fst r) (snd r))); [reflexivity|].
      destruct (tree_insert (snd r, fst r) (tree a)) as [t' ins]. destruct ins; simpl negb; cbv iota; [|reflexivity].
      destruct (fst r + snd r >=? lfbkoff a + lfbklen a); reflexivity. }
    unfold load_fsm. rewrite Gm. simpl. unfold s00, ensure_size. destruct (fsize s0 >=? nbmoff + nbmlen); reflexivity. }
  split.
  - constructor.
    + split; [exact Hi4|]. split; [|rewrite K3; exact Hfx].
      destruct Hwf as [Hbp (j & Hj & Hjr)]. constructor; [rewrite K4; exact Hbp|]. exists j. rewrite K4, K5. split; assumption.
    + unfold BmArea. rewrite K1, K2, K4, K8. fold nb nl. unfold nbits. rewrite K2.
      split; [exact Hno|]. split; [exact E2|]. split.
      * (* the area is not empty: nbmlen is a positive multiple of the page size *)
        unfold nl. rewrite shr_div by lia. apply Z.div_str_pos.
        destruct Hwf as [Hbp (j & Hj & Hjr)]. rewrite Hj in Hpl.
        assert (0 < nbmlen).
        { destruct (Z.eq_dec nbmlen 0) as [Hn0|Hn0]; [|lia]. exfalso. rewrite Hn0 in E3.
          assert (0 <= shr (nbmoff + 0) (bpow s0)) by (unfold shr; apply Z.shiftr_nonneg; lia). lia. }
        apply Z.mod_divide in Hpl; [|apply Z.pow_nonzero; lia]. destruct Hpl as [q Hq].
        assert (2 ^ bpow s0 <= 2 ^ j) by (apply Z.pow_le_mono_r; lia).
        assert (0 < 2 ^ j) by (apply Z.pow_pos_nonneg; lia). split; [apply Z.pow_pos_nonneg; lia|].
        assert (1 <= q) by nia. assert (2 ^ j <= nbmlen) by nia. lia.
      * split; [lia|]. intros i Hi1. rewrite Hb3 by lia.
        replace ((nb <=? i) && (i <? nb + nl)) with true
          by (symmetry; apply andb_true_iff; split; [apply Z.leb_le|apply Z.ltb_lt]; lia).
        apply orb_true_r.
    + apply hs_write_meta.
    + unfold PageLen. rewrite K2, K5. exact Hpl.
    + rewrite K6. lia.
    + unfold HdrArea. rewrite K1, K4, K6, K8. fold hb nb. split; [exact Hhb|].
      intros i Hi1. rewrite Hb3 by lia.
      replace ((0 <=? i) && (i <? hb)) with true by (symmetry; apply andb_true_iff; split; [apply Z.leb_le|apply Z.ltb_lt]; lia).
      reflexivity.
  - unfold first_cfg. fold hb nb nl. rewrite K8.
    split; [exact K1|]. split; [exact K2|]. split; [exact K3|]. split; [exact K4|]. split; [exact K5|]. split; [exact K6|].
    split; [exact K7|]. split; [exact Kmx|exact Hb3].
Qed.

(* ---- _fsm_clear that returns 0: the allocator is laid out anew at the first page behind the header, with a bitmap of the
   current length; C11: "clearing resets it to the initial state" - [first_cfg] says which blocks are allocated afterwards *)
Lemma roundup_hdr : forall s, WF s -> 0 <= hdrlen s < 2 ^ 32 -> hdrlen s <= IW_ROUNDUP (hdrlen s) (aunit s).
Proof.
  intros s [Hbp (j & Hj & Hjr)] Hh. rewrite Hj. assert (Hp2 : 2 ^ j < 2 ^ 32) by (apply Z.pow_lt_mono_r; lia).
  destruct (roundup_pow2_props (hdrlen s) j ltac:(lia) ltac:(lia)
              ltac:(change (2 ^ 64) with (2 ^ 32 * 2 ^ 32); change (2 ^ 32) with 4294967296 in *; lia)) as [H _]. lia.
Qed.

Theorem clear_full : forall s tr, Full s -> fst (clear s tr) = 0 ->
  Full (snd (clear s tr)) /\
  (tr = false -> first_cfg s (snd (clear s tr)) (IW_ROUNDUP (hdrlen s) (aunit s)) (bmlen s)).
Proof.
  intros s tr Hf. pose proof Hf as [(Hi & Hwf & Hfx) Hba Hh Hp Hhd Hha]. pose proof Hba as (B1 & B2 & B3 & _). unfold clear.
  assert (Hbl0 : (bmlen s =? 0) = false).
  { apply Z.eqb_neq. intros He. rewrite He in B3. unfold shr in B3. rewrite Z.shiftr_0_l in B3. lia. }
  rewrite Hbl0. set (s0 := set_bmloc s 0 0). set (nbmoff := IW_ROUNDUP (hdrlen s) (aunit s)).
  pose proof (roundup_hdr s Hwf Hhd) as Hro. fold nbmoff in Hro.
  assert (Hcache : lfbkoff s0 = 0 \/ (0 <= lfbkoff s0 + lfbklen s0 - 1 /\ lfbkoff s0 + lfbklen s0 <= bmlen s * 8)).
  { change (lfbkoff s0) with (lfbkoff s). change (lfbklen s0) with (lfbklen s).
    destruct (Z.eq_dec (lfbkoff s) 0) as [Hz|Hnz]; [left; exact Hz|right].
    destruct (inv_ts s Hi) as [_ Hlf]. specialize (Hlf Hnz). apply (inv_runs s Hi) in Hlf.
    destruct Hlf as (R1 & R2 & R3 & _). rewrite (inv_len s Hi) in R3. unfold nbits in R3. lia. }
  assert (Hwf0 : WF s0) by (destruct Hwf as [W1 W2]; constructor; assumption).
  pose proof (init_lw_first s0 nbmoff (bmlen s) eq_refl Hwf0 Hfx Hcache
                ltac:(pose proof (inv_u32 s Hi) as Hu; unfold nbits in Hu; exact Hu) ltac:(lia)
                ltac:(change (hdrlen s0) with (hdrlen s); lia) ltac:(change (hdrlen s0) with (hdrlen s); lia) Hp) as H1.
  destruct (init_lw s0 nbmoff (bmlen s)) as [rc s1]. simpl in H1.
  destruct (rc =? 0) eqn:Erc; simpl andb.
  - apply Z.eqb_eq in Erc. subst rc. destruct (H1 eq_refl) as [F1 C1].
    destruct tr.
    + intros _. split; [|intros Hc; discriminate Hc].
      pose proof (trim_full s1 F1) as Ht. destruct (trim_tail s1) as [rc2 s2]. exact Ht.
    + intros _. simpl. split; [exact F1|intros _; exact C1].
  - simpl. intros H0. apply Z.eqb_neq in Erc. contradiction.
Qed.

(* ---- iwfs_fsmfile_open of a new file *)
Theorem open_new_full : forall v bp hl bl mx st, fx_lfbk v = true -> 0 <= bp -> bl <= 2 ^ 28 ->
  fst (open_new_max v bp hl bl mx st) = 0 -> Full (snd (open_new_max v bp hl bl mx st)).
Proof.
  intros v bp hl bl mx st Hfx Hbp Hbl. unfold open_new_max.
  set (bp' := if bp =? 0 then FSM_DEFAULT_BPOW else bp).
  assert (Hbp' : 0 <= bp') by (unfold bp'; destruct (bp =? 0); [vm_compute; discriminate|exact Hbp]).
  destruct (bp' >? FSM_MAX_BLOCK_POW) eqn:E1; [intros H; vm_compute in H; discriminate H|].
  destruct (pow2 bp' >? FSM_AUNIT) eqn:E2; [intros H; vm_compute in H; discriminate H|].
  rewrite Z.gtb_ltb in E1, E2. apply Z.ltb_ge in E1. apply Z.ltb_ge in E2.
  assert (Hb12 : bp' <= 12).
  { destruct (Z_le_gt_dec bp' 12) as [|G]; [assumption|]. exfalso. rewrite pow2_shl in E2 by lia.
    assert (2 ^ 13 <= 2 ^ bp') by (apply Z.pow_le_mono_r; lia). change FSM_AUNIT with 4096 in E2. change (2 ^ 13) with 8192 in H. lia. }
  set (mx' := if mx >=? FSM_AUNIT then IW_ROUNDOWN mx FSM_AUNIT else 0).
  set (hl' := IW_ROUNDUP (uw 32 (hl + IWFSM_CUSTOM_HDR_DATA_OFFSET)) (pow2 bp')).
  set (s1 := mkFsm [] [] 0 0 0 0 (uw 32 hl') bp' FSM_AUNIT 0 0 0 0 0 0 0 mx' st v).
  set (nbmlen := if bl >? 0 then IW_ROUNDUP bl FSM_AUNIT else FSM_AUNIT).
  assert (Hu : 0 <= uw 32 hl' < 2 ^ 32) by (unfold uw; apply Z.mod_pos_bound; reflexivity).
  assert (Hwf : WF s1) by (constructor; [exact Hbp'|exists 12; split; [reflexivity|simpl; lia]]).
  assert (Hn : 0 < nbmlen /\ nbmlen * 8 <= FSM_BKEY_MAX /\ nbmlen mod FSM_AUNIT = 0).
  { unfold nbmlen. destruct (bl >? 0) eqn:Eb; [|vm_compute; repeat split; discriminate]. apply Z.gtb_lt in Eb.
    change FSM_AUNIT with (2 ^ 12).
    destruct (roundup_pow2_props bl 12 ltac:(lia) ltac:(lia) ltac:(change (2 ^ 28) with 268435456 in Hbl; change (2 ^ 12) with 4096; change (2 ^ 64) with 18446744073709551616; lia)) as [Hr Hm].
    change (2 ^ 28) with 268435456 in Hbl. change (2 ^ 12) with 4096 in *. change FSM_BKEY_MAX with 4294967295.
    split; [lia|]. split; [|exact Hm].
    apply Z.mod_divide in Hm; [|lia]. destruct Hm as [q Hq]. lia. }
  destruct Hn as (Hn0 & Hn1 & Hn2).
  destruct (roundup_pow2_props (uw 32 hl') 12 ltac:(lia) ltac:(lia) ltac:(change (2 ^ 64) with (2 ^ 32 * 2 ^ 32); change (2 ^ 32) with 4294967296 in *; change (2 ^ 12) with 4096; lia)) as [Hro _].
  change (2 ^ 12) with FSM_AUNIT in Hro.
  intros H0.
  apply (init_lw_first s1 (IW_ROUNDUP (uw 32 hl') FSM_AUNIT) nbmlen eq_refl Hwf Hfx (or_introl eq_refl) Hn1
           ltac:(lia) ltac:(simpl; lia) ltac:(simpl; lia) Hn2 H0).
Qed.

(* ---- close + reopen, trim or not, free space or none *)
Lemma full_write_meta : forall s, Full s -> Full (write_meta s).
Proof.
  intros s Hf. pose proof Hf as [(Hi & Hwf & Hfx) Hb Hh Hp Hhd Hha].
  apply (full_cfg s); [exact Hf|apply (Inv_ext s); try reflexivity; exact Hi|exact Hb|apply hs_write_meta|exact Hha|unfold same_cfg; repeat split].
Qed.

Lemma close_full : forall s notrim, Full s -> Full (snd (close s notrim)).
Proof.
  intros s notrim Hf. unfold close. destruct (tree s); [exact Hf|].
  destruct notrim; [simpl; apply full_write_meta; exact Hf|].
  pose proof (trim_full s Hf) as Ht. destruct (trim_tail s) as [rc s1]. simpl in *. apply full_write_meta. exact Ht.
Qed.

Lemma reopen_full : forall s st mm, Full s -> Full (reopen s st mm).
Proof.
  intros s st mm Hf. pose proof Hf as [(Hi & Hwf & Hfx) Hba Hh Hp Hhd Hha].
  destruct (reopen_same s st mm (proj2 (hs_iff s) Hh) (inv_len s Hi) (inv_u32 s Hi) Hwf Hfx) as (Hg & E1 & E2 & E3 & E4 & E5 & _).
  assert (Ea : aunit (reopen s st mm) = aunit s) by (unfold reopen; destruct (geo_load_fsm (mkFsm (disk_bm s) [] 0 0 (p_bmoff s) (p_bmlen s) (hdrlen s) (bpow s) (aunit s) (fsize s) (p_crzsum s) (p_crznum s) (p_crzsum s) (p_crznum s) (p_bmoff s) (p_bmlen s) (maxoff s) st (mkVariant (fx_lfbk (vr s)) (fx_strict (vr s)) (fx_sync (vr s)) (fx_short (vr s)) (fx_realloc (vr s)) (fx_hint (vr s)) (fx_leak (vr s)) (fx_recheck (vr s)) (fx_solid (vr s)) mm))) as [_ Ha]; exact Ha).
  constructor; [exact Hg| |apply hs_reopen| |rewrite E4; exact Hhd|].
  - unfold BmArea, nbits. rewrite E1, E2, E3, E5. exact Hba.
  - unfold PageLen. rewrite E3, Ea. exact Hp.
  - unfold HdrArea. rewrite E1, E2, E4, E5. exact Hha.
Qed.

(* ---------------------------------------------------------------- B6. every operation, every history *)
(* what the client may do in state s: request anything (any flags, any hint); give back or resize only ranges it owns - all of
   their blocks allocated, and never part of the header / the bitmap area (after fixes/fsm-realloc-guard.diff reallocate checks
   the latter itself, as deallocate always did); clear, as long as it succeeds; sync; close with or without trim + reopen *)
Definition client_all (s : fsm) (o : op) : Prop :=
  match o with
  | OAlloc len hint opts ovr => len < 2 ^ 62
  | ORealloc nlen addr olen opts ovr => 0 <= nlen < 2 ^ 62 /\ live_range s (blk_of s addr) (blk_of s olen) /\
      (fx_realloc (vr s) = true \/ touches_meta s (blk_of s addr) (blk_of s olen) = false)
  | OFree addr len => live_range s (blk_of s addr) (blk_of s len)
  | OClear tr => fst (clear s tr) = 0
  | OSync => True
  | OCloseReopen _ _ _ => True
  end.

Theorem step_full : forall s o, Full s -> client_all s o -> bmlen (state_of (step s o)) * 16 <= FSM_BKEY_MAX ->
  Full (state_of (step s o)).
Proof.
  intros s o Hf Hc. destruct o as [len hint opts ovr|nlen addr olen opts ovr|addr len|tr| |nt st mm]; simpl in Hc; unfold step.
  - intros Hb. apply (allocate_full s len hint opts ovr Hf Hc Hb).
  - destruct Hc as (H1 & H2 & H3). intros Hb. apply (reallocate_full s nlen addr olen opts ovr Hf H1 H2 H3 Hb).
  - intros _. pose proof (deallocate_full s addr len Hf Hc) as H. destruct (deallocate s addr len) as [rc s1]. exact H.
  - intros _. destruct (clear_full s tr Hf Hc) as [H _]. destruct (clear s tr) as [rc s1]. exact H.
  - intros _. simpl. apply full_write_meta. exact Hf.
  - intros _. pose proof (close_full s nt Hf) as H. destruct (close s nt) as [rc s1]. simpl in *. apply reopen_full. exact H.
Qed.

Inductive ok_all : fsm -> list op -> Prop :=
| oka_nil : forall s, ok_all s []
| oka_cons : forall s o ops, client_all s o -> ok_all (state_of (step s o)) ops -> ok_all s (o :: ops).

Lemma ok_all_clears : forall ops s, ok_all s ops -> clears_ok_run s ops.
Proof.
  induction ops as [|o ops IH]; intros s H; [exact I|]. inversion H; subst. split; [|apply IH; assumption].
  intros tr ->. simpl in *. assumption.
Qed.

(* EVERY HISTORY (C10/C11, no _partial): allocations with any flags - bitmap growth through both retry loops included -
   reallocations and releases of owned ranges, clear, sync, close with and without trim + reopen.  The one hypothesis is on the
   OUTCOME: the bitmap at the end is below 2^28 bits (a file of fewer than 2^28 blocks: 16 GB with 64-byte blocks) - the block
   keys are 32 bits wide and nothing in the code stops the growth before they overflow. *)
Theorem run_full : forall ops s, Full s -> ok_all s ops -> bmlen (run s ops) * 16 <= FSM_BKEY_MAX -> Full (run s ops).
Proof.
  induction ops as [|o ops IH]; intros s Hf Hok Hb; [exact Hf|].
  inversion Hok; subst. unfold run in *. simpl in *.
  assert (Hc : clears_ok s o) by (intros tr ->; simpl in *; assumption).
  assert (Hs1 : HS (state_of (step s o))) by (apply hs_step; [apply Hf|exact Hc]).
  pose proof (mono_run ops (state_of (step s o)) Hs1 (ok_all_clears _ _ H3)) as Hm. unfold mono, run in Hm.
  apply IH; [apply step_full; [exact Hf|assumption|lia]|assumption|exact Hb].
Qed.

(* ---------------------------------------------------------------- B7. reachable states; corollaries for Properties_C10/C11 *)
(* what can be reached from a NEW file through the public operations (any arguments whatsoever; a clear must not fail) *)
Inductive reachable : fsm -> Prop :=
| rch_new : forall v bp hl bl mx st, fst (open_new_max v bp hl bl mx st) = 0 -> reachable (snd (open_new_max v bp hl bl mx st))
| rch_step : forall s o, reachable s -> clears_ok s o -> reachable (state_of (step s o)).

(* the file header names the bitmap area in use in EVERY reachable state: the hypothesis [hdr_current s = true] that
   C10_every_history_good_partial, C11_tree_is_runs_partial and C11_reopen_same carried in round 5 is discharged *)
Theorem reachable_hdr_current : forall s, reachable s -> hdr_current s = true.
Proof.
  intros s H. apply hs_iff. induction H as [v bp hl bl mx st H0|s o H IH Hc].
  - apply hs_open_new_max. exact H0.
  - apply hs_step; assumption.
Qed.

Lemma reachable_run : forall ops s, reachable s -> clears_ok_run s ops -> reachable (run s ops).
Proof.
  induction ops as [|o ops IH]; intros s H Hc; [exact H|]. destruct Hc as [H1 H2]. unfold run. simpl.
  apply IH; [apply rch_step; assumption|exact H2].
Qed.

(* histories without bitmap growth (round 1 statement), over reachable states, no size hypothesis *)
Theorem run_good_reachable : forall ops s, reachable s -> Good s -> ok_run s ops -> Good (run s ops).
Proof. intros ops s Hr Hg Hok. apply run_good; [exact Hg|apply reachable_hdr_current; exact Hr|exact Hok]. Qed.

Theorem tree_is_runs_reachable : forall ops s, reachable s -> Good s -> ok_run s ops ->
  forall o n, In (n, o) (tree (run s ops)) <-> is_run (bm (run s ops)) o n.
Proof. intros ops s Hr Hg Hok. apply tree_is_runs_partial; [exact Hg|apply reachable_hdr_current; exact Hr|exact Hok]. Qed.

Theorem reopen_same_reachable : forall s st mm, reachable s ->
  len_z (bm s) = nbits s -> nbits s <= FSM_BKEY_MAX -> WF s -> fx_lfbk (vr s) = true ->
  Good (reopen s st mm) /\ bm (reopen s st mm) = bm s /\ bmoff (reopen s st mm) = bmoff s /\
  bmlen (reopen s st mm) = bmlen s /\ hdrlen (reopen s st mm) = hdrlen s /\ bpow (reopen s st mm) = bpow s /\
  (forall o n, In (n, o) (tree (reopen s st mm)) <-> is_run (bm s) o n).
Proof. intros s st mm Hr. apply reopen_same. apply reachable_hdr_current. exact Hr. Qed.

(* EVERY history from a new file *)
Theorem every_history_full : forall v bp hl bl mx st ops, fx_lfbk v = true -> 0 <= bp -> bl <= 2 ^ 28 ->
  fst (open_new_max v bp hl bl mx st) = 0 ->
  ok_all (snd (open_new_max v bp hl bl mx st)) ops ->
  bmlen (run (snd (open_new_max v bp hl bl mx st)) ops) * 16 <= FSM_BKEY_MAX ->
  Full (run (snd (open_new_max v bp hl bl mx st)) ops).
Proof. intros v bp hl bl mx st ops Hfx Hbp Hbl H0 Hok Hb. apply run_full; [apply open_new_full; assumption|exact Hok|exact Hb]. Qed.

Lemma full_facts : forall s, Full s ->
  Good s /\ hdr_current s = true /\ (forall o n, In (n, o) (tree s) <-> is_run (bm s) o n) /\
  (forall i, in_area s i -> getb (bm s) i = true) /\
  (forall i, 0 <= i < shr (hdrlen s) (bpow s) -> getb (bm s) i = true).
Proof.
  intros s [Hg Hb Hh Hp Hd Ha]. split; [exact Hg|]. split; [apply hs_iff; exact Hh|]. split; [apply (inv_runs s (proj1 Hg))|].
  destruct Hb as (_ & _ & _ & _ & B). split; [exact B|apply Ha].
Qed.

(* the hypotheses are satisfiable: a new 64-byte-block file and a history on it that grows the bitmap (the second request does
   not fit the 32768 blocks the first bitmap covers), shrinks and releases, clears, and closes with trim *)
Definition full_witness_ops : list op :=
  [OAlloc 256 0 0 false; OAlloc 2097152 0 9 false; ORealloc 64 128 256 0 false; OFree 128 64; OSync;
   OCloseReopen false true false; OClear false; OAlloc 100 (2 ^ 40) 4 false].

Fixpoint client_allb (s : fsm) (o : op) : bool :=
  match o with
  | OAlloc len hint opts ovr => len <? 2 ^ 62
  | ORealloc nlen addr olen opts ovr => (0 <=? nlen) && (nlen <? 2 ^ 62) && live_rangeb s (blk_of s addr) (blk_of s olen) &&
      (fx_realloc (vr s) || negb (touches_meta s (blk_of s addr) (blk_of s olen)))
  | OFree addr len => live_rangeb s (blk_of s addr) (blk_of s len)
  | OClear tr => fst (clear s tr) =? 0
  | OSync => true
  | OCloseReopen _ _ _ => true
  end.
Fixpoint ok_allb (s : fsm) (ops : list op) : bool :=
  match ops with [] => true | o :: r => client_allb s o && ok_allb (state_of (step s o)) r end.
Lemma client_allb_sound : forall s o, client_allb s o = true -> client_all s o.
Proof.
  intros s [len hint opts ovr|nlen addr olen opts ovr|addr len|tr| |nt st mm] H; cbn [client_allb client_all] in *.
  - apply Z.ltb_lt. exact H.
  - repeat (apply andb_true_iff in H; destruct H as [H ?]). split; [lia|]. split; [apply live_rangeb_sound; assumption|].
    apply orb_true_iff in H0. destruct H0 as [H0|H0]; [left; exact H0|right; apply negb_true_iff; exact H0].
  - apply live_rangeb_sound. exact H.
  - apply Z.eqb_eq. exact H.
  - exact I.
  - exact I.
Qed.
Lemma ok_allb_sound : forall ops s, ok_allb s ops = true -> ok_all s ops.
Proof.
  induction ops as [|o r IH]; intros s H; [constructor|]. simpl in H. apply andb_true_iff in H. destruct H as [H1 H2].
  constructor; [apply client_allb_sound; exact H1|apply IH; exact H2].
Qed.

Lemma full_witness : fst (open_new_max v_fixed 6 0 0 0 false) = 0 /\
  ok_all (snd (open_new_max v_fixed 6 0 0 0 false)) full_witness_ops /\
  (let s := run (snd (open_new_max v_fixed 6 0 0 0 false)) full_witness_ops in
   (bmlen s, bmoff s) = (8192, 4096) /\ bmlen s * 16 <= FSM_BKEY_MAX).
Proof.
  split; [vm_compute; reflexivity|]. split; [apply ok_allb_sound; vm_compute; reflexivity|].
  cbv zeta. split; [vm_compute; reflexivity|dec_goal].
Qed.

(* ================================================================ round 7: reallocate of a range the caller does not own *)
(* code after fixes/fsm-realloc-recheck.diff *)
Theorem realloc_negative_refused : forall s nlen addr olen opts ovr, fx_recheck (vr s) = true -> nlen < 0 ->
  let '(rc, s', a, l) := reallocate s nlen addr olen opts ovr in rc <> 0 /\ s' = s /\ a = addr /\ l = olen.
Proof.
  intros s nlen addr olen opts ovr Hfx Hn. unfold reallocate.
  destruct (negb (Z.land addr (blkmask s) =? 0) || negb (Z.land olen (blkmask s) =? 0)); [repeat split; vm_compute; discriminate|].
  rewrite Hfx. replace (nlen <? 0) with true by (symmetry; apply Z.ltb_lt; exact Hn). simpl. repeat split. vm_compute. discriminate.
Qed.

(* strict mode: a growing reallocate whose old range holds a free block is refused BEFORE anything is taken for the new region *)
Theorem realloc_strict_unowned_refused : forall s nlen addr olen opts ovr, fx_recheck (vr s) = true -> strict s = true ->
  Z.land addr (blkmask s) = 0 -> Z.land olen (blkmask s) = 0 -> 0 <= nlen ->
  blk_of s olen < shr (IW_ROUNDUP nlen (pow2 (bpow s))) (bpow s) ->
  0 <= blk_of s addr -> 0 <= blk_of s olen -> blk_of s addr + blk_of s olen <= nbits s -> len_z (bm s) = nbits s ->
  (exists i, blk_of s addr <= i < blk_of s addr + blk_of s olen /\ getb (bm s) i = false) ->
  let '(rc, s', a, l) := reallocate s nlen addr olen opts ovr in rc <> 0 /\ s' = s /\ a = addr /\ l = olen.
Proof.
  intros s nlen addr olen opts ovr Hfx Hst Ha Ho Hn Hlt H0 H1 H2 Hlen (i & Hi & Hb). unfold reallocate. rewrite Ha, Ho. simpl negb. simpl orb. cbv iota.
  rewrite Hfx. replace (nlen <? 0) with false by (symmetry; apply Z.ltb_ge; exact Hn). simpl andb. cbv iota.
  set (nb := shr (IW_ROUNDUP nlen (pow2 (bpow s))) (bpow s)) in *. set (ob := blk_of s olen) in *. set (ab := blk_of s addr) in *.
  replace (nb =? ob) with false by (symmetry; apply Z.eqb_neq; lia).
  destruct (fx_realloc (vr s) && (ob <? 1)); [repeat split; vm_compute; discriminate|].
  destruct (fx_realloc (vr s) && touches_meta s ab ob); [repeat split; vm_compute; discriminate|].
  replace (nb <? ob) with false by (symmetry; apply Z.ltb_ge; lia).
  assert (Hall : all_range (bm s) ab ob (negb false) = false).
  { destruct (all_range (bm s) ab ob (negb false)) eqn:E; [|reflexivity].
    pose proof (proj1 (all_range_spec (bm s) ab ob (negb false) ltac:(lia) ltac:(lia) ltac:(lia)) E) as E'.
    rewrite E' in Hb by exact Hi. discriminate. }
  assert (Hpre : fst (set_bit_status s ab ob false true (strict s)) = IWFS_ERROR_FSM_SEGMENTATION).
  { unfold set_bit_status. replace (nbits s <? ab + ob) with false by lia. rewrite Hst, Hall. reflexivity. }
  rewrite Hpre. replace (negb (IWFS_ERROR_FSM_SEGMENTATION =? 0)) with true by reflexivity. cbv iota.
  repeat split. vm_compute. discriminate.
Qed.

(* the code as it is (v_head7 = /repo in round 7), strict mode, new file: blocks 128..383 were never allocated; reallocate(3 MB,
   &a = 8192, &l = 16384) answers 0: the request grew the bitmap, the new bitmap was put at blocks 128..255 - inside the "old
   region" - and the final release of that region freed the live bitmap *)
Theorem realloc_unowned_refuted : exists s, strict s = true /\ all_range (bm s) 128 256 false = true /\
  (let r := reallocate s 3145728 8192 16384 1 false in
   rc_of r = 0 /\ (bmoff (state_of r), bmlen (state_of r)) = (8192, 8192) /\ getb (bm (state_of r)) 128 = false /\
   ~ BmArea (state_of r)).
Proof.
  exists (snd (open_new_max v_head7 6 0 0 0 true)). split; [reflexivity|]. split; [vm_compute; reflexivity|]. cbv zeta.
  set (s1 := state_of (reallocate (snd (open_new_max v_head7 6 0 0 0 true)) 3145728 8192 16384 1 false)).
  split; [vm_compute; reflexivity|]. split; [vm_compute; reflexivity|].
  assert (Hb : getb (bm s1) 128 = false) by (vm_compute; reflexivity). split; [exact Hb|].
  intros (_ & _ & _ & _ & B). rewrite (B 128) in Hb; [discriminate|]. split; dec_goal.
Qed.

(* a negative new length wraps to "zero blocks": the whole region is released and the call answers 0 *)
Theorem realloc_negative_refuted : exists s, getb (bm s) 128 = true /\
  (let r := reallocate s (-1) 8192 4096 0 false in rc_of r = 0 /\ len_of r = 0 /\ getb (bm (state_of r)) 128 = false).
Proof.
  exists (state_of (allocate (snd (open_new_max v_head7 6 0 0 0 false)) 4096 0 11 false)).
  split; [vm_compute; reflexivity|]. cbv zeta. split; [vm_compute; reflexivity|]. split; vm_compute; reflexivity.
Qed.

(* the same calls on the model of the code after the patch: strict - refused, nothing changes; non-strict - refused, the bitmap
   has grown (that part of the request was legitimate) but it is intact and the new region has been given back *)
Example realloc_unowned_fixed :
  (let r := reallocate (snd (open_new_max v_fixed 6 0 0 0 true)) 3145728 8192 16384 1 false in
   (rc_of r, bmlen (state_of r), tree (state_of r)) = (IWFS_ERROR_FSM_SEGMENTATION, 4096, [(62, 2); (32640, 128)])) /\
  (let r := reallocate (snd (open_new_max v_fixed 6 0 0 0 false)) 3145728 8192 16384 1 false in
   (rc_of r, bmoff (state_of r), bmlen (state_of r), tree (state_of r)) =
   (IWFS_ERROR_FSM_SEGMENTATION, 8192, 8192, [(126, 2); (65280, 256)]) /\ getb (bm (state_of r)) 128 = true) /\
  rc_of (reallocate (state_of (allocate (snd (open_new_max v_fixed 6 0 0 0 false)) 4096 0 11 false)) (-1) 8192 4096 0 false)
    = FSM_IW_ERROR_INVALID_ARGS.
Proof. cbv zeta. split; [vm_compute; reflexivity|]. split; [split; vm_compute; reflexivity|vm_compute; reflexivity]. Qed.
