(* C11 - allocator bookkeeping is conserved, coalesced and survives reopen.  Statements only.
   tree_is_runs ("in every reachable state the free-extent tree lists exactly the maximal zero runs of the bitmap")
   is FALSE of the model of src/fs/iwfsmfile.c as it is (C11_tree_is_runs_refuted, witness replayed on the real code by
   corpus/C11/lfbk-stale-cache.txt) and is proved for the model of the code after fixes/fsm-lfbk.diff
   (C11_tree_is_runs: EVERY history from a new file - bitmap growth through both retry loops, _fsm_trim_tail_lw, _fsm_clear,
   close with trim + reopen; deepening round, nothing _partial any more; the one hypothesis is on the outcome: final bitmap below
   2^28 bits).  C11_trim_keeps_runs, C11_clear_is_init (which blocks are allocated after a clear), C11_new_file_good,
   C11_close_reopen_keeps, C11_trim_to_last_used (the file ends at the page of the last used block) are the pieces. *)
Require Import ZArith List Bool. Require Import IW.Lib.CInt IW.Gen.Facts IW.FS.Bits IW.FS.Bits_proofs IW.FS.Fsm IW.FS.Fsm_hdr_proofs IW.FS.Fsm_proofs IW.FS.Fsm_all_proofs.
Import ListNotations. Local Open Scope Z_scope.

(* _fsm_load_fsm_lw (byte-wise scan with the 0x00 / 0xff shortcuts) emits exactly the maximal zero runs, all bitmaps *)
Theorem C11_load_is_runs : forall l len, len_z l = len * 8 ->
  forall o n, In (o, n) (load_runs l len) <-> is_run l o n.
Proof. exact load_is_runs. Qed.
Print Assumptions C11_load_is_runs.

Theorem C11_load_builds_tree : forall s, len_z (bm s) = nbits s -> nbits s <= FSM_BKEY_MAX ->
  frame s (load_fsm s) /\ tsorted (tree (load_fsm s)) /\
  (forall o n, In (n, o) (tree (load_fsm s)) <-> is_run (bm s) o n) /\
  ((lfbkoff s = 0 \/ exists i, lfbkoff s + lfbklen s - 1 <= i /\ wbit (bm s) i = false) -> LF (load_fsm s)).
Proof. exact load_fsm_spec. Qed.
Print Assumptions C11_load_builds_tree.

(* EVERY history from a new file (was C11_tree_is_runs_partial) *)
Theorem C11_tree_is_runs : forall v bp hl bl mx st ops, fx_lfbk v = true -> 0 <= bp -> bl <= 2 ^ 28 ->
  fst (open_new_max v bp hl bl mx st) = 0 ->
  ok_all (snd (open_new_max v bp hl bl mx st)) ops ->
  bmlen (run (snd (open_new_max v bp hl bl mx st)) ops) * 16 <= FSM_BKEY_MAX ->
  forall o n, In (n, o) (tree (run (snd (open_new_max v bp hl bl mx st)) ops)) <->
              is_run (bm (run (snd (open_new_max v bp hl bl mx st)) ops)) o n.
Proof.
  intros v bp hl bl mx st ops H1 H2 H3 H4 H5 H6.
  exact (proj1 (proj2 (proj2 (full_facts _ (every_history_full v bp hl bl mx st ops H1 H2 H3 H4 H5 H6))))).
Qed.
Print Assumptions C11_tree_is_runs.

(* histories without bitmap growth (round-1 statement): no size hypothesis; over reachable states instead of [hdr_current] *)
Theorem C11_tree_is_runs_without_growth : forall ops s, reachable s -> Good s -> ok_run s ops ->
  forall o n, In (n, o) (tree (run s ops)) <-> is_run (bm (run s ops)) o n.
Proof. exact tree_is_runs_reachable. Qed.
Print Assumptions C11_tree_is_runs_without_growth.

(* the pieces: the state predicate of every reachable state ([Full]: index = maximal zero runs, cache entry is a tree entry,
   geometry, the bitmap's own area marked allocated, header current) across each operation that moves or rebuilds the bitmap *)
Theorem C11_new_file_good : forall v bp hl bl mx st, fx_lfbk v = true -> 0 <= bp -> bl <= 2 ^ 28 ->
  fst (open_new_max v bp hl bl mx st) = 0 -> Full (snd (open_new_max v bp hl bl mx st)).
Proof. exact open_new_full. Qed.
Print Assumptions C11_new_file_good.
Theorem C11_trim_keeps_runs : forall s, Full s -> Full (snd (trim_tail s)).
Proof. exact trim_full. Qed.
Print Assumptions C11_trim_keeps_runs.
(* "clearing resets it to the initial state": a clear that returns 0 leaves the header blocks and the blocks of the bitmap area
   (same length, first page behind the header) allocated and every other block free - the layout of a new file *)
(* "closing trims the file to the end of the last used block": after a trim that returns 0 there is a block number [last] - the
   end of the bitmap area, or one past a used block behind it - such that no block from [last] on is in use and the file ends
   at most at the page round-up of [last] (_fsm_close writes the header after the trim and changes nothing else) *)
Theorem C11_trim_to_last_used : forall s, Full s -> fst (trim_tail s) = 0 ->
  let s' := snd (trim_tail s) in
  exists last,
    (forall j, last <= j < nbits s' -> getb (bm s') j = false) /\
    (last = shr (bmoff s' + bmlen s') (bpow s') \/
     (shr (bmoff s' + bmlen s') (bpow s') < last <= nbits s' /\ getb (bm s') (last - 1) = true)) /\
    fsize s' <= IW_ROUNDUP (shl last (bpow s')) (aunit s').
Proof. exact trim_to_last_used. Qed.
Print Assumptions C11_trim_to_last_used.
Theorem C11_clear_is_init : forall s tr, Full s -> fst (clear s tr) = 0 ->
  Full (snd (clear s tr)) /\
  (tr = false -> first_cfg s (snd (clear s tr)) (IW_ROUNDUP (hdrlen s) (aunit s)) (bmlen s)).
Proof. exact clear_full. Qed.
Print Assumptions C11_clear_is_init.
(* conservation across a FAILED call (7b9f72c: solid space the file cannot be extended for is given back): the configuration is
   unchanged, the state is good and every block is allocated or free exactly as before.  _partial: requests that may not extend
   the bitmap; with growth a doubling that succeeded before the failure has legitimately moved the bitmap - what is kept there is
   [Full] and [Grown] (C10_alloc_fresh).  [given_back] / [na_outcome] (Fsm_proofs.v) are the outcome shapes of the allocation lemmas *)
Theorem C11_failed_allocate_conserves_partial : forall s L hint opts ovr, Good s -> 0 < L ->
  has opts IWFSM_ALLOC_NO_EXTEND = true -> fx_solid (vr s) = true ->
  let '(rc, s', off, olen) := blk_allocate s L hint opts ovr in
  rc <> 0 -> rc <> IWFS_ERROR_NOT_MMAPED ->
  Good s' /\ same_cfg s s' /\ forall i, 0 <= i < nbits s -> getb (bm s') i = getb (bm s) i.
Proof. exact failed_allocate_conserves_partial. Qed.
Print Assumptions C11_failed_allocate_conserves_partial.
Theorem C11_failed_allocate_conserves_refuted : exists v s, fx_solid v = false /\ vr s = v /\
  (let r := allocate s 131072 0 (IWFSM_SOLID_ALLOCATED_SPACE + IWFSM_ALLOC_NO_STATS + IWFSM_ALLOC_NO_OVERALLOCATE) false in
   rc_of r = FSM_E_MAXOFF /\ getb (bm s) 128 = false /\ getb (bm (state_of r)) 128 = true /\ tree (state_of r) = [(62, 2); (30592, 2176)]).
Proof. exact failed_allocate_conserves_refuted. Qed.
Print Assumptions C11_failed_allocate_conserves_refuted.
Example C11_failed_allocate_conserves_fixed :
  let s := snd (open_new_max v_fixed 6 0 0 65536 false) in
  let r := allocate s 131072 0 (IWFSM_SOLID_ALLOCATED_SPACE + IWFSM_ALLOC_NO_STATS + IWFSM_ALLOC_NO_OVERALLOCATE) false in
  rc_of r = FSM_E_MAXOFF /\ getb (bm (state_of r)) 128 = false /\ tree (state_of r) = tree s /\ tree s = [(62, 2); (32640, 128)].
Proof. exact failed_allocate_conserves_fixed. Qed.
(* the region given back: the state predicate of every reachable state holds again *)
Theorem C11_given_back_keeps : forall s s' off n, Full s -> given_back s s' off n -> HS s' -> Full s'.
Proof. exact full_given_back. Qed.
Print Assumptions C11_given_back_keeps.

Theorem C11_close_reopen_keeps : forall s nt st mm, Full s -> Full (reopen (snd (close s nt)) st mm).
Proof. intros s nt st mm H. apply reopen_full. apply close_full. exact H. Qed.
Print Assumptions C11_close_reopen_keeps.
(* one doubling of the bitmap, as _fsm_blk_allocate_lw asks for it *)
Theorem C11_growth_keeps_runs : forall s, Full s -> bmlen s * 16 <= FSM_BKEY_MAX ->
  Full (snd (resize_fsm_bitmap s (shl (bmlen s) 1))) /\
  (fst (resize_fsm_bitmap s (shl (bmlen s) 1)) = 0 -> Grown s (snd (resize_fsm_bitmap s (shl (bmlen s) 1)))).
Proof. exact resize_full. Qed.
Print Assumptions C11_growth_keeps_runs.
(* _fsm_find_matching_fblock_lw finds an extent whenever one is long enough (and the key can be formed) *)
Theorem C11_lookup_complete : forall s off len, tsorted (tree s) -> bkey_ok off len = true -> 0 < len ->
  (exists x, In x (tree s) /\ len <= fst x) -> exists k, fm_lookup s off len = Some k.
Proof. exact fm_lookup_complete. Qed.
Print Assumptions C11_lookup_complete.
Example C11_full_history_exists : fst (open_new_max v_fixed 6 0 0 0 false) = 0 /\
  ok_all (snd (open_new_max v_fixed 6 0 0 0 false)) full_witness_ops /\
  (let s := run (snd (open_new_max v_fixed 6 0 0 0 false)) full_witness_ops in
   (bmlen s, bmoff s) = (8192, 4096) /\ bmlen s * 16 <= FSM_BKEY_MAX).
Proof. exact full_witness. Qed.

Theorem C11_tree_is_runs_refuted : exists ops, ok_run (fresh v_current false) ops /\
  ~ (forall o n, In (n, o) (tree (run (fresh v_current false) ops)) <-> is_run (bm (run (fresh v_current false) ops)) o n).
Proof. exact tree_is_runs_refuted. Qed.
Print Assumptions C11_tree_is_runs_refuted.

(* release = clear the range and merge with both free neighbours (code after fixes/fsm-lfbk.diff) *)
Theorem C11_release_merges : forall s a m, Inv s -> fx_lfbk (vr s) = true ->
  0 <= a -> 0 < m -> a + m <= nbits s -> (forall i, a <= i < a + m -> getb (bm s) i = true) ->
  blk_deallocate s a m = (0, dealloc_nf s a m) /\
  Inv (dealloc_nf s a m) /\ bm (dealloc_nf s a m) = set_range (bm s) a m false /\ same_cfg s (dealloc_nf s a m).
Proof.
  intros s a m Hi Hfx Ha Hm He Hb. split; [apply blk_deallocate_nf; try assumption; apply (inv_len s Hi)|].
  apply dealloc_nf_inv; assumption.
Qed.
Print Assumptions C11_release_merges.

(* What the next open is told.  The model keeps what _fsm_write_meta_lw wrote last ([p_bmoff], [p_bmlen]: bitmap offset and
   length in the file header); [reopen] takes the bitmap area from THERE, and [close] writes the header in exactly the
   cases _fsm_close does: only when the free-extent tree is not empty (after the trim, if any).  A file without a single
   free block is closed without any header write - it reopens correctly only because every path that moves the bitmap
   (_fsm_init_lw from growth, trim, clear) has written the header before returning.  That is proved for EVERY state and
   EVERY operation, bitmap growth included (no invariant, no _partial): *)
Theorem C11_header_current_step : forall s o, hdr_current s = true ->
  (forall tr, o = OClear tr -> fst (clear s tr) = 0) -> hdr_current (state_of (step s o)) = true.
Proof. intros s o H Hc. apply hs_iff. apply hs_step; [apply hs_iff; exact H|exact Hc]. Qed.
Print Assumptions C11_header_current_step.

(* ... and without the proviso on clear: "no bitmap at all (bmlen = 0, the state a failed clear leaves) or header current"
   holds along every history of operations whatsoever *)
Theorem C11_header_names_bitmap : forall ops s, HdrOk s -> HdrOk (run s ops).
Proof. exact hdr_ok_run. Qed.
Print Assumptions C11_header_names_bitmap.

Theorem C11_new_file_header_current : forall v bp hl bl st, fst (open_new v bp hl bl st) = 0 ->
  hdr_current (snd (open_new v bp hl bl st)) = true.
Proof. intros. apply hs_iff. apply hs_open_new. assumption. Qed.
Print Assumptions C11_new_file_header_current.

(* the three cases of _fsm_close *)
Theorem C11_close_writes_header_iff_free_space : forall s notrim,
  (tree s = [] /\ close s notrim = (0, s)) \/
  (tree s <> [] /\ notrim = true /\ close s notrim = (0, write_meta s)) \/
  (tree s <> [] /\ notrim = false /\ close s notrim = (fst (trim_tail s), write_meta (snd (trim_tail s)))).
Proof. exact close_cases. Qed.
Print Assumptions C11_close_writes_header_iff_free_space.

(* reopen sees the state at close: trim and no-trim, free space or none *)
Theorem C11_reopen_sees_close : forall s notrim st mm, (tree s = [] -> hdr_current s = true) ->
  let s1 := snd (close s notrim) in let r := reopen s1 st mm in
  bm r = bm s1 /\ bmoff r = bmoff s1 /\ bmlen r = bmlen s1 /\ hdrlen r = hdrlen s1 /\ bpow r = bpow s1 /\ fsize r = fsize s1.
Proof. intros s notrim st mm H. apply reopen_sees_close. intros Ht. apply hs_iff. apply H. exact Ht. Qed.
Print Assumptions C11_reopen_sees_close.

(* the full file, spelled out: close does nothing, the next open finds the same bitmap at the same place *)
Theorem C11_full_file_close_reopen : forall s notrim st mm, tree s = [] -> hdr_current s = true ->
  close s notrim = (0, s) /\
  bm (reopen s st mm) = bm s /\ bmoff (reopen s st mm) = bmoff s /\ bmlen (reopen s st mm) = bmlen s /\
  hdrlen (reopen s st mm) = hdrlen s /\ bpow (reopen s st mm) = bpow s /\ fsize (reopen s st mm) = fsize s.
Proof. intros s notrim st mm Ht H. apply full_file_close_reopen; [exact Ht|apply hs_iff; exact H]. Qed.
Print Assumptions C11_full_file_close_reopen.

(* a reachable instance (corpus/C11/full-file-after-relocation.txt is the same script on the implementation): new file,
   one allocation the 32768-block bitmap cannot hold (the bitmap doubles and moves to byte 8192, the old area is released), every remaining
   free run taken, no sync: the tree is empty, the bitmap is at its second place, the header says so, and after close +
   reopen (trim mode on) 65536 blocks are known, all of them allocated *)
Example C11_full_file_after_relocation :
  let s := relocated_full_state in
  tree s = [] /\ (bmoff s, bmlen s) = (8192, 8192) /\ hdr_current s = true /\
  (let r := state_of (step s (OCloseReopen false false false)) in
   (bmoff r, bmlen r, tree r) = (8192, 8192, []) /\ bm r = bm s).
Proof. exact full_file_after_relocation. Qed.

(* the header names the bitmap area in use in every state reachable from a new file (the hypothesis of round 5, discharged) *)
Theorem C11_header_current_reachable : forall s, reachable s -> hdr_current s = true.
Proof. exact reachable_hdr_current. Qed.
Print Assumptions C11_header_current_reachable.

Theorem C11_reopen_same : forall s st mm, reachable s ->
  len_z (bm s) = nbits s -> nbits s <= FSM_BKEY_MAX -> WF s -> fx_lfbk (vr s) = true ->
  Good (reopen s st mm) /\ bm (reopen s st mm) = bm s /\ bmoff (reopen s st mm) = bmoff s /\
  bmlen (reopen s st mm) = bmlen s /\ hdrlen (reopen s st mm) = hdrlen s /\ bpow (reopen s st mm) = bpow s /\
  (forall o n, In (n, o) (tree (reopen s st mm)) <-> is_run (bm s) o n).
Proof. exact reopen_same_reachable. Qed.
Print Assumptions C11_reopen_same.

(* _fsm_init_lw moving the bitmap (reload of the tree from the new bitmap, release of the old bitmap area) and
   _fsm_resize_fsm_bitmap_lw (new area carved out of the free space or put behind the old coverage) keep the invariant;
   code after fixes/fsm-lfbk.diff.  [BmArea]: the allocator's own area is inside the bitmap and marked allocated. *)
Theorem C11_relocation_keeps_runs : forall s nbmoff nbmlen, Inv s -> fx_lfbk (vr s) = true -> 0 <= bpow s ->
  bmlen s <> 0 -> 0 <= nbmoff -> 0 <= bmoff s -> 0 <= bmlen s ->
  let ob := shr (bmoff s) (bpow s) in let ol := shr (bmlen s) (bpow s) in
  let nb := shr nbmoff (bpow s) in let nl := shr nbmlen (bpow s) in
  0 < ol -> ob + ol <= nbits s ->
  (forall i, ob <= i < ob + ol -> getb (bm s) i = true) ->
  (forall i, nb <= i < nb + nl -> i < nbits s -> getb (bm s) i = true) ->
  nbmlen * 8 <= FSM_BKEY_MAX ->
  init_outcome s nbmoff nbmlen (init_lw s nbmoff nbmlen).
Proof. exact init_lw_reloc. Qed.
Print Assumptions C11_relocation_keeps_runs.

Theorem C11_resize_keeps_runs : forall s size, Inv s -> WF s -> fx_lfbk (vr s) = true -> BmArea s ->
  0 <= size < 2 ^ 62 -> IW_ROUNDUP size (aunit s) * 8 <= FSM_BKEY_MAX ->
  resize_outcome s size (resize_fsm_bitmap s size).
Proof. exact resize_keeps_inv. Qed.
Print Assumptions C11_resize_keeps_runs.

(* the two bit scans return the nearest set bit inside their window *)
Theorem C11_find_next_spec : forall l off max, 0 <= off -> max <= len_z l ->
  match find_next_set_bit l off max with
  | Some r => off <= r < max /\ getb l r = true /\ (forall j, off <= j < r -> getb l j = false)
  | None => forall j, off <= j < max -> getb l j = false
  end.
Proof. exact find_next_spec. Qed.
Print Assumptions C11_find_next_spec.
Theorem C11_find_prev_spec : forall l off mn, 0 <= mn -> off <= len_z l ->
  match find_prev_set_bit l off mn with
  | Some r => mn <= r < off /\ getb l r = true /\ (forall j, r < j < off -> getb l j = false)
  | None => forall j, mn <= j < off -> getb l j = false
  end.
Proof. exact find_prev_spec. Qed.
Print Assumptions C11_find_prev_spec.

(* maximal runs under the two bitmap updates *)
Theorem C11_runs_after_free : forall l l' a m lo hi, agree_out l l' a m false ->
  (forall i, a <= i < a + m -> wbit l i = true) -> 0 < m -> lo <= a -> a + m <= hi ->
  wbit l (lo - 1) = true -> wbit l hi = true ->
  (forall i, lo <= i < a -> wbit l i = false) -> (forall i, a + m <= i < hi -> wbit l i = false) ->
  forall o n, is_run l' o n <-> ((o = lo /\ n = hi - lo) \/ (is_run l o n /\ (o + n < lo \/ hi < o))).
Proof. exact runs_after_free. Qed.
Print Assumptions C11_runs_after_free.
Theorem C11_runs_after_alloc : forall l l' ro rn a m, agree_out l l' a m true -> is_run l ro rn ->
  ro <= a -> 0 < m -> a + m <= ro + rn ->
  forall o n, is_run l' o n <->
    ((is_run l o n /\ (o, n) <> (ro, rn)) \/ (o = ro /\ n = a - ro /\ ro < a) \/
     (o = a + m /\ n = ro + rn - (a + m) /\ a + m < ro + rn)).
Proof. exact runs_after_alloc. Qed.
Print Assumptions C11_runs_after_alloc.

(* _fsm_blk_allocate_aligned_lw, first attempt and full scan: what is handed out starts at the page-aligned start of a run
   OF THE INDEX that holds the request from there on (so, with C10_page_aligned_alloc, index and bitmap stay in step), and
   the allocator gives up only when no run of the index holds the request *)
Theorem C11_aligned_choice : forall s L mx, Inv s -> WF s -> 0 < L ->
  let ab := shr (aunit s) (bpow s) in
  let '(rc, s', off, olen) := blk_allocate_aligned s L mx in
  (rc = IWFS_ERROR_NO_FREE_SPACE ->
     forall klen koff, In (klen, koff) (tree s) -> al_fits koff klen (IW_ROUNDUP koff ab) L mx = false) /\
  (rc = 0 -> exists aklen akoff, In (aklen, akoff) (tree s) /\
     al_fits akoff aklen (IW_ROUNDUP akoff ab) L mx = true /\ off = IW_ROUNDUP akoff ab).
Proof. exact blk_allocate_aligned_choice. Qed.
Print Assumptions C11_aligned_choice.
(* ... in a reachable state where the first attempt is abandoned and the scan rejects a longer run at a lower offset after
   the one it keeps (corpus/C11/aligned-fullscan-stale-start.txt is the same script on the implementation) *)
Example C11_aligned_scan_state : Good scan_witness_state /\ tree scan_witness_state = [(64, 194); (70, 512); (100, 321)] /\
  (let '(rc, _, off, olen) := blk_allocate_aligned scan_witness_state 64 U64MAX in (rc, off, olen)) = (0, 512, 64).
Proof. exact scan_witness. Qed.

(* satisfiable hypotheses / the witness history on the fixed code ends with one merged extent *)
Example C11_good_state_exists : Good (reopen (fresh v_fixed false) false false).
Proof. exact fresh_reopened_good. Qed.
Example C11_witness_on_fixed_code : ok_run (fresh v_fixed false) lfbk_witness /\
  tree (run (fresh v_fixed false) lfbk_witness) = [(46, 18)] /\
  tree (run (fresh v_current false) lfbk_witness) = [(8, 18); (38, 26)].
Proof. split; [apply lfbk_witness_ok; right; reflexivity|split; vm_compute; reflexivity]. Qed.
