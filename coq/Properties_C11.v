(* C11 - statements only. *)
Require Import ZArith List. Require Import IW.Lib.CInt IW.Gen.Facts IW.FS.Bits IW.FS.Fsm.
Import ListNotations. Local Open Scope Z_scope.
Example C11_placeholder : cmp_key (1, 2) (1, 3) = -1.
Proof. reflexivity. Qed.
