(* C04 - with WAL, a kill at any instant loses no synced work and tears no operation.  Statements only.
   Model: WAL/Proto.v (protocol at file-effect granularity; validated against effect traces, log bytes and
   main-file bytes of real runs by checks/C04.py), WAL/Replay.v (recovery), kill model = Proto.after_effects.

   Full statement (DESIGN: recover_is_prefix): for every history and every crash point i,
     recover (after_effects i (run history)) = state after a prefix of the operations, the prefix containing
     everything completed before the last successful sync / db creation / checkpoint.
   It is FALSE of the faithful model when a file grows in mid-operation (C04_growth_tears_refuted, known
   finding, reproduced on the real code).  What is proved for histories without growth is the part that
   carries the crash-safety argument, over ANY kernel state whose log is a (cut of a) well-formed log:
     - C05_replay_cut_is_savepoint_state: recovery yields the state at the last savepoint of the log, and
       savepoints are only written between operations (exclusive lock), i.e. a prefix state;
     - C04_recover_is_prefix_partial: the same when the main file already holds any prefix of the records to
       redo - the situation after a kill inside a checkpoint's replay (the log is truncated only after all
       records are applied and msync'ed) or inside an earlier recovery;
     - C04_crash_in_recovery: every crash point of the recovery run itself (second-level crash points).
   Missing for the unconditional recover_is_prefix: the invariant that the log written by Proto.run is
   `wf_log`/`crc_ok` and ends with a savepoint after every sync (checked on every real log by C05.py's `chk`,
   not proved), and COPY records (not idempotent under redo; iwkv never logs them). *)
Require Import ZArith List Bool. Require Import IW.Lib.CInt IW.Gen.Facts.
Require Import IW.WAL.Rec IW.WAL.Rec_proofs IW.WAL.Scan IW.WAL.Scan_proofs IW.WAL.Replay IW.WAL.Replay_proofs
  IW.WAL.Proto IW.WAL.Proto_proofs.
Import ListNotations. Local Open Scope Z_scope.

Definition ex_log : list rec :=
  [RSep 0 36; RSet 65 0 4; RSavepoint 1000; RSep 0 35; RWrite 0 2 [1;2;3]; RSavepoint 2000; RSep 0 24; RSet 66 1 2].
Definition ex_main : bytes := [0;0;0;0;0;0;0;0].

(* redo of overwrite records is idempotent over any partially redone file *)
Theorem C04_redo_idempotent : forall ops D (j : nat) Dj,
  forallb ow ops = true -> apply_ops D (firstn j ops) = Some Dj -> apply_ops Dj ops = apply_ops D ops.
Proof. exact redo_idempotent. Qed.
Print Assumptions C04_redo_idempotent.
Example C04_redo_idempotent_ex :
  let ops := [ASet 65 0 4; AWrite 2 [1;2;3]; ASet 7 1 2] in
  forallb ow ops = true /\ apply_ops ex_main (firstn 2 ops) = Some [65;65;1;2;3;0;0;0] /\
  apply_ops [65;65;1;2;3;0;0;0] ops = Some [65;7;7;2;3;0;0;0] /\ apply_ops ex_main ops = Some [65;7;7;2;3;0;0;0].
Proof. vm_compute. repeat split; reflexivity. Qed.

(* recovery from a log (cut anywhere) over a main file that already holds any prefix of the records to redo
   - kill inside a checkpoint's replay, or inside an earlier recovery - yields the state at the log's last
   visible savepoint *)
Theorem C04_recover_is_prefix_partial : forall ccrc rs (n : nat) D m (j : nat) Dj,
  wf_log rs = true -> no_reset rs = true -> (ccrc = true -> crc_ok rs = true) ->
  (n <= length (encode rs))%nat ->
  forallb ow (ops_before rs 0 (last_sp sp_checks rs (Z.of_nat n))) = true ->
  state_at rs D (last_sp sp_checks rs (Z.of_nat n)) = Some m ->
  apply_ops D (firstn j (ops_before rs 0 (last_sp sp_checks rs (Z.of_nat n)))) = Some Dj ->
  recover ccrc 1 0 (firstn n (encode rs)) Dj = (VOk, m, ops_before rs 0 (last_sp sp_checks rs (Z.of_nat n))).
Proof.
  intros ccrc rs n D m j Dj H1 H2 H3 H4 H5 H6 H7.
  exact (recover_after_partial_redo sp_checks ccrc rs n D m j Dj H1 H2 H3 (or_intror eq_refl) H4 H5 H6 H7).
Qed.
Print Assumptions C04_recover_is_prefix_partial.
Example C04_recover_is_prefix_partial_ex :
  state_at ex_log ex_main 83 = Some [65;65;1;2;3;0;0;0] /\
  apply_ops ex_main (firstn 1 (ops_before ex_log 0 83)) = Some [65;65;65;65;0;0;0;0] /\
  recover true 1 0 (firstn 131 (encode ex_log)) [65;65;65;65;0;0;0;0] = (VOk, [65;65;1;2;3;0;0;0], [ASet 65 0 4; AWrite 2 [1;2;3]]).
Proof. vm_compute. repeat split; reflexivity. Qed.

(* crash points of the recovery run itself *)
Theorem C04_crash_in_recovery : forall ccrc rs (n : nat) D m (i : nat),
  wf_log rs = true -> no_reset rs = true -> (ccrc = true -> crc_ok rs = true) ->
  (n <= length (encode rs))%nat ->
  forallb ow (ops_before rs 0 (last_sp sp_checks rs (Z.of_nat n))) = true ->
  state_at rs D (last_sp sp_checks rs (Z.of_nat n)) = Some m ->
  let L := firstn n (encode rs) in
  let (log_i, disk_i) := after_effects L D (firstn i (recovery_effects ccrc L D)) in
  exists ops', recover ccrc 1 0 log_i disk_i = (VOk, m, ops').
Proof.
  intros ccrc rs n D m i H1 H2 H3 H4 H5 H6.
  exact (crash_in_recovery_current ccrc rs n D m i H1 H2 H3 (or_intror eq_refl) H4 H5 H6).
Qed.
Print Assumptions C04_crash_in_recovery.
Example C04_crash_in_recovery_ex :
  recovery_effects false (encode ex_log) ex_main =
    [EMainStore (ASet 65 0 4); EMainStore (AWrite 2 [1;2;3]); EMsync; ELogTruncate; ELogFsync] /\
  after_effects (encode ex_log) ex_main (firstn 1 (recovery_effects false (encode ex_log) ex_main)) = (encode ex_log, [65;65;65;65;0;0;0;0]) /\
  snd (after_effects (encode ex_log) ex_main (firstn 4 (recovery_effects false (encode ex_log) ex_main))) = [65;65;1;2;3;0;0;0].
Proof. vm_compute. repeat split; reflexivity. Qed.

(* a successful recovery always leaves an empty log, even when it found no savepoint and applied nothing *)
Theorem C04_recovery_truncates_log : forall ccrc L D ops,
  L <> [] -> replay_ops ccrc 1 0 L = (VOk, ops) ->
  fst (after_effects L D (recovery_effects ccrc L D)) = [].
Proof. exact recovery_truncates_log. Qed.
Print Assumptions C04_recovery_truncates_log.
Example C04_recovery_truncates_log_ex :
  let L := firstn 30 (encode ex_log) in   (* cut before the first savepoint: nothing to apply *)
  L <> [] /\ replay_ops false 1 0 L = (VOk, []) /\ after_effects L ex_main (recovery_effects false L ex_main) = ([], ex_main).
Proof. vm_compute. repeat split; try reflexivity. discriminate. Qed.

(* every checkpoint (iwkv_close, forced, checkpoint thread) is "savepoint, then apply, then truncate" (Proto.checkpoint
   with no_fixpoint = false; the effect traces of real runs, incl. iwkv_close, are checked against it).
   C04_recover_is_prefix_partial covers a kill between "applied" and "truncated" only because of that savepoint: the
   records applied are then exactly the records redone.  Applying first (no_fixpoint = true) is refuted:
   kill before the truncation recovers (byte 0, byte 1) = (1, 3) - op 1's byte with op 3's - instead of (2, 3) *)
Theorem C04_apply_before_savepoint_refuted :
  cs_crash false = (VOk, 2, 3) /\ cs_crash true = (VOk, 1, 3).
Proof. exact apply_before_savepoint_refuted. Qed.
Print Assumptions C04_apply_before_savepoint_refuted.

(* growth in mid-operation: refutation of the full statement on the model (known finding) *)
Theorem C04_growth_tears_refuted :
  let (s, fx) := run gt_cfg gt_s0 gt_events in
  let (log, disk) := after_effects (p_log gt_s0) (p_disk gt_s0) fx in
  exists m, recover false 1 0 log disk = (VOk, m, []) /\
            m <> gt_state0 /\ m <> gt_state1 /\ m <> gt_state2 /\ nth 1 m 0 = 2 /\ nth 2 m 0 = 0.
Proof. exact growth_tears_refuted. Qed.
Print Assumptions C04_growth_tears_refuted.
