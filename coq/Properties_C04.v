(* C04 - with WAL, a kill at any instant loses no synced work and tears no operation.  Statements only.
   Model: WAL/Proto.v (protocol at file-effect granularity; validated against effect traces, log bytes and
   main-file bytes of real runs by checks/C04.py), WAL/Replay.v (recovery), kill model = Proto.after_effects.

   Full statement (DESIGN: recover_is_prefix): for every history and every crash point i,
     recover (after_effects i (run history)) = state after a prefix of the operations, the prefix containing
     everything completed before the last successful sync / db creation / checkpoint.
   PROVED over Proto.run for every history of operations, syncs and checkpoints whose operations make no _onresize
   call (`no_growth_in_ops`; with one the statement is false: C04_growth_tears_refuted, known finding) and no
   _oncopy call (`no_copy_in_ops`; with one it is false as well: C04_copy_redo_refuted - latent, iwkv/iwfsm never
   log a COPY record): C04_recover_is_prefix, C04_crash_inside_op, and the invariant behind them that the log
   Proto.run writes is wf_log / crc_ok / without reset marks (C04_run_log_wf - formerly only checked on real logs).
   Other hypotheses, all decidable and satisfied by C04_recover_is_prefix_ex: operations consist of listener calls
   (savepoints happen between operations: the store's exclusive lock), arguments lie in their C types, the log
   buffer is smaller than 4 GiB - 28 (WBSEP.len is a uint32), every store lies inside the file.
   The older statements over any kernel state whose log is a cut of a well-formed log stay:
     - C04_recover_is_prefix_partial, C04_crash_in_recovery (second-level crash points), C04_redo_idempotent. *)
Require Import ZArith List Bool. Require Import IW.Lib.CInt IW.Gen.Facts.
Require Import IW.WAL.Rec IW.WAL.Rec_proofs IW.WAL.Scan IW.WAL.Scan_proofs IW.WAL.Replay IW.WAL.Replay_proofs
  IW.WAL.Proto IW.WAL.Proto_proofs IW.WAL.Hist IW.WAL.Hist_proofs.
Import ListNotations. Local Open Scope Z_scope.

Definition ex_log : list rec :=
  [RSep 0 36; RSet 65 0 4; RSavepoint 1000; RSep 0 35; RWrite 0 2 [1;2;3]; RSavepoint 2000; RSep 0 24; RSet 66 1 2].
Definition ex_main : bytes := [0;0;0;0;0;0;0;0].

(* redo of overwrite records is idempotent over any partially redone file *)
Theorem C04_redo_idempotent : forall ops D (j : nat) Dj,
  forallb ow ops = true -> apply_ops D (firstn j ops) = Some Dj -> apply_ops Dj ops = apply_ops D ops.
Proof. exact redo_idempotent. Qed.
Print Assumptions C04_redo_idempotent.
Example C04_redo_idempotent_ex :
  let ops := [ASet 65 0 4; AWrite 2 [1;2;3]; ASet 7 1 2] in
  forallb ow ops = true /\ apply_ops ex_main (firstn 2 ops) = Some [65;65;1;2;3;0;0;0] /\
  apply_ops [65;65;1;2;3;0;0;0] ops = Some [65;7;7;2;3;0;0;0] /\ apply_ops ex_main ops = Some [65;7;7;2;3;0;0;0].
Proof. vm_compute. repeat split; reflexivity. Qed.

(* recovery from a log (cut anywhere) over a main file that already holds any prefix of the records to redo
   - kill inside a checkpoint's replay, or inside an earlier recovery - yields the state at the log's last
   visible savepoint *)
Theorem C04_recover_is_prefix_partial : forall ccrc rs (n : nat) D m (j : nat) Dj,
  wf_log rs = true -> no_reset rs = true -> (ccrc = true -> crc_ok rs = true) ->
  (n <= length (encode rs))%nat ->
  forallb ow (ops_before rs 0 (last_sp sp_checks rs (Z.of_nat n))) = true ->
  state_at rs D (last_sp sp_checks rs (Z.of_nat n)) = Some m ->
  apply_ops D (firstn j (ops_before rs 0 (last_sp sp_checks rs (Z.of_nat n)))) = Some Dj ->
  recover ccrc 1 0 (firstn n (encode rs)) Dj = (VOk, m, ops_before rs 0 (last_sp sp_checks rs (Z.of_nat n))).
Proof.
  intros ccrc rs n D m j Dj H1 H2 H3 H4 H5 H6 H7.
  exact (recover_after_partial_redo sp_checks ccrc rs n D m j Dj H1 H2 H3 (or_intror eq_refl) H4 H5 H6 H7).
Qed.
Print Assumptions C04_recover_is_prefix_partial.
Example C04_recover_is_prefix_partial_ex :
  state_at ex_log ex_main 83 = Some [65;65;1;2;3;0;0;0] /\
  apply_ops ex_main (firstn 1 (ops_before ex_log 0 83)) = Some [65;65;65;65;0;0;0;0] /\
  recover true 1 0 (firstn 131 (encode ex_log)) [65;65;65;65;0;0;0;0] = (VOk, [65;65;1;2;3;0;0;0], [ASet 65 0 4; AWrite 2 [1;2;3]]).
Proof. vm_compute. repeat split; reflexivity. Qed.

(* crash points of the recovery run itself *)
Theorem C04_crash_in_recovery : forall ccrc rs (n : nat) D m (i : nat),
  wf_log rs = true -> no_reset rs = true -> (ccrc = true -> crc_ok rs = true) ->
  (n <= length (encode rs))%nat ->
  forallb ow (ops_before rs 0 (last_sp sp_checks rs (Z.of_nat n))) = true ->
  state_at rs D (last_sp sp_checks rs (Z.of_nat n)) = Some m ->
  let L := firstn n (encode rs) in
  let (log_i, disk_i) := after_effects L D (firstn i (recovery_effects ccrc L D)) in
  exists ops', recover ccrc 1 0 log_i disk_i = (VOk, m, ops').
Proof.
  intros ccrc rs n D m i H1 H2 H3 H4 H5 H6.
  exact (crash_in_recovery_current ccrc rs n D m i H1 H2 H3 (or_intror eq_refl) H4 H5 H6).
Qed.
Print Assumptions C04_crash_in_recovery.
Example C04_crash_in_recovery_ex :
  recovery_effects false (encode ex_log) ex_main =
    [EMainStore (ASet 65 0 4); EMainStore (AWrite 2 [1;2;3]); EMsync; ELogTruncate; ELogFsync] /\
  after_effects (encode ex_log) ex_main (firstn 1 (recovery_effects false (encode ex_log) ex_main)) = (encode ex_log, [65;65;65;65;0;0;0;0]) /\
  snd (after_effects (encode ex_log) ex_main (firstn 4 (recovery_effects false (encode ex_log) ex_main))) = [65;65;1;2;3;0;0;0].
Proof. vm_compute. repeat split; reflexivity. Qed.

(* a successful recovery always leaves an empty log, even when it found no savepoint and applied nothing *)
Theorem C04_recovery_truncates_log : forall ccrc L D ops,
  L <> [] -> replay_ops ccrc 1 0 L = (VOk, ops) ->
  fst (after_effects L D (recovery_effects ccrc L D)) = [].
Proof. exact recovery_truncates_log. Qed.
Print Assumptions C04_recovery_truncates_log.
Example C04_recovery_truncates_log_ex :
  let L := firstn 30 (encode ex_log) in   (* cut before the first savepoint: nothing to apply *)
  L <> [] /\ replay_ops false 1 0 L = (VOk, []) /\ after_effects L ex_main (recovery_effects false L ex_main) = ([], ex_main).
Proof. vm_compute. repeat split; try reflexivity. discriminate. Qed.

(* every checkpoint (iwkv_close, forced, checkpoint thread) is "savepoint, then apply, then truncate" (Proto.checkpoint
   with no_fixpoint = false; the effect traces of real runs, incl. iwkv_close, are checked against it).
   C04_recover_is_prefix_partial covers a kill between "applied" and "truncated" only because of that savepoint: the
   records applied are then exactly the records redone.  Applying first (no_fixpoint = true) is refuted:
   kill before the truncation recovers (byte 0, byte 1) = (1, 3) - op 1's byte with op 3's - instead of (2, 3) *)
Theorem C04_apply_before_savepoint_refuted :
  cs_crash false = (VOk, 2, 3) /\ cs_crash true = (VOk, 1, 3).
Proof. exact apply_before_savepoint_refuted. Qed.
Print Assumptions C04_apply_before_savepoint_refuted.

(* growth in mid-operation: refutation of the full statement on the model (known finding) *)
Theorem C04_growth_tears_refuted :
  let (s, fx) := run gt_cfg gt_s0 gt_events in
  let (log, disk) := after_effects (p_log gt_s0) (p_disk gt_s0) fx in
  exists m, recover false 1 0 log disk = (VOk, m, []) /\
            m <> gt_state0 /\ m <> gt_state1 /\ m <> gt_state2 /\ nth 1 m 0 = 2 /\ nth 2 m 0 = 0.
Proof. exact growth_tears_refuted. Qed.
Print Assumptions C04_growth_tears_refuted.

(* ---- recover_is_prefix over Proto.run, unconditional for histories without growth (and COPY) inside an operation.
   i = any crash point (number of effects of the run that reached the kernel), n = done_items .. i = items all of whose
   effects are among them.  The next open succeeds and yields the state after the first k items, where k is not
   smaller than the last sync/checkpoint among those n items and not larger than n + 1. *)
Theorem C04_recover_is_prefix : forall c ccrc D0 h Mf (i : nat),
  cfg_ok c = true ->
  hist_shape h = true -> no_growth_in_ops h = true -> no_copy_in_ops h = true -> hist_range h = true ->
  apply_ops D0 (hist_ops h) = Some Mf ->
  exists (k : nat) M ops',
    (sync_floor (firstn (done_items c (fresh D0) h i) h) <= k <= Nat.min (S (done_items c (fresh D0) h i)) (length h))%nat /\
    (let (log, disk) := after_effects [] D0 (firstn i (snd (run c (fresh D0) (flat h)))) in
     recover ccrc 1 0 log disk) = (VOk, M, ops') /\
    state_after D0 h k = Some M.
Proof. exact (fun c ccrc D0 h Mf i => recover_is_prefix c ccrc D0 h Mf i eq_refl). Qed.
Print Assumptions C04_recover_is_prefix.

(* a history satisfying every hypothesis: two-store operation, sync, operation with an _onsynced call, checkpoint,
   operation, savepoint without fsync; checksums on.  13 effects; (items done, floor, recovered bytes 0..5) at every
   crash point - e.g. at i = 5..11 (inside the checkpoint, savepoint record on disk) the state after 4 items. *)
Definition hx_cfg : pcfg := mkC 4084 true.
Definition hx_D0 : bytes := repeat 0 16%nat.
Definition hx_h : list hitem :=
  [HOp [VWrite 0 [1]; VSet 4 7 2]; HSync 5 true; HOp [VWrite 1 [2]; VSynced]; HCkpt 9; HOp [VWrite 2 [3]]; HSync 11 false].
Definition hx_crash (i : nat) : Z * Z * (verdict * bytes) :=
  let n := done_items hx_cfg (fresh hx_D0) hx_h i in
  let (log, disk) := after_effects [] hx_D0 (firstn i (snd (run hx_cfg (fresh hx_D0) (flat hx_h)))) in
  let '(v, m, _) := recover false 1 0 log disk in (Z.of_nat n, Z.of_nat (sync_floor (firstn n hx_h)), (v, firstn 6 m)).
Example C04_recover_is_prefix_ex :
  cfg_ok hx_cfg = true /\ hist_shape hx_h = true /\ no_growth_in_ops hx_h = true /\ no_copy_in_ops hx_h = true /\
  hist_range hx_h = true /\ option_map (firstn 6) (apply_ops hx_D0 (hist_ops hx_h)) = Some [1;2;3;0;7;7] /\
  length (snd (run hx_cfg (fresh hx_D0) (flat hx_h))) = 13%nat /\
  map hx_crash [0; 1; 2; 4; 5; 11; 12; 13]%nat =
    [(1, 0, (VOk, [0;0;0;0;0;0])); (1, 0, (VOk, [1;0;0;0;7;7])); (2, 2, (VOk, [1;0;0;0;7;7])); (3, 2, (VOk, [1;0;0;0;7;7]));
     (3, 2, (VOk, [1;2;0;0;7;7])); (3, 2, (VOk, [1;2;0;0;7;7])); (5, 4, (VOk, [1;2;0;0;7;7])); (6, 6, (VOk, [1;2;3;0;7;7]))] /\
  map (fun k => option_map (firstn 6) (state_after hx_D0 hx_h k)) [0; 2; 4; 6]%nat =
    [Some [0;0;0;0;0;0]; Some [1;0;0;0;7;7]; Some [1;2;0;0;7;7]; Some [1;2;3;0;7;7]].
Proof. vm_compute. repeat split; reflexivity. Qed.

(* the operation in flight is invisible: a kill anywhere inside an operation (j = number of its effects that are
   out, any j) recovers exactly the state at the last completed sync/checkpoint before it *)
Theorem C04_crash_inside_op : forall c ccrc D0 hd evs tl Mf (j : nat),
  cfg_ok c = true ->
  let h := hd ++ HOp evs :: tl in
  hist_shape h = true -> no_growth_in_ops h = true -> no_copy_in_ops h = true -> hist_range h = true ->
  apply_ops D0 (hist_ops h) = Some Mf ->
  let (s1, fx1) := run c (fresh D0) (flat hd) in
  let (s2, fx2) := run c s1 evs in
  exists M ops',
    (let (log, disk) := after_effects [] D0 (fx1 ++ firstn j fx2) in recover ccrc 1 0 log disk) = (VOk, M, ops') /\
    state_after D0 h (sync_floor hd) = Some M.
Proof. exact (fun c ccrc D0 hd evs tl Mf j => crash_inside_op c ccrc D0 hd evs tl Mf j eq_refl). Qed.
Print Assumptions C04_crash_inside_op.
Example C04_crash_inside_op_ex :   (* 1500-byte store with a 64-byte log buffer: the payload bypasses the buffer, 2 effects *)
  let c := mkC 64 true in let D0 := repeat 0 2048%nat in
  let hd := [HOp [VWrite 0 [9]]; HSync 1 true] in let evs := [VSet 1 5 3; VWrite 8 (repeat 7 1500%nat)] in
  length (snd (run c (fst (run c (fresh D0) (flat hd))) evs)) = 2%nat /\
  map (fun j => let (log, disk) := after_effects [] D0 (snd (run c (fresh D0) (flat hd)) ++ firstn j (snd (run c (fst (run c (fresh D0) (flat hd))) evs))) in
                let '(v, m, _) := recover true 1 0 log disk in (v, firstn 3 m, nth 8 m 0)) [0; 1; 2]%nat =
    [(VOk, [9;0;0], 0); (VOk, [9;0;0], 0); (VOk, [9;0;0], 0)].
Proof. vm_compute. split; reflexivity. Qed.

(* the log Proto.run writes has the shape the cut theorems of C05 assume (was: checked on real logs only) *)
Theorem C04_run_log_wf : forall c D0 h Mf s fx,
  cfg_ok c = true ->
  hist_shape h = true -> no_growth_in_ops h = true -> no_copy_in_ops h = true -> hist_range h = true ->
  apply_ops D0 (hist_ops h) = Some Mf -> run c (fresh D0) (flat h) = (s, fx) ->
  exists R, p_log s = encode R /\ wf_log R = true /\ crc_ok R = true /\ no_reset R = true /\
            after_effects [] D0 fx = (p_log s, p_disk s).
Proof. exact (fun c D0 h Mf s fx => run_log_wf c D0 h Mf s fx eq_refl). Qed.
Print Assumptions C04_run_log_wf.
Example C04_run_log_wf_ex :
  let s := fst (run hx_cfg (fresh hx_D0) (flat hx_h)) in
  option_map (fun R => (length R, wf_log R, crc_full R, no_reset R, sp_offsets R 0)) (parse (p_log s)) =
    Some (3%nat, true, true, true, [33]) /\ p_buf s = [].
Proof. vm_compute. split; reflexivity. Qed.

(* the hypothesis no_copy_in_ops is needed: one _oncopy call, checkpoint, kill after the record was applied and before
   the log truncation: recovery re-executes the move on the moved bytes (1 1 1 instead of 1 2 3 or 1 1 2) *)
Theorem C04_copy_redo_refuted :
  hist_shape cp_h = true /\ no_growth_in_ops cp_h = true /\ hist_range cp_h = true /\ no_copy_in_ops cp_h = false /\
  option_map (firstn 3) (state_after cp_D0 cp_h 0) = Some [1;2;3] /\
  option_map (firstn 3) (state_after cp_D0 cp_h 2) = Some [1;1;2] /\
  cp_crash 3 = (VOk, [1;1;1]).
Proof. exact copy_redo_refuted. Qed.
Print Assumptions C04_copy_redo_refuted.
