(* C08 - an online backup taken under load is a consistent snapshot.  Statements only.
   Model: WAL/Backup.v (image layout written by iwal_online_backup, _iwkv_check_online_backup, recover_mode 2)
   on top of WAL/Replay.v.  What is proved is the image half of the property: whatever the copy loops read -
   a main file M and a (prefix of a) well-formed log L, with or without reset marks - the image splits back
   into exactly (M, L) and opening it yields the main-file state at the last visible savepoint of L, applying
   no half-written record (C05_no_half_write carries over: same replay).  Since stage 5 appends a savepoint
   under the exclusive lock and copies the rest of the log, that savepoint is the "single instant".
   The stage half, at the level of operations (C08_backup_image_is_snapshot): over Backup.backup_run, for every
   history before the call and every list of whole operations / syncs / checkpoints executed by writers during the
   main-file copy (evM) and at the end of the first log copy (evA), the image opens to the state after ALL of them:
   every operation completed before the closing savepoint of stage 5, nothing later, nothing partial; restricted to
   one writer that is a prefix of its operations in issue order (C08_prefix_per_writer).  That no writer event
   falls into stage 5 and that evA ends at an operation boundary is what the store's exclusive lock gives
   (observed: lock skeleton of harness/h_bkpload.c); without it the image is torn: C08_writer_in_stage5_refuted.
   NOT proved (partial): that the bytes pread in stage 3 are the stage-2 state under every thread schedule (writers
   touch only their private mapping, checkpoints are suspended; file growth there is the known finding
   "growth-during-main-copy"), and live_unaffected. *)
Require Import ZArith List Bool. Require Import IW.Lib.CInt IW.Gen.Facts.
Require Import IW.WAL.Rec IW.WAL.Rec_proofs IW.WAL.Scan IW.WAL.Scan_proofs IW.WAL.Replay IW.WAL.Replay_proofs
  IW.WAL.Proto IW.WAL.Backup IW.WAL.Backup_proofs IW.WAL.Hist IW.WAL.Hist_proofs IW.WAL.Snapshot_proofs.
Import ListNotations. Local Open Scope Z_scope.

(* a one-page main file with the two magic numbers the opener looks for, and a log with a reset mark *)
Definition ex_main : bytes :=
  le_enc 4 WAL_IWFSM_MAGICK ++ repeat 0 73 ++ le_enc 4 IWKV_MAGIC ++ repeat 0 4015.
Definition ex_log : list rec :=
  [RSep 0 36; RSet 65 100 4; RSavepoint 1000; RSep 0 4; RReset; RSep 0 35; RWrite 0 102 [1;2;3]; RSavepoint 2000;
   RSep 0 24; RSet 66 101 2].

Theorem C08_split_mk_image : forall m w, image_parts_ok m w -> split_image (mk_image m w) = Some (m, w).
Proof. exact split_mk_image. Qed.
Print Assumptions C08_split_mk_image.
Example C08_split_mk_image_ex :
  lenB ex_main = 4096 /\ rd 4 0 ex_main = WAL_IWFSM_MAGICK /\ rd 4 IWFSM_CUSTOM_HDR_DATA_OFFSET ex_main = IWKV_MAGIC /\
  nth 0 (encode ex_log) 0 = WOP_SEP /\
  split_image (mk_image ex_main (encode ex_log)) = Some (ex_main, encode ex_log) /\
  split_image (mk_image ex_main []) = Some (ex_main, []).
Proof. vm_compute. repeat split; reflexivity. Qed.

(* recover_mode 2: the cut theorem of C05 holds for logs WITH reset marks *)
Theorem C08_replay_cut_mode2 : forall ccrc rs (n : nat),
  wf_log rs = true -> (ccrc = true -> crc_ok rs = true) -> (n <= length (encode rs))%nat ->
  replay_ops_with sp_checks ccrc 2 0 (firstn n (encode rs)) = (VOk, ops_before rs 0 (last_sp sp_checks rs (Z.of_nat n))).
Proof.
  intros ccrc rs n H1 H2 H3. exact (replay_cut_mode2 sp_checks ccrc rs n H1 H2 (or_intror eq_refl) H3).
Qed.
Print Assumptions C08_replay_cut_mode2.
Example C08_replay_cut_mode2_ex :
  wf_log ex_log = true /\ no_reset ex_log = false /\
  replay_ops_with sp_checks false 2 0 (encode ex_log) = (VOk, [ASet 65 100 4; AWrite 102 [1;2;3]]).
Proof. vm_compute. repeat split; reflexivity. Qed.

(* the image opens to the state at the last visible savepoint of the copied log *)
Theorem C08_open_image_is_savepoint_state : forall ccrc rs (n : nat) main m,
  wf_log rs = true -> (ccrc = true -> crc_ok rs = true) -> (n <= length (encode rs))%nat ->
  image_parts_ok main (firstn n (encode rs)) ->
  state_at rs main (last_sp sp_checks rs (Z.of_nat n)) = Some m ->
  open_image ccrc (mk_image main (firstn n (encode rs))) = (VOk, m, ops_before rs 0 (last_sp sp_checks rs (Z.of_nat n))).
Proof.
  intros ccrc rs n main m H1 H2 H3 H4 H5.
  exact (open_image_is_savepoint_state ccrc rs n main m H1 H2 (or_intror eq_refl) H3 H4 H5).
Qed.
Print Assumptions C08_open_image_is_savepoint_state.
Example C08_open_image_is_savepoint_state_ex :
  let r := open_image false (mk_image ex_main (encode ex_log)) in
  fst (fst r) = VOk /\ snd r = [ASet 65 100 4; AWrite 102 [1;2;3]] /\
  firstn 6 (skipn 100 (snd (fst r))) = [65;65;1;2;3;0] /\ lenB (snd (fst r)) = 4096.
Proof. vm_compute. repeat split; reflexivity. Qed.

(* ---- the stages (Backup.backup_run; tied to real runs byte for byte by checks/C08.py) *)
(* whatever writers do while the backup holds no lock, the result is an image: the main file as it was after the
   stage-2 checkpoint followed by the log as it is after the stage-5 savepoint *)
Theorem C08_backup_run_is_image : forall c s0 ts2 ts5 evM evA,
  exists main log live, backup_run c s0 ts2 ts5 evM evA = (mk_image main log, live) /\
    main = p_disk (fst (checkpoint c (set_stage s0 BKP_WAL_CLEANUP) false ts2)) /\ log = p_log live /\ p_stage live = 0.
Proof. exact backup_run_is_image. Qed.
Print Assumptions C08_backup_run_is_image.
Example C08_backup_run_is_image_ex :
  lenB (fst (backup_run rm_cfg rm_s0 5 9 [] rm_evA)) = 4096 + 106 + 12.
Proof. vm_compute. reflexivity. Qed.

(* a checkpoint made by a writer while the backup is in stage WAL_COPY1 puts a reset mark into the image's log; the
   records before the mark reached only the LIVE main file, so the image has to be replayed from the start of its
   log (recover_mode 2): replaying it from the mark (recover_mode 1 semantics) loses them.  Summary of a run of the
   stage model: (mode 2: rc, byte 100, byte 101), (mode 1: ...), (live file bytes 100, 101, mark pending) *)
Theorem C08_image_replay_from_mark_refuted :
  rm_summary = Some ((VOk, 1, 2), (VOk, 0, 2), (1, 0, true)).
Proof. exact image_replay_from_mark_refuted. Qed.
Print Assumptions C08_image_replay_from_mark_refuted.

(* a second backup is refused in every stage of a running one (fixed in /repo f1d2ea9: the error code used to be
   overwritten and both calls ran on the same stage variable); an accepted call only sets the stage *)
Theorem C08_backup_refused_while_running : forall s,
  (p_stage s <> 0 -> backup_start s = None) /\
  (p_stage s = 0 -> backup_start s = Some (set_stage s BKP_STARTED)) /\
  (forall st, In st [BKP_STARTED; BKP_WAL_CLEANUP; BKP_MAIN_COPY; BKP_WAL_COPY1; BKP_WAL_COPY2] -> backup_start (set_stage s st) = None).
Proof. exact backup_refused_while_running. Qed.
Print Assumptions C08_backup_refused_while_running.
Example C08_backup_refused_while_running_ex :
  backup_start rm_s0 <> None /\ backup_start (set_stage rm_s0 BKP_MAIN_COPY) = None /\
  p_stage (snd (backup_run rm_cfg rm_s0 5 9 [] rm_evA)) = 0.
Proof. vm_compute. repeat split; try reflexivity. discriminate. Qed.

(* a backup that fails in any stage (target not writable) returns with stage 0 and no lock held, so the store goes
   on and the next backup is accepted (model of the error exits; the real exits are exercised by checks/C08.py's
   fault injection on the target in every stage) *)
Theorem C08_failed_backup_releases : forall c s0 ts2 ts5 evM evA k,
  let (s, held) := backup_run_fail c s0 ts2 ts5 evM evA k in
  p_stage s = 0 /\ held = false /\ backup_start s <> None.
Proof. exact failed_backup_releases. Qed.
Print Assumptions C08_failed_backup_releases.
Example C08_failed_backup_releases_ex :
  p_stage (fst (backup_run_fail rm_cfg rm_s0 5 9 [] rm_evA BKP_WAL_COPY2)) = 0 /\
  nth 100 (p_disk (fst (backup_run_fail rm_cfg rm_s0 5 9 [] rm_evA BKP_WAL_COPY2))) 0 = 1.
Proof. vm_compute. split; reflexivity. Qed.

(* ---- the snapshot theorem at the level of operations.  hpre = history before the call (from a freshly opened store),
   hM / hA = what the writers complete while the main file is copied / at the end of the first log copy: whole
   operations (no _onresize / _oncopy call: item_ok), syncs and checkpoints in any number and order, with or without
   checksums, any log-buffer size.  The image opens - whatever the options of the opening process - to the state after
   hpre ++ hM ++ hA. *)
Theorem C08_backup_image_is_snapshot : forall c ccrc D0 hpre hM hA ts2 ts5 Mpre Mf,
  cfg_ok c = true -> hist_ok hpre = true -> hist_ok hM = true -> hist_ok hA = true ->
  (0 <=? ts2) && (ts2 <? 18446744073709551616) = true -> (0 <=? ts5) && (ts5 <? 18446744073709551616) = true ->
  apply_ops D0 (hist_ops hpre) = Some Mpre -> apply_ops Mpre (hist_ops (hM ++ hA)) = Some Mf -> main_ok Mpre ->
  exists ops',
    open_image ccrc (fst (backup_run c (fst (run c (fresh D0) (flat hpre))) ts2 ts5 (flat hM) (flat hA))) = (VOk, Mf, ops').
Proof. exact (fun c ccrc D0 hpre hM hA ts2 ts5 Mpre Mf => backup_image_is_snapshot c ccrc D0 hpre hM hA ts2 ts5 Mpre Mf eq_refl). Qed.
Print Assumptions C08_backup_image_is_snapshot.

(* hypotheses satisfiable: a synced store before the call, one operation during the main-file copy, an operation, a
   forced checkpoint (reset mark in the image, live main file ahead of the image's main part) and another operation
   at the end of the first log copy; the image opens to all five stores *)
Definition sn_pre : list hitem := [HOp [VWrite 100 [1]]; HSync 3 true].
Definition sn_M : list hitem := [HOp [VWrite 101 [2]; VSet 110 9 2]].
Definition sn_A : list hitem := [HOp [VWrite 102 [3]]; HCkpt 7; HOp [VWrite 103 [4]]; HSync 8 false].
Example C08_backup_image_is_snapshot_ex :
  cfg_ok rm_cfg = true /\ hist_ok sn_pre = true /\ hist_ok sn_M = true /\ hist_ok sn_A = true /\
  (exists Mpre, apply_ops rm_main (hist_ops sn_pre) = Some Mpre /\ main_ok Mpre /\ nth 100 Mpre 0 = 1) /\
  (let '(v, m, _) := open_image false (fst (backup_run rm_cfg (fst (run rm_cfg (fresh rm_main) (flat sn_pre))) 5 9 (flat sn_M) (flat sn_A))) in
   (v, firstn 4 (skipn 100 m), firstn 2 (skipn 110 m))) = (VOk, [1;2;3;4], [9;9]) /\
  no_reset (match parse (p_log (snd (backup_run rm_cfg (fst (run rm_cfg (fresh rm_main) (flat sn_pre))) 5 9 (flat sn_M) (flat sn_A)))) with
            | Some R => R | None => [] end) = false.
Proof.
  split; [reflexivity|]. split; [reflexivity|]. split; [reflexivity|]. split; [reflexivity|]. split.
  - eexists. split; [vm_compute; reflexivity|]. split; [|vm_compute; reflexivity].
    unfold main_ok. repeat split; vm_compute; try reflexivity; discriminate.
  - vm_compute. split; reflexivity.
Qed.

(* one writer among several: the operations of the image are a prefix of the serialized history, hence for each writer
   a prefix of its own operations in issue order (mine = "issued by this writer") *)
Theorem C08_prefix_per_writer : forall (A : Type) (mine : A -> bool) (h : list A) (k : nat),
  exists j, filter mine (firstn k h) = firstn j (filter mine h).
Proof. exact prefix_per_writer. Qed.
Print Assumptions C08_prefix_per_writer.

(* a writer that is not excluded from stage 5 (seeded change of round 4: BKP_WAL_COPY2 under the log mutex only): an
   operation of two stores, the first logged before the closing savepoint, the second after it - the image opens to a
   state with the first store only.  backup_run_w5 with no event in stage 5 is backup_run. *)
Theorem C08_writer_in_stage5_refuted :
  w5_summary = Some (VOk, 1, 0) /\
  option_map (fun m => (nth 100 m 0, nth 101 m 0)) (apply_ops rm_main (evs_ops w5_op)) = Some (1, 2) /\
  (nth 100 rm_main 0, nth 101 rm_main 0) = (0, 0).
Proof. exact writer_in_stage5_refuted. Qed.
Print Assumptions C08_writer_in_stage5_refuted.

Theorem C08_backup_run_w5_nil : forall c s0 ts2 ts5 evM evA,
  backup_run_w5 c s0 ts2 ts5 evM evA [] = backup_run c s0 ts2 ts5 evM evA.
Proof. exact backup_run_w5_nil. Qed.
Print Assumptions C08_backup_run_w5_nil.
