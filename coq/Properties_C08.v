(* C08 - statements only (placeholder until Backup_proofs is in). *)
Require Import ZArith List. Require Import IW.Lib.CInt IW.Gen.Facts IW.WAL.Rec IW.WAL.Rec_proofs.
Import ListNotations. Local Open Scope Z_scope.
Theorem C08_layout : layout_ok = true.
Proof. exact layout_facts. Qed.
Print Assumptions C08_layout.
