Require Import ZArith List. Require Extraction. Require Import ExtrOcamlBasic.
Require Import IW.Lib.CInt IW.Gen.Facts IW.FS.Bits IW.FS.Fsm.
Extraction "m.ml" Z.add Z.mul Z.sub Z.div_eucl Z.compare Z.of_nat Z.to_nat Z.opp
  mkVariant open_new open_new_max allocate reallocate deallocate check_allocation_status clear sync close reopen
  write_op rw_status mmap_all
  find_next_set_bit find_prev_set_bit w_find_next w_find_prev ffs64 reverse64 bits_of_words
  bm tree lfbkoff lfbklen bmoff bmlen hdrlen bpow fsize crzsum crznum
  p_bmoff p_bmlen p_crzsum p_crznum hdr_current set_bit_status maxoff.
