// a second iwkv_online_backup() issued while one is in progress must be refused with IWKV_ERROR_BACKUP_IN_PROGRESS
#include "iwkv.h"
#include <pthread.h>
#include <stdio.h>
#include <string.h>
#include <unistd.h>
#include <sys/stat.h>
static IWKV kv;
static volatile int in_backup, second_done;
static pthread_t bthread;
static iwrc second_rc;
static uint64_t ts2;
static iwrc tap(bool before, void *op) {
  // first exclusive-lock request of the backup thread: hold it here until the second call has returned
  if (before && pthread_equal(pthread_self(), bthread) && !in_backup) {
    in_backup = 1;
    for (int i = 0; i < 500 && !second_done; ++i) usleep(10000);
  }
  return 0;
}
static void* backup1(void *a) { uint64_t ts; iwrc rc = iwkv_online_backup(kv, &ts, "/tmp/bk2/img1"); return (void*) (intptr_t) (rc != 0); }
int main(void) {
  iwkv_init();
  unlink("/tmp/bk2/img2");
  struct iwkv_opts o = { .path = "/tmp/bk2/s.db", .oflags = IWKV_TRUNC, .wal = { .enabled = true, .wal_lock_interceptor = tap,
                         .savepoint_timeout_sec = 10000, .checkpoint_timeout_sec = 20000 } };
  if (iwkv_open(&o, &kv)) return 2;
  IWDB db; if (iwkv_db(kv, 1, 0, &db)) return 2;
  for (int i = 0; i < 100; ++i) { char k[16]; snprintf(k, sizeof(k), "k%03d", i); IWKV_val key = { .data = k, .size = strlen(k) }, v = { .data = "v", .size = 1 }; iwkv_put(db, &key, &v, 0); }
  pthread_create(&bthread, 0, backup1, 0);
  while (!in_backup) usleep(1000);
  second_rc = iwkv_online_backup(kv, &ts2, "/tmp/bk2/img2");
  second_done = 1;
  void *r1; pthread_join(bthread, &r1);
  struct stat st; int img2 = stat("/tmp/bk2/img2", &st) == 0;
  printf("second backup rc=%llu (%s), image file of the refused call %s, first backup %s\n", (unsigned long long) second_rc,
         second_rc == IWKV_ERROR_BACKUP_IN_PROGRESS ? "BACKUP_IN_PROGRESS" : "not refused", img2 ? "EXISTS" : "absent", r1 ? "FAILED" : "ok");
  iwkv_close(&kv);
  return second_rc == IWKV_ERROR_BACKUP_IN_PROGRESS && !img2 && !r1 ? 0 : 1;
}
