# C14 - text, tree and binary forms of a document agree, and so do JSON Pointer look-ups (family jbinn)
#
# Query lines (harness/h_jbinn.c and ml/driver_jbinn.ml speak the same protocol; every line is self-contained, so the
# oracle derives what must hold from the query text alone and any line can be replayed):
#   conv <dump>            tree -> binary -> tree, clones, printed texts
#   json <hex text>        text -> tree -> ... (implementation + oracle only; the model has no JSON text parser)
#   at <dump> <hex ptr>    pointer parse, look-up on the tree and on the binary form
#   dec <hex binn>         binary -> tree for buffers that use integer widths the library itself never writes
#   ptr <hex ptr>          pointer parse only
#   mx <dump> <hex ptr> <probe dump|-> <hex text|->   producer x consumer matrix, path level: every tree / binary the
#                          public header can produce from the value x every look-up / compare / copy-path entry point
#   mxc <dump> <hex text|->  producer x consumer matrix, value level: dump / print / compare / convert / clone / iterate
import os, json, struct
import vlib

LEVEL = "proof"
MODEL_FIELDS = ("rc", "binn", "back", "back0", "bcl", "bclp", "ncl", "p", "t", "t2", "b", "b2", "jt", "jb", "ser", "again", "c")
# flag sets of the `pr` query: PRETTY = 1, CODEPOINTS = 2, PRETTY_INDENT2 = 5, PRETTY_INDENT4 = 9.  Tree and binary form must print
# the same text under EVERY one of them (C14_print_agree; the library ignored the indentation bits until d42c39c) - judged.
PR_FLAGS = (0, 1, 2, 3, 5, 7, 9, 11)
# jbl_ptr_serialize writes '~' and '/' inside a segment back unescaped (defect 6, notes/jbinn.md): a pointer utility outside the
# statement of C14 - measured and counted; judged only with VERIF_C14_JUDGE_OPEN=1
JUDGE_OPEN = os.environ.get("VERIF_C14_JUDGE_OPEN") == "1"
# Round 7: jbl_size() of a fresh jbl_clone / of a document just changed by jbl_set_* must be the size jbl_as_buf() reports (stale
# until a read wrote the header before 0c2e1d6), and jbl_clone() of a scalar value (a result of jbl_at) must fail cleanly with
# *targetp == 0 (before c9ab017 it read the value's bytes as a container header) - both judged.
#  VERIF_C14_JUDGE_FOREIGN=1 jbl_to_node(pool) of a buffer holding a binn type without a JSON counterpart (blob ...) free()s pool
#                            memory: abort.  Outside the statement of C14 (no JSON document encodes to such a buffer), candidate
#                            repair fixes/jbinn-create-node-pool-free.diff.  The `dec` lines with such buffers are only GENERATED
#                            with the switch (they kill the harness on the unrepaired library)
JUDGE_SIZE = True
JUDGE_SCLONE = True
JUDGE_FOREIGN = os.environ.get("VERIF_C14_JUDGE_FOREIGN") == "1"
# clone independence (indc / indp cells): a clone that still writes into the buffer of its source (jbl_clone_into_pool until
# 3cda5bf; the harness reports ALIAS and disarms it) is a violation
IND_KINDS = ("S.node", "S.buf", "S.set", "S.setr", "S.json")
KNOWN_FIX = {"jbl_ptr_serialize-unescaped": "jbinn-ptr-serialize-escape.diff", "jbn_get-borrowed-keys": "jbinn-get-borrowed-keys.diff",
             "jbl_size-stale-header": "jbinn-size-stale-header.diff", "jbl_clone-scalar-leak": "jbinn-clone-scalar-leak.diff"}


# ------------------------------------------------------------------------------------------------ values and dumps
# python value: None | bool | int | ("d", bits) | bytes | list | ("o", [(keybytes, value), ...])
def dump(v):
    if v is None:
        return "n"
    if v is True:
        return "t"
    if v is False:
        return "f"
    if isinstance(v, int):
        return "i%d;" % v
    if isinstance(v, bytes):
        return "s%s;" % v.hex()
    if isinstance(v, list):
        return "[" + "".join(dump(x) for x in v) + "]"
    if v[0] == "d":
        return "d%016x" % v[1]
    return "{" + "".join("K%s;%s" % (k.hex(), dump(x)) for k, x in v[1]) + "}"


class BadDump(Exception):
    pass


def parse_dump(s):
    pos = [0]

    def upto(c):
        j = s.find(c, pos[0])
        if j < 0:
            raise BadDump(s[:60])
        r = s[pos[0]:j]
        pos[0] = j + 1
        return r

    def val():
        if pos[0] >= len(s):
            raise BadDump(s[:60])
        c = s[pos[0]]
        pos[0] += 1
        if c == "n":
            return None
        if c == "t":
            return True
        if c == "f":
            return False
        if c == "i":
            return int(upto(";"))
        if c == "d":
            h = s[pos[0]:pos[0] + 16]
            pos[0] += 16
            return ("d", int(h, 16))
        if c == "s":
            return bytes.fromhex(upto(";"))
        if c == "[":
            out = []
            while pos[0] < len(s) and s[pos[0]] != "]":
                out.append(val())
            pos[0] += 1
            return out
        if c == "{":
            ms = []
            while pos[0] < len(s) and s[pos[0]] == "K":
                pos[0] += 1
                k = bytes.fromhex(upto(";"))
                ms.append((k, val()))
            if pos[0] >= len(s) or s[pos[0]] != "}":
                raise BadDump(s[:60])
            pos[0] += 1
            return ("o", ms)
        raise BadDump(s[:60])

    try:
        r = val()
    except ValueError:
        raise BadDump(s[:60])
    if pos[0] != len(s):
        raise BadDump(s[:60])
    return r


def is_obj(v):
    return isinstance(v, tuple) and v[0] == "o"


def is_dbl(v):
    return isinstance(v, tuple) and v[0] == "d"


def veq(a, b, wild_doubles=False):
    """value equality; members of an object form a set (their keys are unique in every document the oracle judges)"""
    if is_obj(a) or is_obj(b):
        if not (is_obj(a) and is_obj(b)) or len(a[1]) != len(b[1]):
            return False
        db = dict(b[1])
        if len(db) != len(b[1]):
            return a[1] == b[1]
        return all(k in db and veq(x, db[k], wild_doubles) for k, x in a[1])
    if isinstance(a, list) or isinstance(b, list):
        return isinstance(a, list) and isinstance(b, list) and len(a) == len(b) and all(veq(x, y, wild_doubles) for x, y in zip(a, b))
    if is_dbl(a) and is_dbl(b) and wild_doubles:
        return True
    return type(a) == type(b) and a == b


def lower(k):
    return bytes(c + 32 if 65 <= c <= 90 else c for c in k)


def in_scope(v):
    """the documents the property quantifies over: keys up to 255 bytes, unique ignoring case (and no 0 byte in a key:
    keys are C strings in every form)"""
    if is_obj(v):
        ks = [lower(k) for k, _ in v[1]]
        if len(set(ks)) != len(ks) or any(len(k) > 255 or 0 in k for k in ks):
            return False
        return all(in_scope(x) for _, x in v[1])
    if isinstance(v, list):
        return all(in_scope(x) for x in v)
    return True


def depth(v):
    if is_obj(v):
        return 1 + max([depth(x) for _, x in v[1]] + [0])
    if isinstance(v, list):
        return 1 + max([depth(x) for x in v] + [0])
    return 0


# ------------------------------------------------------------------------------------------------ independent binn reader
class BadBinn(Exception):
    pass


def _field(b, o):
    if o >= len(b):
        raise BadBinn("field")
    if b[o] & 0x80:
        if o + 4 > len(b):
            raise BadBinn("field4")
        return struct.unpack(">I", b[o:o + 4])[0] & 0x7fffffff, o + 4
    return b[o], o + 1


def binn_read(b, o=0):
    """(value, offset after it) - written from the binn format description, not from the library's reader"""
    if o >= len(b):
        raise BadBinn("eof")
    t = b[o]
    if t in (0xE0, 0xE2):
        size, p = _field(b, o + 1)
        count, p = _field(b, p)
        end = o + size
        if end > len(b):
            raise BadBinn("container size")
        items = []
        for _ in range(count):
            if t == 0xE2:
                kl = b[p]
                k = bytes(b[p + 1:p + 1 + kl])
                p += 1 + kl
                x, p = binn_read(b, p)
                items.append((k, x))
            else:
                x, p = binn_read(b, p)
                items.append(x)
        if p != end:
            raise BadBinn("container end %d != %d" % (p, end))
        return (("o", items) if t == 0xE2 else items), end
    if t == 0x00:
        return None, o + 1
    if t == 0x01:
        return True, o + 1
    if t == 0x02:
        return False, o + 1
    ints = {0x20: (1, False), 0x21: (1, True), 0x40: (2, False), 0x41: (2, True), 0x60: (4, False), 0x61: (4, True),
            0x80: (8, False), 0x81: (8, True)}
    if t in ints:
        n, sg = ints[t]
        if o + 1 + n > len(b):
            raise BadBinn("int")
        return int.from_bytes(b[o + 1:o + 1 + n], "big", signed=sg), o + 1 + n
    if t == 0x82:
        return ("d", int.from_bytes(b[o + 1:o + 9], "big")), o + 9
    if t == 0xA0:
        n, p = _field(b, o + 1)
        if p + n + 1 > len(b) or b[p + n] != 0:
            raise BadBinn("string")
        return bytes(b[p:p + n]), p + n + 1
    raise BadBinn("type %02x" % t)


def binn_value(hexs):
    b = bytes.fromhex(hexs)
    v, end = binn_read(b, 0)
    if end != len(b):
        raise BadBinn("trailing bytes")
    return v


def binn_write(v, rng=None):
    """writer for `dec` queries: integers in a random admissible width (the library always picks the smallest)"""
    def field(n):
        return struct.pack(">I", n | 0x80000000) if n > 127 else bytes([n])
    if v is None:
        return b"\x00"
    if v is True:
        return b"\x01"
    if v is False:
        return b"\x02"
    if isinstance(v, int):
        opts = []
        for t, n, sg in ((0x20, 1, False), (0x21, 1, True), (0x40, 2, False), (0x41, 2, True), (0x60, 4, False), (0x61, 4, True),
                         (0x80, 8, False), (0x81, 8, True)):
            lo, hi = (-(1 << (8 * n - 1)), (1 << (8 * n - 1)) - 1) if sg else (0, (1 << (8 * n)) - 1)
            if lo <= v <= hi:
                opts.append((t, n, sg))
        t, n, sg = rng.choice(opts) if rng else opts[0]
        return bytes([t]) + v.to_bytes(n, "big", signed=sg)
    if isinstance(v, bytes):
        return b"\xa0" + field(len(v)) + v + b"\x00"
    if is_dbl(v):
        return b"\x82" + v[1].to_bytes(8, "big")
    if is_obj(v):
        body = b"".join(bytes([len(k)]) + k + binn_write(x, rng) for k, x in v[1])
        ty, cnt = 0xE2, len(v[1])
    else:
        body = b"".join(binn_write(x, rng) for x in v)
        ty, cnt = 0xE0, len(v)
    size = len(body) + 3
    if cnt > 127:
        size += 3
    if size > 127:
        size += 3
    return bytes([ty]) + field(size) + field(cnt) + body


# ------------------------------------------------------------------------------------------------ RFC 6901 in python
def rfc_parse(p):
    """bytes -> list of reference tokens, None when p is not a JSON Pointer"""
    if p == b"":
        return []
    if p[:1] != b"/":
        return None
    out = []
    for tok in p[1:].split(b"/"):
        i, r = 0, bytearray()
        while i < len(tok):
            if tok[i] == 0x7e:
                if i + 1 < len(tok) and tok[i + 1] == 0x30:
                    r.append(0x7e)
                elif i + 1 < len(tok) and tok[i + 1] == 0x31:
                    r.append(0x2f)
                else:
                    return None
                i += 2
            else:
                r.append(tok[i])
                i += 1
        out.append(bytes(r))
    return out


NOTFOUND = ("notfound",)


def rfc_eval(v, toks):
    for t in toks:
        if is_obj(v):
            hit = [x for k, x in v[1] if k == t]
            if not hit:
                return NOTFOUND
            v = hit[0]
        elif isinstance(v, list):
            if not (t == b"0" or (t[:1].isdigit() and t[:1] != b"0" and t.isdigit())):
                return NOTFOUND
            i = int(t)
            if i >= len(v):
                return NOTFOUND
            v = v[i]
        else:
            return NOTFOUND
    return v


def esc(k):
    return k.replace(b"~", b"~0").replace(b"/", b"~1")


def all_paths(v, pre=b"", out=None):
    if out is None:
        out = []
    out.append(pre)
    if is_obj(v):
        for k, x in v[1]:
            all_paths(x, pre + b"/" + esc(k), out)
    elif isinstance(v, list):
        for i, x in enumerate(v):
            all_paths(x, pre + b"/%d" % i, out)
    return out


# ------------------------------------------------------------------------------------------------ generators
BOUNDS = sorted(set(
    [s * ((1 << k) + d) for k in (7, 8, 15, 16, 31, 32, 63) for d in (-2, -1, 0, 1, 2) for s in (1, -1)]
    + [0, 1, -1, 127, 128, 255, 256, 65535, 65536, 10, 99, 1000, -1000]))
BOUNDS = [x for x in BOUNDS if -(1 << 63) <= x < (1 << 63)]
DOUBLES = [0x3ff8000000000000, 0x0000000000000000, 0x8000000000000000, 0x7ff0000000000000, 0xfff0000000000000,
           0x7ff8000000000001, 0x0000000000000001, 0x7fefffffffffffff, 0x3fd3333333333333, 0x4059000000000000,
           0xc00921fb54442d18, 0xffffffffffffffff]


def gen_str(rng, allow_nul):
    n = rng.weighted([(0, 2), (1, 4), (3, 6), (12, 3), (126, 1), (127, 1), (128, 1), (129, 1), (300, 1)])
    kind = rng.below(4)
    if kind == 0:
        s = bytes(rng.range(0x20, 0x7e) for _ in range(n))
    elif kind == 1:
        s = ("é中z" * n).encode()[:n] if n else b""
        s = s.decode("utf-8", "ignore").encode()
    else:
        s = bytes(rng.range(1, 255) for _ in range(n))
    if allow_nul and n and rng.chance(1, 2):
        i = rng.below(len(s)) if s else 0
        s = s[:i] + b"\x00" + s[i:]
    return s


KEYPOOL = [b"", b"a", b"A", b"b", b"ab", b"aB", b"abc", b"0", b"1", b"01", b"-", b"~", b"/", b"~0", b"~1", b"a/b", b"m~n", b"~01",
           b" ", b"*", b"**", b"10", b"2", b"key", b"KEY", b"\xc3\xa9", b"\xc3\x89", b"\xff", b"a b", b"\"", b"\\", b"00", b"-1", b"1e0",
           b"k" * 254, b"k" * 255, b"K" * 255, b"k" * 256, b"k" * 127, b"k" * 128, b"q" * 253 + b"/~"]


def gen_key(rng):
    if rng.chance(3, 4):
        return rng.choice(KEYPOOL)
    n = rng.weighted([(1, 4), (2, 4), (5, 3), (40, 1), (254, 1), (255, 1)])
    return bytes(rng.choice(b"abcABC019~/-_*. xyz") for _ in range(n))


def gen_value(rng, d, opts):
    w = [("i", 6), ("s", 4), ("n", 1), ("b", 2), ("d", 2)]
    if d < opts["maxdepth"]:
        w += [("a", 4), ("o", 5)]
    k = rng.weighted(w)
    if k == "i":
        return rng.choice(BOUNDS) if rng.chance(3, 4) else (rng.u64() >> rng.range(1, 63)) * (1 if rng.chance(1, 2) else -1)
    if k == "s":
        return gen_str(rng, opts.get("nul") and rng.chance(1, 3))
    if k == "n":
        return None
    if k == "b":
        return rng.chance(1, 2)
    if k == "d":
        return ("d", rng.choice(DOUBLES) if rng.chance(2, 3) else rng.u64())
    n = rng.weighted([(0, 3), (1, 3), (2, 4), (3, 4), (6, 2)])
    if k == "a":
        return [gen_value(rng, d + 1, opts) for _ in range(n)]
    return gen_obj(rng, d, opts, n)


def gen_obj(rng, d, opts, n):
    ms, seen = [], set()
    for _ in range(n):
        k = gen_key(rng)
        if not opts.get("bad_keys"):
            if lower(k) in seen or len(k) > 255:
                continue
        seen.add(lower(k))
        ms.append((k, gen_value(rng, d + 1, opts)))
    return ("o", ms)


def end_payloadless(rng, v):
    """make containers end with null / true / false: the values AddValue writes without a payload"""
    if isinstance(v, list) and v:
        return [end_payloadless(rng, x) for x in v[:-1]] + [rng.choice([None, True, False]) if rng.chance(2, 3) else end_payloadless(rng, v[-1])]
    if is_obj(v) and v[1]:
        ms = [(k, end_payloadless(rng, x)) for k, x in v[1][:-1]]
        k, x = v[1][-1]
        return ("o", ms + [(k, rng.choice([None, True, False]) if rng.chance(2, 3) else end_payloadless(rng, x))])
    return v


def gen_doc(rng, opts):
    shape = rng.weighted([("rand", 10), ("wide", 1), ("deep", 1), ("ints", 1), ("sized", 2), ("empties", 1)])
    if shape == "wide":    # count field switches at 127/128
        n = rng.choice([126, 127, 128, 129])
        if rng.chance(1, 2):
            return [rng.choice([None, True, 7, b"", []]) for _ in range(n)]
        return ("o", [(b"k%d" % i, rng.choice([None, 1, b"x"])) for i in range(n)])
    if shape == "deep":
        v = rng.choice([1, b"leaf", [], ("o", [])])
        for i in range(rng.choice([3, 8, 20])):
            v = [v] if rng.chance(1, 2) else ("o", [(rng.choice([b"a", b"", b"0", b"x/y"]), v)])
            if rng.chance(1, 3) and isinstance(v, list):
                v = [0] + v
        return v
    if shape == "ints":
        return list(BOUNDS) if rng.chance(1, 2) else ("o", [(b"%d" % i, x) for i, x in enumerate(BOUNDS)])
    if shape == "sized":   # total size field switches at 127/128
        target = rng.choice([120, 121, 122, 123, 124, 125, 126, 127, 128, 129, 130])
        # list with one string: 1 type + 1 size + 1 count + (1 + 1 + n + 1) = n + 6
        n = max(0, target - 6)
        if n > 127:
            n = max(0, target - 9)
        return [b"s" * n] if rng.chance(1, 2) else ("o", [(b"", b"s" * max(0, n - 1))])
    if shape == "empties":
        return rng.choice([[], ("o", []), [[]], [("o", [])], ("o", [(b"", [])]), ("o", [(b"", ("o", []))]), [[], [[]], ("o", []), []],
                           ("o", [(b"a", []), (b"b", ("o", [])), (b"c", [[], ("o", [])])])])
    n = rng.weighted([(1, 2), (2, 3), (4, 4), (7, 2)])
    if rng.chance(1, 2):
        return [gen_value(rng, 1, opts) for _ in range(n)]
    return gen_obj(rng, 0, opts, n)


def mutate_paths(rng, doc, paths):
    out = set()
    toks_pool = [b"0", b"1", b"2", b"00", b"01", b"-", b"-0", b"-1", b"+1", b"1e0", b"1.0", b" 1", b"1 ", b"4294967296", b"2147483648",
                 b"18446744073709551616", b"", b"a", b"A", b"~0", b"~1", b"~01", b"~00", b"nokey", b"a~1b", b"m~0n", b"k" * 255, b"k" * 256]
    for p in paths:
        toks = p.split(b"/")[1:]
        if not toks:
            continue
        for _ in range(2):
            t = list(toks)
            i = rng.below(len(t))
            how = rng.below(9)
            if how == 0:
                t[i] = rng.choice(toks_pool)
            elif how == 1:
                t[i] = t[i] + rng.choice([b"x", b"0", b"~0", b" "])
            elif how == 2:
                t[i] = t[i][:-1]
            elif how == 3:
                t[i] = b"0" + t[i]
            elif how == 4:
                t[i] = bytes(c ^ 0x20 if (65 <= c <= 90 or 97 <= c <= 122) else c for c in t[i])
            elif how == 5:
                t = t[:i + 1] + [rng.choice(toks_pool)] + t[i + 1:]
            elif how == 6:
                t = t[:i] + t[i + 1:]
            elif how == 7 and t[i].isdigit():
                t[i] = b"%d" % (int(t[i]) + rng.choice([1, 2, 10, 1 << 32]))
            else:
                t[i] = rng.choice(toks_pool)
            out.add(b"".join(b"/" + x for x in t))
    # index == length and "-" for every array, a non-existing member for every object
    def walk(v, pre):
        if isinstance(v, list):
            out.add(pre + b"/%d" % len(v))
            out.add(pre + b"/-")
            out.add(pre + b"/0%d" % max(0, len(v) - 1))
            for i, x in enumerate(v):
                walk(x, pre + b"/%d" % i)
        elif is_obj(v):
            out.add(pre + b"/" + rng.choice(toks_pool))
            for k, x in v[1]:
                walk(x, pre + b"/" + esc(k))
        else:
            out.add(pre + b"/" + rng.choice(toks_pool))
    walk(doc, b"")
    return sorted(p for p in out if 0 not in p)      # sorted: the order of a set of bytes differs from process to process


def well_escaped(p):
    i = 0
    while i < len(p):
        if p[i] == 0x7e:
            if i + 1 >= len(p) or p[i + 1] not in (0x30, 0x31):
                return False
            i += 1
        i += 1
    return True


def to_json_text(rng, v):
    """JSON text of a value, with the escapes and number spellings that all parsers agree on"""
    if v is None:
        return "null"
    if v is True:
        return "true"
    if v is False:
        return "false"
    if isinstance(v, int):
        return str(v)
    if isinstance(v, bytes):
        return json_string(rng, v)
    if is_dbl(v):
        return rng.choice(["1.5", "0.25", "-2.75", "1024.125", "0.5", "-0.125"])
    sp = rng.choice(["", " ", "\n ", "\t"])
    if isinstance(v, list):
        return "[" + sp + ("," + sp).join(to_json_text(rng, x) for x in v) + sp + "]"
    return "{" + sp + ("," + sp).join(json_string(rng, k) + sp + ":" + sp + to_json_text(rng, x) for k, x in v[1]) + sp + "}"


def json_string(rng, b):
    s = b.decode("utf-8")
    out = ['"']
    for ch in s:
        o = ord(ch)
        if ch == '"':
            out.append('\\"')
        elif ch == "\\":
            out.append("\\\\")
        elif ch == "\n":
            out.append("\\n")
        elif ch == "\t":
            out.append("\\t")
        elif o == 0:
            out.append("\\u0000")
        elif o < 0x20 or o == 0x7f:
            out.append("\\u%04x" % o)
        elif o > 0x7e and o < 0x10000 and rng.chance(1, 2):
            out.append("\\u%04x" % o)
        elif ch == "/" and rng.chance(1, 3):
            out.append("\\/")
        else:
            out.append(ch)
    out.append('"')
    return "".join(out)


def textable(v):
    """values whose strings are UTF-8 without control characters other than \\n \\t and 0 (the spellings this check
    writes); everything else is exercised through dumps"""
    if isinstance(v, bytes):
        try:
            s = v.decode("utf-8")
        except UnicodeDecodeError:
            return False
        return all((ord(c) >= 0x20 and ord(c) != 0x7f and not (0xd800 <= ord(c) <= 0xdfff)) or c in "\n\t\x00" for c in s)
    if isinstance(v, list):
        return all(textable(x) for x in v)
    if is_obj(v):
        return all(textable(k) and 0 not in k and textable(x) for k, x in v[1])
    if isinstance(v, int) and not isinstance(v, bool):
        return -(1 << 63) <= v < (1 << 63)
    return True


def from_pyjson(x):
    if x is None or isinstance(x, bool) or isinstance(x, int):
        return x
    if isinstance(x, float):
        return ("d", struct.unpack(">Q", struct.pack(">d", x))[0])
    if isinstance(x, str):
        return x.encode("utf-8", "surrogatepass")
    if isinstance(x, list):
        return [from_pyjson(y) for y in x]
    return x


def parse_json_text(t):
    return from_pyjson(json.loads(t, object_pairs_hook=lambda ps: ("o", [(k.encode("utf-8", "surrogatepass"), from_pyjson(v)) for k, v in ps])))


# ------------------------------------------------------------------------------------------------ producer x consumer matrix
# Every function exported by src/json/iwjson.h is classified here; check() re-reads the header of the tree under test
# and reports a function that is not classified (a new way to produce or to query a document would otherwise stay
# outside the matrix).  "P:<ids>" = producer(s) built by the harness, "C:<ids>" = consumer cell(s), "U:<what>" = used by
# the harness to build / read (not a cell of its own), "X:<reason>" = outside C14.
HEADER_API = {
    "jbn_from_json": "P:T.json (T.api root)", "jbn_from_json_printf": "P:T.jsonpf", "jbn_from_json_printf_va": "U:reached through jbn_from_json_printf",
    "jbn_from_js": "P:T.js (documents whose keys are [A-Za-z0-9]*, the only keys that parser reads)",
    "jbn_add_item": "P:T.hand T.handx", "jbn_add_item_str": "P:T.api", "jbn_add_item_null": "P:T.api", "jbn_add_item_i64": "P:T.api",
    "jbn_add_item_f64": "P:T.api", "jbn_add_item_obj": "P:T.api", "jbn_add_item_arr": "P:T.api", "jbn_add_item_bool": "P:T.api",
    "jbl_to_node": "P:T.back1 T.back0 T.back1h T.back0h T.back0x T.jback0 C:n1 n0",
    "jbn_clone": "P:T.clone T.cloneh T.clone0 C:cl", "jbn_apply_from": "P:T.apply",
    "jbl_from_node": "P:B.node B.via0 C:tb", "jbl_fill_from_node": "P:B.fill", "jbl_from_json": "P:B.json T.jback0",
    "jbl_from_json_printf": "P:B.jsonpf", "jbl_from_json_printf_va": "U:reached through jbl_from_json_printf",
    "jbl_clone": "P:B.clone C:bcl indc", "jbl_clone_into_pool": "P:B.clonep C:bclp indp", "jbl_from_buf_keep": "P:B.buf T.back0x",
    "jbl_from_buf_keep_onstack": "P:B.stack", "jbl_structure_size": "U:B.stack", "jbl_object_copy_to": "P:B.copyto",
    "jbl_create_empty_object": "P:B.set B.fill B.copyto", "jbl_create_empty_array": "P:B.set B.fill",
    "jbl_set_int64": "P:B.set B.setr (a read after every call) C:indc indp (the change made after cloning)", "jbl_set_f64": "P:B.set", "jbl_set_string": "P:B.set", "jbl_set_string_printf": "P:B.set",
    "jbl_set_bool": "P:B.set", "jbl_set_null": "P:B.set", "jbl_set_empty_array": "P:B.set", "jbl_set_empty_object": "P:B.set",
    "jbl_set_nested": "P:B.set B.copyto",
    "jbl_at": "C:bat", "jbl_at2": "C:bat2 P:B.root", "jbn_at": "C:at", "jbn_at2": "C:at2", "jbn_get": "C:get",
    "jbn_path_compare": "C:cmp", "jbn_paths_compare": "C:cmp", "jbn_path_compare_str": "C:cmpv", "jbn_path_compare_i64": "C:cmpv",
    "jbn_path_compare_f64": "C:cmpv", "jbn_path_compare_bool": "C:cmpv", "jbn_copy_path": "C:cp", "jbn_copy_paths": "C:cps",
    "jbl_object_get_type": "C:bget", "jbl_object_get_fill_jbl": "C:bget", "jbl_object_get_i64": "C:bget", "jbl_object_get_f64": "C:bget",
    "jbl_object_get_bool": "C:bget", "jbl_object_get_str": "C:bget",
    "jbn_as_json": "C:js", "jbl_as_json": "C:js", "jbn_as_json_alloc": "C:jsp", "jbl_as_json_alloc": "C:jsp", "jbl_xstr_json_printer": "U:js",
    "jbn_compare_nodes": "C:eq", "jbn_length": "C:len", "jbl_as_buf": "C:buf", "jbl_type": "C:cnt", "jbl_count": "C:cnt",
    "jbl_create_iterator_holder": "C:it bget", "jbl_iterator_init": "C:it", "jbl_iterator_next": "C:it",
    "jbl_get_i64": "U:reading a result of bat/bget/it", "jbl_get_f64": "U:reading a result of bat/bget/it", "jbl_get_str": "U:reading a result",
    "jbl_size": "U:length of a string result", "jbl_destroy": "U:disposal", "jbl_ptr_alloc": "U:at2/bat2/get, `ptr` queries",
    "jbn_visit": "U:reached through jbn_at2 / jbn_clone", "jbn_visit2": "U:disposal of trees made without a pool",
    "jbl_get_i32": "X:narrowing scalar accessor", "jbl_copy_strn": "X:scalar accessor (C17)", "jbl_set_user_data": "X:no document content",
    "jbl_get_user_data": "X:no document content", "jbl_fstream_json_printer": "X:output sink (C13)", "jbl_count_json_printer": "X:output sink (C13)",
    "jbn_as_xml": "X:other output format", "jbn_remove_item": "X:mutator (C15)", "jbn_detach": "X:mutator (C15)", "jbn_detach2": "X:mutator (C15)",
    "jbn_data": "X:mutator", "jbl_ptr_alloc_pool": "X:same parser as jbl_ptr_alloc, other allocator", "jbl_ptr_cmp": "C:pcmp (pcmp lines, and `again` of ptr lines)",
    "jbl_ptr_serialize": "C:ser (ptr lines)", "jbn_patch_auto": "X:patch (C15/C16)", "jbn_patch": "X:patch (C15)", "jbl_patch": "X:patch (C15)",
    "jbl_patch_from_json": "X:patch (C15)", "jbl_merge_patch": "X:merge patch (C16)", "jbl_merge_patch_jbl": "X:merge patch (C16)",
    "jbn_merge_patch": "X:merge patch (C16)", "jbn_merge_patch_path": "X:merge patch (C16)", "jbn_merge_patch_from_json": "X:merge patch (C16)",
    "jbn_merge_patch_create": "X:merge patch (C16)", "jbl_init": "X:module init", "iwjson_ftoa": "X:number printing (C13)",
}
# trees whose keys are counted by klidx and not terminated: keys and strings point into a binn buffer, or (T.handx) the tree
# was built node by node with such keys
BORROWED = ("T.back0", "T.back0h", "T.back0x", "T.jback0", "T.handx")
# jbn_get() compares node keys with strcmp(): on the trees above (keys are length-counted, no terminator) it misses every
# member whose value is not null - a defect of the unmodified library (notes/jbinn.md, fixes/jbinn-get-borrowed-keys.diff).
# Repaired in /repo by 0d12494 (fixed entry in known_findings.json): the cells are judged like every other one.
JBN_GET_BORROWED_TOLERATED = False
KNOWN_HITS = {}
TREE_PATH_CONS = ("at", "at2", "get", "cmp", "cmpv", "cp", "cps")
BIN_PATH_CONS = ("bat", "bat2", "bget")
TREE_VAL_CONS = ("dump", "js", "jsp", "eq", "len", "tb", "cl")
BIN_VAL_CONS = ("buf", "js", "jsp", "n1", "n0", "cnt", "it", "bcl", "bclp")
TYPE_RANK = {"n": 1, "b": 2, "i": 3, "d": 4, "s": 5, "o": 6, "a": 7}


def header_functions(repo):
    import re
    h = open(os.path.join(repo, "src", "json", "iwjson.h")).read()
    h = re.sub(r"/\*.*?\*/", "", h, flags=re.S)
    h = re.sub(r"//[^\n]*", "", h)
    return re.findall(r"IW_EXPORT\s+(?:[\w\*]+\s+)*?\**\s*(\w+)\s*\(", h)


def strings_of(v, out=None):
    out = [] if out is None else out
    if isinstance(v, bytes):
        out.append(v)
    elif isinstance(v, list):
        for x in v:
            strings_of(x, out)
    elif is_obj(v):
        for _, x in v[1]:
            strings_of(x, out)
    return out


def keys_of(v, out=None):
    out = [] if out is None else out
    if isinstance(v, list):
        for x in v:
            keys_of(x, out)
    elif is_obj(v):
        for k, x in v[1]:
            out.append(k)
            keys_of(x, out)
    return out


def has_double(v):
    if is_dbl(v):
        return True
    if isinstance(v, list):
        return any(has_double(x) for x in v)
    if is_obj(v):
        return any(has_double(x) for _, x in v[1])
    return False


def expected_producers(doc, has_text):
    """the producers the harness must have built for this document (mirrors build_prods of h_jbinn.c)"""
    nul = any(0 in s for s in strings_of(doc))
    alnum = all(all(chr(c).isalnum() and c < 128 for c in k) for k in keys_of(doc))
    t = ["T.hand", "T.api"]
    if has_text:
        t += ["T.json", "T.jsonpf"] + (["T.js"] if alnum else [])
    t += ["T.back1", "T.back0", "T.back0h"] + ([] if nul else ["T.back1h"]) + ["T.back0x"] + (["T.jback0"] if has_text else [])
    t += ["T.clone"] + ([] if nul else ["T.cloneh"]) + ["T.clone0", "T.handx", "T.apply"]
    b = ["B.node", "B.fill"] + (["B.json", "B.jsonpf"] if has_text else []) + ["B.clone", "B.clonep", "B.buf", "B.stack"]
    b += (["B.copyto"] if is_obj(doc) else []) + ([] if nul else ["B.set", "B.setr"]) + ["B.via0", "B.root"]
    return t, b


def parse_cells(out):
    """' cons=ans@p1,p2|ans@p3' fields -> {cons: [(ans, [producers])]}"""
    cells = {}
    for f in out.split():
        if "=" not in f:
            continue
        k, v = f.split("=", 1)
        if "@" not in v:
            continue
        cl = []
        for part in v.split("|"):
            ans, _, ps = part.rpartition("@")
            cl.append(("" if ans == "~" else ans, ps.split(",")))
        cells[k] = cl
    return cells


def vkind(v):
    if v is None:
        return "n"
    if isinstance(v, bool):
        return "b"
    if isinstance(v, int):
        return "i"
    if is_dbl(v):
        return "d"
    if isinstance(v, bytes):
        return "s"
    return "o" if is_obj(v) else "a"


def dbl_of(bits):
    return struct.unpack(">d", struct.pack(">Q", bits))[0]


def sgn(x):
    return (x > 0) - (x < 0)


def cmpv_expected(exp, probe):
    """what jbn_path_compare_<type>(tree, path, probe) must answer when the path designates `exp`"""
    if exp is NOTFOUND:
        return "E:NF"
    a, b = vkind(exp), vkind(probe)
    if a != b:
        return str(sgn(TYPE_RANK[a] - TYPE_RANK[b]))
    if a == "b":
        return str(sgn(int(exp) - int(probe)))
    if a == "i":
        return str(sgn(exp - probe))
    if a == "d":
        x, y = dbl_of(exp[1]), dbl_of(probe[1])
        return "1" if x > y else "-1" if x < y else "0"
    if a == "s":
        if len(exp) != len(probe):
            return str(sgn(len(exp) - len(probe)))
        return str(sgn((exp > probe) - (exp < probe)))
    return "0"


def judge_lookup(what, exp, ans):
    got = got_value(ans)
    if exp is NOTFOUND:
        if got is not NOTFOUND:
            return "%s: RFC 6901 designates nothing, got %s" % (what, ans[:120])
    elif got is NOTFOUND or (isinstance(got, tuple) and got and got[0] == "err") or not veq(exp, got):
        return "%s: expected %s, got %s" % (what, dump(exp)[:120], ans[:120])
    return None


def with_member(doc, key, val):
    """the document after jbl_set_int64(doc, key, val) succeeded (objects: new member; arrays: appended)"""
    if is_obj(doc):
        return ("o", list(doc[1]) + [(key, val)])
    return list(doc) + [val]


def judge_independence(doc, ans, fname):
    """[ALIAS:]<rc src change>:<rc clone change>:<clone after the source changed>,<source after the clone changed>,<clone after its
    own change>  - see ind_cells of harness/h_jbinn.c"""
    if ans.startswith("ERR"):
        return "%s failed (%s)" % (fname, ans)
    stale = None
    if ans.startswith("Z"):
        z, _, ans = ans[1:].partition(":")
        try:
            z1, z2, z3, z4 = (int(x) for x in z.split("."))
        except ValueError:
            return "unreadable sizes"
        if z1 != z2 or z3 != z4:
            KNOWN_HITS["jbl_size-stale-header"] = KNOWN_HITS.get("jbl_size-stale-header", 0) + 1
            if JUDGE_SIZE:
                stale = ("jbl_size of the fresh clone made by %s says %d, jbl_as_buf %d; jbl_size of the source right after jbl_set_int64 "
                         "says %d, jbl_as_buf %d" % (fname, z1, z2, z3, z4))
    alias = ans.startswith("ALIAS:")
    if alias:
        return ("the clone made by %s is writable and writes into the buffer of its source: changing one document changes "
                "the other (the harness disarmed it to go on)" % fname)
    try:
        r1, r2, rest = ans.split(":", 2)
        d1, s1, d2 = rest.split(",")
        d1, s1, d2 = parse_dump(d1), parse_dump(s1), parse_dump(d2)
    except (ValueError, BadDump):
        return "unreadable answer"
    if not veq(doc, d1):
        return "after the SOURCE was changed the clone made by %s is no longer the document" % fname
    want_src = with_member(doc, b"\x01s", 77) if r1 == "0" else doc
    if not veq(want_src, s1):
        return "after the clone made by %s was changed the SOURCE is no longer what it was" % fname
    want_cl = with_member(doc, b"\x01c", 88) if r2 == "0" else doc
    if not veq(want_cl, d2):
        return "the clone made by %s does not hold what was stored into it" % fname
    return stale


def mx_oracle(q, out):
    """producer x consumer matrix: the same RFC 6901 / value-equality answer is due in every cell"""
    bad = []
    doc = parse_dump(q[1])
    if not in_scope(doc) or not (is_obj(doc) or isinstance(doc, list)):
        return bad
    cells = parse_cells(out)
    if q[0] == "mx":
        path = b"" if q[2] == "-" else bytes.fromhex(q[2])
        probe = None if q[3] == "-" else parse_dump(q[3])
        text = None if q[4] == "-" else bytes.fromhex(q[4])
    else:
        path, probe = None, None
        text = None if q[2] == "-" else bytes.fromhex(q[2])
    tp, bp = expected_producers(doc, text is not None)
    src = doc

    def need(cons, prods):
        have = set(p for _, ps in cells.get(cons, []) for p in ps)
        miss = [p for p in prods if p not in have]
        if miss:
            bad.append("matrix cell missing: consumer %s was not run on producer(s) %s" % (cons, ",".join(miss)))

    def each(cons):
        for ans, ps in cells.get(cons, []):
            yield ans, ps, "%s on %s" % (cons, ",".join(ps))

    if q[0] == "mxc":
        for c in TREE_VAL_CONS:
            need(c, tp)
        for c in BIN_VAL_CONS:
            need(c, bp)
        for c in ("dump", "cl", "n1", "n0", "it"):
            for ans, ps, what in each(c):
                if ans.startswith("ERR") or not veq(src, parse_dump(ans)):
                    bad.append("%s: not the value of the document: %s" % (what, ans[:160]))
        for c in ("tb", "buf", "bcl", "bclp"):
            for ans, ps, what in each(c):
                try:
                    if ans.startswith("ERR") or not veq(src, binn_value(ans)):
                        bad.append("%s: the bytes do not hold the value of the document: %s" % (what, ans[:160]))
                except (BadBinn, ValueError, IndexError) as e:
                    bad.append("%s: not a well formed binn buffer (%s)" % (what, e))
        for c in ("js", "jsp"):
            cl = cells.get(c, [])
            if len(cl) > 1:
                bad.append("%s: the same value prints differently depending on how it was produced: %s on %s vs %s on %s" % (
                    c, cl[0][0][:80], ",".join(cl[0][1]), cl[1][0][:80], ",".join(cl[1][1])))
            if textable(doc) and not has_double(doc):
                for ans, ps, what in each(c):
                    try:
                        if not ans.startswith("0:") or not veq(src, parse_json_text(bytes.fromhex(ans[2:]).decode("utf-8"))):
                            bad.append("%s: the printed text is not the document: %s" % (what, ans[:160]))
                    except (ValueError, UnicodeDecodeError) as e:
                        bad.append("%s: the printed text is not JSON (%s): %s" % (what, e, ans[:160]))
        for ans, ps, what in each("eq"):
            if ans != "0,0":
                bad.append("%s: jbn_compare_nodes with the tree built node by node says %s" % (what, ans))
        n = len(doc[1]) if is_obj(doc) else len(doc)
        for ans, ps, what in each("len"):
            if ans != str(n):
                bad.append("%s: expected %d, got %s" % (what, n, ans))
        for ans, ps, what in each("cnt"):
            if ans != "%d:%d" % (6 if is_obj(doc) else 7, n):
                bad.append("%s: expected type:count %d:%d, got %s" % (what, 6 if is_obj(doc) else 7, n, ans))
        # cloning yields an INDEPENDENT document: the source is changed after cloning, then the clone is (both directions)
        nul = any(0 in x for x in strings_of(doc))
        kinds = [k for k in IND_KINDS if not (k in ("S.set", "S.setr") and nul) and not (k == "S.json" and text is None)]
        for c, fname in (("indc", "jbl_clone"), ("indp", "jbl_clone_into_pool")):
            need(c, kinds)
            for ans, ps, what in each(c):
                why = judge_independence(doc, ans, fname)
                if why:
                    bad.append("%s: %s | answer %s" % (what, why, ans[:200]))
        return bad
    # ---- mx
    toks = rfc_parse(path)
    f = fields(out)
    bad += ptr_oracle(path, f)
    if toks is None or 0 in path:
        return bad
    if toks and (toks[-1] == b"" or b"*" in toks):
        return bad
    if len(toks) > 999 or depth(doc) > 999:
        return bad
    exp = rfc_eval(doc, toks)
    need("at", tp), need("at2", tp), need("get", tp), need("cmp", tp), need("cp", tp)
    need("bat", bp), need("bat2", bp)
    if len(toks) == 1:
        need("cps", tp)
        if is_obj(doc):
            need("bget", bp)
    if probe is not None and vkind(probe) in "bids" and not (isinstance(probe, bytes) and 0 in probe):
        need("cmpv", tp)
    for c in ("at", "at2", "get", "bat", "bat2"):
        for ans, ps, what in each(c):
            if "!ALIAS" in ans:
                bad.append("%s: the result owns the buffer of the document: jbl_destroy(result), as documented, frees it" % what)
                ans = ans.replace("!ALIAS", "")
            why = judge_lookup(what, exp, ans)
            if why and c == "get" and JBN_GET_BORROWED_TOLERATED and all(p in BORROWED for p in ps):
                KNOWN_HITS["jbn_get-borrowed-keys"] = KNOWN_HITS.get("jbn_get-borrowed-keys", 0) + 1
                continue
            if why:
                bad.append(why)
    for ans, ps, what in each("cmp"):
        if ans != "0,0":
            bad.append("%s: jbn_path_compare / jbn_paths_compare of this tree with the tree built node by node (same value, same "
                       "pointer) says %s" % (what, ans))
    if probe is not None:
        want = cmpv_expected(exp, probe)
        for ans, ps, what in each("cmpv"):
            if ans != "NA" and ans != want:
                bad.append("%s: jbn_path_compare_<type> with %s: expected %s, got %s" % (what, dump(probe)[:80], want, ans))
    for c, key in (("cp", b"r"), ("cps", toks[0] if len(toks) == 1 else None)):
        want = ("o", []) if exp is NOTFOUND else ("o", [(key, exp)])
        for ans, ps, what in each(c):
            if not ans.startswith("0:") or not veq(want, parse_dump(ans[2:])):
                bad.append("%s: copying the designated value into {} must give %s, got %s" % (what, dump(want)[:120], ans[:120]))
    if len(toks) == 1 and is_obj(doc):
        # keys of the binary form are matched ignoring ASCII case (binn objects; the documents judged have no two such keys)
        hit = [x for k, x in doc[1] if lower(k) == lower(toks[0])]
        if not hit:
            want = "0:NF:+"
        else:
            x = hit[0]
            k = vkind(x)
            want = "%d:0:%s+" % (TYPE_RANK[k], dump(x))
            if k in "bid" or (k == "s" and not any(0 in s for s in strings_of(doc))):
                want += "0:" + dump(x)
        for ans, ps, what in each("bget"):
            if ans != want and not (hit and veq_bget(ans, want)):
                bad.append("%s: jbl_object_get_type/_fill_jbl/_<type>: expected %s, got %s" % (what, want[:160], ans[:160]))
    return bad


def veq_bget(got, want):
    """'rank:0:<dump>+[0:<dump>]' compared by value (containers may be dumped with members in another order)"""
    try:
        g1, _, g2 = got.partition("+")
        w1, _, w2 = want.partition("+")
        gr, grc, gd = g1.split(":", 2)
        wr, wrc, wd = w1.split(":", 2)
        return gr == wr and grc == wrc and veq(parse_dump(gd), parse_dump(wd)) and g2 == w2
    except (BadDump, ValueError):
        return False


# ------------------------------------------------------------------------------------------------ oracle
def fields(line):
    d = {}
    for f in line.split():
        if "=" in f:
            k, v = f.split("=", 1)
            d[k] = v
    return d


def got_value(s):
    """'0:<dump>' -> value, 'NF:' -> NOTFOUND, anything else -> ('err', code)"""
    code, _, rest = s.partition(":")
    if code == "0":
        return parse_dump(rest)
    if code == "NF":
        return NOTFOUND
    return ("err", code)


def ptr_oracle(path, f):
    """segments reported by jbl_ptr_alloc against the RFC 6901 reference tokens (pointers the property covers)"""
    toks = rfc_parse(path)
    if toks is None or 0 in path or (len(path) > 1 and path.endswith(b"/")):
        return []
    exp = "0:%d:%s" % (len(toks), ",".join(vlib.hexs(t) for t in toks))
    if f.get("p") != exp:
        return ["jbl_ptr_alloc segments %s differ from the RFC 6901 reference tokens %s" % (f.get("p"), exp)]
    return []


def oracle(query, out):
    """list of reasons why the implementation's answer `out` to `query` contradicts the property statement"""
    q = query.split()
    f = fields(out)
    bad = []
    if not q:
        return bad
    try:
        if q[0] in ("conv", "json"):
            wild = False
            if q[0] == "json":
                text = bytes.fromhex(q[1]).decode("utf-8")
                doc = parse_json_text(text)
                wild = True
                if f.get("prc") != "0":
                    return ["valid JSON text rejected by jbn_from_json (%s)" % f.get("prc")]
                tree = parse_dump(f["tree"])
                if not veq(doc, tree, wild_doubles=True):
                    bad.append("text -> tree changed the value: tree=%s" % f["tree"][:200])
                src = tree          # the later conversions must preserve what the tree holds, doubles bit for bit
            else:
                doc = parse_dump(q[1])
                src = doc
            if not in_scope(src):
                # outside the quantifier: only "accepted but altered" is reported
                if f.get("rc") == "0" and "back" in f and not f["back"].startswith("ERR") and not veq(src, parse_dump(f["back"])):
                    bad.append("document with over-long or case-colliding keys was converted into a different document")
                return bad
            if "ncl" in f:
                if f["ncl"].startswith("ERR") or not veq(src, parse_dump(f["ncl"])):
                    bad.append("jbn_clone is not equal to its source: %s" % f["ncl"][:200])
                if f.get("nindep") == "0":
                    bad.append("jbn_clone shares storage with its source (changing the source changed the clone)")
                if f.get("nindep2") == "0":
                    bad.append("jbn_clone shares storage with its source (changing the clone changed the source)")
            if not (is_obj(src) or isinstance(src, list)):
                return bad      # scalars have no binary document form (jbl_from_node/jbl_from_json refuse them)
            if f.get("rc") != "0":
                bad.append("tree -> binary failed (%s) for a document with admissible keys" % f.get("rc"))
                return bad
            for name, what in (("back", "tree -> binary -> tree"), ("back0", "tree -> binary -> tree (strings not copied)")):
                if f[name].startswith("ERR") or f[name] == "NULL" or not veq(src, parse_dump(f[name])):
                    bad.append("%s is not the identity: got %s" % (what, f[name][:200]))
            for name, what in (("binn", "binary form"), ("bcl", "jbl_clone"), ("bclp", "jbl_clone_into_pool")):
                try:
                    if f[name].startswith("ERR") or not veq(src, binn_value(f[name])):
                        bad.append("%s does not hold the value of the tree" % what)
                except (BadBinn, ValueError, IndexError) as e:
                    bad.append("%s is not a well formed binn buffer (%s)" % (what, e))
            if f.get("bindep") == "0":
                bad.append("jbl_clone shares its buffer with the source")
            if "jt" in f and "jb" in f and f["jt"] != f["jb"]:
                bad.append("tree and binary form print different texts: %s vs %s" % (f["jt"][:120], f["jb"][:120]))
            if q[0] == "json" and f.get("bj", "").startswith("0:"):
                if f["bj"][2:] != f["binn"]:
                    bad.append("jbl_from_json differs from jbn_from_json + jbl_from_node")
        elif q[0] == "ptr":
            path = b"" if q[1] == "-" else bytes.fromhex(q[1])
            bad += ptr_oracle(path, f)
            if f.get("again") == "other" or f.get("again") == "PTR":
                # jbl_ptr_serialize writes '~' and '/' inside a segment back unescaped: the text denotes another pointer or none.
                # A pointer utility outside the statement of C14: measured; judged only with VERIF_C14_JUDGE_OPEN=1 (notes/jbinn.md, fixes/jbinn-ptr-serialize-escape.diff)
                KNOWN_HITS["jbl_ptr_serialize-unescaped"] = KNOWN_HITS.get("jbl_ptr_serialize-unescaped", 0) + 1
                if JUDGE_OPEN:
                    bad.append("jbl_ptr_serialize of the parsed pointer gives %s, which %s" % (
                        f.get("ser"), "is refused by jbl_ptr_alloc" if f.get("again") == "PTR" else "parses to another pointer"))
        elif q[0] == "pcmp":
            p1, p2 = (b"" if x == "-" else bytes.fromhex(x) for x in q[1:3])
            t1, t2 = rfc_parse(p1), rfc_parse(p2)
            ok = lambda p, t: t is not None and 0 not in p and not (len(p) > 1 and p.endswith(b"/"))
            if ok(p1, t1) and ok(p2, t2):
                if f.get("c") not in ("-1", "0", "1"):
                    bad.append("jbl_ptr_cmp on two well formed pointers: no answer (%s)" % f.get("c"))
                elif (f["c"] == "0") != (t1 == t2):
                    bad.append("jbl_ptr_cmp says %s for pointers whose RFC 6901 reference tokens are %s" % (
                        f["c"], "equal" if t1 == t2 else "different"))
        elif q[0] == "at":
            doc = parse_dump(q[1])
            path = b"" if q[2] == "-" else bytes.fromhex(q[2])
            toks = rfc_parse(path)
            bad += ptr_oracle(path, f)
            if "sclone" in f:
                src, _, tgt = f["sclone"].partition(":")
                if src != "0" and tgt != "null":
                    KNOWN_HITS["jbl_clone-scalar-leak"] = KNOWN_HITS.get("jbl_clone-scalar-leak", 0) + 1
                    if JUDGE_SCLONE:
                        bad.append("jbl_clone of a scalar value failed (%s) and left *targetp %s: a struct nobody can destroy" % (src, tgt))
            if f.get("balias") == "1" or f.get("b2alias") == "1":
                bad.append("the result of jbl_at owns the buffer of the document: jbl_destroy(result), as documented, frees it")
            if not in_scope(doc) or toks is None or 0 in path:
                return bad
            if toks and (toks[-1] == b"" or b"*" in toks):
                return bad      # excluded by the property (trailing empty segment, wildcard)
            if len(toks) > 999 or depth(doc) > 999:
                return bad
            exp = rfc_eval(doc, toks)
            for name, what in (("t", "jbn_at"), ("t2", "jbn_at2"), ("b", "jbl_at"), ("b2", "jbl_at2")):
                if name not in f or f[name].startswith("NA"):
                    continue
                got = got_value(f[name])
                if name in ("b", "b2") and not (is_obj(doc) or isinstance(doc, list)):
                    continue
                if exp is NOTFOUND:
                    if got is not NOTFOUND:
                        bad.append("%s: RFC 6901 designates nothing, got %s" % (what, f[name][:120]))
                elif got is NOTFOUND or (isinstance(got, tuple) and got and got[0] == "err") or not veq(exp, got):
                    bad.append("%s: expected %s, got %s" % (what, dump(exp)[:120], f[name][:120]))
        elif q[0] in ("mx", "mxc"):
            bad += mx_oracle(q, out)
        elif q[0] == "pr":
            doc = parse_dump(q[1])
            if not in_scope(doc) or not (is_obj(doc) or isinstance(doc, list)) or any(0 in x for x in strings_of(doc)):
                return bad
            if f.get("rc") != "0":
                return ["tree -> binary failed (%s) for a document with admissible keys" % f.get("rc")]
            for pf in PR_FLAGS:
                t, b = f.get("t%d" % pf), f.get("b%d" % pf)
                if t is None or b is None:
                    bad.append("print flags %d: a printer gave no answer" % pf)
                elif t != b:
                    bad.append("tree and binary form print different texts under print flags %d%s: %s vs %s" % (
                        pf, " (JBL_PRINT_PRETTY_INDENT%d)" % (2 if pf & 4 else 4) if pf & 12 else "", t[:120], b[:120]))
        elif q[0] == "dec":
            try:
                exp = binn_value(q[1])
            except (BadBinn, ValueError, IndexError):
                # not the binary form of a JSON document (blob, time ...): binary -> tree has to refuse it
                if f.get("rc") == "0" and not f.get("back", "ERR").startswith("ERR"):
                    bad.append("binary -> tree accepted a buffer that holds a binn type without a JSON counterpart: %s" % f["back"][:120])
                return bad
            if in_scope(exp) and f.get("rc") == "0" and not veq(exp, parse_dump(f["back"])):
                bad.append("binary -> tree: expected %s got %s" % (dump(exp)[:120], f["back"][:120]))
    except (BadDump, KeyError, IndexError) as e:
        bad.append("unreadable answer of the implementation (%r): %s" % (e, out[:200]))
    return bad


# ------------------------------------------------------------------------------------------------ the check
def build_queries(run, mult):
    rng = run.rng
    quick = run.tier == "quick"
    ndocs = (260 if quick else 12000) * mult
    lines = []
    cdir = os.path.join(vlib.VERIF, "corpus", "C14")
    if os.path.isdir(cdir):
        for cf in sorted(os.listdir(cdir)):
            for l in open(os.path.join(cdir, cf)):
                l = l.strip()
                if l and not l.startswith("#"):
                    lines.append(l)
                    run.dist("corpus")
    for _ in range(ndocs):
        kind = rng.weighted([("plain", 12), ("badkeys", 2), ("nul", 1), ("scalar", 1)])
        opts = {"maxdepth": rng.choice([1, 2, 3, 4]), "bad_keys": kind == "badkeys", "nul": kind == "nul"}
        doc = gen_value(rng, 9, opts) if kind == "scalar" else gen_doc(rng, opts)
        if kind == "plain" and rng.chance(1, 3):
            doc = end_payloadless(rng, doc)
            run.dist("doc-ends-payloadless")
        d = dump(doc)
        lines.append("conv " + d)
        run.dist("conv-" + kind)
        if kind != "scalar" and textable(doc) and rng.chance(1, 3):
            lines.append("json " + vlib.hexs(to_json_text(rng, doc).encode("utf-8")))
            run.dist("json")
        if kind in ("plain", "badkeys") and len(d) < 20000:
            paths = all_paths(doc)
            if len(paths) > 24:
                paths = [paths[0]] + [rng.choice(paths) for _ in range(23)]
            extra = mutate_paths(rng, doc, paths)
            if len(extra) > 24:
                extra = [rng.choice(extra) for _ in range(24)]
            for p in paths:
                if 0 not in p:
                    lines.append("at %s %s" % (d, vlib.hexs(p)))
                    run.dist("at-existing")
            for p in extra:
                if 0 not in p:
                    lines.append("at %s %s" % (d, vlib.hexs(p)))
                    run.dist("at-mutated" if well_escaped(p) else "at-bad-escape")
            if rng.chance(1, 6):
                for p in (b"/*", b"/*/0", b"/a/", b"/", b"//", b"a", b"/0/*"):
                    lines.append("at %s %s" % (d, vlib.hexs(p)))
                    run.dist("at-excluded")
        if kind == "plain" and (is_obj(doc) or isinstance(doc, list)) and rng.chance(1, 4):
            lines.append("dec " + binn_write(doc, rng).hex())
            run.dist("dec")
        if kind in ("plain", "badkeys") and len(d) < 6000 and rng.chance(1, 2):
            lines.append("pr " + d)
            run.dist("pr")
        if kind in ("plain", "nul") and (is_obj(doc) or isinstance(doc, list)) and in_scope(doc) and len(d) < 6000 and (
                quick or rng.chance(1, 3)):
            lines += matrix_queries(run, rng, doc, d)
    if JUDGE_FOREIGN:
        # buffers no JSON document encodes to: a blob (0xC0), a date string (0xA3 0x..), a map - binary -> tree must refuse them
        # (JBL_ERROR_CREATION / INVALID), not abort
        for h in ("e2110201612001" + "0162c0" + "00000003" + "78797a", "e00b022001c0" + "00000001" + "ff", "e00c0183" + "0000000000000001"):
            lines.append("dec " + h)
            run.dist("dec-foreign-type")
    for p in (b"", b"/", b"//", b"/a", b"/a/b", b"/a//b", b"/~0", b"/~1", b"/~01", b"/~10", b"/a~0b~1c/~1", b"a", b"a/b", b"/a/", b"//a/",
              b"/ ", b"/\xff\xfe", b"/" + b"x" * 300, b"/0/1/2/3/4/5/6/7/8/9", b"/~0~0~1~1", b"/*", b"/a/*/b"):
        lines.append("ptr " + vlib.hexs(p))
        run.dist("ptr")
    for _ in range(40 * mult):
        p = b"".join(b"/" + bytes(rng.choice(b"ab~/01*x") for _ in range(rng.below(4))) for _ in range(rng.range(1, 4)))
        if rng.chance(1, 4):
            p = p[1:]
        lines.append("ptr " + vlib.hexs(p))
        run.dist("ptr" if well_escaped(p) else "ptr-bad-escape")
    pool = [b"", b"/", b"/a", b"/b", b"/a/b", b"/a~1b", b"/a~0b", b"/ab", b"/a/", b"/~0", b"/~1", b"/~", b"/a~2", b"//", b"/a//b", b"/0", b"/00",
            b"/a/b/c", b"/A", b"a"]
    for _ in range(60 * mult):
        a = rng.choice(pool)
        b = a if rng.chance(1, 4) else rng.choice(pool)
        lines.append("pcmp %s %s" % (vlib.hexs(a), vlib.hexs(b)))
        run.dist("pcmp")
    return lines


PROBES = [0, 1, -1, 127, 128, 1 << 32, -(1 << 63), (1 << 63) - 1, True, False, b"", b"a", b"b", b"x", b"leaf", ("d", 0x3ff8000000000000),
          ("d", 0), ("d", 0x7ff8000000000001), ("d", 0xc00921fb54442d18)]


def make_probe(rng, exp):
    """the constant a jbn_path_compare_<type> cell compares with: the designated scalar itself, a neighbour, or anything"""
    if exp is not NOTFOUND and vkind(exp) in "bids" and not (isinstance(exp, bytes) and 0 in exp) and rng.chance(2, 3):
        if rng.chance(1, 2):
            return exp
        if isinstance(exp, bool):
            return not exp
        if isinstance(exp, int):
            return max(-(1 << 63), min((1 << 63) - 1, exp + rng.choice([-1, 1])))
        if isinstance(exp, bytes):
            return rng.choice([exp + b"a", exp[:-1], bytes(c ^ 1 if c > 1 else c for c in exp) or b"a"])
        return ("d", exp[1] ^ rng.choice([1, 1 << 63]))
    return rng.choice(PROBES)


def matrix_queries(run, rng, doc, d):
    """mxc + mx lines of one document: every member path (sampled), mutated paths, the root"""
    out = []
    text = "-"
    if textable(doc) and not has_double(doc):
        text = vlib.hexs(to_json_text(rng, doc).encode("utf-8"))
    out.append("mxc %s %s" % (d, text))
    run.dist("mxc")
    paths = all_paths(doc)
    some = [b""] + ([rng.choice(paths) for _ in range(7)] if len(paths) > 8 else paths[1:])
    extra = [p for p in mutate_paths(rng, doc, some) if well_escaped(p)]
    if len(extra) > 4:
        extra = [rng.choice(extra) for _ in range(4)]
    for kind, ps in (("mx-existing", some), ("mx-mutated", extra)):
        for p in ps:
            if 0 in p:
                continue
            toks = rfc_parse(p)
            exp = rfc_eval(doc, toks) if toks is not None else NOTFOUND
            pr = make_probe(rng, exp)
            if isinstance(pr, bytes) and 0 in pr:
                pr = b"a"
            out.append("mx %s %s %s %s" % (d, vlib.hexs(p), dump(pr), text))
            run.dist(kind)
    return out


def compare_matrix(q, out_i, out_m):
    """T2 for mx / mxc lines: the model's answer must be matched by EVERY producer (one class per consumer)"""
    m, cells, fi = fields(out_m), parse_cells(out_i), fields(out_i)
    bad = []

    def all_are(cons, want, name):
        if want is None:
            return
        for ans, ps in cells.get(cons, []):
            if ans.replace("!ALIAS", "") != want:
                bad.append("%s[%s]" % (name, ",".join(ps)))

    if q[0] == "mx":
        if m.get("p") != fi.get("p"):
            bad.append("p")
        all_are("at", m.get("t"), "t"), all_are("at2", m.get("t2"), "t2")
        all_are("bat", m.get("b"), "b"), all_are("bat2", m.get("b2"), "b2")
        if m.get("bget") is not None:
            for ans, ps in cells.get("bget", []):
                if ans != m["bget"] and not veq_bget(ans, m["bget"]):
                    bad.append("bget[%s]" % ",".join(ps))
    else:
        for c in ("buf", "tb", "bcl", "bclp"):
            all_are(c, m.get("binn"), "binn")
        for c in ("dump", "n1", "n0", "it"):
            all_are(c, m.get("back"), "back")
        all_are("cl", m.get("ncl"), "ncl")
        all_are("cnt", m.get("cnt"), "cnt")
        if m.get("sz") is not None:
            for cons in ("indc", "indp"):
                for ans, ps in cells.get(cons, []):
                    if ans.startswith("Z") and ans[1:].split(":")[0].split(".")[1] != m["sz"]:
                        bad.append("sz[%s:%s]" % (cons, ",".join(ps)))
        all_are("it", m.get("it"), "it")
        # printed texts: the tree producers against the model's tree printer (C13's as_json), the binary producers against
        # the model's binn-walking printer (BinnAcc.print_binn)
        for cons in ("js", "jsp"):
            for ans, ps in cells.get(cons, []):
                tb = [p for p in ps if p.startswith("T.")]
                bb = [p for p in ps if p.startswith("B.")]
                if tb and m.get("t" + cons) is not None and ans != m["t" + cons]:
                    bad.append("t%s[%s]" % (cons, ",".join(tb)))
                if bb and m.get("b" + cons) is not None and ans != m["b" + cons]:
                    bad.append("b%s[%s]" % (cons, ",".join(bb)))
    return bad


def compare(out_i, out_m):
    """fields the model produces must be matched exactly by the implementation"""
    a, b = fields(out_i), fields(out_m)
    if not b:
        return [] if out_i == out_m else ["<line>"]
    bad = []
    if "g" in b and a.get("rc") in ("0", "CRE") and (a.get("rc") == "0") != (b["g"] == "1"):
        bad.append("g")         # the executable guard wf && fits of the model against the encoder's accept / reject
    pr = any(k[0] in "tb" and k[1:].isdigit() for k in b)
    for k, v in b.items():
        if k not in MODEL_FIELDS and not (pr and k[0] in "tb" and k[1:].isdigit()):
            continue
        w = a.get(k)
        if w is not None and k in ("back", "back0", "bcl", "bclp") and w.startswith("ERR") and v.startswith("ERR"):
            continue
        if w != v:
            bad.append(k)
    return bad


def check(run):
    proofs_ok = run.proofs()
    # T1 for the matrix: every function the public header exports is classified (producer / consumer / used / outside)
    try:
        exported = header_functions(vlib.REPO)
        new = [f for f in exported if f not in HEADER_API]
        gone = [f for f in HEADER_API if f not in exported]
        if new or gone:
            run.broken.append("T1 header: src/json/iwjson.h exports %s / no longer exports %s - the producer x consumer matrix "
                              "(HEADER_API in checks/C14.py, harness/h_jbinn.c) does not classify it" % (new or "-", gone or "-"))
        run.cov["matrix_api"] = {"exported": len(exported),
                                 "producers": sorted(f for f, c in HEADER_API.items() if "P:" in c),
                                 "consumers": sorted(f for f, c in HEADER_API.items() if "C:" in c),
                                 "used": sorted(f for f, c in HEADER_API.items() if c.startswith("U:")),
                                 "outside": {f: c[2:] for f, c in HEADER_API.items() if c.startswith("X:")}}
    except OSError as e:
        run.broken.append("T1 header: cannot read iwjson.h (%s)" % e)
    impl = vlib.build_harness("h_jbinn")
    model = vlib.build_model("jbinn")
    mult = 1 if proofs_ok else 10
    lines = build_queries(run, mult)
    text = "\n".join(lines) + "\n"
    rc1, out_i, err1 = vlib.run_lines(impl, text, timeout=1500)
    model_lines = [l if not l.startswith("json ") else "" for l in lines]
    rc2, out_m, err2 = vlib.run_lines(model, "\n".join(model_lines) + "\n", timeout=1500)
    if rc1 != 0:
        run.broken.append("T2 harness: implementation harness exited %d after %d answers: %s" % (rc1, len(out_i) - 1, err1[-400:]))
        # the query that killed it is the first one without an answer
        k = max(0, len([o for o in out_i if o]) )
        if k < len(lines):
            run.violation({"query": lines[k], "impl": "<crash rc=%d>" % rc1, "kind": lines[k].split()[0]},
                          "the implementation crashed on this query: %s" % err1[-300:].strip())
    if rc2 != 0:
        run.broken.append("T2 model driver exited %d: %s" % (rc2, err2[-400:]))
    mism = []
    for i, l in enumerate(lines):
        oi = out_i[i] if i < len(out_i) else "<missing>"
        om = out_m[i] if i < len(out_m) else "<missing>"
        if l.startswith("json "):
            om = None
        if om is not None:
            if l.startswith("mx"):
                d = compare_matrix(l.split(), oi, om)
                for cons, cl in parse_cells(oi).items():
                    for _, ps in cl:
                        for pr in ps:
                            run.dist("cell %s x %s" % (cons, pr))
            else:
                d = compare(oi, om)
            if d:
                mism.append((i, d))
        run.case(l, nontrivial=True, sample=({"query": l[:400], "impl": oi[:400]} if i % max(1, len(lines) // 5) == 0 else None))
        if i < len(out_i) and rc1 == 0 or i < len(out_i) - 1:
            for why in oracle(l, oi):
                run.violation({"query": l, "impl": oi, "kind": l.split()[0]}, why + " | query: " + l[:300])
                break
    run.cov["traces_validated_against_impl"] = len(lines) - len(mism)
    if any(l.startswith("mx") for l in lines):
        dd = run.cov["distribution"]
        tp, bp = expected_producers(("o", [(b"a", 1)]), True)
        empty = ["%s x %s" % (c, pr) for c in TREE_PATH_CONS + TREE_VAL_CONS for pr in tp if not dd.get("cell %s x %s" % (c, pr))]
        empty += ["%s x %s" % (c, pr) for c in BIN_PATH_CONS + BIN_VAL_CONS for pr in bp if not dd.get("cell %s x %s" % (c, pr))]
        run.cov["matrix_cells_never_run"] = empty
        if empty:
            run.notes.append("matrix cells not exercised in this run: " + ", ".join(empty[:20]))
    for k, n in KNOWN_HITS.items():
        run.dist("known-defect " + k, n)
        judged = (k.startswith("jbl_ptr_serialize") and JUDGE_OPEN) or (k.startswith("jbl_size") and JUDGE_SIZE) or (
            k.startswith("jbl_clone-scalar") and JUDGE_SCLONE)
        run.notes.append("known defect of the unmodified library, measured in %d answers and %s: %s (notes/jbinn.md, fixes/%s)" % (
            n, "judged" if judged else "not judged", k, KNOWN_FIX.get(k, "?")))
    if mism:
        i, d = mism[0]
        fi, fm = fields(out_i[i] if i < len(out_i) else ""), fields(out_m[i] if i < len(out_m) else "")
        if lines[i].startswith("mx"):
            fi = {d[0]: "producer(s) %s answer differently" % d[0]}
            fm = {d[0]: fm.get(d[0].split("[")[0])}
        run.broken.append("T2 correspondence: %d of %d queries differ, first: `%s` field %s impl=`%s` model=`%s`" % (
            len(mism), len(lines), lines[i][:300], d[0], (fi.get(d[0]) or "")[:200], (fm.get(d[0]) or "")[:200]))
        if os.environ.get("VERIF_DEBUG"):
            for i, d in mism[:30]:
                print("MISMATCH", lines[i][:200], d)
    return run.finish(
        level=LEVEL,
        rule="random documents (keys at 0/1/127/128/254/255/256 bytes, case-colliding and escaped keys, integers at +-2^7, 2^8, "
             "+-2^15, 2^16, +-2^31, 2^32, +-2^63 and neighbours, strings at 126..129 bytes, containers of 126..129 items, total sizes "
             "around 127, nested empties, depth up to 20) x every pointer of the document plus mutated ones (~0, ~1, numeric keys, "
             "leading zeros, index = length, '-', case changes, dropped/inserted segments); a case is one query line.  "
             "Producer x consumer matrix (mx / mxc lines, distribution keys `cell <consumer> x <producer>`): for every document with "
             "admissible keys, 16 ways to obtain the tree (parsed from text by jbn_from_json / _printf / jbn_from_js, built node by "
             "node with terminated and with klidx-counted keys, built through jbn_add_item_*, jbl_to_node with clone_strings true / false with and without a pool and from a "
             "foreign buffer of exact size or from a jbl_from_json document, jbn_clone with / without pool and of a borrowing "
             "tree, jbn_apply_from) and 12 ways to obtain the binary (jbl_from_node, jbl_fill_from_node, jbl_from_json / _printf, "
             "jbl_clone, jbl_clone_into_pool, jbl_from_buf_keep / _onstack, jbl_set_* member by member, jbl_object_copy_to, "
             "jbl_from_node of a borrowing tree, jbl_at2 of the root) x jbn_at, jbn_at2, jbn_get walk, jbn_path(s)_compare, "
             "jbn_path_compare_<type>, jbn_copy_path(s), jbl_at, jbl_at2, jbl_object_get_* and dump, print (plain / pretty), "
             "jbn_compare_nodes, jbn_length, tree -> binary, jbn_clone, jbl_as_buf, jbl_to_node, jbl_count/type, iterator, jbl_clone*: "
             "one RFC 6901 / value-equality answer is due in every cell; the set of exported functions of iwjson.h is re-read and "
             "must be classified completely (HEADER_API)",
        assumptions=["tree nodes of arrays carry klidx = position (true of parsed, decoded and freshly built trees; C15 covers the rest)",
                     "documents and pointers have at most 999 levels (JBL_MAX_NESTING_LEVEL)",
                     "binn maps, blobs and buffers of 2^31 bytes or more are outside the model",
                     "the model's tree is a value (no storage): that keys of a tree borrowed from a binn buffer are counted by "
                     "klidx and not terminated is exercised by the T.back0* / T.jback0 producers of the matrix, not by a theorem",
                     "jbl_object_get_* match keys ignoring ASCII case (binn objects): judged with that rule",
                     "JSON text is only produced with escapes and number spellings every parser accepts; double parsing/printing "
                     "accuracy belongs to C13 and is not judged here"])


def replay(run, path):
    r = json.load(open(path))
    if "query" not in r:
        print(json.dumps(r, indent=1))
        return 1
    impl = vlib.build_harness("h_jbinn")
    rc, out, err = vlib.run_lines(impl, r["query"] + "\n")
    print("query:", r["query"][:2000])
    print("impl :", (out[0] if out else "")[:2000])
    print("recorded:", str(r.get("impl"))[:2000])
    print("note:", r.get("note"))
    if rc != 0:
        print("implementation crashed: rc=%d %s" % (rc, err[-300:]))
        return 1
    why = oracle(r["query"], out[0])
    for w in why:
        print("still violates:", w)
    return 1 if why else 0
