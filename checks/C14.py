# C14 - text, tree and binary forms of a document agree, and so do JSON Pointer look-ups (family jbinn)
#
# Query lines (harness/h_jbinn.c and ml/driver_jbinn.ml speak the same protocol; every line is self-contained, so the
# oracle derives what must hold from the query text alone and any line can be replayed):
#   conv <dump>            tree -> binary -> tree, clones, printed texts
#   json <hex text>        text -> tree -> ... (implementation + oracle only; the model has no JSON text parser)
#   at <dump> <hex ptr>    pointer parse, look-up on the tree and on the binary form
#   dec <hex binn>         binary -> tree for buffers that use integer widths the library itself never writes
#   ptr <hex ptr>          pointer parse only
import os, json, struct
import vlib

LEVEL = "proof"
MODEL_FIELDS = ("rc", "binn", "back", "back0", "bcl", "bclp", "ncl", "p", "t", "t2", "b", "b2")


# ------------------------------------------------------------------------------------------------ values and dumps
# python value: None | bool | int | ("d", bits) | bytes | list | ("o", [(keybytes, value), ...])
def dump(v):
    if v is None:
        return "n"
    if v is True:
        return "t"
    if v is False:
        return "f"
    if isinstance(v, int):
        return "i%d;" % v
    if isinstance(v, bytes):
        return "s%s;" % v.hex()
    if isinstance(v, list):
        return "[" + "".join(dump(x) for x in v) + "]"
    if v[0] == "d":
        return "d%016x" % v[1]
    return "{" + "".join("K%s;%s" % (k.hex(), dump(x)) for k, x in v[1]) + "}"


class BadDump(Exception):
    pass


def parse_dump(s):
    pos = [0]

    def upto(c):
        j = s.find(c, pos[0])
        if j < 0:
            raise BadDump(s[:60])
        r = s[pos[0]:j]
        pos[0] = j + 1
        return r

    def val():
        if pos[0] >= len(s):
            raise BadDump(s[:60])
        c = s[pos[0]]
        pos[0] += 1
        if c == "n":
            return None
        if c == "t":
            return True
        if c == "f":
            return False
        if c == "i":
            return int(upto(";"))
        if c == "d":
            h = s[pos[0]:pos[0] + 16]
            pos[0] += 16
            return ("d", int(h, 16))
        if c == "s":
            return bytes.fromhex(upto(";"))
        if c == "[":
            out = []
            while pos[0] < len(s) and s[pos[0]] != "]":
                out.append(val())
            pos[0] += 1
            return out
        if c == "{":
            ms = []
            while pos[0] < len(s) and s[pos[0]] == "K":
                pos[0] += 1
                k = bytes.fromhex(upto(";"))
                ms.append((k, val()))
            if pos[0] >= len(s) or s[pos[0]] != "}":
                raise BadDump(s[:60])
            pos[0] += 1
            return ("o", ms)
        raise BadDump(s[:60])

    try:
        r = val()
    except ValueError:
        raise BadDump(s[:60])
    if pos[0] != len(s):
        raise BadDump(s[:60])
    return r


def is_obj(v):
    return isinstance(v, tuple) and v[0] == "o"


def is_dbl(v):
    return isinstance(v, tuple) and v[0] == "d"


def veq(a, b, wild_doubles=False):
    """value equality; members of an object form a set (their keys are unique in every document the oracle judges)"""
    if is_obj(a) or is_obj(b):
        if not (is_obj(a) and is_obj(b)) or len(a[1]) != len(b[1]):
            return False
        db = dict(b[1])
        if len(db) != len(b[1]):
            return a[1] == b[1]
        return all(k in db and veq(x, db[k], wild_doubles) for k, x in a[1])
    if isinstance(a, list) or isinstance(b, list):
        return isinstance(a, list) and isinstance(b, list) and len(a) == len(b) and all(veq(x, y, wild_doubles) for x, y in zip(a, b))
    if is_dbl(a) and is_dbl(b) and wild_doubles:
        return True
    return type(a) == type(b) and a == b


def lower(k):
    return bytes(c + 32 if 65 <= c <= 90 else c for c in k)


def in_scope(v):
    """the documents the property quantifies over: keys up to 255 bytes, unique ignoring case (and no 0 byte in a key:
    keys are C strings in every form)"""
    if is_obj(v):
        ks = [lower(k) for k, _ in v[1]]
        if len(set(ks)) != len(ks) or any(len(k) > 255 or 0 in k for k in ks):
            return False
        return all(in_scope(x) for _, x in v[1])
    if isinstance(v, list):
        return all(in_scope(x) for x in v)
    return True


def depth(v):
    if is_obj(v):
        return 1 + max([depth(x) for _, x in v[1]] + [0])
    if isinstance(v, list):
        return 1 + max([depth(x) for x in v] + [0])
    return 0


# ------------------------------------------------------------------------------------------------ independent binn reader
class BadBinn(Exception):
    pass


def _field(b, o):
    if o >= len(b):
        raise BadBinn("field")
    if b[o] & 0x80:
        if o + 4 > len(b):
            raise BadBinn("field4")
        return struct.unpack(">I", b[o:o + 4])[0] & 0x7fffffff, o + 4
    return b[o], o + 1


def binn_read(b, o=0):
    """(value, offset after it) - written from the binn format description, not from the library's reader"""
    if o >= len(b):
        raise BadBinn("eof")
    t = b[o]
    if t in (0xE0, 0xE2):
        size, p = _field(b, o + 1)
        count, p = _field(b, p)
        end = o + size
        if end > len(b):
            raise BadBinn("container size")
        items = []
        for _ in range(count):
            if t == 0xE2:
                kl = b[p]
                k = bytes(b[p + 1:p + 1 + kl])
                p += 1 + kl
                x, p = binn_read(b, p)
                items.append((k, x))
            else:
                x, p = binn_read(b, p)
                items.append(x)
        if p != end:
            raise BadBinn("container end %d != %d" % (p, end))
        return (("o", items) if t == 0xE2 else items), end
    if t == 0x00:
        return None, o + 1
    if t == 0x01:
        return True, o + 1
    if t == 0x02:
        return False, o + 1
    ints = {0x20: (1, False), 0x21: (1, True), 0x40: (2, False), 0x41: (2, True), 0x60: (4, False), 0x61: (4, True),
            0x80: (8, False), 0x81: (8, True)}
    if t in ints:
        n, sg = ints[t]
        if o + 1 + n > len(b):
            raise BadBinn("int")
        return int.from_bytes(b[o + 1:o + 1 + n], "big", signed=sg), o + 1 + n
    if t == 0x82:
        return ("d", int.from_bytes(b[o + 1:o + 9], "big")), o + 9
    if t == 0xA0:
        n, p = _field(b, o + 1)
        if p + n + 1 > len(b) or b[p + n] != 0:
            raise BadBinn("string")
        return bytes(b[p:p + n]), p + n + 1
    raise BadBinn("type %02x" % t)


def binn_value(hexs):
    b = bytes.fromhex(hexs)
    v, end = binn_read(b, 0)
    if end != len(b):
        raise BadBinn("trailing bytes")
    return v


def binn_write(v, rng=None):
    """writer for `dec` queries: integers in a random admissible width (the library always picks the smallest)"""
    def field(n):
        return struct.pack(">I", n | 0x80000000) if n > 127 else bytes([n])
    if v is None:
        return b"\x00"
    if v is True:
        return b"\x01"
    if v is False:
        return b"\x02"
    if isinstance(v, int):
        opts = []
        for t, n, sg in ((0x20, 1, False), (0x21, 1, True), (0x40, 2, False), (0x41, 2, True), (0x60, 4, False), (0x61, 4, True),
                         (0x80, 8, False), (0x81, 8, True)):
            lo, hi = (-(1 << (8 * n - 1)), (1 << (8 * n - 1)) - 1) if sg else (0, (1 << (8 * n)) - 1)
            if lo <= v <= hi:
                opts.append((t, n, sg))
        t, n, sg = rng.choice(opts) if rng else opts[0]
        return bytes([t]) + v.to_bytes(n, "big", signed=sg)
    if isinstance(v, bytes):
        return b"\xa0" + field(len(v)) + v + b"\x00"
    if is_dbl(v):
        return b"\x82" + v[1].to_bytes(8, "big")
    if is_obj(v):
        body = b"".join(bytes([len(k)]) + k + binn_write(x, rng) for k, x in v[1])
        ty, cnt = 0xE2, len(v[1])
    else:
        body = b"".join(binn_write(x, rng) for x in v)
        ty, cnt = 0xE0, len(v)
    size = len(body) + 3
    if cnt > 127:
        size += 3
    if size > 127:
        size += 3
    return bytes([ty]) + field(size) + field(cnt) + body


# ------------------------------------------------------------------------------------------------ RFC 6901 in python
def rfc_parse(p):
    """bytes -> list of reference tokens, None when p is not a JSON Pointer"""
    if p == b"":
        return []
    if p[:1] != b"/":
        return None
    out = []
    for tok in p[1:].split(b"/"):
        i, r = 0, bytearray()
        while i < len(tok):
            if tok[i] == 0x7e:
                if i + 1 < len(tok) and tok[i + 1] == 0x30:
                    r.append(0x7e)
                elif i + 1 < len(tok) and tok[i + 1] == 0x31:
                    r.append(0x2f)
                else:
                    return None
                i += 2
            else:
                r.append(tok[i])
                i += 1
        out.append(bytes(r))
    return out


NOTFOUND = ("notfound",)


def rfc_eval(v, toks):
    for t in toks:
        if is_obj(v):
            hit = [x for k, x in v[1] if k == t]
            if not hit:
                return NOTFOUND
            v = hit[0]
        elif isinstance(v, list):
            if not (t == b"0" or (t[:1].isdigit() and t[:1] != b"0" and t.isdigit())):
                return NOTFOUND
            i = int(t)
            if i >= len(v):
                return NOTFOUND
            v = v[i]
        else:
            return NOTFOUND
    return v


def esc(k):
    return k.replace(b"~", b"~0").replace(b"/", b"~1")


def all_paths(v, pre=b"", out=None):
    if out is None:
        out = []
    out.append(pre)
    if is_obj(v):
        for k, x in v[1]:
            all_paths(x, pre + b"/" + esc(k), out)
    elif isinstance(v, list):
        for i, x in enumerate(v):
            all_paths(x, pre + b"/%d" % i, out)
    return out


# ------------------------------------------------------------------------------------------------ generators
BOUNDS = sorted(set(
    [s * ((1 << k) + d) for k in (7, 8, 15, 16, 31, 32, 63) for d in (-2, -1, 0, 1, 2) for s in (1, -1)]
    + [0, 1, -1, 127, 128, 255, 256, 65535, 65536, 10, 99, 1000, -1000]))
BOUNDS = [x for x in BOUNDS if -(1 << 63) <= x < (1 << 63)]
DOUBLES = [0x3ff8000000000000, 0x0000000000000000, 0x8000000000000000, 0x7ff0000000000000, 0xfff0000000000000,
           0x7ff8000000000001, 0x0000000000000001, 0x7fefffffffffffff, 0x3fd3333333333333, 0x4059000000000000,
           0xc00921fb54442d18, 0xffffffffffffffff]


def gen_str(rng, allow_nul):
    n = rng.weighted([(0, 2), (1, 4), (3, 6), (12, 3), (126, 1), (127, 1), (128, 1), (129, 1), (300, 1)])
    kind = rng.below(4)
    if kind == 0:
        s = bytes(rng.range(0x20, 0x7e) for _ in range(n))
    elif kind == 1:
        s = ("é中z" * n).encode()[:n] if n else b""
        s = s.decode("utf-8", "ignore").encode()
    else:
        s = bytes(rng.range(1, 255) for _ in range(n))
    if allow_nul and n and rng.chance(1, 2):
        i = rng.below(len(s)) if s else 0
        s = s[:i] + b"\x00" + s[i:]
    return s


KEYPOOL = [b"", b"a", b"A", b"b", b"ab", b"aB", b"abc", b"0", b"1", b"01", b"-", b"~", b"/", b"~0", b"~1", b"a/b", b"m~n", b"~01",
           b" ", b"*", b"**", b"10", b"2", b"key", b"KEY", b"\xc3\xa9", b"\xc3\x89", b"\xff", b"a b", b"\"", b"\\", b"00", b"-1", b"1e0",
           b"k" * 254, b"k" * 255, b"K" * 255, b"k" * 256, b"k" * 127, b"k" * 128, b"q" * 253 + b"/~"]


def gen_key(rng):
    if rng.chance(3, 4):
        return rng.choice(KEYPOOL)
    n = rng.weighted([(1, 4), (2, 4), (5, 3), (40, 1), (254, 1), (255, 1)])
    return bytes(rng.choice(b"abcABC019~/-_*. xyz") for _ in range(n))


def gen_value(rng, d, opts):
    w = [("i", 6), ("s", 4), ("n", 1), ("b", 2), ("d", 2)]
    if d < opts["maxdepth"]:
        w += [("a", 4), ("o", 5)]
    k = rng.weighted(w)
    if k == "i":
        return rng.choice(BOUNDS) if rng.chance(3, 4) else (rng.u64() >> rng.range(1, 63)) * (1 if rng.chance(1, 2) else -1)
    if k == "s":
        return gen_str(rng, opts.get("nul") and rng.chance(1, 3))
    if k == "n":
        return None
    if k == "b":
        return rng.chance(1, 2)
    if k == "d":
        return ("d", rng.choice(DOUBLES) if rng.chance(2, 3) else rng.u64())
    n = rng.weighted([(0, 3), (1, 3), (2, 4), (3, 4), (6, 2)])
    if k == "a":
        return [gen_value(rng, d + 1, opts) for _ in range(n)]
    return gen_obj(rng, d, opts, n)


def gen_obj(rng, d, opts, n):
    ms, seen = [], set()
    for _ in range(n):
        k = gen_key(rng)
        if not opts.get("bad_keys"):
            if lower(k) in seen or len(k) > 255:
                continue
        seen.add(lower(k))
        ms.append((k, gen_value(rng, d + 1, opts)))
    return ("o", ms)


def gen_doc(rng, opts):
    shape = rng.weighted([("rand", 10), ("wide", 1), ("deep", 1), ("ints", 1), ("sized", 2), ("empties", 1)])
    if shape == "wide":    # count field switches at 127/128
        n = rng.choice([126, 127, 128, 129])
        if rng.chance(1, 2):
            return [rng.choice([None, True, 7, b"", []]) for _ in range(n)]
        return ("o", [(b"k%d" % i, rng.choice([None, 1, b"x"])) for i in range(n)])
    if shape == "deep":
        v = rng.choice([1, b"leaf", [], ("o", [])])
        for i in range(rng.choice([3, 8, 20])):
            v = [v] if rng.chance(1, 2) else ("o", [(rng.choice([b"a", b"", b"0", b"x/y"]), v)])
            if rng.chance(1, 3) and isinstance(v, list):
                v = [0] + v
        return v
    if shape == "ints":
        return list(BOUNDS) if rng.chance(1, 2) else ("o", [(b"%d" % i, x) for i, x in enumerate(BOUNDS)])
    if shape == "sized":   # total size field switches at 127/128
        target = rng.choice([120, 121, 122, 123, 124, 125, 126, 127, 128, 129, 130])
        # list with one string: 1 type + 1 size + 1 count + (1 + 1 + n + 1) = n + 6
        n = max(0, target - 6)
        if n > 127:
            n = max(0, target - 9)
        return [b"s" * n] if rng.chance(1, 2) else ("o", [(b"", b"s" * max(0, n - 1))])
    if shape == "empties":
        return rng.choice([[], ("o", []), [[]], [("o", [])], ("o", [(b"", [])]), ("o", [(b"", ("o", []))]), [[], [[]], ("o", []), []],
                           ("o", [(b"a", []), (b"b", ("o", [])), (b"c", [[], ("o", [])])])])
    n = rng.weighted([(1, 2), (2, 3), (4, 4), (7, 2)])
    if rng.chance(1, 2):
        return [gen_value(rng, 1, opts) for _ in range(n)]
    return gen_obj(rng, 0, opts, n)


def mutate_paths(rng, doc, paths):
    out = set()
    toks_pool = [b"0", b"1", b"2", b"00", b"01", b"-", b"-0", b"-1", b"+1", b"1e0", b"1.0", b" 1", b"1 ", b"4294967296", b"2147483648",
                 b"18446744073709551616", b"", b"a", b"A", b"~0", b"~1", b"~01", b"~00", b"nokey", b"a~1b", b"m~0n", b"k" * 255, b"k" * 256]
    for p in paths:
        toks = p.split(b"/")[1:]
        if not toks:
            continue
        for _ in range(2):
            t = list(toks)
            i = rng.below(len(t))
            how = rng.below(9)
            if how == 0:
                t[i] = rng.choice(toks_pool)
            elif how == 1:
                t[i] = t[i] + rng.choice([b"x", b"0", b"~0", b" "])
            elif how == 2:
                t[i] = t[i][:-1]
            elif how == 3:
                t[i] = b"0" + t[i]
            elif how == 4:
                t[i] = bytes(c ^ 0x20 if (65 <= c <= 90 or 97 <= c <= 122) else c for c in t[i])
            elif how == 5:
                t = t[:i + 1] + [rng.choice(toks_pool)] + t[i + 1:]
            elif how == 6:
                t = t[:i] + t[i + 1:]
            elif how == 7 and t[i].isdigit():
                t[i] = b"%d" % (int(t[i]) + rng.choice([1, 2, 10, 1 << 32]))
            else:
                t[i] = rng.choice(toks_pool)
            out.add(b"".join(b"/" + x for x in t))
    # index == length and "-" for every array, a non-existing member for every object
    def walk(v, pre):
        if isinstance(v, list):
            out.add(pre + b"/%d" % len(v))
            out.add(pre + b"/-")
            out.add(pre + b"/0%d" % max(0, len(v) - 1))
            for i, x in enumerate(v):
                walk(x, pre + b"/%d" % i)
        elif is_obj(v):
            out.add(pre + b"/" + rng.choice(toks_pool))
            for k, x in v[1]:
                walk(x, pre + b"/" + esc(k))
        else:
            out.add(pre + b"/" + rng.choice(toks_pool))
    walk(doc, b"")
    return [p for p in out if 0 not in p]


def well_escaped(p):
    i = 0
    while i < len(p):
        if p[i] == 0x7e:
            if i + 1 >= len(p) or p[i + 1] not in (0x30, 0x31):
                return False
            i += 1
        i += 1
    return True


def to_json_text(rng, v):
    """JSON text of a value, with the escapes and number spellings that all parsers agree on"""
    if v is None:
        return "null"
    if v is True:
        return "true"
    if v is False:
        return "false"
    if isinstance(v, int):
        return str(v)
    if isinstance(v, bytes):
        return json_string(rng, v)
    if is_dbl(v):
        return rng.choice(["1.5", "0.25", "-2.75", "1024.125", "0.5", "-0.125"])
    sp = rng.choice(["", " ", "\n ", "\t"])
    if isinstance(v, list):
        return "[" + sp + ("," + sp).join(to_json_text(rng, x) for x in v) + sp + "]"
    return "{" + sp + ("," + sp).join(json_string(rng, k) + sp + ":" + sp + to_json_text(rng, x) for k, x in v[1]) + sp + "}"


def json_string(rng, b):
    s = b.decode("utf-8")
    out = ['"']
    for ch in s:
        o = ord(ch)
        if ch == '"':
            out.append('\\"')
        elif ch == "\\":
            out.append("\\\\")
        elif ch == "\n":
            out.append("\\n")
        elif ch == "\t":
            out.append("\\t")
        elif o == 0:
            out.append("\\u0000")
        elif o < 0x20 or o == 0x7f:
            out.append("\\u%04x" % o)
        elif o > 0x7e and o < 0x10000 and rng.chance(1, 2):
            out.append("\\u%04x" % o)
        elif ch == "/" and rng.chance(1, 3):
            out.append("\\/")
        else:
            out.append(ch)
    out.append('"')
    return "".join(out)


def textable(v):
    """values whose strings are UTF-8 without control characters other than \\n \\t and 0 (the spellings this check
    writes); everything else is exercised through dumps"""
    if isinstance(v, bytes):
        try:
            s = v.decode("utf-8")
        except UnicodeDecodeError:
            return False
        return all((ord(c) >= 0x20 and ord(c) != 0x7f and not (0xd800 <= ord(c) <= 0xdfff)) or c in "\n\t\x00" for c in s)
    if isinstance(v, list):
        return all(textable(x) for x in v)
    if is_obj(v):
        return all(textable(k) and 0 not in k and textable(x) for k, x in v[1])
    if isinstance(v, int) and not isinstance(v, bool):
        return -(1 << 63) <= v < (1 << 63)
    return True


def from_pyjson(x):
    if x is None or isinstance(x, bool) or isinstance(x, int):
        return x
    if isinstance(x, float):
        return ("d", struct.unpack(">Q", struct.pack(">d", x))[0])
    if isinstance(x, str):
        return x.encode("utf-8", "surrogatepass")
    if isinstance(x, list):
        return [from_pyjson(y) for y in x]
    return x


def parse_json_text(t):
    return from_pyjson(json.loads(t, object_pairs_hook=lambda ps: ("o", [(k.encode("utf-8", "surrogatepass"), from_pyjson(v)) for k, v in ps])))


# ------------------------------------------------------------------------------------------------ oracle
def fields(line):
    d = {}
    for f in line.split():
        if "=" in f:
            k, v = f.split("=", 1)
            d[k] = v
    return d


def got_value(s):
    """'0:<dump>' -> value, 'NF:' -> NOTFOUND, anything else -> ('err', code)"""
    code, _, rest = s.partition(":")
    if code == "0":
        return parse_dump(rest)
    if code == "NF":
        return NOTFOUND
    return ("err", code)


def ptr_oracle(path, f):
    """segments reported by jbl_ptr_alloc against the RFC 6901 reference tokens (pointers the property covers)"""
    toks = rfc_parse(path)
    if toks is None or 0 in path or (len(path) > 1 and path.endswith(b"/")):
        return []
    exp = "0:%d:%s" % (len(toks), ",".join(vlib.hexs(t) for t in toks))
    if f.get("p") != exp:
        return ["jbl_ptr_alloc segments %s differ from the RFC 6901 reference tokens %s" % (f.get("p"), exp)]
    return []


def oracle(query, out):
    """list of reasons why the implementation's answer `out` to `query` contradicts the property statement"""
    q = query.split()
    f = fields(out)
    bad = []
    if not q:
        return bad
    try:
        if q[0] in ("conv", "json"):
            wild = False
            if q[0] == "json":
                text = bytes.fromhex(q[1]).decode("utf-8")
                doc = parse_json_text(text)
                wild = True
                if f.get("prc") != "0":
                    return ["valid JSON text rejected by jbn_from_json (%s)" % f.get("prc")]
                tree = parse_dump(f["tree"])
                if not veq(doc, tree, wild_doubles=True):
                    bad.append("text -> tree changed the value: tree=%s" % f["tree"][:200])
                src = tree          # the later conversions must preserve what the tree holds, doubles bit for bit
            else:
                doc = parse_dump(q[1])
                src = doc
            if not in_scope(src):
                # outside the quantifier: only "accepted but altered" is reported
                if f.get("rc") == "0" and "back" in f and not f["back"].startswith("ERR") and not veq(src, parse_dump(f["back"])):
                    bad.append("document with over-long or case-colliding keys was converted into a different document")
                return bad
            if "ncl" in f:
                if f["ncl"].startswith("ERR") or not veq(src, parse_dump(f["ncl"])):
                    bad.append("jbn_clone is not equal to its source: %s" % f["ncl"][:200])
                if f.get("nindep") == "0":
                    bad.append("jbn_clone shares storage with its source (changing the source changed the clone)")
            if not (is_obj(src) or isinstance(src, list)):
                return bad      # scalars have no binary document form (jbl_from_node/jbl_from_json refuse them)
            if f.get("rc") != "0":
                bad.append("tree -> binary failed (%s) for a document with admissible keys" % f.get("rc"))
                return bad
            for name, what in (("back", "tree -> binary -> tree"), ("back0", "tree -> binary -> tree (strings not copied)")):
                if f[name].startswith("ERR") or f[name] == "NULL" or not veq(src, parse_dump(f[name])):
                    bad.append("%s is not the identity: got %s" % (what, f[name][:200]))
            for name, what in (("binn", "binary form"), ("bcl", "jbl_clone"), ("bclp", "jbl_clone_into_pool")):
                try:
                    if f[name].startswith("ERR") or not veq(src, binn_value(f[name])):
                        bad.append("%s does not hold the value of the tree" % what)
                except (BadBinn, ValueError, IndexError) as e:
                    bad.append("%s is not a well formed binn buffer (%s)" % (what, e))
            if f.get("bindep") == "0":
                bad.append("jbl_clone shares its buffer with the source")
            if "jt" in f and "jb" in f and f["jt"] != f["jb"]:
                bad.append("tree and binary form print different texts: %s vs %s" % (f["jt"][:120], f["jb"][:120]))
            if q[0] == "json" and f.get("bj", "").startswith("0:"):
                if f["bj"][2:] != f["binn"]:
                    bad.append("jbl_from_json differs from jbn_from_json + jbl_from_node")
        elif q[0] == "ptr":
            path = b"" if q[1] == "-" else bytes.fromhex(q[1])
            bad += ptr_oracle(path, f)
        elif q[0] == "at":
            doc = parse_dump(q[1])
            path = b"" if q[2] == "-" else bytes.fromhex(q[2])
            toks = rfc_parse(path)
            bad += ptr_oracle(path, f)
            if f.get("balias") == "1" or f.get("b2alias") == "1":
                bad.append("the result of jbl_at owns the buffer of the document: jbl_destroy(result), as documented, frees it")
            if not in_scope(doc) or toks is None or 0 in path:
                return bad
            if toks and (toks[-1] == b"" or b"*" in toks):
                return bad      # excluded by the property (trailing empty segment, wildcard)
            if len(toks) > 999 or depth(doc) > 999:
                return bad
            exp = rfc_eval(doc, toks)
            for name, what in (("t", "jbn_at"), ("t2", "jbn_at2"), ("b", "jbl_at"), ("b2", "jbl_at2")):
                if name not in f or f[name].startswith("NA"):
                    continue
                got = got_value(f[name])
                if name in ("b", "b2") and not (is_obj(doc) or isinstance(doc, list)):
                    continue
                if exp is NOTFOUND:
                    if got is not NOTFOUND:
                        bad.append("%s: RFC 6901 designates nothing, got %s" % (what, f[name][:120]))
                elif got is NOTFOUND or (isinstance(got, tuple) and got and got[0] == "err") or not veq(exp, got):
                    bad.append("%s: expected %s, got %s" % (what, dump(exp)[:120], f[name][:120]))
        elif q[0] == "dec":
            exp = binn_value(q[1])
            if in_scope(exp) and f.get("rc") == "0" and not veq(exp, parse_dump(f["back"])):
                bad.append("binary -> tree: expected %s got %s" % (dump(exp)[:120], f["back"][:120]))
    except (BadDump, KeyError) as e:
        bad.append("unreadable answer of the implementation (%r): %s" % (e, out[:200]))
    return bad


# ------------------------------------------------------------------------------------------------ the check
def build_queries(run, mult):
    rng = run.rng
    quick = run.tier == "quick"
    ndocs = (260 if quick else 12000) * mult
    lines = []
    cdir = os.path.join(vlib.VERIF, "corpus", "C14")
    if os.path.isdir(cdir):
        for cf in sorted(os.listdir(cdir)):
            for l in open(os.path.join(cdir, cf)):
                l = l.strip()
                if l and not l.startswith("#"):
                    lines.append(l)
                    run.dist("corpus")
    for _ in range(ndocs):
        kind = rng.weighted([("plain", 12), ("badkeys", 2), ("nul", 1), ("scalar", 1)])
        opts = {"maxdepth": rng.choice([1, 2, 3, 4]), "bad_keys": kind == "badkeys", "nul": kind == "nul"}
        doc = gen_value(rng, 9, opts) if kind == "scalar" else gen_doc(rng, opts)
        d = dump(doc)
        lines.append("conv " + d)
        run.dist("conv-" + kind)
        if kind != "scalar" and textable(doc) and rng.chance(1, 3):
            lines.append("json " + vlib.hexs(to_json_text(rng, doc).encode("utf-8")))
            run.dist("json")
        if kind in ("plain", "badkeys") and len(d) < 20000:
            paths = all_paths(doc)
            if len(paths) > 24:
                paths = [paths[0]] + [rng.choice(paths) for _ in range(23)]
            extra = mutate_paths(rng, doc, paths)
            if len(extra) > 24:
                extra = [rng.choice(extra) for _ in range(24)]
            for p in paths:
                if 0 not in p:
                    lines.append("at %s %s" % (d, vlib.hexs(p)))
                    run.dist("at-existing")
            for p in extra:
                if well_escaped(p):
                    lines.append("at %s %s" % (d, vlib.hexs(p)))
                    run.dist("at-mutated")
            if rng.chance(1, 6):
                for p in (b"/*", b"/*/0", b"/a/", b"/", b"//", b"a", b"/0/*"):
                    lines.append("at %s %s" % (d, vlib.hexs(p)))
                    run.dist("at-excluded")
        if kind == "plain" and (is_obj(doc) or isinstance(doc, list)) and rng.chance(1, 4):
            lines.append("dec " + binn_write(doc, rng).hex())
            run.dist("dec")
    for p in (b"", b"/", b"//", b"/a", b"/a/b", b"/a//b", b"/~0", b"/~1", b"/~01", b"/~10", b"/a~0b~1c/~1", b"a", b"a/b", b"/a/", b"//a/",
              b"/ ", b"/\xff\xfe", b"/" + b"x" * 300, b"/0/1/2/3/4/5/6/7/8/9", b"/~0~0~1~1", b"/*", b"/a/*/b"):
        lines.append("ptr " + vlib.hexs(p))
        run.dist("ptr")
    for _ in range(40 * mult):
        p = b"".join(b"/" + bytes(rng.choice(b"ab~/01*x") for _ in range(rng.below(4))) for _ in range(rng.range(1, 4)))
        if rng.chance(1, 4):
            p = p[1:]
        if well_escaped(p):
            lines.append("ptr " + vlib.hexs(p))
            run.dist("ptr")
    return lines


def compare(out_i, out_m):
    """fields the model produces must be matched exactly by the implementation"""
    a, b = fields(out_i), fields(out_m)
    if not b:
        return [] if out_i == out_m else ["<line>"]
    bad = []
    for k, v in b.items():
        if k not in MODEL_FIELDS:
            continue
        w = a.get(k)
        if w is not None and k in ("back", "back0", "bcl", "bclp") and w.startswith("ERR") and v.startswith("ERR"):
            continue
        if w != v:
            bad.append(k)
    return bad


def check(run):
    proofs_ok = run.proofs()
    impl = vlib.build_harness("h_jbinn")
    model = vlib.build_model("jbinn")
    mult = 1 if proofs_ok else 10
    lines = build_queries(run, mult)
    text = "\n".join(lines) + "\n"
    rc1, out_i, err1 = vlib.run_lines(impl, text, timeout=1500)
    model_lines = [l if not l.startswith("json ") else "" for l in lines]
    rc2, out_m, err2 = vlib.run_lines(model, "\n".join(model_lines) + "\n", timeout=1500)
    if rc1 != 0:
        run.broken.append("T2 harness: implementation harness exited %d after %d answers: %s" % (rc1, len(out_i) - 1, err1[-400:]))
        # the query that killed it is the first one without an answer
        k = max(0, len([o for o in out_i if o]) )
        if k < len(lines):
            run.violation({"query": lines[k], "impl": "<crash rc=%d>" % rc1, "kind": lines[k].split()[0]},
                          "the implementation crashed on this query: %s" % err1[-300:].strip())
    if rc2 != 0:
        run.broken.append("T2 model driver exited %d: %s" % (rc2, err2[-400:]))
    mism = []
    for i, l in enumerate(lines):
        oi = out_i[i] if i < len(out_i) else "<missing>"
        om = out_m[i] if i < len(out_m) else "<missing>"
        if l.startswith("json "):
            om = None
        if om is not None:
            d = compare(oi, om)
            if d:
                mism.append((i, d))
        run.case(l, nontrivial=True, sample=({"query": l[:400], "impl": oi[:400]} if i % max(1, len(lines) // 5) == 0 else None))
        if i < len(out_i) and rc1 == 0 or i < len(out_i) - 1:
            for why in oracle(l, oi):
                run.violation({"query": l, "impl": oi, "kind": l.split()[0]}, why + " | query: " + l[:300])
                break
    run.cov["traces_validated_against_impl"] = len(lines) - len(mism)
    if mism:
        i, d = mism[0]
        fi, fm = fields(out_i[i] if i < len(out_i) else ""), fields(out_m[i] if i < len(out_m) else "")
        run.broken.append("T2 correspondence: %d of %d queries differ, first: `%s` field %s impl=`%s` model=`%s`" % (
            len(mism), len(lines), lines[i][:300], d[0], (fi.get(d[0]) or "")[:200], (fm.get(d[0]) or "")[:200]))
        if os.environ.get("VERIF_DEBUG"):
            for i, d in mism[:30]:
                print("MISMATCH", lines[i][:200], d)
    return run.finish(
        level=LEVEL,
        rule="random documents (keys at 0/1/127/128/254/255/256 bytes, case-colliding and escaped keys, integers at +-2^7, 2^8, "
             "+-2^15, 2^16, +-2^31, 2^32, +-2^63 and neighbours, strings at 126..129 bytes, containers of 126..129 items, total sizes "
             "around 127, nested empties, depth up to 20) x every pointer of the document plus mutated ones (~0, ~1, numeric keys, "
             "leading zeros, index = length, '-', case changes, dropped/inserted segments); a case is one query line",
        assumptions=["tree nodes of arrays carry klidx = position (true of parsed, decoded and freshly built trees; C15 covers the rest)",
                     "documents and pointers have at most 999 levels (JBL_MAX_NESTING_LEVEL)",
                     "binn maps, blobs and buffers of 2^31 bytes or more are outside the model",
                     "JSON text is only produced with escapes and number spellings every parser accepts; double parsing/printing "
                     "accuracy belongs to C13 and is not judged here"])


def replay(run, path):
    r = json.load(open(path))
    if "query" not in r:
        print(json.dumps(r, indent=1))
        return 1
    impl = vlib.build_harness("h_jbinn")
    rc, out, err = vlib.run_lines(impl, r["query"] + "\n")
    print("query:", r["query"][:2000])
    print("impl :", (out[0] if out else "")[:2000])
    print("recorded:", str(r.get("impl"))[:2000])
    print("note:", r.get("note"))
    if rc != 0:
        print("implementation crashed: rc=%d %s" % (rc, err[-300:]))
        return 1
    why = oracle(r["query"], out[0])
    for w in why:
        print("still violates:", w)
    return 1 if why else 0
