import json, os
import vlib, kvcommon

LEVEL = "proof"

def check(run):
    n = 24 if run.tier == "quick" else 400
    ops = 300 if run.tier == "quick" else 2000
    kvcommon.drive(run, "reopen", n, ops, reopen=True, bigfile=(3 if run.tier == "quick" else 60), trailer=1)
    return run.finish(level=LEVEL, rule=kvcommon.RULE, assumptions=kvcommon.ASSUME)

def replay(run, path):
    return kvcommon.replay(run, path)
