# C05 - a damaged or cut-off log tail never yields a state that is not a synced prefix
#
# T2: logs are produced by REAL runs of the store (child process, WAL on, _exit without close); every cut /
#     flip case is recovered twice by the implementation (recovery step alone -> bytes of the main file;
#     full iwkv_open -> dump) and once by the extracted Coq model (Replay.recover on the same bytes);
#     verdict, size and CRC of the recovered main file (and, with the hook, the applied-record trace)
#     must agree.  The intact log must parse to records that satisfy the theorems' hypotheses
#     (wf_log, crc_ok, encode (parse L) = L) and the model's savepoint offsets must be the log sizes the
#     run observed after each sync.
# Oracle (independent of the model): the dumps the run itself recorded at each savepoint.
import os, json, shutil, tempfile
import vlib
import walcommon as W

LEVEL = "proof"
KEYS = ["k%02d" % i for i in range(40)]


def gen_history(rng, crc, pregrow=True):
    ops = ["n1"]
    if pregrow:
        ops += ["p1:%s:%d:1" % (W.khex("zz"), 30000 + rng.below(3000)), "d1:%s" % W.khex("zz"), "c"]
    nops = rng.range(25, 60)
    two = rng.chance(1, 3)
    if two:
        ops.append("n2")
    budget = 9000
    live = {}
    for _ in range(nops):
        r = rng.below(100)
        db = 2 if (two and rng.chance(1, 3)) else 1
        if r < 62:
            k = rng.choice(KEYS)
            # 4200: with the 4 KB buffer the payload bypasses the buffer; with the default buffer it is a WRITE record
            # (and makes a segment) longer than the buffer of a recovering process opened with 4 KB
            vl = rng.weighted([(0, 1), (5, 4), (20, 6), (100, 4), (700, 2), (4200, 1)] +
                               ([(3000, 2), (1500, 1)] if crc & 2 else [(1500, 1)]))   # fits the 4 KB buffer, not what is left of it
            old = live.get((db, k), 0)
            if budget - vl + old < 0:
                vl = 5
            budget += old - vl
            live[(db, k)] = vl
            ops.append("p%d:%s:%d:%d" % (db, W.khex(k), vl, rng.below(250)))
        elif r < 82:
            k = rng.choice(KEYS)
            budget += live.pop((db, k), 0)
            ops.append("d%d:%s" % (db, W.khex(k)))
        else:
            ops.append("s")
    return ops


def savepoints_of(trace, ops):
    """from the run's own observations: (base_dump, base_class, [(end_offset_in_final_log, dump)])"""
    base, cls, sps = trace["dump0"], "open", []
    prev = trace["open"][1] if trace["open"] else 0
    prevm = trace["open"][2] if trace["open"] else 0
    for i in range(len(ops)):
        o = trace["ops"].get(i)
        if not o or o.get("rc") is None:
            break
        wsz = o["walsz"]
        grown = o["mainsz"] != prevm       # the file was resized inside this operation: forced checkpoint, log truncated
        prevm = o["mainsz"]
        if wsz < prev or grown or (ops[i] == "c" and o["rc"] == "0"):
            sps = []
            if ops[i] == "c":
                base, cls = o["dump"], "checkpoint"
            else:
                base, cls = None, "growth-checkpoint"   # log truncated in the middle of an operation, no savepoint
        elif ops[i][0] in "sn" and o["rc"] == "0" and o["dump"] is not None and wsz > prev:
            sps.append((wsz, o["dump"]))
        prev = wsz
    return base, cls, sps


def interesting_cuts(rng, wal, frames, budget):
    cuts = set([0, len(wal)])
    for p, op, sz in frames:
        cuts.add(p)
    inner = []
    for p, op, sz in frames:
        hdr = W.SIZES[op]
        cand = {p + 1, p + 3, p + 4, p + 5, p + hdr - 1, p + hdr, p + hdr + 1, p + sz - 1, p + sz - 2, p + sz // 2,
                p + sz - 12, p + sz - 13, p + sz - 19, p + sz - 20, p + sz - 21, p + 8, p + 11, p + 12}
        inner += [(c, op) for c in cand if p < c < p + sz]
    # all interior offsets of savepoints, and of the last record of each kind
    for p, op, sz in frames:
        if op in (5, 6, 127):
            inner += [(c, op) for c in range(p + 1, p + sz)]
    seen = set()
    inner = [x for x in inner if not (x[0] in seen or seen.add(x[0]))]
    # keep every kind represented: round-robin by kind
    by = {}
    for c, op in inner:
        by.setdefault(op, []).append(c)
    for op in by:
        lst = by[op]
        for i in range(len(lst) - 1, 0, -1):
            j = rng.below(i + 1)
            lst[i], lst[j] = lst[j], lst[i]
    res = []
    while len(res) < budget and any(by.values()):
        for op in sorted(by):
            if by[op]:
                res.append(by[op].pop())
    return sorted(cuts), sorted(set(res) - cuts)


def aimed_flips(rng, wal, frames, budget):
    """bit flips aimed at (a) every byte range that no checksum of the log covers (on a correct writer: only the
    segment headers), (b) every WRITE payload; returns list of (offset, mask)"""
    covered = bytearray(len(wal))
    for p, op, sz in frames:
        if op == 127:
            ln = int.from_bytes(wal[p + 8:p + 12], "little")
            if int.from_bytes(wal[p + 4:p + 8], "little"):
                for i in range(p + 12, min(len(wal), p + 12 + ln)):
                    covered[i] = 1
        elif op == 3 and int.from_bytes(wal[p + 4:p + 8], "little"):
            for i in range(p + 20, min(len(wal), p + sz)):
                covered[i] = 1
    unc = [i for i in range(len(wal)) if not covered[i]]
    hdr = set()
    for p, op, sz in frames:
        if op == 127:
            hdr.update(range(p, p + 12))
    out = []
    naked = [i for i in unc if i not in hdr]          # logged bytes outside every checksum: should not exist
    for i in naked[:: max(1, len(naked) // max(1, budget // 2))][: budget // 2]:
        out.append((i, 1 << rng.below(8)))
    hl = sorted(i for i in unc if i in hdr)
    for _ in range(min(len(hl), budget // 4)):
        out.append((rng.choice(hl), 1 << rng.below(8)))
    for p, op, sz in frames:
        if op == 3 and sz > 20 and len(out) < budget:
            out.append((p + 20 + rng.below(sz - 20), 1 << rng.below(8)))
    return out[:budget], len(naked)


def cross_cases(rng, crc, wal, sps, cases, ncross):
    """cases for recovering processes whose options differ from the writer's: the uncut log, every savepoint end (for
    the other buffer size also the bytes around it) and ncross cuts drawn from the same-configuration cases; bit flips
    only where checksums were written and are checked"""
    ends = [e for e, _ in sps]
    pure = [c[0] for c in cases if not c[1]]
    flips = [c[1] for c in cases if c[1] and c[0] == len(wal)]
    out = []
    for rc in W.cross_configs(crc):
        cuts = set([len(wal)] + ends)
        if (rc ^ crc) & 2:
            cuts |= {e - 1 for e in ends} | {e - 12 for e in ends} | {e + 1 for e in ends if e + 1 <= len(wal)}
        for _ in range(ncross if pure else 0):
            cuts.add(rng.choice(pure))
        out += [(c, [], rc) for c in sorted(cuts)]
        if (crc & rc & 1) and flips:
            out += [(len(wal), rng.choice(flips), rc) for _ in range(max(1, ncross // 2))]
    return out


def run_history(impl, wd, name, crc, ops):
    d = os.path.join(wd, name)
    shutil.rmtree(d, ignore_errors=True)
    os.makedirs(d)
    rc, out, err = vlib.run_lines(impl, "run %s %d 1 -1 2 %s\n" % (d, crc, " ".join(ops)))
    return d, (out[0] if out else "<none>")


RESET_MARK = bytes([127, 0, 0, 0, 0, 0, 0, 0, 4, 0, 0, 0, 6, 0, 0, 0])   # SEP(crc 0, len 4) + RESET


def reset_insert(reset):
    """bytes a checkpoint made during an online backup (stages 4-5) appends instead of truncating the log.  reset =
    (b, dbfile) or (b, dbfile, True): the checkpoint was forced by file growth (_onresize logs a RESIZE record first:
    SEP RESIZE, then SEP RESET) - the only way a RESIZE record can be FOLLOWED by savepoints in a log; the resize is to
    the size the main file already has at that point"""
    if len(reset) > 3 and reset[3]:
        # the mark's segment header on a page boundary: a segment in front of it (skipped by a replay that restarts at the
        # mark) holding one WRITE record with a zero payload of the length that is missing
        n = (-(reset[0] + 32)) % 4096
        return (bytes([127, 0, 0, 0, 0, 0, 0, 0]) + (20 + n).to_bytes(4, "little") + bytes([3, 0, 0, 0, 0, 0, 0, 0]) + n.to_bytes(4, "little")
                + (0).to_bytes(8, "little") + bytes(n) + RESET_MARK)
    if len(reset) > 2 and reset[2]:
        sz = os.path.getsize(reset[1])
        return (bytes([127, 0, 0, 0, 0, 0, 0, 0, 20, 0, 0, 0, 4, 0, 0, 0]) + sz.to_bytes(8, "little") + sz.to_bytes(8, "little")
                + RESET_MARK)
    return RESET_MARK


def special_corruptions(rng, wal, frames, sps):
    """multi-byte corruptions aimed at the two places where the format lets a change of checksummed bytes pass
    (C05_flip_in_segment: the escapes `crc = 0` and `reset mark seen by the scanner`); returns [(flips, class)]
    - crc-zero-unchecked: stored checksum of a segment header -> 0, stored checksum of a synced WRITE record in it -> 0,
      one payload byte changed (reported against the unmodified library; C05_crc_zero_unchecked_refuted)
    - reset-mark-bypass: the bytes covered by one segment header overwritten by reset records, a segment header with
      checksum 0 and a reset record (C05_reset_mark_bypass_refuted)"""
    out = []
    if not sps:
        return out
    last = sps[-1][0]
    seps = [(p, int.from_bytes(wal[p + 4:p + 8], "little"), int.from_bytes(wal[p + 8:p + 12], "little")) for p, op, sz in frames if op == 127]
    wr = [(p, sz) for p, op, sz in frames if op == 3 and sz - 20 >= 8 and p + sz <= last - 12 and int.from_bytes(wal[p + 4:p + 8], "little")]
    for _ in range(min(2, len(wr))):
        p, sz = wr[rng.below(len(wr))]
        ps = max(q for q, c, ln in seps if q < p)
        o = p + 20 + rng.below(sz - 20)
        fl = [(ps + 4 + i, 0, "=") for i in range(4)] + [(p + 4 + i, 0, "=") for i in range(4)] + [(o, wal[o] ^ 0x55, "=")]
        out.append((fl, "crc-zero-unchecked"))
    cand = [(p, ln) for p, c, ln in seps if c and ln >= 16 and (ln - 16) % 4 == 0 and p > 0 and p + 12 + ln <= last - 12]
    for _ in range(min(2, len(cand))):
        p, ln = cand[rng.below(len(cand))]
        new = bytes([6, 0, 0, 0]) * ((ln - 16) // 4) + RESET_MARK
        fl = [(p + 12 + i, new[i], "=") for i in range(ln)]
        out.append((fl, "reset-mark-bypass"))
    return out


def mapping_leak(run, name, ops, crc, r, reset=None):
    """_rollforward_exl maps the log and has to unmap it: the recovery step of the harness counts the mappings of the log
    file that are still there afterwards.  Before 7150cb6 the source called munmap with the pointer it had advanced to the
    reset mark: EINVAL and the mapping stays for an unaligned mark, foreign memory unmapped (recovery dies) for a
    page-aligned one.  A mapping left behind means that call is wrong again; VERIF_WAL_MUNMAP=0 only counts."""
    n = W.fields(r["impl_wal"]).get("walmaps", "0")
    if n in ("0", None):
        return
    run.dist("log_mapping_left_after_recovery")
    if os.environ.get("VERIF_WAL_MUNMAP") == "0":
        return
    run.cov.setdefault("violations_by_class", {})
    run.cov["violations_by_class"]["wal-mapping-leak"] = run.cov["violations_by_class"].get("wal-mapping-leak", 0) + 1
    if run.cov["violations_by_class"]["wal-mapping-leak"] <= 1:
        rep = {"ops": ops, "crc": crc, "cut": r["cut"], "flips": [], "class": "wal-mapping-leak", "impl": r["impl_wal"][:300]}
        if reset:
            rep["reset_at"] = reset[0]
            rep["resize_before_mark"] = len(reset) > 2 and bool(reset[2])
        run.violation(rep, "%s mapping(s) of the log file left after the recovery step (%s): _rollforward_exl calls munmap with the "
                           "pointer it advanced to the reset mark" % (n, name))


def open_finding(run, cl):
    """a reproduced defect of the format that is not (yet) listed in known_findings.json is reported as a violation only
    when VERIF_WAL_OPEN=1; once listed (match on `class`) it is always reported and recognised as known"""
    if os.environ.get("VERIF_WAL_OPEN") == "1":
        return True
    return any((kf.get("match") or {}).get("class") == cl for kf in vlib.known_findings(run.pid))


def mk_case(src, dst, cut, flips, reset=None):
    """reset = (b, dbfile): the file pair a checkpoint taken during an online backup (stages 4-5) leaves when the
    log was wal[:b]: main file = everything up to b applied, log = wal[:b] + SEP RESET, then the log goes on"""
    os.makedirs(dst, exist_ok=True)
    raw = open(os.path.join(src, "db-wal"), "rb").read()
    wal = bytearray(raw[:cut] if not reset else raw[:reset[0]] + reset_insert(reset) + raw[reset[0]:cut])
    for fl in flips:
        off, mask = fl[0], fl[1]
        if off < len(wal):
            # (off, mask) = xor; (off, value, "=") = set: independent of bytes that differ from run to run (timestamps, checksums)
            wal[off] = (mask if len(fl) > 2 and fl[2] == "=" else wal[off] ^ mask)
    for sub in ("a", "b"):
        os.makedirs(os.path.join(dst, sub), exist_ok=True)
        shutil.copyfile(reset[1] if reset else os.path.join(src, "db"), os.path.join(dst, sub, "db"))
        open(os.path.join(dst, sub, "db-wal"), "wb").write(wal)


def eval_cases(run, impl, model, wd, hist, cases, tag):
    """cases: list of (cut, flips) or (cut, flips, rcrc): rcrc = option flags of the RECOVERING process (default: the
    writer's).  Returns list of result dicts"""
    src, crc = hist["dir"], hist["crc"]
    res = []
    nchunk = max(1, min(vlib.NCPU, len(cases)))
    chunks_m, chunks_i, idx = [[] for _ in range(nchunk)], [[] for _ in range(nchunk)], [[] for _ in range(nchunk)]
    for ci, case in enumerate(cases):
        cut, flips = case[0], case[1]
        dst = os.path.join(wd, "%s-%s-%d" % (hist["name"], tag, ci))
        mk_case(src, dst, cut, flips, reset=hist.get("reset"))
        k = ci % nchunk
        rcrc = case[2] if len(case) > 2 and case[2] is not None else crc
        # full = the model also applies the records to the main file (bytes compared); otherwise verdict + applied-record trace.
        # Cross-configuration cases sit mostly on savepoint ends, which the same-configuration stream already runs in full.
        full = (ci % 5 == 0) or (rcrc == crc and any(e == cut for e, _ in hist["sps"])) or (flips and not (crc & rcrc & 1) and ci % 2 == 0)
        chunks_m[k].append("wal %s/a %d%s" % (dst, rcrc, "" if full else " ops"))
        chunks_i[k] += ["wal %s/a %d" % (dst, rcrc), "rec %s/b %d -1" % (dst, rcrc)]
        idx[k].append(ci)
    import time
    t0 = time.time()
    om = W.par_lines(W.big_stack(model), chunks_m)          # the model reads the pristine copy first
    t1 = time.time()
    oi = W.par_lines(impl, chunks_i)
    run.cov["t_model"] = round(run.cov.get("t_model", 0) + t1 - t0, 1)
    run.cov["t_impl"] = round(run.cov.get("t_impl", 0) + time.time() - t1, 1)
    out = [None] * len(cases)
    for k in range(nchunk):
        for j, ci in enumerate(idx[k]):
            m = om[k][j] if j < len(om[k]) else "<missing>"
            a = oi[k][2 * j] if 2 * j < len(oi[k]) else "<missing>"
            b = oi[k][2 * j + 1] if 2 * j + 1 < len(oi[k]) else "<missing>"
            out[ci] = {"cut": cases[ci][0], "flips": cases[ci][1], "model": m, "impl_wal": a, "impl_rec": b,
                       "rcrc": cases[ci][2] if len(cases[ci]) > 2 and cases[ci][2] is not None else crc}
    for ci in range(len(cases)):
        shutil.rmtree(os.path.join(wd, "%s-%s-%d" % (hist["name"], tag, ci)), ignore_errors=True)
    return out


def t2_compare(r, crc):
    """model vs implementation on the recovery step; returns None, text, or 'skip'"""
    fm, fi = W.fields(r["model"]), W.fields(r["impl_wal"])
    if "rc" not in fm:
        return "model gave no answer: %s" % r["model"][:100]
    if r["flips"] and not (crc & r.get("rcrc", crc) & 1):
        # corruption without checksums is outside the property and largely undefined behaviour in C (wild
        # memset/memmove): compared only when both sides finish the replay normally
        if fm.get("rc") == "FAULT" or fi.get("exit") != "0" or fi.get("rc") not in ("0", "CORRUPTED_WAL"):
            return "skip"
        if fm.get("main") == "-" and fi.get("rc") == "0" and fm.get("rc") == "0":
            return "skip" if fi.get("applied", "-") == "-" else (None if fi.get("applied") == fm.get("applied") else "applied-record trace differs (flip, no checksums)")
    if fm.get("rc") == "FAULT":
        return None if fi.get("exit", "").startswith("SIG") else "model says the replay stores outside the file, implementation: %s" % r["impl_wal"][:80]
    if fi.get("exit") != "0":
        return "implementation died (%s) where the model says rc=%s" % (fi.get("exit"), fm.get("rc"))
    for k in ("rc", "main", "walsz"):
        if fm.get(k) != fi.get(k) and not (k == "main" and fm.get(k) == "-"):
            return "%s differs: model %s impl %s" % (k, fm.get(k), fi.get(k))
    if fi.get("applied", "-") != "-" and fi.get("applied") != fm.get("applied"):
        return "applied-record trace differs: model %s impl %s" % (fm.get("applied"), fi.get("applied"))
    return None


def oracle_cut(hist, r):
    """property statement on the implementation's answer for a pure cut; returns (ok, why, allowed)"""
    n = r["cut"]
    fi = W.fields(r["impl_rec"])
    sps = hist["sps"]
    K = 0
    for j, (end, _) in enumerate(sps):
        if end <= n:
            K = j + 1
    allowed = [K]
    if K < len(sps) and n > sps[K][0] - 12:
        allowed.append(K + 1)
    states = [hist["base"]] + [d for _, d in sps]
    if fi.get("exit") != "0":
        return False, "recovery died: %s" % fi.get("exit"), allowed
    if fi.get("rc") != "0":
        return False, "open after a cut at %d fails with %s (the property requires recovery to succeed)" % (n, fi.get("rc")), allowed
    got = fi.get("dump")
    if any(states[j] is not None and got == states[j] for j in allowed):
        return True, "", allowed
    which = [j for j in range(len(states)) if states[j] == got]
    if which:
        return False, "cut at %d recovers savepoint #%d, allowed %s (last intact savepoint is #%d)" % (n, which[0], allowed, K), allowed
    return False, "cut at %d recovers a state that is no savepoint state" % n, allowed


def oracle_flip(hist, r):
    fi = W.fields(r["impl_rec"])
    states = [hist["base"]] + [d for _, d in hist["sps"]]
    if fi.get("exit") != "0":
        return False, "recovery died: %s" % fi.get("exit")
    if fi.get("rc") != "0":
        return True, ""
    if fi.get("dump") in states:
        return True, ""
    return False, "corrupted log (checksums on) opens without error in a state that is no savepoint state"


def classify(hist, r, kind):
    if hist.get("reset"):
        return "reset-mark"
    # known finding seen through the log: the run's log was truncated by a growth-forced checkpoint in
    # mid-operation (base state torn) and this recovery applied no record at all, i.e. it landed on that base
    applied0 = W.fields(r["model"]).get("applied", "").startswith("0:") or W.fields(r["impl_wal"]).get("applied", "").startswith("0:")
    if hist["base_class"] == "growth-checkpoint" and (applied0 or not hist["sps"] or r["cut"] < hist["sps"][0][0]):
        return "growth-checkpoint"
    if kind == "cut":
        for end, _ in hist["sps"]:
            if end - 12 < r["cut"] < end:
                return "cut-inside-savepoint-crc" if hist["crc"] & 1 else "cut-inside-savepoint"
    return "other"


def do_history(run, impl, model, wd, name, crc, ops, ncut, nflip, corpus_cases=None, nreset=0, ncross=0):
    rng = run.rng
    d, line = run_history(impl, wd, name, crc, ops)
    tr = W.parse_trace(os.path.join(d, "trace"))
    if line != "run exit=0" or not tr["open"] or tr["nfx"] is None:
        run.broken.append("T2 harness: history run failed: %s" % line)
        return
    base, cls, sps = savepoints_of(tr, ops)
    wal = open(os.path.join(d, "db-wal"), "rb").read()
    hist = {"dir": d, "name": name, "crc": crc, "ops": ops, "base": base, "base_class": cls, "sps": sps}
    # --- hypotheses of the theorems hold of the real log; model's savepoint offsets = observed log sizes
    rc, out, err = vlib.run_lines(W.big_stack(model), "chk %s %d\n" % (d, crc))
    f = W.fields(out[0]) if out else {}
    want_sp = ",".join(str(e - 12) for e, _ in sps)
    if not (f.get("parse") == "ok" and f.get("roundtrip") == "true" and f.get("wf") == "true" and f.get("crc") == "true"
            and f.get("layout") == "true" and f.get("fit") == "true"):
        run.broken.append("T2 correspondence: real log does not satisfy the model's well-formedness (%s): %s" % (name, out[0] if out else err))
    elif (crc & 1) and f.get("crcfull") != "true":
        run.broken.append("T2 correspondence: %s was taken with checksums on but holds a segment or WRITE record whose stored checksum is "
                          "not the one the protocol computes (Proto.step / Scan.crc_full): some logged bytes are covered by no checksum" % name)
    elif cls != "growth-checkpoint" and f.get("sp", "") != want_sp and not (f.get("sp", "").endswith(want_sp) and want_sp):
        run.broken.append("T2 correspondence: savepoint offsets of the model (%s) differ from the log sizes observed after each sync (%s)" % (f.get("sp"), want_sp))
    frames = W.frame(wal)
    run.dist("log_bytes", len(wal)); run.dist("log_records", len(frames)); run.dist("savepoints", len(sps))
    for _, op, _ in frames:
        run.dist("rec_" + W.KIND[op])
    if corpus_cases is not None:
        # corpus cuts may be symbolic: "sp<k>-<d>" = d bytes before the end of the k-th savepoint of the log
        def cutof(c):
            if isinstance(c, str) and c.startswith("sp"):
                k, dd = c[2:].split("-")
                return sps[int(k)][0] - int(dd) if int(k) < len(sps) else len(wal)
            return len(wal) if c == "end" else c
        cases = [(cutof(x[0]), x[1], x[2] if len(x) > 2 else None) for x in corpus_cases]
    else:
        b, inner = interesting_cuts(rng, wal, frames, ncut)
        cases = [(c, []) for c in b + inner]
        if crc & 1:
            af, naked = aimed_flips(rng, wal, frames, nflip)
            run.dist("logged_bytes_outside_every_checksum", naked)
            cases += [(len(wal), [f1]) for f1 in af]
        for _ in range(nflip):
            if len(wal) < 2:
                break
            off = rng.below(len(wal))
            cases.append((len(wal) if rng.chance(3, 4) else rng.range(off + 1, len(wal)), [(off, 1 << rng.below(8))]))
    SMALL = 4096 - 12       # wal->bufsz of a process opened with the 4 KB log buffer
    segs = [(p, int.from_bytes(wal[p + 8:p + 12], "little")) for p, op, sz in frames if op == 127]
    nokc = [0]

    def judge_case(r, cross):
        kind = "flip" if r["flips"] else "cut"
        rcrc = r["rcrc"]
        run.dist("case_" + kind)
        mapping_leak(run, name, ops, crc, r)
        if cross:
            # the recovering process was opened with other options than the process that wrote the log; the question
            # asked is the same
            run.dist("recovery_cross_config")
            for kd in W.cross_kind(crc, rcrc):
                run.dist("recovery_cross_config_" + kd)
            if (rcrc & 2) and any(ln > SMALL and p + 12 + ln <= r["cut"] for p, ln in segs):
                run.dist("recovery_cross_config_segment_longer_than_recovering_buffer")
        inside = [W.KIND[op] for p, op, sz in frames if p < r["cut"] < p + sz]
        run.dist("cut_in_" + (inside[0] if inside else "boundary")) if kind == "cut" else None
        run.case("%s|%d|%s|%s%s" % (" ".join(ops), crc, r["cut"], r["flips"], "|rec%d" % rcrc if cross else ""), nontrivial=True,
                 sample={"history_ops": len(ops), "crc": crc, "recovering_crc": rcrc, "cut": r["cut"], "flips": r["flips"],
                         "impl": r["impl_rec"][:160], "model": r["model"]} if (r["cut"] % 97 == 0) else None)
        t2 = t2_compare(r, crc)
        if t2 == "skip":
            run.dist("t2_skipped_flip_without_checksums")
        elif t2:
            run.broken.append("T2 correspondence: %s cut=%d flips=%s crc=%d%s: %s" % (
                name, r["cut"], r["flips"], crc, " recovering with options %d (%s)" % (rcrc, W.cfg_text(rcrc)) if cross else "", t2)) if len(run.broken) < 8 else None
            if os.environ.get("VERIF_DEBUG"):
                print("T2", r)
        else:
            nokc[0] += 1
        if kind == "cut":
            ok, why, allowed = oracle_cut(hist, r)
        elif crc & rcrc & 1:          # the checksums were written and are checked
            ok, why = oracle_flip(hist, r)
            allowed = "any savepoint"
        else:
            ok = True
        if not ok:
            cl = classify(hist, r, kind)
            if cross:
                cl = "cross-config" if cl in ("other", "cut-inside-savepoint", "cut-inside-savepoint-crc") else cl
                why = "log written with [%s], recovered by a process opened with [%s]: %s" % (W.cfg_text(crc), W.cfg_text(rcrc), why)
                states = [hist["base"]] + [d for _, d in sps]
                got = W.fields(r["impl_rec"]).get("dump")
                which = [j for j in range(len(states)) if states[j] == got]
                if kind == "cut" and which and which[0] < min(allowed):
                    why += " - the operations committed by savepoints #%d..#%d (iwkv_sync / db creation returned success) are lost" % (which[0] + 1, min(allowed))
            run.cov.setdefault("violations_by_class", {})
            run.cov["violations_by_class"][cl] = run.cov["violations_by_class"].get(cl, 0) + 1
            if run.cov["violations_by_class"][cl] > 2:
                return
            rep = {"ops": ops, "crc": crc, "cut": r["cut"], "flips": r["flips"], "class": cl,
                   "impl": r["impl_rec"][:2000], "allowed": allowed,
                   "savepoint_ends": [e for e, _ in sps], "base_class": cls}
            if cross:
                rep["recovering_crc"] = rcrc
            run.violation(rep, why)

    results = eval_cases(run, impl, model, wd, hist, cases, "c")
    for r in results:
        judge_case(r, r["rcrc"] != crc)
    # --- the two escapes of C05_flip_in_segment, replayed on the library (checksums written and checked)
    if corpus_cases is None and (crc & 1) and cls != "growth-checkpoint":
        import zlib
        basedb = open(os.path.join(d, "db"), "rb").read()
        mains = {"%d:%08x" % (len(basedb), zlib.crc32(basedb) & 0xffffffff)}
        ends = set(e for e, _ in sps)
        for r in results:
            if not r["flips"] and r["cut"] in ends and r["rcrc"] == crc and W.fields(r["impl_wal"]).get("rc") == "0":
                mains.add(W.fields(r["impl_wal"]).get("main"))
        spec = special_corruptions(rng, wal, frames, sps)
        for r, (fl, cl) in zip(eval_cases(run, impl, model, wd, hist, [(len(wal), fl) for fl, _ in spec], "s"), spec):
            run.dist("case_" + cl.replace("-", "_"))
            run.case("%s|%d|%s|%s" % (" ".join(ops), crc, cl, r["flips"]), nontrivial=True)
            t2 = t2_compare(r, crc)
            if t2 and t2 != "skip":
                run.broken.append("T2 correspondence: %s %s flips=%s: %s" % (name, cl, fl[:4], t2)) if len(run.broken) < 8 else None
            else:
                run.cov["traces_validated_against_impl"] += 1
            ok, why = oracle_flip(hist, r)
            fi = W.fields(r["impl_wal"])
            if ok and fi.get("rc") == "0" and fi.get("main") not in mains:
                ok, why = False, ("corrupted log (checksums on) opens without error and the main file after recovery is not the "
                                  "main file of any savepoint state (nor the untouched one)")
            if ok:
                run.dist(cl.replace("-", "_") + "_harmless_or_detected")
                continue
            run.dist("open_finding_%s_reproduced" % cl.replace("-", "_"))
            if not open_finding(run, cl):
                continue
            run.cov.setdefault("violations_by_class", {})
            run.cov["violations_by_class"][cl] = run.cov["violations_by_class"].get(cl, 0) + 1
            if run.cov["violations_by_class"][cl] <= 1:
                run.violation({"ops": ops, "crc": crc, "cut": len(wal), "flips": [list(x) for x in fl], "class": cl,
                               "impl": r["impl_rec"][:2000], "impl_recovery_step": r["impl_wal"][:200],
                               "savepoint_ends": [e for e, _ in sps], "base_class": cls}, "%s: %s" % (cl, why))
    # --- cross-configuration recoveries: the outcome of a recovery is a function of the two files, not of the options
    # of the process that happens to open them (Proto.recover_open, C05_recovery_independent_of_recovering_config).
    # Same cuts, same oracle, recovering process with the other log-buffer size and/or the other checksum setting.
    if corpus_cases is None and ncross > 0:
        for r in eval_cases(run, impl, model, wd, hist, cross_cases(rng, crc, wal, sps, cases, ncross), "x"):
            judge_case(r, True)
    nok = nokc[0]
    run.cov["traces_validated_against_impl"] += nok
    # --- logs with a reset mark (a checkpoint taken while an online backup was in stages 4-5 keeps the log and
    # appends SEP+RESET; if the process then dies before the next truncating checkpoint, open must recover from
    # the mark): built from the real log at a savepoint end b, main file = the implementation's own recovery of
    # wal[:b]
    if len(sps) >= 2 and nreset > 0:
        for b in (sorted(set([sps[rng.below(len(sps))][0], sps[0][0]]))[:2] if corpus_cases is None else [sps[0][0]]):
            pre = os.path.join(wd, "%s-pre%d" % (name, b))
            os.makedirs(pre, exist_ok=True)
            shutil.copyfile(os.path.join(d, "db"), os.path.join(pre, "db"))
            open(os.path.join(pre, "db-wal"), "wb").write(wal[:b])
            rc, out, err = vlib.run_lines(impl, "wal %s %d\n" % (pre, crc))
            if not out or W.fields(out[0]).get("rc") != "0":
                run.broken.append("T2 harness: could not prepare a reset-mark case: %s" % (out[:1],))
                continue
            h2 = dict(hist, reset=(b, os.path.join(pre, "db")))
            later = [p for p, op, sz in frames if p >= b] + [len(wal)]
            inner = [p + 1 + rng.below(sz - 1) for p, op, sz in frames if p >= b and sz > 1]
            pts = sorted(set(later)) + sorted(set(inner))
            for i in range(len(pts) - 1, 0, -1):
                j = rng.below(i + 1)
                pts[i], pts[j] = pts[j], pts[i]
            rcases = [(c, []) for c in sorted(pts[:nreset])]
            if corpus_cases is None and ncross > 0:
                # the same logs recovered by a process with the other buffer size / checksum setting
                rcases += [(c, [], crc ^ 2) for c in sorted(pts[:nreset])[::6]] + [(c, [], crc ^ 1) for c in sorted(pts[:nreset])[3::12]]
            for r in eval_cases(run, impl, model, wd, h2, rcases, "r%d" % b):
                cross = r["rcrc"] != crc
                run.dist("case_reset_mark")
                mapping_leak(run, name, ops, crc, r, h2["reset"])
                if cross:
                    run.dist("recovery_cross_config")
                    run.dist("recovery_cross_config_log_with_reset_mark")
                run.case("%s|%d|reset%d|%s%s" % (" ".join(ops), crc, b, r["cut"], "|rec%d" % r["rcrc"] if cross else ""), nontrivial=True)
                t2 = t2_compare(r, crc)
                if t2 and t2 != "skip":
                    run.broken.append("T2 correspondence: %s reset@%d cut=%d crc=%d%s: %s" % (
                        name, b, r["cut"], crc, " recovering with options %d" % r["rcrc"] if cross else "", t2)) if len(run.broken) < 8 else None
                else:
                    run.cov["traces_validated_against_impl"] += 1
                ok, why, allowed = oracle_cut(hist, r)
                if not ok:
                    run.cov.setdefault("violations_by_class", {})
                    run.cov["violations_by_class"]["reset-mark"] = run.cov["violations_by_class"].get("reset-mark", 0) + 1
                    if run.cov["violations_by_class"]["reset-mark"] <= 2:
                        rep = {"ops": ops, "crc": crc, "cut": r["cut"], "flips": [], "reset_at": b, "class": "reset-mark",
                               "impl": r["impl_rec"][:2000], "allowed": allowed, "savepoint_ends": [e for e, _ in sps],
                               "base_class": cls}
                        if cross:
                            rep["recovering_crc"] = r["rcrc"]
                        run.violation(rep, "log with a reset mark at %d%s: %s" % (
                            b, ", recovered by a process opened with [%s]" % W.cfg_text(r["rcrc"]) if cross else "", why))
            # --- the same with a growth-forced checkpoint: SEP RESIZE, SEP RESET, then the log goes on - a RESIZE record
            # followed by savepoints (recover_mode 1), and the same log inside an online-backup image (recover_mode 2)
            if corpus_cases is None:
                h3 = dict(hist, reset=(b, os.path.join(pre, "db"), True))
                for r in eval_cases(run, impl, model, wd, h3, [(c, []) for c in sorted(pts[:nreset])[::3]] + [(len(wal), [])], "z%d" % b):
                    run.dist("case_reset_mark_after_resize_record")
                    mapping_leak(run, name, ops, crc, r, h3["reset"])
                    run.case("%s|%d|resize+reset%d|%s" % (" ".join(ops), crc, b, r["cut"]), nontrivial=True)
                    t2 = t2_compare(r, crc)
                    if t2 and t2 != "skip":
                        run.broken.append("T2 correspondence: %s resize+reset@%d cut=%d crc=%d: %s" % (name, b, r["cut"], crc, t2)) if len(run.broken) < 8 else None
                    else:
                        run.cov["traces_validated_against_impl"] += 1
                    ok, why, allowed = oracle_cut(hist, r)
                    if not ok:
                        run.cov.setdefault("violations_by_class", {})
                        run.cov["violations_by_class"]["reset-mark"] = run.cov["violations_by_class"].get("reset-mark", 0) + 1
                        if run.cov["violations_by_class"]["reset-mark"] <= 2:
                            run.violation({"ops": ops, "crc": crc, "cut": r["cut"], "flips": [], "reset_at": b, "resize_before_mark": True,
                                           "class": "reset-mark", "impl": r["impl_rec"][:2000], "allowed": allowed,
                                           "savepoint_ends": [e for e, _ in sps], "base_class": cls},
                                          "log with a RESIZE record and a reset mark at %d (growth during an online backup): %s" % (b, why))
                if cls != "growth-checkpoint":
                    image_case(run, impl, model, wd, hist, wal, b, os.path.join(pre, "db"))
            # --- the reset mark on a page boundary: _rollforward_exl advances its mapping pointer to the mark and hands THAT
            # pointer to munmap - with an aligned mark the call succeeds and takes away the pages behind the log mapping
            h4 = dict(hist, reset=(b, os.path.join(pre, "db"), False, True))
            for r in eval_cases(run, impl, model, wd, h4, [(len(wal), [])] + [(c, []) for c in sorted(pts[:nreset])[::20][:3]], "y%d" % b):
                run.dist("case_reset_mark_on_page_boundary")
                run.case("%s|%d|aligned-reset%d|%s" % (" ".join(ops), crc, b, r["cut"]), nontrivial=True)
                t2 = t2_compare(r, crc)
                if t2 and t2 != "skip":
                    run.broken.append("T2 correspondence: %s page-aligned reset@%d cut=%d crc=%d: %s" % (name, b, r["cut"], crc, t2)) if len(run.broken) < 8 else None
                else:
                    run.cov["traces_validated_against_impl"] += 1
                ok, why, allowed = oracle_cut(hist, r)
                if not ok:
                    run.cov.setdefault("violations_by_class", {})
                    run.cov["violations_by_class"]["wal-mapping-leak"] = run.cov["violations_by_class"].get("wal-mapping-leak", 0) + 1
                    if run.cov["violations_by_class"]["wal-mapping-leak"] <= 2:
                        run.violation({"ops": ops, "crc": crc, "cut": r["cut"], "flips": [], "reset_at": b, "align_mark": True,
                                       "class": "wal-mapping-leak", "impl": r["impl_rec"][:2000], "impl_recovery_step": r["impl_wal"][:200],
                                       "allowed": allowed, "savepoint_ends": [e for e, _ in sps], "base_class": cls},
                                      "log with a reset mark whose segment header lies on a page boundary (offset %d): %s" % (
                                          b + len(reset_insert(h4["reset"])) - 16, why))
            shutil.rmtree(pre, ignore_errors=True)
    shutil.rmtree(d, ignore_errors=True)


def image_case(run, impl, model, wd, hist, wal, b, predb):
    """recover_mode 2: an online-backup image whose log part holds a RESIZE record and a reset mark followed by
    savepoints (the file grew while the backup was copying the log).  main part = the main file the log applies to,
    log part = the whole log, trailer.  The image must open to the state at the last savepoint of its log."""
    import zlib
    d, crc, sps = hist["dir"], hist["crc"], hist["sps"]
    main = open(os.path.join(d, "db"), "rb").read()
    if len(main) % 4096 or not sps:
        return
    log = wal[:b] + reset_insert((b, predb, True)) + wal[b:]
    img = main + log + len(main).to_bytes(8, "little") + (0xBACBAC69).to_bytes(4, "little")
    dst = os.path.join(wd, "%s-img%d" % (hist["name"], b))
    for sub in ("m", "i"):
        os.makedirs(os.path.join(dst, sub), exist_ok=True)
    open(os.path.join(dst, "m", "bkp"), "wb").write(img)
    open(os.path.join(dst, "i", "db"), "wb").write(img)
    rc, om, err = vlib.run_lines(W.big_stack(model), "img %s/m %d\n" % (dst, crc), timeout=300)
    rc, oi, err = vlib.run_lines(impl, "rec %s/i %d -1\n" % (dst, crc))
    fm, fi = W.fields(om[0]) if om else {}, W.fields(oi[0]) if oi else {}
    run.dist("case_image_with_resize_and_reset_mark")
    run.case("%s|%d|image%d" % (" ".join(hist["ops"]), crc, b), nontrivial=True)
    after = open(os.path.join(dst, "i", "db"), "rb").read() if os.path.exists(os.path.join(dst, "i", "db")) else b""
    got = "%d:%08x" % (len(after), zlib.crc32(after) & 0xffffffff)
    if fm.get("split") in (None, "no") or fm.get("rc") != fi.get("rc") or (fi.get("rc") == "0" and fm.get("main") != got):
        if len(run.broken) < 8:
            run.broken.append("T2 correspondence (Backup.open_image): image with RESIZE + reset mark at %d of %s: model %s | impl %s main file after open %s" % (
                b, hist["name"], (om or [""])[0][:120], (oi or [""])[0][:100], got))
    else:
        run.cov["traces_validated_against_impl"] += 1
    want = sps[-1][1]
    if fi.get("exit") != "0" or fi.get("rc") != "0" or (want is not None and fi.get("dump") != want):
        run.violation({"ops": hist["ops"], "crc": crc, "cut": len(wal), "flips": [], "reset_at": b, "resize_before_mark": True, "image": True,
                       "class": "image-reset-mark", "impl": (oi or [""])[0][:2000], "savepoint_ends": [e for e, _ in sps]},
                      "online-backup image whose log holds a RESIZE record and a reset mark at %d followed by savepoints does not open to "
                      "the state at its last savepoint (%s)" % (b, "rc=%s exit=%s" % (fi.get("rc"), fi.get("exit"))))
    shutil.rmtree(dst, ignore_errors=True)


def check(run):
    proofs_ok = run.proofs()
    mult = 1 if proofs_ok else 10
    wd = tempfile.mkdtemp(prefix="wal-C05-")
    try:
        mode, impl = W.stable_harness(wd)
        model = vlib.build_model("wal")
        cdir = os.path.join(vlib.VERIF, "corpus", "C05")
        for cf in sorted(os.listdir(cdir)) if os.path.isdir(cdir) else []:
            if not cf.endswith(".json"):
                continue
            c = json.load(open(os.path.join(cdir, cf)))
            do_history(run, impl, model, wd, "corp" + cf[:-5].replace("-", ""), c["crc"], c["ops"], 0, 0,
                       corpus_cases=[(x[0], [tuple(y) for y in x[1]], x[2] if len(x) > 2 else None) for x in c["cases"]],
                       nreset=c.get("nreset", 0))
        if run.tier == "quick":
            nh, ncut, nflip = 4 * mult, 450, 120
        else:
            nh, ncut, nflip = 12 * mult, 3000, 900
        for h in range(nh):
            crc = [0, 1, 2, 3][h % 4] if h < 4 else run.rng.below(4)
            pregrow = run.tier == "quick" or run.rng.chance(3, 4)
            ops = gen_history(run.rng, crc, pregrow)
            run.dist("history_crc%d" % crc)
            do_history(run, impl, model, wd, "h%d" % h, crc, ops, ncut, nflip, nreset=(60 if run.tier == "quick" else 400),
                       ncross=(20 if run.tier == "quick" else 150))
            if run.broken and len(run.broken) > 20:
                break
    finally:
        shutil.rmtree(wd, ignore_errors=True)
    run.notes.append("effect numbering mode: " + mode)
    return run.finish(level=LEVEL,
                      rule="logs written by real store runs (random put/del/sync histories, 1-2 databases, checksums on/off, "
                           "8 MB and 4 KB log buffers, values up to 4200 bytes incl. the buffer-bypass path); cut at every record "
                           "boundary and at offsets inside every record kind (all interior offsets of SEP/SAVEPOINT/RESET records, "
                           "header edges and the last 21 bytes of the others); single-bit flips; every log is also recovered by processes "
                           "opened with the other log-buffer size and/or the other checksum setting (uncut, every savepoint end, "
                           "sampled cuts; distribution key recovery_cross_config); logs with a reset mark, also behind a RESIZE record "
                           "(growth during an online backup), and the same log inside a backup image (recover_mode 2); with checksums: the two "
                           "multi-byte corruptions that C05_flip_in_segment names as escapes (stored checksum zeroed, planted reset mark); "
                           "a case = (history, writer's options, cut, flips, recovering options); distinct = distinct case text",
                      assumptions=["bytes read past the end of the log file (C over-read inside the last mapped page) are modelled as 0",
                                   "kill model: what write(2) returned is durable; power-loss reordering is outside the property"])


def replay(run, path):
    r = json.load(open(path))
    wd = tempfile.mkdtemp(prefix="wal-C05r-")
    try:
        mode, impl = W.stable_harness(wd)
        model = vlib.build_model("wal")
        d, line = run_history(impl, wd, "r", r["crc"], r["ops"])
        tr = W.parse_trace(os.path.join(d, "trace"))
        base, cls, sps = savepoints_of(tr, r["ops"])
        hist = {"dir": d, "name": "r", "crc": r["crc"], "ops": r["ops"], "base": base, "base_class": cls, "sps": sps}
        if r.get("reset_at") is not None:
            b = r["reset_at"]
            pre = os.path.join(wd, "pre")
            os.makedirs(pre)
            shutil.copyfile(os.path.join(d, "db"), os.path.join(pre, "db"))
            open(os.path.join(pre, "db-wal"), "wb").write(open(os.path.join(d, "db-wal"), "rb").read()[:b])
            vlib.run_lines(impl, "wal %s %d\n" % (pre, r["crc"]))
            hist["reset"] = (b, os.path.join(pre, "db"), bool(r.get("resize_before_mark")), bool(r.get("align_mark")))
            print("reset mark (%sSEP+RESET) inserted at log offset" % ("SEP+RESIZE, " if r.get("resize_before_mark") else ""), b,
                  "; main file = recovery of the first", b, "bytes")
            if r.get("image"):
                n0 = len(run.violations)
                image_case(run, impl, model, wd, hist, open(os.path.join(d, "db-wal"), "rb").read(), b, os.path.join(pre, "db"))
                print("online-backup image built from the base main file + that log:", "VIOLATED" if len(run.violations) > n0 else "holds")
                return 1 if len(run.violations) > n0 else 0
        rcrc = r.get("recovering_crc", r["crc"])
        res = eval_cases(run, impl, model, wd, hist, [(r["cut"], [tuple(x) for x in r["flips"]], rcrc)], "r")[0]
        ok, why = (oracle_cut(hist, res)[:2] if not r["flips"] else oracle_flip(hist, res))
        if ok and r.get("class") in ("reset-mark-bypass", "crc-zero-unchecked") and W.fields(res["impl_wal"]).get("rc") == "0":
            import zlib
            basedb = open(os.path.join(d, "db"), "rb").read()
            mains = {"%d:%08x" % (len(basedb), zlib.crc32(basedb) & 0xffffffff)}
            for rr in eval_cases(run, impl, model, wd, hist, [(e, []) for e, _ in sps], "rs"):
                mains.add(W.fields(rr["impl_wal"]).get("main"))
            if W.fields(res["impl_wal"]).get("main") not in mains:
                ok, why = False, "the main file after recovery (%s) is not the main file of any savepoint state" % W.fields(res["impl_wal"]).get("main")
        print("history:", " ".join(r["ops"])); print("checksums/buffer mode:", r["crc"], " cut:", r["cut"], " flips:", r["flips"])
        print("log written by a process with [%s]; recovered by a process with [%s]" % (W.cfg_text(r["crc"]), W.cfg_text(rcrc)))
        print("savepoint ends in log:", [e for e, _ in sps], "log size", os.path.getsize(os.path.join(d, "db-wal")))
        print("impl :", res["impl_rec"][:600]); print("model:", res["model"]); print("impl recovery step:", res["impl_wal"])
        print("verdict:", "holds" if ok else "VIOLATED: " + why); print("recorded note:", r.get("note"))
        return 0 if ok else 1
    finally:
        shutil.rmtree(wd, ignore_errors=True)
