# C10 - the block allocator never hands out space that is already in use
import vlib
import fsm_common as fc

LEVEL = "proof"
RULE = ("op scripts generated adaptively against the implementation (allocate 1 B..several pages / exact fits of free runs / "
        "whole free tail, address hints, every flag combination, reallocate up/down/to zero, whole and partial releases, "
        "releases of adjacent regions in both orders, invalid releases, status queries, byte patterns written and read back, "
        "sync, close+reopen, clear) x block size 64..4096 x mmap-all/partial x strict x trim; sequences that exhaust the "
        "bitmap so that it relocates between live regions; script modes: mixed / solid (statistics kept, clustered sizes, "
        "regions rarely written so that free extents lie behind the end of the file, solid space asked a little shorter "
        "than a free extent so that the over-allocated tail reaches a further page) / aligned (free-run layouts cut at "
        "chosen distances from the page boundaries with lengths at the fit thresholds of a page-aligned request, no run of "
        "request + one page: first attempt abandoned, full scan, also inside bitmap relocation and trim); "
        "INVALID requests aimed at every boundary of the addressable space (ranges starting inside and ending 1, 7, 8, 9, 63, "
        "64, 65 blocks behind the last block the bitmap describes / starting exactly at the end / beyond / far beyond; stray "
        "bytes in the length; the allocator's own bitmap blocks and the header approached from either side) as release, as "
        "shrinking reallocate and as status query, in ordinary states and in rounds on a completely full file (last block of "
        "the space and the block behind the bitmap area live, the latter starting with 0xff), also right after a bitmap "
        "growth; after each: error + identical state line (bitmap, tree, cache, geometry, file size, counters), bytes read "
        "back, a one-block request without extension still fails; dry-run probes of _fsm_set_bit_status_lw on both sides of "
        "the boundary (model against implementation); "
        "reallocate whose OLD range is the file header / the allocator's bitmap (whole, part, reached from a live neighbour) "
        "or empty, growing / shrinking / to zero: refused, nothing changes; negative off_t arguments; "
        "cache rounds (free runs in front of and behind the bitmap area, a page-aligned hole of the doubled bitmap's size, a "
        "short free tail: the bitmap doubles into the hole, the tail is extended in place, the request is served from the "
        "released old area; then the live piece ending at the tail start is released and the tail sizes are requested); "
        "overflow scripts on files with a size limit (exfile maxoff 64..256 KB): address hints of 2^32 blocks and more / "
        "negative (an uninitialised *oaddr) with and without NO_EXTEND - a request is served iff some free run holds it, the "
        "bitmap does not grow while one does - the last hint a block key can hold, requests of 2^32 blocks and more (refused, "
        "nothing changes), requests the limit cannot hold (growth fails half way: nothing stays allocated); "
        "a case is one script; distinct = distinct script text")
ASSUME = ["mmap windows of the exfile are assumed to succeed in the model (their behaviour is C12's subject)",
          "non-strict mode: the client releases only (sub-ranges of) regions it owns (double free is what IWFSM_STRICT is for)",
          "the over-allocation decision (double arithmetic on crzsum/crznum/crzvar) is an oracle input of the model, "
          "observed on the implementation; the theorems hold for both values",
          "bitmaps with fewer than 2^32 bits",
          "off_t arguments: every (uint64_t) cast of the public functions is modelled, so negative and huge addresses, hints and "
          "lengths are inside the model; block sizes >= 4 (offset + length in blocks then cannot wrap 64 bits)",
          "on files with a size limit the scripts do not write into regions (a write behind the limit fails by design); solid space "
          "and growing reallocate at the limit are asked for and must fail with nothing left allocated",
          "the five findings of the deepening rounds (realloc, hint, leak, recheck, solid) are repaired in /repo: the repaired behaviour "
          "is demanded of every tree under test; the model follows the text of the tree (variant_of_source), the oracle does not"]


def check(run):
    proofs_ok = run.proofs()
    quick = run.tier == "quick"
    ns, nops = (300, 100) if quick else (8000, 200)
    if not proofs_ok:
        ns *= 10
    variant, results = fc.run_scripts(run, "C10", ns, nops)
    fc.account(run, "C10", variant, results)
    if proofs_ok and run.broken and not run.violations:
        # correspondence broke: widen the search for a failing input
        variant, results = fc.run_scripts(run, "C10", ns * 10, nops)
        nb = len(run.broken)
        fc.account(run, "C10", variant, results)
        del run.broken[nb:]
    return run.finish(level=LEVEL, rule=RULE, assumptions=ASSUME)


def replay(run, path):
    return fc.replay_script(run, path, "C10")
