# C10 - the block allocator never hands out space that is already in use
import vlib
import fsm_common as fc

LEVEL = "proof"
RULE = ("op scripts generated adaptively against the implementation (allocate 1 B..several pages / exact fits of free runs / "
        "whole free tail, address hints, every flag combination, reallocate up/down/to zero, whole and partial releases, "
        "releases of adjacent regions in both orders, invalid releases, status queries, byte patterns written and read back, "
        "sync, close+reopen, clear) x block size 64..4096 x mmap-all/partial x strict x trim; sequences that exhaust the "
        "bitmap so that it relocates between live regions; script modes: mixed / solid (statistics kept, clustered sizes, "
        "regions rarely written so that free extents lie behind the end of the file, solid space asked a little shorter "
        "than a free extent so that the over-allocated tail reaches a further page) / aligned (free-run layouts cut at "
        "chosen distances from the page boundaries with lengths at the fit thresholds of a page-aligned request, no run of "
        "request + one page: first attempt abandoned, full scan, also inside bitmap relocation and trim); "
        "a case is one script; distinct = distinct script text")
ASSUME = ["mmap windows of the exfile are assumed to succeed in the model (their behaviour is C12's subject)",
          "non-strict mode: the client releases only (sub-ranges of) regions it owns (double free is what IWFSM_STRICT is for)",
          "the over-allocation decision (double arithmetic on crzsum/crznum/crzvar) is an oracle input of the model, "
          "observed on the implementation; the theorems hold for both values",
          "bitmaps with fewer than 2^32 bits"]


def check(run):
    proofs_ok = run.proofs()
    quick = run.tier == "quick"
    ns, nops = (300, 100) if quick else (8000, 200)
    if not proofs_ok:
        ns *= 10
    variant, results = fc.run_scripts(run, "C10", ns, nops)
    fc.account(run, "C10", variant, results)
    if proofs_ok and run.broken and not run.violations:
        # correspondence broke: widen the search for a failing input
        variant, results = fc.run_scripts(run, "C10", ns * 10, nops)
        nb = len(run.broken)
        fc.account(run, "C10", variant, results)
        del run.broken[nb:]
    return run.finish(level=LEVEL, rule=RULE, assumptions=ASSUME)


def replay(run, path):
    return fc.replay_script(run, path, "C10")
