# C11 - allocator bookkeeping is conserved, coalesced and survives reopen
import vlib
import fsm_common as fc
from common import diff_run

LEVEL = "proof"
RULE = ("the C10 op scripts (modes mixed / solid / aligned / overflow, boundary, cache and small-file rounds, see C10) with more "
        "close/reopen/clear/release traffic; block sizes 64..4096 (every power of two); small files closed with trim "
        "(fewer than 64 blocks in use behind the bitmap area, whose end is not a multiple of 64 blocks for block sizes >= 256: "
        "file size after close and the bytes of the last region compared); "
        "rounds that close a file WITHOUT A SINGLE FREE BLOCK (empty free-extent tree: _fsm_close writes no header and does "
        "not trim) after 0..2 bitmap relocations, with / without a sync before or after the space is used up, trim / no-trim, "
        "then reopen: same bitmap area, same allocated blocks, same file size, live regions known, nothing to hand out; the "
        "file header (bitmap offset/length, counters) is read back through a separate descriptor and compared with what the "
        "model says was written last; after every operation the free-extent tree "
        "(in-order walk of the AVL tree), lfbkoff/lfbklen and the bitmap of the implementation are compared with the "
        "model and the oracle checks tree = maximal zero runs of the bitmap, set bits = header + bitmap + live regions, "
        "file size after close, state after reopen/clear; plus direct queries of _fsm_find_next_set_bit / "
        "_fsm_find_prev_set_bit / iwbits on random words at every offset around the 64-bit word boundaries; "
        "a case is one script or one bit query")
ASSUME = ["mmap windows of the exfile are assumed to succeed in the model (their behaviour is C12's subject)",
          "non-strict mode: the client releases only (sub-ranges of) regions it owns",
          "_fsm_find_prev_set_bit is queried on the domain the library uses: lower bound 0 with any upper end, or any lower "
          "bound with a word-aligned upper end (trim: lower bound = first block behind the bitmap area), or a lower bound "
          "not above the word boundary below the upper end",
          "bitmaps with fewer than 2^32 bits"]


def bit_queries(rng, n):
    out = []
    for _ in range(n):
        nw = rng.range(1, 4)
        kind = rng.below(4)
        ws = []
        for _w in range(nw):
            if kind == 0:
                w = 0
            elif kind == 1:
                w = 1 << rng.below(64)
            elif kind == 2:
                w = rng.u64() & rng.u64() & rng.u64()
            else:
                w = rng.u64()
            if rng.chance(1, 3):
                w = 0
            ws.append(w)
        hexs = b"".join(w.to_bytes(8, "little") for w in ws).hex()
        nb = nw * 64
        edges = sorted(set([0, nb] + [64 * k + d for k in range(nw + 1) for d in (-1, 0, 1) if 0 <= 64 * k + d <= nb]))
        off = rng.choice(edges) if rng.chance(2, 3) else rng.range(0, nb)
        if rng.chance(1, 2):
            mx = rng.choice(edges) if rng.chance(2, 3) else rng.range(0, nb)
            out.append("fnext %s %d %d" % (hexs, off, mx))
        else:
            # the library's domain: lower bound 0 (neighbour search of a release) or ANY lower bound with a word-aligned
            # upper end (_fsm_trim_tail_lw: upper end = number of bits of the bitmap, lower bound = first block behind the
            # bitmap area - in the middle of a word for block sizes of 256 bytes and more)
            k = rng.below(6)
            if k < 2:
                mn = 0
            elif k == 2:
                mn = rng.choice([e for e in edges if e % 64 == 0])
            else:
                mn = rng.choice([1, 2, 4, 8, 16, 32, 48, 63, rng.range(0, nb)]) + 64 * rng.below(nw)
                mn = min(mn, nb)
                if rng.chance(3, 4):
                    off = 64 * rng.range((mn + 63) // 64, nw)
            if off % 64 and mn > off - off % 64:
                mn = 0
            out.append("fprev %s %d %d" % (hexs, off, mn))
        if rng.chance(1, 4):
            out.append("ffs %d" % (ws[0] or 1))
    return out


def check(run):
    proofs_ok = run.proofs()
    quick = run.tier == "quick"
    ns, nops = (300, 100) if quick else (8000, 200)
    nq = 3000 if quick else 100000
    if not proofs_ok:
        ns *= 10
        nq *= 10
    variant, results = fc.run_scripts(run, "C11", ns, nops)
    fc.account(run, "C11", variant, results)
    if proofs_ok and run.broken and not run.violations:
        variant, results = fc.run_scripts(run, "C11", ns * 10, nops)
        nb = len(run.broken)
        fc.account(run, "C11", variant, results)
        del run.broken[nb:]
    # ---- bit scans: both levels of the model against the C functions
    impl = vlib.build_harness("h_fsm")
    model = vlib.build_model("fsm")
    qs = bit_queries(run.rng, nq)
    out_i, out_m, mism, err = diff_run(impl, model, qs)
    if err:
        run.broken.append("T2 harness (bit queries): " + err)
    for i, q in enumerate(qs):
        run.case(q, nontrivial=True, sample=({"query": q[:120], "impl": out_i[i]} if i == 0 else None))
        run.dist(q.split()[0])
    run.cov["traces_validated_against_impl"] += len(qs) - len(mism)
    if mism:
        i = mism[0]
        run.broken.append("T2 correspondence (bit scans): %d of %d differ, first `%s` impl=`%s` model=`%s`" % (
            len(mism), len(qs), qs[i][:200], out_i[i], out_m[i] if i < len(out_m) else None))
    # oracle for the scans: the definition (position of the nearest set bit inside the window)
    for i, q in enumerate(qs):
        f = q.split()
        if f[0] not in ("fnext", "fprev") or i >= len(out_i):
            continue
        v = int.from_bytes(bytes.fromhex(f[1]), "little")
        a, b = int(f[2]), int(f[3])
        if f[0] == "fnext":
            cand = [k for k in range(a, b) if (v >> k) & 1]
            exp = "1 %d" % cand[0] if cand else "0"
        else:
            cand = [k for k in range(b, a) if (v >> k) & 1]
            exp = "1 %d" % cand[-1] if cand else "0"
        if out_i[i] != exp:
            run.violation({"query": q, "impl": out_i[i], "expected": exp, "kind": "bitscan"},
                          "bit scan of the implementation returns `%s`, the nearest set bit in the window is `%s`" % (out_i[i], exp))
    return run.finish(level=LEVEL, rule=RULE, assumptions=ASSUME)


def replay(run, path):
    import json
    r = json.load(open(path))
    if r.get("kind") == "bitscan":
        impl = vlib.build_harness("h_fsm")
        rc, out, err = vlib.run_lines(impl, r["query"] + "\n")
        print("query:", r["query"][:200]); print("impl :", out[0]); print("expected:", r["expected"])
        return 1 if out[0] != r["expected"] else 0
    return fc.replay_script(run, path, "C11")
