# C08 - an online backup taken under load is a consistent snapshot
#
# Controlled stand-in for the concurrent writer: a second thread executes the next n operations of the history;
# it is released from inside the file-effect callback at the k-th write to the backup target (main-file copy
# stage, no lock held) and the backup thread waits for it (at most 300 ms - the writer may legitimately block
# until the copy is over), i.e. the interleaving "writer runs n operations between two chunks of the copy".
# Verdicts do not depend on the timing: every outcome the wait can produce is judged by the same oracle.
# (Free-running schedules and the checkpoint thread are C07's business and are not claimed.)
# Oracle (python dict model): the image opens, and its contents equal the state after a prefix of the history
# that contains everything completed before the call and nothing issued after it returned; the live store
# afterwards holds the state after the whole history.
# T2: the extracted Backup.open_image (split + recover mode 2) on the image bytes must give the main file
#     the implementation has after opening the image.
import os, json, shutil, tempfile, zlib
import vlib
import walcommon as W
import C04 as C04mod

LEVEL = "proof"
KEYS = ["k%02d" % i for i in range(24)]


def rnd_op(rng, big):
    r = rng.below(100)
    if r < 70:
        vl = rng.weighted([(5, 4), (20, 6), (100, 4), (700, 3)] + ([(9000, 2), (40000, 2)] if big else []))
        return "p1:%s:%d:%d" % (W.khex(rng.choice(KEYS)), vl, rng.below(250))
    if r < 90:
        return "d1:%s" % W.khex(rng.choice(KEYS))
    return "s"


def gen_history(rng, at, ninj, growth):
    """at >= 1: writer released at the at-th chunk of the main-file copy; at == 0: writer released when the
    WAL_COPY1 loop is over (wal_lock_interceptor, before the exclusive lock of stage WAL_COPY2) - there a checkpoint
    or a file growth keeps the log and appends a reset mark, which ends up in the image"""
    ops = ["n1"] + [rnd_op(rng, False) for _ in range(rng.range(3, 14))]
    if rng.chance(1, 2):
        ops.append("s")
    ib = len(ops)
    if at == 0:
        ninj = max(ninj, 3)
    ops.append("B%d:%d" % (at, ninj))
    inj = [rnd_op(rng, growth) for _ in range(ninj)]
    if at == 0:
        # something logged before the mark, the mark (forced checkpoint, or growth), something after it
        j = rng.range(1, ninj - 2) if ninj > 3 else 1
        inj[0] = "p1:%s:%d:%d" % (W.khex(rng.choice(KEYS)), rng.choice([5, 20, 100, 700]), rng.below(250))
        inj[j] = "c" if rng.chance(2, 3) else "p1:%s:%d:%d" % (W.khex(rng.choice(KEYS)), 40000, rng.below(250))
        inj[-1] = "p1:%s:%d:%d" % (W.khex(rng.choice(KEYS)), rng.choice([5, 20, 100, 700]), rng.below(250))
    ops += inj
    ops += [rnd_op(rng, False) for _ in range(rng.range(0, 5))]
    ops.append("s")
    return ops, ib


def gen_second_backup(rng, at):
    """a second iwkv_online_backup (op X, target bkp2 pre-filled with a sentinel) is issued by another thread while the
    first one is held before WAL_CLEANUP (at = -1), during MAIN_COPY (at >= 1) or at the end of WAL_COPY1 (at = 0);
    after the first returned, a third backup (op Y, target bkp3) must work normally"""
    ops = ["n1"] + [rnd_op(rng, False) for _ in range(rng.range(3, 10))]
    ib = len(ops)
    inj = [rnd_op(rng, False), "X", rnd_op(rng, False)]
    ops.append("B%d:%d" % (at, len(inj)))
    ops += inj
    ops += [rnd_op(rng, False) for _ in range(rng.range(0, 3))] + ["s", "Y"]
    return ops, ib


def judge_second_backup(d, impl, crc, ops, tr, states):
    """oracle of the second-backup class; returns None or text"""
    ix = ops.index("X")
    iy = ops.index("Y")
    xl = [l.split() for l in open(os.path.join(d, "trace")) if l.startswith("X ")]
    if not xl:
        return "the second backup call did not return"
    rc, size, same = xl[0][1], int(xl[0][2]), xl[0][3] == "1"
    released_inside = any(l.startswith("G inject") for l in open(os.path.join(d, "trace")))
    if not released_inside:
        return None if rc == "0" else "a backup issued when no other was running fails with %s" % rc
    if rc != "BKP_IN_PROGRESS":
        return "a second iwkv_online_backup issued while one is running returned %s instead of IWKV_ERROR_BACKUP_IN_PROGRESS" % rc
    if not same:
        return "the refused second backup touched its target file (size now %d)" % size
    return judge_third_backup(d, impl, crc, ops, tr, states)


def judge_third_backup(d, impl, crc, ops, tr, states):
    iy = ops.index("Y")
    oy = tr["ops"].get(iy, {})
    if oy.get("rc") != "0":
        return "a backup issued after the first one returned fails with %s" % oy.get("rc")
    d3 = os.path.join(d, "img3")
    os.makedirs(d3, exist_ok=True)
    if not os.path.exists(os.path.join(d, "bkp3")):
        return "the third backup wrote no image"
    shutil.copyfile(os.path.join(d, "bkp3"), os.path.join(d3, "db"))
    rci, outi, erri = vlib.run_lines(impl, "rec %s %d -1\n" % (d3, crc))
    f3 = W.fields((outi + ["<none>"])[0])
    got, probs = W.canon_dump(f3.get("dump", ""))
    if f3.get("exit") != "0" or f3.get("rc") != "0" or probs or got != states[iy]:
        return "the image of a backup issued after the first one returned is not the store's state at that call: %s" % (outi[:1],)
    return None


def ref_states(ops):
    r = W.Ref()
    out = [r.canon()]
    for op in ops:
        if op[0] in "pdn":
            r.apply(op)
        out.append(r.canon())
    return out


def one(run, impl, model, wd, name, crc, ops, ib):
    d = os.path.join(wd, name)
    shutil.rmtree(d, ignore_errors=True)
    os.makedirs(d)
    rc, out, err = vlib.run_lines(impl, "run %s %d 1 -1 6 %s\n" % (d, crc, " ".join(ops)), timeout=60)
    if rc == 124:
        return {"ops": ops, "crc": crc, "run": "timeout", "t2": "harness timed out (writer blocked inside the backup?)"}, True, "", ""
    tr = W.parse_trace(os.path.join(d, "trace"))
    line = out[0] if out else "<none>"
    res = {"ops": ops, "crc": crc, "run": line}
    states = ref_states(ops)
    # did a writer operation ask for a larger file while the backup was copying the main file?  (listener tap:
    # an _onresize call between the begin of the backup op and the end of the operations injected into it)
    starts = {i: n for (_, i, n) in tr["marks"]}
    a = starts.get(ib, 0)
    later = [starts[i] for i in starts if i > ib + 6]
    bnd = min(later) if later else len(tr["lsn"])
    at = int(ops[ib][1:].split(":")[0])
    grew = at >= 1 and any(f[0] == "R" for _, f in tr["lsn"][a:bnd])
    res["resize_during_main_copy"] = grew
    gcl = "growth-during-main-copy"
    if "X" in ops and not grew and (line != "run exit=0" or tr["ops"].get(ib, {}).get("rc") != "0"):
        return res, False, "second backup issued during a running one: %s, first backup rc %s" % (line, tr["ops"].get(ib, {}).get("rc")), "second-backup"
    if line != "run exit=0":
        return res, False, ("the process running backup + writer died: %s%s" % (
            line, " (a writer operation needed a larger file while the main file was being copied)" if grew else "")), gcl if grew else "crash"
    ob = tr["ops"].get(ib, {})
    if ob.get("rc") != "0":
        return res, False, "iwkv_online_backup failed with %s" % ob.get("rc"), "backup-error"
    # how many operations ran inside the call
    inj = 0
    writer_in_time = True
    for l in open(os.path.join(d, "trace")):
        if l.startswith("K "):
            inj = int(l.split()[1])
            writer_in_time = len(l.split()) < 4 or l.split()[3] == "1"
    res["injected"] = inj
    # image: model first (pristine bytes), then the implementation opens a copy
    rcm, outm, errm = vlib.run_lines(W.big_stack(model), "img %s %d\n" % (d, crc), timeout=300)
    # T2 of the stage model: Backup.backup_run, fed with the listener/API calls of the run (before the call / while
    # the main file is copied / at the end of WAL_COPY1), must produce the image byte for byte (clock masked)
    inside_marker = any(l.startswith("G inject") for l in open(os.path.join(d, "trace")))
    W.backup_event_files(d, ops, tr, ib, inj if inside_marker else 0, at)
    bufsz = (4096 if crc & 2 else 8 * 1024 * 1024) - 12
    # every third scenario also evaluates C08_backup_image_is_snapshot on the traced calls (costs a second replay in the model)
    snap = " snap" if sum(map(ord, name)) % 3 == 0 else ""
    rcb, outb, errb = vlib.run_lines(W.big_stack(model), "bkp %s %d %d%s\n" % (d, crc, bufsz, snap), timeout=300)
    fb = W.fields(outb[0]) if outb and outb[0].startswith("bkp") else {}
    real_img = W.masked_image_crc(open(os.path.join(d, "bkp"), "rb").read())
    res["stage_model"] = None
    # C08_backup_image_is_snapshot evaluated on this run by the model (hypotheses: no growth / COPY among the writers'
    # calls): n/a, ok or fail
    res["snapshot_theorem"] = fb.get("snap") if fb.get("snap") != "-" else None
    if inside_marker and not writer_in_time:
        res.pop("stage_model", None)      # the writer outlived the 300 ms wait: where its calls fall is not known
    elif not grew and fb.get("image") != real_img:
        res["stage_model"] = "image bytes (clock masked): impl %s, Backup.backup_run %s" % (real_img, fb.get("image") or (outb[:1], errb[-100:]))
    d2 = os.path.join(d, "img")
    os.makedirs(d2)
    shutil.copyfile(os.path.join(d, "bkp"), os.path.join(d2, "db"))
    # the restored image is opened (recovery of the packed log), then used: second session with more work, sync,
    # CLEAN close, and opened again (as C04 does after a crash recovery)
    rci, outi, erri = vlib.run_lines(impl, "rec %s %d -1\nrec %s %d -1\n" % (d2, crc, d, crc))
    img_line, live_line = (outi + ["<none>", "<none>"])[:2]
    db_after_open = open(os.path.join(d2, "db"), "rb").read() if os.path.exists(os.path.join(d2, "db")) else b""
    rc2, out2, err2 = vlib.run_lines(impl, "run %s %d 0 -1 2 %s\nrec %s %d -1\n" % (d2, crc, " ".join(C04mod.SESSION2), d2, crc))
    cont = {"run": (out2 + ["<none>"])[0], "final": (out2 + ["<none>", "<none>"])[1], "trace2": W.parse_trace(os.path.join(d2, "trace2"))}
    res["image"] = img_line[:1500]
    res["model"] = outm[0] if outm else errm[-200:]
    fi = W.fields(img_line)
    fm = W.fields(res["model"]) if res["model"].startswith("img") else {}
    t2 = None
    if not fm:
        t2 = "model gave no answer: %s" % res["model"][:120]
    elif fi.get("exit") == "0":
        db = db_after_open
        real = "%d:%08x" % (len(db), zlib.crc32(db) & 0xffffffff)
        want_rc = "0" if fm.get("rc") == "0" else fm.get("rc")
        if fi.get("rc") != want_rc:
            t2 = "open of the image: impl rc %s, model rc %s" % (fi.get("rc"), fm.get("rc"))
        elif fi.get("rc") == "0" and real != fm.get("main"):
            t2 = "main file after opening the image: impl %s model %s (split %s)" % (real, fm.get("main"), fm.get("split"))
    res["t2"] = t2
    # oracle
    if fi.get("exit") != "0":
        return res, False, "opening the backup image died: %s" % fi.get("exit"), gcl if grew else "image-open"
    if fi.get("rc") != "0":
        return res, False, "the backup image does not open: %s" % fi.get("rc"), gcl if grew else "image-open"
    got, probs = W.canon_dump(fi.get("dump", ""))
    lo, hi = ib, ib + 1 + inj
    if probs:
        return res, False, "image opens but its scan is malformed: %s" % ",".join(probs), gcl if grew else "image-torn"
    ks = [k for k in range(len(states)) if states[k] == got]
    if not any(lo <= k <= hi for k in ks):
        if ks:
            return res, False, "image holds the state after %d operations; the call started after %d and returned after %d" % (ks[0], lo, hi), "image-wrong-instant"
        return res, False, "image holds a state that is not the state after any prefix of the history (call spans prefixes %d..%d)" % (lo, hi), gcl if grew else "image-torn"
    why2 = C04mod.judge_continuation(img_line, cont)
    if why2:
        return res, False, "restored image, second session: " + why2, gcl if grew else "image-second-session"
    fl = W.fields(live_line)
    gotl, probsl = W.canon_dump(fl.get("dump", ""))
    if fl.get("exit") != "0" or fl.get("rc") != "0" or probsl or gotl != states[len(ops)]:
        return res, False, "the live store is not in the state after the whole history once the backup is done: %s" % live_line[:200], gcl if grew else "live-affected"
    if "X" in ops:
        why3 = judge_second_backup(d, impl, crc, ops, tr, states)
        if why3:
            return res, False, why3, "second-backup"
    return res, True, "", ""


def gen_failing_backup(rng):
    """F<k>: the k-th write to the backup target fails (RLIMIT_FSIZE lowered to the target's size at that moment):
    main-file chunks, the log-copy loops, the two trailer writes; F0: the target cannot be created at all (missing
    directory).  Afterwards: more work, sync, another backup."""
    ops = ["n1"] + [rnd_op(rng, False) for _ in range(rng.range(3, 12))]
    if rng.chance(1, 3):
        ops.append("p1:%s:%d:%d" % (W.khex(rng.choice(KEYS)), 20000, rng.below(250)))    # several main-file chunks
    ib = len(ops)
    ops.append("F%d" % rng.choice([0, 0, 1, 2, 3, 4, 5, 6]))    # F0: the target cannot even be created
    ops += [rnd_op(rng, False) for _ in range(rng.range(1, 3))] + ["s", "Y", "s"]
    return ops, ib


def one_fail(run, impl, model, wd, name, crc, ops, ib):
    """a backup whose target cannot be written: it must return an error in time, release everything, leave the
    live store alone"""
    d = os.path.join(wd, name)
    shutil.rmtree(d, ignore_errors=True)
    os.makedirs(d)
    rc, out, err = vlib.run_lines(impl, "run %s %d 1 -1 2 %s\n" % (d, crc, " ".join(ops)), timeout=60)
    tr = W.parse_trace(os.path.join(d, "trace"))
    line = out[0] if out else "<none>"
    res = {"ops": ops, "crc": crc, "run": line}
    states = ref_states(ops)
    tl = open(os.path.join(d, "trace")).read().split("\n") if os.path.exists(os.path.join(d, "trace")) else []
    failed = [l for l in tl if l.startswith("G fail")]
    res["failed_write"] = failed[0] if failed else None
    if line != "run exit=0":
        infl = [i for i in sorted(tr["ops"]) if tr["ops"][i].get("rc") is None]
        if failed and infl and infl[0] == ib:
            return res, False, ("iwkv_online_backup did not return after a failed write to its target (%s): %s - the call hangs "
                                "holding the store's locks" % (failed[0], line)), "failed-backup"
        return res, False, "the process died: %s" % line, "failed-backup"
    ob = tr["ops"].get(ib, {})
    if failed and ob.get("rc") == "0":
        return res, False, "a write to the backup target failed (%s) but iwkv_online_backup reported success" % failed[0], "failed-backup"
    if not failed and ob.get("rc") != "0":
        return res, False, "iwkv_online_backup failed with %s although no fault was injected" % ob.get("rc"), "failed-backup"
    for i in range(ib + 1, len(ops)):
        o = tr["ops"].get(i, {})
        exp = "0"
        if ops[i][0] == "d":
            continue
        if o.get("rc") != exp:
            return res, False, "after a failed backup operation %d (%s) returns %s" % (i, ops[i][:30], o.get("rc")), "failed-backup"
    why = judge_third_backup(d, impl, crc, ops, tr, states)
    if why:
        return res, False, "after a failed backup: " + why, "failed-backup"
    rci, outi, erri = vlib.run_lines(impl, "rec %s %d -1\n" % (d, crc))
    fl = W.fields((outi + ["<none>"])[0])
    gotl, probsl = W.canon_dump(fl.get("dump", ""))
    if fl.get("exit") != "0" or fl.get("rc") != "0" or probsl or gotl != states[len(ops)]:
        return res, False, "the live store is not in the state after the whole history after a failed backup: %s" % (outi[:1],), "failed-backup"
    return res, True, "", ""


# ------------------------------------------------------------------------------------------------
# Free-running writers and the lock skeleton of the call (harness/h_bkpload.c)
def judge_quiet(out):
    """the answer of `quiet`: the call succeeds, the image is right, the WAL takes the store's exclusive lock twice (flush of
    stage 2, last stage) and every write to the target from the first one made under an exclusive lock to the end of the
    call - the rest of the log after the closing savepoint, the length trailer, the magic - is made under it"""
    f = dict(x.split("=", 1) for x in out.split()[1:] if "=" in x) if out and out.startswith("Q ") else None
    if f is None:
        return "no answer from the harness: %r" % (out,)
    if f.get("rc") != "0" or f.get("image") != "ok":
        return "a backup of a quiet store fails or is wrong: %s" % out
    held = f.get("held", "")
    if "1" not in held or "0" in held[held.index("1"):] or held.count("1") < 3:
        return ("the last stage of the backup (rest of the log after the closing savepoint, trailer) is not written under the "
                "store's exclusive lock: writes to the target made while holding it = %s" % held)
    if f.get("icpt") != "TFTF":
        return "exclusive-lock skeleton of the call is %s, the stage model has TFTF (stage 2 and stage 5)" % f.get("icpt")
    return None


def load_stage(run, proofs_ok):
    impl = vlib.build_harness("h_bkpload")
    wd = tempfile.mkdtemp(prefix="bkpl-", dir="/dev/shm" if os.path.isdir("/dev/shm") else None)
    try:
        cmds = ["quiet %d" % n for n in (1, 8, 200, 3000)]
        nb = (25 if run.tier == "quick" else 400) * (1 if proofs_ok else 4)
        for w, k in ((1, 8), (3, 48), (2, 16), (4, 3), (3, 200), (8, 1)):
            cmds.append("load %d %d %d %d" % (w, k, nb, run.rng.below(1 << 30)))
        rc, out, err = vlib.run_lines([impl, wd], "\n".join(cmds) + "\n", timeout=1500)
        out = [l for l in out if l.strip()]
        for i, c in enumerate(cmds):
            o = out[i] if i < len(out) else None
            run.dist("backup-" + c.split()[0])
            if c.startswith("quiet"):
                why = judge_quiet(o)
                run.case("bkpload:" + c, nontrivial=True, sample={"command": c, "answer": o} if i == 2 else None)
            else:
                f = dict(x.split("=", 1) for x in o.split()[1:] if "=" in x) if o and o.startswith("L backups=") else None
                if f is None:
                    why = "no answer from the harness (it died or hung): %r %s" % (o, (err or "")[-200:])
                else:
                    run.cov["backups_under_free_running_writers"] = run.cov.get("backups_under_free_running_writers", 0) + int(f["backups"])
                    run.cov["writer_updates_during_those"] = run.cov.get("writer_updates_during_those", 0) + int(f["updates"])
                    why = None if f["violations"] == "0" else o.split("first=", 1)[-1]
                    run.case("bkpload:%s:%s" % (c, f["updates"]), nontrivial=int(f["updates"]) > 100,
                             sample={"command": c, "answer": o} if i == 5 else None)
            if why:
                run.violation({"harness": "h_bkpload", "commands": [c], "answer": o, "class": "load" if c.startswith("load") else "lock-skeleton"},
                              "%s  [%s]" % (why, c))
    finally:
        shutil.rmtree(wd, ignore_errors=True)


def syncrace_stage(run):
    """race detector run (ThreadSanitizer build): a writer loops put + iwkv_sync while backups are taken.  iwkv_sync /
    iwkv_db / iwkv_new_db make their savepoint under the store's exclusive lock but without the log mutex, the backup
    flushes the log buffer on entering WAL_COPY1 under the log mutex alone: both work on wal->buf / bufpos (the sync's
    savepoint can be overwritten or flushed twice; 'the live store is unaffected by the backup' is then a matter of luck).
    Reported by the detector on a tree without c8bdb63 (known_findings C08-c8bdb63, fixes/wal-savepoint-under-log-mutex.diff)"""
    import re, subprocess
    try:
        exe = vlib.build_harness("h_syncrace", "tsan")
    except Exception as e:
        run.notes.append("race detector build not available: %s" % str(e)[:120])
        return
    out, err, hit, races = "", "", False, []
    for attempt in range(3 if run.tier == "quick" else 12):       # whether the detector sees the pair depends on the interleaving
        wd = tempfile.mkdtemp(prefix="syncrace-", dir="/dev/shm" if os.path.isdir("/dev/shm") else None)
        try:
            r = subprocess.run([exe, wd, "20"], capture_output=True, text=True, timeout=600)
            out, err = r.stdout.strip(), r.stderr
        except subprocess.TimeoutExpired:
            out, err = "timeout", ""
        finally:
            shutil.rmtree(wd, ignore_errors=True)
        races = [m for m in re.findall(r"SUMMARY: ThreadSanitizer: data race .*", err) if "iwal.c" in m]
        hit = bool(("_savepoint_exl" in err or "iwal_savepoint_exl" in err) and "iwal_online_backup" in err and races)
        if hit or not out.startswith("R backups=") or " rc=0 " not in out + " ":
            break
    run.case("syncrace:%s" % out[:60], nontrivial=True)
    run.dist("savepoint_vs_backup_flush_race_%s" % ("reported_by_detector" if hit else "not_reported"))
    bad = None
    if not out.startswith("R backups=") or " rc=0 " not in out + " ":
        bad = "backups under a syncing writer: %s" % out[:200]
    elif hit:
        bad = ("data race on the log buffer between iwkv_sync's savepoint (no log mutex) and the backup's _flush_wl on entering WAL_COPY1 "
               "(log mutex only): %s" % races[0][:160])
    if bad:
        run.violation({"harness": "h_syncrace", "commands": ["h_syncrace <dir> 20"], "answer": out, "class": "savepoint-backup-race"}, bad)


def check(run):
    proofs_ok = run.proofs()
    mult = 1 if proofs_ok else 10
    load_stage(run, proofs_ok)
    syncrace_stage(run)
    wd = tempfile.mkdtemp(prefix="wal-C08-")
    try:
        mode, impl = W.stable_harness(wd)
        model = vlib.build_model("wal")
        run.notes.append("effect numbering mode: " + mode)
        n = (200 if run.tier == "quick" else 15000) * mult
        jobs = []
        cdir = os.path.join(vlib.VERIF, "corpus", "C08")
        for cf in sorted(os.listdir(cdir)) if os.path.isdir(cdir) else []:
            if cf.endswith(".json"):
                c = json.load(open(os.path.join(cdir, cf)))
                ibc = [i for i, o in enumerate(c["ops"]) if o[0] in "bB"][0]
                jobs.append((1000000 + len(jobs), c["crc"], c["ops"], ibc, True, int(c["ops"][ibc][1:].split(":")[0]), 0))
        for h in range(n):
            crc = run.rng.choice([0, 0, 1, 2])
            at = 0 if run.rng.chance(1, 3) else run.rng.range(1, 5)
            ninj = run.rng.range(0, 6)
            growth = run.rng.chance(1, 3)
            ops, ib = gen_history(run.rng, at, ninj, growth)
            jobs.append((h, crc, ops, ib, growth, at, ninj))
        for q in range((6 if run.tier == "quick" else 150) * mult):
            crc = run.rng.choice([0, 1, 2])
            at = [-1, 0, 1][q % 3]
            ops, ib = gen_second_backup(run.rng, at)
            jobs.append((2000000 + q, crc, ops, ib, False, at, 3))
        for q in range((14 if run.tier == "quick" else 400) * mult):
            ops, ib = gen_failing_backup(run.rng)
            jobs.append((3000000 + q, run.rng.choice([0, 1, 2]), ops, ib, False, 99, 0))
        from concurrent.futures import ThreadPoolExecutor
        with ThreadPoolExecutor(vlib.NCPU) as ex:
            results = list(ex.map(lambda j: (one_fail if j[2][j[3]][0] == "F" else one)(run, impl, model, wd, "h%d" % j[0], j[1], j[2], j[3]), jobs))
        for (h, crc, ops, ib, growth, at, ninj), (res, ok, why, cl) in zip(jobs, results):
            if ops[ib][0] == "F":
                run.dist("failing_backup_%s" % ("fault_hit" if res.get("failed_write") else "no_fault_reached"))
                run.case("%s|%d" % (" ".join(ops), crc), nontrivial=bool(res.get("failed_write")))
                if not ok:
                    run.cov.setdefault("violations_by_class", {})
                    run.cov["violations_by_class"][cl] = run.cov["violations_by_class"].get(cl, 0) + 1
                    if os.environ.get("VERIF_DEBUG"):
                        print("DBG", h, cl, why[:160])
                    if run.cov["violations_by_class"][cl] <= 2:
                        run.violation({"ops": ops, "crc": crc, "class": cl, "failed_write": res.get("failed_write"), "run": res.get("run")}, why)
                continue
            run.dist("writer_ops_inside_backup_%d" % res.get("injected", -1))
            run.dist("growth_inside" if growth else "no_growth_inside")
            if "X" in ops:
                run.dist("second_backup_while_first_%s" % ({-1: "before_WAL_CLEANUP", 0: "in_WAL_COPY1"}.get(at, "in_MAIN_COPY")))
            run.dist(("inject_at_chunk_%d" % at) if at > 0 else ("inject_at_end_of_WAL_COPY1" if at == 0 else "inject_before_WAL_CLEANUP"))
            if at == 0:
                run.dist("reset_mark_by_%s" % ("checkpoint" if "c" in ops[ib + 1:ib + 1 + res.get("injected", 0)] else "growth"))
            run.case("%s|%d" % (" ".join(ops), crc), nontrivial=res.get("injected", 0) > 0,
                     sample={"ops": ops, "crc": crc, "image": res.get("image", "")[:160]} if h % 11 == 0 else None)
            if res.get("stage_model"):
                run.dist("stage_model_differs")
                if len(run.broken) < 6:
                    run.broken.append("T2 correspondence (Backup.backup_run) h%d: %s" % (h, res["stage_model"]))
                    if os.environ.get("VERIF_DEBUG"):
                        print("STAGE", h, crc, " ".join(ops)[:300])
            elif "stage_model" in res:
                run.dist("stage_model_ok")
            if res.get("snapshot_theorem"):
                run.dist("snapshot_theorem_instance_%s" % {"ok": "conclusion_ok", "n/a": "na_growth_among_writer_calls"}.get(res["snapshot_theorem"], "fails"))
                if res["snapshot_theorem"] not in ("ok", "n/a") and len(run.broken) < 6:
                    run.broken.append("C08_backup_image_is_snapshot evaluated on the traced calls of h%d does not hold (%s): the extracted model, "
                                      "the driver or the proof environment is broken" % (h, res["snapshot_theorem"]))
            if res.get("t2"):
                if len(run.broken) < 6:
                    run.broken.append("T2 correspondence (Backup) h%d: %s" % (h, res["t2"]))
            elif "image" in res:
                run.cov["traces_validated_against_impl"] += 1
            if not ok:
                run.cov.setdefault("violations_by_class", {})
                run.cov["violations_by_class"][cl] = run.cov["violations_by_class"].get(cl, 0) + 1
                if os.environ.get("VERIF_DEBUG"):
                    print("DBG", h, cl, why[:120], "| growth" if growth else "", " ".join(ops)[:200])
                if run.cov["violations_by_class"][cl] <= 2:
                    run.violation({"ops": ops, "crc": crc, "class": cl, "growth_inside_backup": growth,
                                   "image": res.get("image"), "run": res.get("run")}, why)
    finally:
        shutil.rmtree(wd, ignore_errors=True)
    return run.finish(level=LEVEL,
                      rule="random histories; iwkv_online_backup with 0..6 writer operations (values up to 40000 bytes, "
                           "i.e. with and without file growth, syncs) executed at the 1st..5th chunk of the main-file copy or, a third of the "
                           "scenarios, at the end of stage WAL_COPY1 with a forced checkpoint / file growth in their middle (reset mark "
                           "inside the image); every opened image is then used by a second session (more work, sync, clean close, reopen); "
                           "a case = (history, checksum/buffer mode); non-trivial = at least one writer operation ran inside the call",
                      assumptions=["writer interleavings are generated only at chunk boundaries of the main-file copy and at the end "
                                   "of WAL_COPY1 (wal_lock_interceptor), where the backup holds no lock. Stage WAL_COPY2 is covered by its lock "
                                   "skeleton (every write to the target from the closing savepoint on is made under the store's exclusive "
                                   "lock - observed by interposing pthread_rwlock_wrlock/unlock and write in harness/h_bkpload.c) and by "
                                   "backups under free-running writer threads doing in-place updates (values whole, one cut per writer, "
                                   "not older than completed-before-the-call, not newer than issued-at-return); schedules are sampled, "
                                   "not enumerated; the checkpoint thread is off (timers disabled)"])


def replay(run, path):
    r = json.load(open(path))
    if r.get("harness") == "h_bkpload":
        impl = vlib.build_harness("h_bkpload")
        wd = tempfile.mkdtemp(prefix="bkpl-r-")
        try:
            bad = 0
            for rep in range(1 if r["commands"][0].startswith("quiet") else 5):   # a schedule is not replayed exactly: five tries
                rc, out, err = vlib.run_lines([impl, wd], "\n".join(r["commands"]) + "\n", timeout=1500)
                for c, o in zip(r["commands"], [l for l in out if l.strip()]):
                    why = judge_quiet(o) if c.startswith("quiet") else (None if " violations=0" in o else o.split("first=", 1)[-1])
                    print(c, "->", o)
                    if why:
                        print("VIOLATES:", why)
                        bad = 1
                if bad:
                    break
            return bad
        finally:
            shutil.rmtree(wd, ignore_errors=True)
    wd = tempfile.mkdtemp(prefix="wal-C08r-")
    try:
        mode, impl = W.stable_harness(wd)
        model = vlib.build_model("wal")
        ops = r["ops"]
        ib = [i for i, o in enumerate(ops) if o[0] in "bBF"][0]
        res, ok, why, cl = (one_fail if ops[ib][0] == "F" else one)(run, impl, model, wd, "r", r["crc"], ops, ib)
        print("history:", " ".join(ops)); print("mode:", r["crc"], " run:", res.get("run"), " writer ops inside the call:", res.get("injected"))
        print("image:", (res.get("image") or "")[:600]); print("model:", res.get("model"))
        print("verdict:", "holds" if ok else "VIOLATED (%s): %s" % (cl, why)); print("recorded:", r.get("note"))
        return 0 if ok else 1
    finally:
        shutil.rmtree(wd, ignore_errors=True)
