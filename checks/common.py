# helpers shared by the per-property checks
import vlib

def diff_run(impl_exe, model_exe, lines, timeout=900, env=None):
    """run both sides on the same script; returns (impl_lines, model_lines, mismatching indices, err)"""
    text = "\n".join(lines) + "\n"
    rc1, out1, err1 = vlib.run_lines(impl_exe, text, timeout=timeout, env=env)
    rc2, out2, err2 = vlib.run_lines(model_exe, text, timeout=timeout)
    err = None
    if rc1 != 0:
        err = "implementation harness exited %d: %s" % (rc1, err1[-800:])
    if rc2 != 0:
        err = (err or "") + " model driver exited %d: %s" % (rc2, err2[-800:])
    mism = []
    for i in range(len(lines)):
        a = out1[i] if i < len(out1) else "<missing>"
        b = out2[i] if i < len(out2) else "<missing>"
        if a != b:
            mism.append(i)
    return out1, out2, mism, err
