# C07 - systematic preemption explorer (harness/h_preempt.c).
# For a pair (A-operation, B-operation) and a WAL mode the harness runs A with B released at the k-th lock release of A,
# for every k.  Each run is judged against the sequential specification (linearisation search of checks/C07.py with the
# set-up state as the initial state), the store must reopen to the same contents, a backup image must be a state of
# the run, and A's lock-event sequence is compared with the section model (coq/CC/Sections.v, extracted: T2).
import os, re, json, zlib, subprocess, itertools
from concurrent.futures import ThreadPoolExecutor
import vlib

NDB = 3                   # real databases 0..2; 3..5 are the metadata of database 0..2 seen as a one-key database,
NSLOT = 3 * NDB           # 6..8 the flags of database 0..2 (absent = the database does not exist)
METAKEY = "00"


def hx(s):
    return s.encode().hex() if isinstance(s, str) else s.hex()


def venc(b):
    if not b:
        return "-"
    return b.hex() if len(b) <= 128 else "L%dx%08x" % (len(b), zlib.crc32(b) & 0xFFFFFFFF)


def val_of(spec):
    if spec.startswith("*"):
        n, b = spec[1:].split(":")
        return bytes([int(b, 16)]) * int(n)
    return b"" if spec == "-" else bytes.fromhex(spec)


# ---------------------------------------------------------------------------------------------------------------
# scenarios: name -> (set-up lines, A operation, key of database 0 the B readers/writers aim at, metadata length)
K = hx("k")


def fill(n, sz=20, db=0, pre="k"):
    return ["put %d %s *%d:%02x" % (db, hx("%s%03d" % (pre, i)), sz, 0x30 + i % 40) for i in range(n)]


def a_scenarios(rng=None):
    """name -> (set-up, A operation, key of database 0 the readers/writers of B aim at, key B's delete removes).
    rng = None: the canonical instance; otherwise sizes, fill bytes and key names are drawn inside the same branch."""
    def r(a, b):
        return rng.range(a, b) if rng else (a + b) // 2
    k1 = hx("k" if not rng else "k" + "abcdefgh"[rng.below(8)] * rng.range(0, 6))
    j1 = hx("j" if not rng else "j" + "abcdefgh"[rng.below(8)] * rng.range(0, 6))
    big, small = (200, 8) if not rng else (r(150, 600), r(1, 16))
    mid = 100 if not rng else r(small + 1, big - 40)
    huge = 5000 if not rng else r(3000, 20000)
    nfill = 40 if not rng else r(34, 60)
    pos = 10 if not rng else r(2, 28)
    S = {}
    base = ["dbcreate 0", "dbcreate 1"]
    two = ["put 0 %s *%d:41" % (k1, small), "put 0 %s *%d:45" % (j1, small)]
    S["put_same"] = (base + ["put 0 %s *%d:41" % (k1, mid)], "put 0 %s *%d:43" % (k1, mid), k1, k1)
    S["put_shrink"] = (base + ["put 0 %s *%d:41" % (k1, big)], "put 0 %s *%d:42" % (k1, small), k1, k1)
    S["put_slack"] = (base + ["put 0 %s *%d:41" % (k1, big), "put 0 %s *%d:42" % (k1, small)], "put 0 %s *%d:43" % (k1, mid), k1, k1)
    S["put_beyond"] = (base + two, "put 0 %s *%d:43" % (k1, huge), k1, k1)
    S["put_new"] = (base + ["put 0 %s *%d:41" % (j1, small)], "put 0 %s *%d:43" % (k1, mid), k1, k1)
    # the data block of a node is moved to a larger extent while it already holds pairs (`_kvblk_addkv`, "resize the whole block"):
    # old extent 2^p bytes; B's first put into the EMPTY database 2 asks the allocator for exactly such an extent (b_ops alloc<p>)
    for p_, vs in GROW_SIZES.items():
        v_ = vs if not rng else r(vs, vs + vs // 8)
        S["put_grow%d" % p_] = (base + ["dbcreate 2", "put 0 %s *%d:41" % (j1, v_)], "put 0 %s *%d:43" % (k1, v_), k1, k1)
    S["put_split"] = (base + fill(nfill), "put 0 %s *20:43" % hx("k%03dx" % pos), hx("k%03dx" % pos), hx("k%03dx" % pos))
    S["put_bigself"] = (base + ["put 0 %s *%d:41" % (k1, small)], "put 0 %s *%d:43" % (k1, 300000 if not rng else r(100000, 900000)), k1, k1)
    S["del_simple"] = (base + two, "del 0 %s" % k1, k1, k1)
    S["del_node"] = (base + fill(nfill), "del 0 %s" % hx("k000"), hx("k000"), hx("k000"))
    S["del_lastnode"] = (base + fill(33), "del 0 %s" % hx("k032"), hx("k032"), hx("k032"))
    S["cset_same"] = (base + two[1:] + ["put 0 %s *%d:41" % (k1, mid)], "cset 0 %s *%d:43" % (k1, mid), k1, j1)
    S["cset_slack"] = (base + two[1:] + ["put 0 %s *%d:41" % (k1, big), "put 0 %s *%d:42" % (k1, small)], "cset 0 %s *%d:43" % (k1, mid), k1, j1)
    S["cset_beyond"] = (base + two, "cset 0 %s *%d:43" % (k1, huge), k1, j1)
    S["cdel_simple"] = (base + two, "cdel 0 %s" % k1, k1, j1)
    S["cdel_node"] = (base + fill(nfill), "cdel 0 %s" % hx("k000"), hx("k000"), hx("k005"))
    S["cdel_lastnode"] = (base + fill(33), "cdel 0 %s" % hx("k032"), hx("k032"), hx("k005"))
    S["setmeta_first"] = (base + two, "setmeta 0 *64:4d", k1, k1)
    S["setmeta_over"] = (base + two + ["setmeta 0 *64:4c"], "setmeta 0 *64:4d", k1, k1)
    S["dbcreate"] = (base + two, "dbcreate 2", k1, k1)
    # two iwkv_db callers for the same NEW id with different flags: the loser of the race finds the winner's database under the
    # exclusive lock (round 7: it returned IWKV_ERROR_INCOMPATIBLE_DB_MODE with the store lock held, fixed 107860a)
    S["dbrace"] = (base + two, "dbopen 2 00", k1, k1)
    S["dbrace_rev"] = (base + two, "dbopen 2 01", k1, k1)
    S["dbdestroy"] = (base + two + ["dbcreate 2"] + fill(nfill, db=2), "dbdestroy 2", k1, k1)
    S["sync"] = (base + two, "sync", k1, k1)
    S["checkpoint"] = (base + two, "checkpoint", k1, k1)
    S["backup"] = (base + two + fill(20), "backup", k1, k1)
    S["get_big"] = (base + ["put 0 %s *%d:41" % (k1, 70000 if not rng else r(20000, 200000))], "get 0 %s" % k1, k1, k1)
    S["scan"] = (base + fill(nfill), "scan 0", hx("k010"), hx("k010"))
    return S


# operations whose log records publish stores into the mapping (the trace comparison with the model applies to them)
DATA_OPS = ("put", "del", "cset", "cdel", "setmeta", "dbcreate", "dbopen", "dbdestroy")
# scenarios in which the unchanged library writes a log record with no lock held that excludes a remap
# (_sblk_destroy: `onset` behind release_mmap, notes/conc.md): upper bound of such records per operation
UNGUARDED_KNOWN = {}    # _sblk_destroy logged behind release_mmap until 5ef9921 (fixed entry in known_findings.json)


# value sizes whose first record gets a data block of 2^p bytes
GROW_SIZES = {9: 8, 10: 600, 11: 1500, 12: 3000}


def b_ops(key, delkey=None, scen=""):
    extra = {}
    if scen.startswith("put_grow"):
        for p_, vs in GROW_SIZES.items():
            extra["alloc%d" % p_] = "put 2 %s *%d:6d" % (hx("m"), vs)
    if scen in ("dbrace", "dbcreate"):
        extra["dbopen_other"] = "dbopen 2 01"
    elif scen == "dbrace_rev":
        extra["dbopen_other"] = "dbopen 2 00"
    if scen.startswith("dbrace"):
        extra["dbopen_same"] = "dbopen 2 " + ("00" if scen == "dbrace" else "01")
    return dict(extra, **{"grow": "grow 1 %s" % hx("g"), "get": "get 0 %s" % key, "scan": "scan 0", "put_same": "put 0 %s *30:62" % key,
            "put_other": "put 0 %s *30:62" % hx("zz"), "del": "del 0 %s" % (delkey or key), "checkpoint": "checkpoint", "sync": "sync"})


def script(path, wal, setup, a, b, kfrom=0, kto=0, post=()):
    L = ["cfg %s %d 64" % (path, wal)] + ["s " + s for s in setup] + ["a " + a]
    if b:
        L.append("b " + b)
    L += ["p " + p for p in post]
    L.append("run %d %d" % (kfrom, kto))
    return L


def run_script(exe, lines, timeout=300, env=None):
    try:
        p = subprocess.run([exe], input=("\n".join(lines) + "\n").encode(), stdout=subprocess.PIPE, stderr=subprocess.PIPE,
                           timeout=timeout, env=env)
        return p.returncode, p.stdout.decode("latin-1").split("\n"), p.stderr.decode("latin-1")[-600:]
    except subprocess.TimeoutExpired as e:
        return 124, (e.stdout or b"").decode("latin-1").split("\n"), "timeout"


def parse_runs(out):
    """-> list of dicts per k: head fields, ev, calls, final, reopen, backup, bad (protocol-level failures)"""
    runs, cur, loose = [], None, []
    for l in out:
        f = l.split()
        if not f:
            continue
        if f[0] == "RUN":
            cur = {"k": int(f[1]), "ev": [], "calls": [], "FINAL": {}, "REOPEN": {}, "BACKUP": {}, "bad": [], "ended": False}
            for kv in f[2:]:
                a, b = kv.split("=", 1)
                cur[a] = b
            runs.append(cur)
        elif f[0] in ("HANG", "CRASH", "OPENERR", "SETUPERR", "CLOSEERR", "REOPENERR", "BACKUPOPENERR"):
            (cur["bad"] if cur is not None and not cur["ended"] else loose).append(l)
        elif cur is None:
            continue
        elif f[0] == "EV":
            cur["ev"] = f[1:]
        elif f[0] == "MAPDIFF":
            cur["mapdiff"] = l
        elif f[0] == "MAPERR":
            cur["bad"].append(l)
        elif f[0] in ("FINAL", "REOPEN", "BACKUP"):
            cur[f[0]][int(f[1])] = f[2]
        elif f[0] == "END":
            cur["ended"] = True
        elif f[0] == "HELD":
            cur.setdefault("held", []).append("%s: `%s` returned holding %s" % ("ABP"[int(f[1])] if f[1] in "012" else f[1], f[2], f[3]))
        elif f[0] == "ALLOC":
            cur["alloc"] = int(f[1])
        elif f[0] in ("0", "1", "2") and len(f) >= 8:
            cur["calls"].append({"tid": int(f[0]), "inv": int(f[1]), "res": int(f[2]), "kind": f[3], "db": int(f[4]),
                                 "k": f[5], "v": f[6], "ans": f[7]})
    return runs, loose


# ---------------------------------------------------------------------------------------------------------------
# sequential specification (the one of checks/C07.py, with the operations of this harness mapped onto it)
def norm_call(c):
    """harness call -> call of the specification in C07.apply"""
    kind, d = c["kind"], c["db"]
    o = dict(c)
    if kind == "grow":
        o["kind"] = "put"
    elif kind == "cdel":
        o["kind"] = "del"
    elif kind == "setmeta":
        o.update(kind="put", db=NDB + d, k=METAKEY)
    elif kind == "getmeta":
        o.update(kind="get", db=NDB + d, k=METAKEY)
    elif kind == "backup":
        o["kind"] = "opendb"
    elif kind in ("dbcreate", "dbopen"):     # iwkv_db(id, flags): creates, finds, or refuses a database that has other flags
        o.update(kind="dbopen", fslot=2 * NDB + d, flags="00" if kind == "dbcreate" or o["k"] in ("-", "") else o["k"])
    elif kind == "dbdestroy":
        o["clear"] = [d, NDB + d, 2 * NDB + d]
    if o["kind"] == "put" and o["v"] == "-":
        o["v"] = ""
    return o


def spec_call(line):
    """a set-up / operation line of a script -> specification call (values in canonical text)"""
    f = line.split()
    c = {"kind": f[0], "db": int(f[1]) if len(f) > 1 else -1, "k": "-", "v": "-", "ans": None, "tid": -1}
    if f[0] == "setmeta":
        c["v"] = venc(val_of(f[2]))
    else:
        if len(f) > 2:
            c["k"] = f[2]
        if len(f) > 3:
            c["v"] = venc(val_of(f[3]))
    return norm_call(c)


def dump_of(state, d):
    items = sorted(state[d], key=lambda kv: bytes.fromhex(kv[0]), reverse=True)
    return "".join("%s=%s," % (k, v) for k, v in items) or "-"


def final_of(run, tag):
    """harness dump lines -> the text form C07.linearizable compares (metadata as a one-key database)"""
    out = {}
    for d in range(NSLOT):
        s = run[tag].get(d)
        if s is None:
            return None
        out[d] = s if d < NDB or s == "-" else "%s=%s," % (METAKEY, s)
    return out


def judge(C07, run, init, a_line, b_line, npost=0):
    """None or the reason why this execution contradicts the property"""
    if run["bad"]:
        return "the run did not complete: %s" % run["bad"][:2]
    if run.get("held"):
        return ("an API call returned to its caller with a lock still held by the calling thread (%s): every later call that needs the lock "
                "waits for ever" % "; ".join(run["held"]))
    if not run["ended"]:
        return "the run did not complete (no END line)"
    ncalls = 1 + (1 if b_line else 0) + npost
    if len(run["calls"]) != ncalls:
        return "a call did not return (%d of %d call records)" % (len(run["calls"]), ncalls)
    for c in run["calls"]:
        if re.match(r"^(E\d+|NODB|NORETURN|\?)$", c["ans"]):
            return "call %s of thread %s failed: %s" % (c["kind"], "ABP"[c["tid"]], c["ans"])
    calls = [norm_call(c) for c in run["calls"]]
    final = final_of(run, "FINAL")
    if final is None:
        return "final dump incomplete"
    if not C07.linearizable(calls, NSLOT, final, init=init):
        return ("no sequential order of the calls explains the answers and the final contents (B ran at lock release %s of A: %s)"
                % (run["k"], run.get("bwin")))
    reo = final_of(run, "REOPEN")
    if reo != final:
        d = [i for i in range(NSLOT) if reo is None or reo.get(i) != final[i]]
        return "the store does not reopen to the contents it had before the close (database slots %s differ)" % d
    # states of the run: every order of every subset of the calls
    states = set()
    ab = [c for c in calls if c["tid"] in (0, 1)]
    for n in range(len(ab) + 1):
        for perm in itertools.permutations(ab, n):
            st = init
            for c in perm:
                st = C07.apply(st, c)[1]
            states.add(tuple(dump_of(st, d) for d in range(NSLOT)))
    # a scan that ran while the other thread stood still is one atomic read
    if run.get("bwin") in ("done", "none"):
        for c in run["calls"]:
            if c["kind"] == "scan" and c["tid"] == 1 and c["ans"] not in {s[c["db"]] for s in states}:
                return "a scan that ran while the other thread was stopped between two critical sections saw a state no order of the calls produces"
    if run["BACKUP"]:
        b = final_of(run, "BACKUP")
        if b is None or tuple(b[d] for d in range(NSLOT)) not in states:
            return "the backup image is not a state of the run"
    elif a_line.split()[0] == "backup" and run.get("wal") == "1":
        return "no backup image"
    return None


def init_state(C07, setup):
    st = tuple(() for _ in range(NSLOT))
    for s in setup:
        st = C07.apply(st, spec_call(s))[1]
    return st


# ---------------------------------------------------------------------------------------------------------------
def model_predictions(model, jobs_traces):
    """one model process: for every (wal, kmax, events) the unguarded-record count, segment count and the stale bits"""
    inp = "\n".join("%d %d %s" % (w, km, " ".join(ev)) for w, km, ev in jobs_traces) + "\n"
    p = subprocess.run([model], input=inp.encode(), stdout=subprocess.PIPE, stderr=subprocess.PIPE, timeout=600)
    out = p.stdout.decode().split("\n")
    res = []
    for i in range(len(jobs_traces)):
        f = out[i].split() if i < len(out) else []
        res.append((int(f[0]), int(f[1]), f[2], int(f[3])) if len(f) == 4 and f[0].isdigit() else None)
    return res


def history_of(run):
    return ["%s: %s %s key=%s value=%s -> %s   [invoked %d, returned %d]" % ("ABP"[c["tid"]], c["kind"], c["db"], c["k"][:40], c["v"][:70],
                                                                             c["ans"][:120], c["inv"], c["res"]) for c in run["calls"]]


def stage(run, C07, work, nrandom, open_findings=False, workers=12, all_b=False):
    """the explorer: every (A, B) pair x WAL mode x every lock release of A"""
    exe = vlib.build_harness("h_preempt")
    try:
        model = vlib.build_model("conc")
    except vlib.BuildError as e:
        run.broken.append("T2: the section model does not build: %s" % str(e)[-300:])
        model = None
    # earlier failures first (corpus/C07/*.json of kind preempt): one (A, B, k) each
    cdir = os.path.join(vlib.VERIF, "corpus", "C07")
    for fn in sorted(os.listdir(cdir)) if os.path.isdir(cdir) else []:
        try:
            r = json.load(open(os.path.join(cdir, fn)))
        except (OSError, ValueError):
            continue
        if r.get("kind") != "preempt" or (r.get("class") == "sblk-destroy-late-log" and not open_findings):
            continue
        rc, out, err = run_script(exe, script(os.path.join(work, "corpus.db"), r["wal"], r["setup"], r["a"], r["b"], r["k"], -1, r.get("post", ())))
        runs, loose = parse_runs(out)
        run.case("corpus|" + fn, nontrivial=True)
        run.dist("preempt corpus")
        why = None
        if rc != 0 or loose or not runs:
            why = "the process did not survive (exit %s)" % rc
        else:
            runs[0]["wal"] = str(r["wal"])
            why = judge(C07, runs[0], init_state(C07, r["setup"]), r["a"], r["b"], len(r.get("post", ())))
            if not why and r.get("allocated_blocks_without_the_race") is not None and runs[0].get("alloc") != r["allocated_blocks_without_the_race"]:
                why = "blocks stay allocated that no record needs (%s, %s without the race)" % (runs[0].get("alloc"), r["allocated_blocks_without_the_race"])
        if why:
            rep = {k: r[k] for k in ("kind", "pair", "wal", "setup", "a", "b", "k", "post", "class") if k in r}
            rep.update(history=history_of(runs[0]) if runs else [], harness="h_preempt", corpus=fn)
            run.violation(rep, "corpus %s: A = `%s`, B = `%s`, WAL %s, B released at lock release %d of A: %s"
                          % (fn, r["a"][:60], r["b"][:40], "on" if r["wal"] else "off", r["k"], why))
    jobs = []
    inst = [("", a_scenarios())]
    for i in range(nrandom):
        inst.append(("#%d" % (i + 1), a_scenarios(run.rng.fork())))
    for tag_, S in inst:
        for name in sorted(S):
            setup, a, key, dk = S[name]
            for bn, b in sorted(b_ops(key, dk, name).items()):
                for wal in (0, 1):
                    if name == "backup" and bn == "grow" and wal == 1 and not open_findings:
                        run.dist("preempt: backup x grow skipped (known finding C08-growth-during-main-copy)")
                        continue
                    if tag_ and not all_b and bn not in ("grow", "put_other", "get", "dbopen_other") and not bn.startswith("alloc"):     # randomised instances: the B operations that get through
                        continue
                    jobs.append({"name": name + tag_, "scen": name, "bn": bn, "wal": wal, "setup": setup, "a": a, "b": b,
                                 "path": os.path.join(work, "pe%d.db" % len(jobs))})

    def work_fn(j):
        rc, out, err = run_script(exe, script(j["path"], j["wal"], j["setup"], j["a"], j["b"], 0, 0))
        for suf in ("", "-wal", ".bkp", ".bkp-wal"):
            try:
                os.unlink(j["path"] + suf)
            except OSError:
                pass
        return rc, out, err

    with ThreadPoolExecutor(workers) as ex:
        results = list(ex.map(work_fn, jobs))

    traces, tidx = [], {}
    parsed = []
    for j, (rc, out, err) in zip(jobs, results):
        runs, loose = parse_runs(out)
        parsed.append((runs, loose))
        if model and runs and j["a"].split()[0] in DATA_OPS:
            tidx[len(parsed) - 1] = len(traces)
            traces.append((j["wal"], int(runs[0].get("nrel", "0")), runs[0]["ev"]))
    preds = model_predictions(model, traces) if model and traces else []
    # lock balance of A's call in every execution, judged by the extracted model (CC/Balance.v trace_balanced) on the recorded events
    bal = {}
    if model:
        keys = [(ji, ri) for ji, (runs, _) in enumerate(parsed) for ri, r in enumerate(runs) if r["ended"] and len(r["ev"]) < 16000]
        inp = "\n".join("B " + " ".join(parsed[ji][0][ri]["ev"]) for ji, ri in keys) + "\n"
        p = subprocess.run([model], input=inp.encode(), stdout=subprocess.PIPE, stderr=subprocess.PIPE, timeout=600)
        outl = p.stdout.decode().split("\n")
        for n, key in enumerate(keys):
            bal[key] = outl[n].strip() if n < len(outl) else "?"

    nviol = 0
    stale_seen = 0
    for ji, (j, (rc, out, err), (runs, loose)) in enumerate(zip(jobs, results, parsed)):
        init = init_state(C07, j["setup"])
        base = {"kind": "preempt", "pair": [j["name"], j["bn"]], "wal": j["wal"], "setup": j["setup"], "a": j["a"], "b": j["b"],
                "harness": "h_preempt"}
        run.dist("preempt A=" + j["scen"], len(runs))
        run.dist("preempt B=" + j["bn"], len(runs))
        if rc != 0 or loose or "DONE" not in out:
            k = len(runs) - (0 if runs and runs[-1]["ended"] else 1) if runs else 0
            tail = [o for o in out if o][-3:]
            cls = "growth-during-main-copy" if j["scen"] == "backup" and j["bn"] == "grow" else "crash"
            run.violation(dict(base, k=max(k, 0), history=tail, stderr=err[-300:], **{"class": cls}),
                          "preemption explorer: A = `%s`, B = `%s`, WAL %s: the process did not survive B running at lock release %d of A "
                          "(exit %s, %s)" % (j["a"][:60], j["b"][:40], "on" if j["wal"] else "off", max(k, 0), rc, (loose or tail)[:2]))
            nviol += 1
        pred = preds[tidx[ji]] if ji in tidx and tidx[ji] < len(preds) else None
        if ji in tidx and pred is None and model:
            run.broken.append("T2: no model answer for the lock trace of `%s`" % j["a"][:60])
        if pred is not None:
            ung = pred[0]
            if ung:
                run.cov["log_records_outside_remap_exclusion"] = run.cov.get("log_records_outside_remap_exclusion", 0) + 1
            if j["wal"] and pred[3]:
                run.broken.append("T2 outer locks: `%s` (%s) writes %d log record(s) while holding neither its database lock for writing nor the "
                                  "exclusive store lock (hypothesis well_locked of the section theorems)" % (j["a"][:50], j["name"], pred[3]))
            if j["wal"] and ung > UNGUARDED_KNOWN.get(j["scen"], 0):
                run.broken.append("T2 publication discipline: `%s` (%s) writes %d log record(s) while holding no lock that excludes a remap by "
                                  "another thread (file lock, allocator lock, exclusive store lock); the section model has %d for this operation"
                                  % (j["a"][:50], j["name"], ung, UNGUARDED_KNOWN.get(j["scen"], 0)))
        for ri, r in enumerate(runs):
            r["wal"] = str(j["wal"])
            bw = r.get("bwin", "?").split(":")[0]
            mb = bal.get((ji, ri))
            if mb is not None:
                a_held = any(h.startswith("A:") for h in r.get("held", []))
                if mb not in ("0", "1") or (mb == "1") == a_held:
                    run.broken.append("T2 lock balance: A = `%s`, k = %d: the model says the recorded lock events of the call are %s, the harness "
                                      "found %s held at its return" % (j["a"][:50], r["k"], {"1": "balanced", "0": "not balanced"}.get(mb, mb),
                                                                       "a lock" if a_held else "nothing"))
            run.dist("preempt window=" + bw)
            run.case("preempt|%s|%s|%d|%d" % (j["name"], j["bn"], j["wal"], r["k"]), nontrivial=True,
                     sample={"A": j["a"][:60], "B": j["b"][:40], "wal": j["wal"], "k": r["k"], "window": r.get("bwin")} if r["k"] == 3 else None)
            why = judge(C07, r, init, j["a"], j["b"])
            md = r.get("mapdiff")
            if why:
                rep = dict(base, k=r["k"], window=r.get("bwin"), history=history_of(r), final=r["FINAL"], reopen=r["REOPEN"],
                           mapping_vs_log=md, lock_events_of_A=" ".join(r["ev"])[:1500], held=r.get("held"),
                           **{"class": "lock-leak" if r.get("held") else "atomicity"})
                if run.violation(rep, "preemption explorer: A = `%s`, B = `%s`, WAL %s, B released at lock release %d of A (%s): %s"
                                 % (j["a"][:60], j["b"][:40], "on" if j["wal"] else "off", r["k"], r.get("bwin"), why)):
                    nviol += 1
            else:
                run.cov["traces_validated_against_impl"] += 1
            # T2: the model's prediction "mapping differs from file + log" against the implementation, per hand-over point
            if j["wal"] and (md or pred is not None):
                possible = pred is not None and j["bn"] == "grow" and r["k"] < len(pred[2]) and pred[2][r["k"]] == "1"
                predicted = possible and bw == "done" and r.get("grew") == "1"
                if possible and md:
                    stale_seen += 1
                    note = ("`%s` with a file growth by another thread at lock release %d: %s (bytes of the mapping that the file and the log do "
                            "not hold; the section model predicts it from the lock trace: a log record written behind release_mmap)"
                            % (j["a"][:50], r["k"], md))
                    if j["scen"] in UNGUARDED_KNOWN and not why:
                        if open_findings:
                            run.violation(dict(base, k=r["k"], window=r.get("bwin"), history=history_of(r), mapping_vs_log=md,
                                               lock_events_of_A=" ".join(r["ev"])[:1500], **{"class": "sblk-destroy-late-log"}), note)
                        else:
                            run.notes.append("open finding (VERIF_CONC_OPEN=1 reports it): " + note)
                elif md and not possible and not why:
                    run.broken.append("T2 correspondence: A = `%s`, B = `%s`, k = %d (%s): %s - the mapping at rest is not what the file and the log hold, "
                                      "the section model predicts no such state from the lock trace" % (j["a"][:50], j["b"][:30], r["k"], r.get("bwin"), md))
                elif predicted and not md:
                    run.broken.append("T2 correspondence: A = `%s`, B = grow, k = %d: the section model predicts stale mapping bytes, the implementation shows none"
                                      % (j["a"][:50], r["k"]))
    if open_findings:
        leak_probe(run, C07, exe, work)
    run.cov["preempt_pairs"] = len(jobs)
    run.cov["preempt_stale_predictions_confirmed"] = stale_seen
    return nviol


def leak_probe(run, C07, exe, work):
    """open finding `_sblk_destroy` (log record behind release_mmap): what the stale byte costs.  The node of k032 is removed with
    a file growth by thread B between the store and its log record; afterwards every other record of the page's nodes is deleted:
    the page is never given back to the allocator (compare the allocated block count with the run without the race)."""
    setup, a, key, dk = a_scenarios()["del_lastnode"]
    b = b_ops(key, dk)["grow"]
    post = ["del 0 %s" % hx("k%03d" % i) for i in range(32)] + ["checkpoint"]
    init = init_state(C07, setup)
    rc, out, err = run_script(exe, script(os.path.join(work, "leak.db"), 1, setup, a, b, 0, 0, post))
    runs, loose = parse_runs(out)
    base = [r for r in runs if r["k"] == 0 and "alloc" in r]
    for r in runs:
        r["wal"] = "1"
        if base and "alloc" in r and r["alloc"] != base[0]["alloc"] and not judge(C07, r, init, a, b, len(post)):
            run.violation({"kind": "preempt", "pair": ["del_lastnode", "grow"], "wal": 1, "setup": setup, "a": a, "b": b, "post": post, "k": r["k"],
                           "window": r.get("bwin"), "history": history_of(r)[:2], "allocated_blocks": r["alloc"],
                           "allocated_blocks_without_the_race": base[0]["alloc"], "harness": "h_preempt", "class": "sblk-destroy-late-log"},
                          "space leak: `%s` with a file growth by another thread at lock release %d of the delete, then every other record of the "
                          "database deleted: %d blocks stay allocated, %d without the race (the page of the removed nodes is never released: the "
                          "slot byte cleared by _sblk_destroy was not logged when the mapping was replaced)" % (a, r["k"], r["alloc"], base[0]["alloc"]))
            return


def replay_one(C07, r, times=3):
    """re-runs the recorded (A, B, k, WAL mode) and judges it"""
    import tempfile, shutil
    exe = vlib.build_harness("h_preempt")
    work = tempfile.mkdtemp(prefix="iwkv-C07p-")
    bad = 0
    try:
        for _ in range(times):
            rc, out, err = run_script(exe, script(os.path.join(work, "r.db"), r["wal"], r["setup"], r["a"], r["b"], r["k"], -1, r.get("post", ())))
            runs, loose = parse_runs(out)
            print("A = %s | B = %s | WAL %s | B released at lock release %d of A" % (r["a"][:80], r["b"][:60], "on" if r["wal"] else "off", r["k"]))
            if rc != 0 or loose or not runs:
                print("VIOLATES: the process did not survive (exit %s) %s" % (rc, (loose or [o for o in out if o][-2:])))
                bad = 1
                break
            run_ = runs[0]
            run_["wal"] = str(r["wal"])
            why = judge(C07, run_, init_state(C07, r["setup"]), r["a"], r["b"], len(r.get("post", ())))
            for h in history_of(run_)[:4]:
                print("  " + h)
            if r.get("allocated_blocks_without_the_race") is not None:
                print("  allocated blocks: %s (recorded: %s with the race, %s without)" % (run_.get("alloc"), r.get("allocated_blocks"), r["allocated_blocks_without_the_race"]))
                if run_.get("alloc") != r["allocated_blocks_without_the_race"]:
                    why = why or "blocks stay allocated that no record needs"
            print("  final: %s" % {d: v[:100] for d, v in run_["FINAL"].items() if v != "-"})
            if run_.get("mapdiff"):
                print("  " + run_["mapdiff"])
            if why or (r.get("class") == "sblk-destroy-late-log" and run_.get("mapdiff")):
                print("VIOLATES:", why or "mapping bytes at rest differ from file + log")
                bad = 1
                break
    finally:
        shutil.rmtree(work, ignore_errors=True)
    print("violation reproduced" if bad else "not reproduced")
    return bad
