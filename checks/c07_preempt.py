# C07 - systematic preemption explorer (harness/h_preempt.c).
# For a pair (A-operation, B-operation) and a WAL mode the harness runs A with B released at the k-th lock release of A,
# for every k.  Each run is judged against the sequential specification (linearisation search of checks/C07.py with the
# set-up state as the initial state), the store must reopen to the same contents, a backup image must be a state of
# the run, and A's lock-event sequence is compared with the section model (coq/CC/Sections.v, extracted: T2).
import os, re, json, zlib, subprocess, itertools
from concurrent.futures import ThreadPoolExecutor
import vlib

NDB = 3                   # real databases 0..2; 3..5 are the metadata of database 0..2 seen as a one-key database
METAKEY = "00"


def hx(s):
    return s.encode().hex() if isinstance(s, str) else s.hex()


def venc(b):
    if not b:
        return "-"
    return b.hex() if len(b) <= 128 else "L%dx%08x" % (len(b), zlib.crc32(b) & 0xFFFFFFFF)


def val_of(spec):
    if spec.startswith("*"):
        n, b = spec[1:].split(":")
        return bytes([int(b, 16)]) * int(n)
    return b"" if spec == "-" else bytes.fromhex(spec)


# ---------------------------------------------------------------------------------------------------------------
# scenarios: name -> (set-up lines, A operation, key of database 0 the B readers/writers aim at, metadata length)
K = hx("k")


def fill(n, sz=20, db=0, pre="k"):
    return ["put %d %s *%d:%02x" % (db, hx("%s%03d" % (pre, i)), sz, 0x30 + i % 40) for i in range(n)]


def a_scenarios():
    S = {}
    base = ["dbcreate 0", "dbcreate 1"]
    S["put_same"] = (base + ["put 0 %s *100:41" % K], "put 0 %s *100:43" % K, K)
    S["put_shrink"] = (base + ["put 0 %s *200:41" % K], "put 0 %s *8:42" % K, K)
    S["put_slack"] = (base + ["put 0 %s *200:41" % K, "put 0 %s *8:42" % K], "put 0 %s *100:43" % K, K)
    S["put_beyond"] = (base + ["put 0 %s *8:41" % K, "put 0 %s *8:45" % hx("j")], "put 0 %s *5000:43" % K, K)
    S["put_new"] = (base + ["put 0 %s *8:41" % hx("j")], "put 0 %s *50:43" % K, K)
    S["put_split"] = (base + fill(40), "put 0 %s *20:43" % hx("k010x"), hx("k010x"))
    S["put_bigself"] = (base + ["put 0 %s *8:41" % K], "put 0 %s *300000:43" % K, K)
    S["del_simple"] = (base + ["put 0 %s *8:41" % K, "put 0 %s *8:45" % hx("j")], "del 0 %s" % K, K)
    S["del_node"] = (base + fill(40), "del 0 %s" % hx("k000"), hx("k000"))
    S["del_lastnode"] = (base + fill(33), "del 0 %s" % hx("k032"), hx("k032"))
    S["cset_same"] = (base + ["put 0 %s *100:41" % K], "cset 0 %s *100:43" % K, K)
    S["cset_slack"] = (base + ["put 0 %s *200:41" % K, "put 0 %s *8:42" % K], "cset 0 %s *100:43" % K, K)
    S["cset_beyond"] = (base + ["put 0 %s *8:41" % K, "put 0 %s *8:45" % hx("j")], "cset 0 %s *5000:43" % K, K)
    S["cdel_simple"] = (base + ["put 0 %s *8:41" % K, "put 0 %s *8:45" % hx("j")], "cdel 0 %s" % K, K)
    S["cdel_node"] = (base + fill(40), "cdel 0 %s" % hx("k000"), hx("k000"))
    S["setmeta_first"] = (base + ["put 0 %s *8:41" % K], "setmeta 0 *64:4d", K)
    S["setmeta_over"] = (base + ["put 0 %s *8:41" % K, "setmeta 0 *64:4c"], "setmeta 0 *64:4d", K)
    S["dbcreate"] = (base + ["put 0 %s *8:41" % K], "dbcreate 2", K)
    S["dbdestroy"] = (base + ["put 0 %s *8:41" % K, "dbcreate 2"] + fill(40, db=2), "dbdestroy 2", K)
    S["sync"] = (base + ["put 0 %s *8:41" % K], "sync", K)
    S["checkpoint"] = (base + ["put 0 %s *8:41" % K], "checkpoint", K)
    S["backup"] = (base + ["put 0 %s *8:41" % K] + fill(20), "backup", K)
    S["get_big"] = (base + ["put 0 %s *70000:41" % K], "get 0 %s" % K, K)
    S["scan"] = (base + fill(40), "scan 0", hx("k010"))
    return S


def b_ops(key):
    return {"grow": "grow 1 %s" % hx("g"), "get": "get 0 %s" % key, "scan": "scan 0", "put_same": "put 0 %s *30:62" % key,
            "put_other": "put 0 %s *30:62" % hx("zz"), "del": "del 0 %s" % key, "checkpoint": "checkpoint", "sync": "sync"}


def script(path, wal, setup, a, b, kfrom=0, kto=0):
    L = ["cfg %s %d 64" % (path, wal)] + ["s " + s for s in setup] + ["a " + a]
    if b:
        L.append("b " + b)
    L.append("run %d %d" % (kfrom, kto))
    return L


def run_script(exe, lines, timeout=300, env=None):
    try:
        p = subprocess.run([exe], input=("\n".join(lines) + "\n").encode(), stdout=subprocess.PIPE, stderr=subprocess.PIPE,
                           timeout=timeout, env=env)
        return p.returncode, p.stdout.decode("latin-1").split("\n"), p.stderr.decode("latin-1")[-600:]
    except subprocess.TimeoutExpired as e:
        return 124, (e.stdout or b"").decode("latin-1").split("\n"), "timeout"


def parse_runs(out):
    """-> list of dicts per k: head fields, ev, calls, final, reopen, backup, bad (protocol-level failures)"""
    runs, cur, loose = [], None, []
    for l in out:
        f = l.split()
        if not f:
            continue
        if f[0] == "RUN":
            cur = {"k": int(f[1]), "ev": [], "calls": [], "FINAL": {}, "REOPEN": {}, "BACKUP": {}, "bad": [], "ended": False}
            for kv in f[2:]:
                a, b = kv.split("=", 1)
                cur[a] = b
            runs.append(cur)
        elif f[0] in ("HANG", "CRASH", "OPENERR", "SETUPERR", "CLOSEERR", "REOPENERR", "BACKUPOPENERR"):
            (cur["bad"] if cur is not None and not cur["ended"] else loose).append(l)
        elif cur is None:
            continue
        elif f[0] == "EV":
            cur["ev"] = f[1:]
        elif f[0] == "MAPDIFF":
            cur["mapdiff"] = l
        elif f[0] == "MAPERR":
            cur["bad"].append(l)
        elif f[0] in ("FINAL", "REOPEN", "BACKUP"):
            cur[f[0]][int(f[1])] = f[2]
        elif f[0] == "END":
            cur["ended"] = True
        elif f[0] in ("0", "1") and len(f) >= 8:
            cur["calls"].append({"tid": int(f[0]), "inv": int(f[1]), "res": int(f[2]), "kind": f[3], "db": int(f[4]),
                                 "k": f[5], "v": f[6], "ans": f[7]})
    return runs, loose


# ---------------------------------------------------------------------------------------------------------------
# sequential specification (the one of checks/C07.py, with the operations of this harness mapped onto it)
def norm_call(c):
    """harness call -> call of the specification in C07.apply"""
    kind, d = c["kind"], c["db"]
    o = dict(c)
    if kind == "grow":
        o["kind"] = "put"
    elif kind == "cdel":
        o["kind"] = "del"
    elif kind == "setmeta":
        o.update(kind="put", db=NDB + d, k=METAKEY)
    elif kind == "getmeta":
        o.update(kind="get", db=NDB + d, k=METAKEY)
    elif kind in ("dbcreate", "backup"):
        o["kind"] = "opendb"
    elif kind == "dbdestroy":
        o["clear"] = [d, NDB + d]
    if o["kind"] == "put" and o["v"] == "-":
        o["v"] = ""
    return o


def spec_call(line):
    """a set-up / operation line of a script -> specification call (values in canonical text)"""
    f = line.split()
    c = {"kind": f[0], "db": int(f[1]) if len(f) > 1 else -1, "k": "-", "v": "-", "ans": None, "tid": -1}
    if f[0] == "setmeta":
        c["v"] = venc(val_of(f[2]))
    else:
        if len(f) > 2:
            c["k"] = f[2]
        if len(f) > 3:
            c["v"] = venc(val_of(f[3]))
    return norm_call(c)


def dump_of(state, d):
    items = sorted(state[d], key=lambda kv: bytes.fromhex(kv[0]), reverse=True)
    return "".join("%s=%s," % (k, v) for k, v in items) or "-"


def final_of(run, tag):
    """harness dump lines -> the text form C07.linearizable compares (metadata as a one-key database)"""
    out = {}
    for d in range(2 * NDB):
        s = run[tag].get(d)
        if s is None:
            return None
        out[d] = s if d < NDB or s == "-" else "%s=%s," % (METAKEY, s)
    return out


def judge(C07, run, init, a_line, b_line):
    """None or the reason why this execution contradicts the property"""
    if run["bad"]:
        return "the run did not complete: %s" % run["bad"][:2]
    if not run["ended"]:
        return "the run did not complete (no END line)"
    ncalls = 1 + (1 if b_line else 0)
    if len(run["calls"]) != ncalls:
        return "a call did not return (%d of %d call records)" % (len(run["calls"]), ncalls)
    for c in run["calls"]:
        if re.match(r"^(E\d+|NODB|NORETURN|\?)$", c["ans"]):
            return "call %s of thread %s failed: %s" % (c["kind"], "AB"[c["tid"]], c["ans"])
    calls = [norm_call(c) for c in run["calls"]]
    final = final_of(run, "FINAL")
    if final is None:
        return "final dump incomplete"
    if not C07.linearizable(calls, 2 * NDB, final, init=init):
        return ("no sequential order of the calls explains the answers and the final contents (B ran at lock release %s of A: %s)"
                % (run["k"], run.get("bwin")))
    reo = final_of(run, "REOPEN")
    if reo != final:
        d = [i for i in range(2 * NDB) if reo is None or reo.get(i) != final[i]]
        return "the store does not reopen to the contents it had before the close (database slots %s differ)" % d
    # states of the run: every order of every subset of the calls
    states = set()
    for n in range(len(calls) + 1):
        for perm in itertools.permutations(calls, n):
            st = init
            for c in perm:
                st = C07.apply(st, c)[1]
            states.add(tuple(dump_of(st, d) for d in range(2 * NDB)))
    # a scan that ran while the other thread stood still is one atomic read
    if run.get("bwin") in ("done", "none"):
        for c in run["calls"]:
            if c["kind"] == "scan" and c["tid"] == 1 and c["ans"] not in {s[c["db"]] for s in states}:
                return "a scan that ran while the other thread was stopped between two critical sections saw a state no order of the calls produces"
    if run["BACKUP"]:
        b = final_of(run, "BACKUP")
        if b is None or tuple(b[d] for d in range(2 * NDB)) not in states:
            return "the backup image is not a state of the run"
    elif a_line.split()[0] == "backup" and run.get("wal") == "1":
        return "no backup image"
    return None


def init_state(C07, setup):
    st = tuple(() for _ in range(2 * NDB))
    for s in setup:
        st = C07.apply(st, spec_call(s))[1]
    return st
