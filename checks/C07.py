# C07 - concurrent API calls are atomic and cannot deadlock
#  theorem side: coq/CC/KvLocks*.v (lock skeleton LTS, deadlock freedom under the rank discipline);
#  T1: the rank order of the lock macros is re-read from the source on every run (gen_facts LOCALS / regex below);
#  implementation side: threads run generated short programs; every call is stamped at invocation and response;
#  the oracle searches for a linearisation (Wing-Gong) and a watchdog reports a hung call.
import os, re, json, tempfile, shutil, subprocess, sys
from concurrent.futures import ThreadPoolExecutor
import vlib
sys.path.insert(0, os.path.dirname(os.path.abspath(__file__)))
import c07_preempt

LEVEL = "proof"
KEYS = [b"a", b"b", b"c", b"k" * 40]


def lock_order_facts():
    """the store lock is taken before the database lock and released after it, in every API macro"""
    txt = open(os.path.join(vlib.REPO, "src", "kv", "iwkv_internal.h")).read()
    bad = []
    for name, inner in (("API_DB_RLOCK", "pthread_rwlock_rdlock(&(db_)->rwl)"), ("API_DB_WLOCK", "pthread_rwlock_wrlock(&(db_)->rwl)")):
        m = re.search(r"#define %s\(.*?\n\n" % name, txt, re.S)
        if not m:
            bad.append("%s not found" % name)
            continue
        body = m.group(0)
        i, j = body.find("API_RLOCK((db_)->iwkv"), body.find(inner)
        if i < 0 or j < 0 or not i < j:
            bad.append("%s: store lock is not taken before the database lock" % name)
    m = re.search(r"#define API_DB_UNLOCK\(.*?\n\n", txt, re.S)
    if not m or not (0 <= m.group(0).find("pthread_rwlock_unlock(&(db_)->rwl)") < m.group(0).find("API_UNLOCK((db_)->iwkv")):
        bad.append("API_DB_UNLOCK: database lock is not released before the store lock")
    return bad


def gen(rng, path):
    nt = rng.range(2, 4)
    ndb = 3                      # database 0 exists before the threads start; 1 and 2 are opened/created concurrently
    lines = ["cfg %s %d 1" % (path, rng.below(2))]
    for t in range(nt):
        opened = {0}
        for _ in range(rng.range(2, 5)):
            kind = rng.weighted([("put", 5), ("get", 4), ("del", 3), ("scan", 2), ("sync", 1), ("checkpoint", 1), ("hold", 1)])
            d = rng.weighted([(0, 3), (1, 3), (2, 1)])
            if kind not in ("sync", "checkpoint") and d not in opened:
                lines.append("t %d opendb %d" % (t, d))
                opened.add(d)
            k = rng.choice(KEYS)
            if kind == "put":
                v = rng.bytes(rng.choice([1, 4, 300, 2000]))
                lines.append("t %d put %d %s %s" % (t, d, k.hex(), v.hex()))
            elif kind in ("get", "del"):
                lines.append("t %d %s %d %s" % (t, kind, d, k.hex()))
            elif kind == "scan":
                lines.append("t %d scan %d" % (t, d))
            elif kind == "hold":
                lines.append("t %d hold %d %02x" % (t, d, rng.choice([2, 10, 40])))
            else:
                lines.append("t %d %s" % (t, kind))
    lines.append("run")
    return lines, nt, ndb


def apply(state, op):
    """sequential reference semantics: returns (expected answer, new state); state = tuple of frozen dict items per db"""
    kind = op["kind"]
    if kind in ("sync", "checkpoint", "opendb", "hold"):
        return "OK", state
    if kind == "dbopen":           # iwkv_db(id, flags); op["fslot"]: the state slot holding the flags of an existing database
        fl = dict(state[op["fslot"]])
        if "00" in fl:
            return ("OK" if fl["00"] == op["flags"] else "INCOMPAT"), state
        st = list(state)
        st[op["fslot"]] = (("00", op["flags"]),)
        return "OK", tuple(st)
    if kind == "dbdestroy":        # op["clear"]: the state slots of the database (records, metadata, flags)
        st = list(state)
        for d in op["clear"]:
            st[d] = ()
        return "OK", tuple(st)
    d = op["db"]
    db = dict(state[d])
    if kind == "put":
        db[op["k"]] = op["v"]
        ans = "OK"
    elif kind == "cset":           # cursor positioned on the key, then iwkv_cursor_set
        if op["k"] in db:
            db[op["k"]] = op["v"]
            ans = "OK"
        else:
            ans = "NOTFOUND"
    elif kind == "get":
        ans = db[op["k"]] if op["k"] in db else "NOTFOUND"
        if ans == "":
            ans = "-"
    elif kind == "del":
        if op["k"] in db:
            del db[op["k"]]
            ans = "OK"
        else:
            ans = "NOTFOUND"
    else:
        # a scan is a SEQUENCE of atomic cursor calls, not one atomic call: under concurrent writers it need not equal
        # any single state. Accepted here; judge() checks that every pair it returned was written by some put.
        return op["ans"], state
    st = list(state)
    st[d] = tuple(sorted(db.items()))
    return ans, tuple(st)


def linearizable(calls, ndb, final, init=None):
    """Wing & Gong search with memoisation; calls: list of dicts with inv,res,ans; init: state before the first call"""
    n = len(calls)
    if init is None:
        init = tuple(() for _ in range(ndb))
    seen = set()

    def rec(done, state):
        if len(done) == n:
            for d in range(ndb):
                exp = "".join("%s=%s," % (k, v) for k, v in sorted(state[d], key=lambda kv: bytes.fromhex(kv[0]), reverse=True)) or "-"
                if exp != final[d]:
                    return False
            return True
        key = (done, state)
        if key in seen:
            return False
        seen.add(key)
        rem = [i for i in range(n) if i not in done]
        minres = min(calls[i]["res"] for i in rem)
        for i in rem:
            if calls[i]["inv"] > minres:
                continue
            ans, st2 = apply(state, calls[i])
            if ans == calls[i]["ans"]:
                if rec(done | frozenset([i]), st2):
                    return True
        return False
    return rec(frozenset(), init)


def run_one(exe, lines, timeout=60):
    try:
        p = subprocess.run([exe], input=("\n".join(lines) + "\n").encode(), stdout=subprocess.PIPE, stderr=subprocess.PIPE, timeout=timeout)
        return p.returncode, p.stdout.decode("latin-1").split("\n"), p.stderr.decode("latin-1")[-500:]
    except subprocess.TimeoutExpired as e:
        return 124, (e.stdout or b"").decode("latin-1").split("\n"), "timeout"


def judge(lines, out, rc, ndb):
    spec = [l.split() for l in lines if l.startswith("t ")]
    if rc != 0 or "HANG" in out or "DONE" not in out:
        return "a call did not return / the process died (rc=%s, tail=%s)" % (rc, [o for o in out if o][-2:])
    per = {}
    for f in spec:
        per.setdefault(int(f[1]), []).append(f)
    calls, final = [], {}
    for o in out:
        f = o.split()
        if not f:
            continue
        if f[0] == "FINAL":
            final[int(f[1])] = f[2]
        elif f[0].isdigit():
            t, i = int(f[0]), int(f[1])
            sp = per[t][i]
            c = {"kind": sp[2], "inv": int(f[2]), "res": int(f[3]), "ans": f[4], "tid": t}
            if len(sp) > 3:
                c["db"] = int(sp[3])
            if len(sp) > 4:
                c["k"] = sp[4]
            if len(sp) > 5:
                c["v"] = sp[5]
            if c["ans"] == "ERR" or c["ans"].startswith("E"):
                return "call %s of thread %d failed: %s" % (sp[2], t, c["ans"])
            calls.append(c)
    written = {(c["db"], c["k"], c["v"] or "-") for c in calls if c["kind"] == "put"}
    for c in calls:
        if c["kind"] == "scan" and c["ans"] != "-":
            for pair in c["ans"].strip(",").split(","):
                k, v = pair.split("=")
                if (c["db"], k, v) not in written:
                    return "a scan returned a record nobody wrote: %s" % pair[:80]
    if not linearizable(calls, ndb, final):
        return "no sequential order of the calls consistent with program order explains the answers and the final contents"
    return None


def lock_classes():
    """the rank table of the theorem side (coq/CC/LockOrder.v, marked LOCK-CLASS-TABLE)"""
    txt = open(os.path.join(vlib.VERIF, "coq", "CC", "LockOrder.v")).read()
    m = re.search(r"Definition lock_classes[^=]*:=\s*\[(.*?)\]\.", txt, re.S)
    return {a: int(b) for a, b in re.findall(r'\("(\w+)",\s*(\d+)\)', m.group(1))} if m else {}


def lock_battery(rng, path, wal, oflags="0 1 0"):
    """every API call in the states that change which locks it needs: node split, file growth, node removal with page
    release, database create / destroy, cursor writes, sync, checkpoint, metadata.  oflags = rdonly trunc notrim of the
    harness `open` line (read-only together with truncate opens a writable store)"""
    L = ["open %s %d %s" % (path, wal, oflags), "db 0 1 000", "db 1 2 000"]
    n = rng.choice([40, 80, 300])
    for i in range(n):
        L.append("put 0 %s 0 %s 0 0" % (("k%04d" % i).encode().hex(), rng.bytes(rng.choice([1, 50, 600])).hex()))
    L.append("put 0 %s 0 %s 0 0" % (b"big".hex(), rng.bytes(rng.choice([70000, 300000])).hex()))
    L.append("put 1 6161 0 62 0 0")
    L += ["copen 1 0 1", "cto 1 3", "cget 1", "cto 1 3", "cset 1 %s" % rng.bytes(rng.choice([2, 900])).hex(), "cdel 1", "cto 1 4", "ckey 1", "cclose 1"]
    L += ["copen 2 0 6 %s 0" % b"k0010".hex(), "cget 2", "cclose 2"]
    for i in range(0, n, rng.choice([1, 2, 3])):
        L.append("del 0 %s 0" % (("k%04d" % i).encode().hex()))
    L += ["del 1 6161 0", "get 0 %s 0" % b"k0001".hex(), "sync", "checkpoint", "setmeta 0 %s" % rng.bytes(rng.choice([4, 5000])).hex(), "getmeta 0 6000", "dump 0"]
    L += ["dbdestroy 0", "db 0 1 000", "put 0 6161 0 62 0 0", "sync", "close", "open %s %d 0 0 0" % (path, wal), "db 0 1 000", "dump 0", "close"]
    return L


def lock_order_stage(run, work, nrandom):
    """the rank discipline of the deadlock-freedom theorem, checked on the real lock acquisitions of the library"""
    import kvcommon
    ranks = lock_classes()
    if not ranks:
        run.broken.append("T1: lock class table not found in coq/CC/LockOrder.v")
        return
    ranks = dict(ranks, other=max(ranks.values()) + 1)
    exe = vlib.build_harness("h_lockord")
    scripts = []
    need = {}
    for i, (wal, ofl) in enumerate([(0, "0 1 0"), (1, "0 1 0"), (0, "1 1 0"), (1, "1 1 0"), (1, "0 1 1"), (0, "0 1 1")]):
        rng = run.rng.fork()
        name = "battery%d" % i
        scripts.append((name, lock_battery(rng, os.path.join(work, "lb%d.db" % i), wal, ofl)))
        # the lock skeleton of a put that allocates (coq/CC/KvLocks.v call_put): store, database, allocator, file, log
        need[name] = [("store", "db"), ("db", "fsm"), ("db", "exf")] + ([("db", "wal")] if wal else [])
    for i in range(nrandom):
        rng = run.rng.fork()
        ls, meta = kvcommon.gen_script(rng, rng.choice(["map", "cursor", "struct", "reopen"]), rng.range(60, 200),
                                       os.path.join(work, "lr%d.db" % i), allow_reopen=True)
        scripts.append(("random%d" % i, ls))
    seen = {}
    for name, ls in scripts:
        kvcommon.clean(ls)
        rep = os.path.join(work, "lockord.out")
        try:
            os.unlink(rep)
        except OSError:
            pass
        env = dict(os.environ, LOCKORD_OUT=rep)
        p = subprocess.run([exe], input=("\n".join(ls) + "\nexit\n").encode(), stdout=subprocess.PIPE, stderr=subprocess.PIPE, env=env, timeout=300)
        run.case("lockorder:" + "\n".join(ls), nontrivial=True, sample=None)
        run.dist("lock-order scripts")
        facts = open(rep).read().split("\n") if os.path.exists(rep) else []
        if not facts or p.returncode not in (0,):
            run.broken.append("lock-order tracer: no report / exit %s for %s" % (p.returncode, name))
            continue
        for f in facts:
            t = f.split()
            if not t:
                continue
            why = None
            if t[0] == "EDGE":
                hc, hm, ac, am, ctx = t[1], int(t[2]), t[3], int(t[4]), t[5]
                seen[(hc, ac)] = seen.get((hc, ac), 0) + int(t[6])
                if hc not in ranks or ac not in ranks:
                    run.broken.append("lock-order tracer: unclassified lock object in `%s` (%s)" % (ctx, f))
                elif ac == "thr":
                    why = ("lock order: `%s` joins a library thread (pthread_join) while holding the %s lock (%s); the thread takes that "
                           "lock itself (checkpoint / savepoint), so the join can wait for ever - in the rank order of the deadlock-freedom "
                           "theorem a thread's termination ranks below every lock" % (ctx, hc, "write" if hm else "read"))
                elif not ranks[hc] < ranks[ac]:
                    why = ("lock order: `%s` acquires the %s lock (%s) while holding the %s lock (%s) - against the rank order %s "
                           "under which deadlock freedom is proved" % (ctx, ac, "write" if am else "read", hc, "write" if hm else "read",
                                                                     " < ".join(k for k, _ in sorted(ranks.items(), key=lambda kv: kv[1]))))
            elif t[0] == "SAME":
                cls, hm, am, ctx = t[1], int(t[2]), int(t[3]), t[4]
                if hm or am:
                    why = "`%s` re-acquires the %s lock it already holds (held %s, requested %s): self-deadlock" % (
                        ctx, cls, "write" if hm else "read", "write" if am else "read")
                else:
                    run.cov["recursive_read_acquisitions"] = run.cov.get("recursive_read_acquisitions", 0) + int(t[5])
            if why:
                run.violation({"kind": "lock-order", "script": ls, "fact": f, "harness": "h_lockord"}, why)
        if name in need and facts and p.returncode == 0:
            have = set()
            for f in facts:
                t = f.split()
                if t and t[0] == "EDGE" and t[5] in ("put", "del", "setmeta", "cset", "cdel"):
                    have.add((t[1], t[3]))
            for e in need[name]:
                if e not in have:
                    run.violation({"kind": "lock-order", "script": ls, "fact": "MISSING %s %s" % e, "harness": "h_lockord"},
                                  "lock skeleton: in a store opened with `%s` no mutating call takes the %s lock under the %s lock "
                                  "(the skeleton put = store, database, allocator, file, log of the deadlock-freedom model): "
                                  "concurrent writers are not serialised there" % (ls[0].split(" ", 2)[2], e[1], e[0]))
    run.cov["lock_order_edges_seen"] = len(seen)
    run.cov["lock_acquisitions_under_a_held_lock"] = sum(seen.values())


def check(run):
    ok = run.proofs()
    bad = lock_order_facts()
    for b in bad:
        run.broken.append("T1 lock order: " + b)
    exe = vlib.build_harness("h_conc")
    work = tempfile.mkdtemp(prefix="iwkv-C07-", dir="/dev/shm" if os.path.isdir("/dev/shm") else None)
    n = (400 if run.tier == "quick" else 6000) * (1 if ok and not bad else 5)
    try:
        # systematic part: thread B runs at every lock release of thread A's operation (checks/c07_preempt.py)
        open_findings = os.environ.get("VERIF_CONC_OPEN") == "1"
        c07_preempt.stage(run, sys.modules[__name__], work, (1 if run.tier == "quick" else 40) * (1 if ok and not bad else 3), open_findings,
                          all_b=run.tier != "quick")
        # sampled part: free-running threads
        cases = []
        for i in range(n):
            rng = run.rng.fork()
            cases.append(gen(rng, os.path.join(work, "c%d.db" % i)))

        def one(c):
            r = run_one(exe, c[0])
            for suf in ("", "-wal"):
                try:
                    os.unlink(c[0][0].split()[1] + suf)
                except OSError:
                    pass
            return r

        with ThreadPoolExecutor(6) as ex:
            outs = list(ex.map(one, cases))
        for (lines, nt, ndb), (rc, out, err) in zip(cases, outs):
            run.case("\n".join(lines[1:]), nontrivial=True, sample={"threads": nt, "program": lines[1:8]})
            run.dist("threads=%d" % nt)
            for l in lines:
                if l.startswith("t "):
                    run.dist(l.split()[2])
            why = judge(lines, out, rc, ndb)
            if why:
                run.violation({"scenario": lines, "output": out[:60], "kind": "concurrency", "stderr": err}, why)
            else:
                run.cov["traces_validated_against_impl"] += 1
        lock_order_stage(run, work, 12 if run.tier == "quick" else 300)
    finally:
        shutil.rmtree(work, ignore_errors=True)
    return run.finish(level=LEVEL,
                      rule="preemption explorer: (A operation, B operation) pairs x WAL on/off x every lock release of A as the point where B runs one "
                           "complete operation; distinct by (pair, WAL, k).  Sampled part: 2-4 threads x 2-5 calls (put/get/del/scan/sync/checkpoint) on 1-2 databases over 4 keys, WAL on/off; each execution is checked "
                           "for a linearisation consistent with program order (exact search) and for termination (30 s watchdog); distinct by program text",
                      assumptions=["preemption explorer: context switches are placed at lock releases of ONE operation against ONE complete operation of a second "
                                   "thread (two threads, one switch per execution); the section theorems are about the abstract model (sections atomic, "
                                   "locations per database, allocator as a counter), tied to the code by the per-k stale-mapping prediction and the trace disciplines",
                                   "the kernel scheduler decides the interleavings of the sampled part: a run samples schedules, the theorem covers the lock skeleton",
                                   "data races inside critical sections are outside the model (no TSan verdict is used, it reports benign counters)"])


def replay(run, path):
    r = json.load(open(path))
    if r.get("kind") == "preempt":
        return c07_preempt.replay_one(sys.modules[__name__], r)
    if r.get("kind") == "lock-order":
        import kvcommon
        exe = vlib.build_harness("h_lockord")
        work = tempfile.mkdtemp(prefix="iwkv-C07r-")
        ls = list(r["script"])
        old = ls[0].split()[1]
        ls = [l.replace(old, os.path.join(work, "r.db")) for l in ls]
        rep = os.path.join(work, "lockord.out")
        subprocess.run([exe], input=("\n".join(ls) + "\nexit\n").encode(), stdout=subprocess.PIPE, stderr=subprocess.PIPE,
                       env=dict(os.environ, LOCKORD_OUT=rep), timeout=300)
        facts = open(rep).read().split("\n") if os.path.exists(rep) else []
        shutil.rmtree(work, ignore_errors=True)
        if r["fact"].startswith("MISSING"):
            _, hc, ac = r["fact"].split()
            hit = [] if any(f.split()[:1] == ["EDGE"] and f.split()[1] == hc and f.split()[3] == ac for f in facts) else ["still missing"]
            print("recorded fact:", r["fact"]); print("reproduced:", hit)
            return 1 if hit else 0
        key = r["fact"].split()[:5]
        hit = [f for f in facts if f.split()[:5] == key]
        print("recorded fact:", r["fact"]); print("reproduced:", hit[:3])
        return 1 if hit else 0
    exe = vlib.build_harness("h_conc")
    work = tempfile.mkdtemp(prefix="iwkv-C07r-")
    lines = list(r["scenario"])
    f = lines[0].split(); f[1] = os.path.join(work, "r.db"); lines[0] = " ".join(f)
    ndb = 3
    bad = 0
    for _ in range(20):
        for suf in ("", "-wal"):
            try:
                os.unlink(f[1] + suf)
            except OSError:
                pass
        rc, out, err = run_one(exe, lines)
        why = judge(lines, out, rc, ndb)
        if why:
            print("VIOLATES:", why); print("\n".join(out[:40])); bad = 1
            break
    shutil.rmtree(work, ignore_errors=True)
    print("replayed 20 times:", "violation reproduced" if bad else "not reproduced (schedule dependent)")
    return bad
