# C18 - containers (hash map, unit/pointer lists, sorted-array helpers, AVL tree, ring buffer, growable string,
# memory pool) behave as their plain reference structures for every call sequence.
#   T2: the extracted Coq models (all eight containers; pool: allocation arithmetic) answer the same scripts as the implementation (exact, white box:
#       bucket shapes, LRU chain, start/anum, pos, asize);
#   oracle: python reference structures (dict + recency list, list, sorted list, deque, bytearray, set) decide whether
#       the implementation's answers contradict the property statement; a crash or a sanitizer report is a violation.
#   pf: forests of pools (iwpool_create_attach x iwpool_ref x iwpool_destroy): model coq/UT/Pforest.v (pointer level, a load
#       through a pointer to a released pool is a fault), white-box dump of numrefs/parent/children/next after every call, every
#       free() of iwpool.c observed through a hook (order of the releases; 0xDD quarantine in the plain build, ASan in the other),
#       oracle = the tree-level reference PfRef.
#   scripts: random call sequences per container + a fixed set of DIRECTED sequences that cross every growth / shrink /
#       compaction threshold of the sources from both sides (see "directed scripts" below) + corpus/C18.
import os, json, zlib
from concurrent.futures import ThreadPoolExecutor
import vlib

LEVEL = "proof"
MODELLED = ("hm", "ul", "pl", "sa", "rb", "xs", "av", "po", "pf")
M32 = 0xffffffff
# The scripts of the findings of the deepening round (notes/cont.md) are part of every run: five are fixed in /repo (6c4e8aa, 7d7a602,
# e161ae8, a8b271d, a22623c); the sixth - iwrb_back on a wrapped ring - is the KNOWN FINDING C18-rb-back-wrapped: the scripts of
# the family with this origin are judged by the bounded-deque reference and their verdict carries the origin in the replay object
RB_BACK_ORIGIN = "rb-back-wrapped"
# finding cont-pool-alloc-size-wrap (round 7, fixed in /repo as 435f237): iwpool_alloc(siz) for siz in (SIZE_MAX - 7, SIZE_MAX] rounded the size
# up to 0 and returned a pointer with no byte reserved.  The answer is judged, the driver models the guard, and the calloc / strndup
# calls that crashed on the unguarded code are part of every run
JUDGE_POOL_WRAP = True
SIZE_MAX = (1 << 64) - 1
def _rb_hdr():
    # sizeof(struct iwrp) of the tree under test (a layout fact from the probe, T1); 32 on the 64-bit build: pos, len, usize, buf
    try:
        import re
        m = re.search(r"CONT_sizeof_IWRB : Z := \((\d+)\)", open(os.path.join(vlib.VERIF, "coq", "Gen", "Facts.v")).read())
        return int(m.group(1))
    except Exception:
        return 32


RB_HDR = 32


# ------------------------------------------------------------------------------------------------ helpers
def hx(b):
    return bytes(b).hex() if b else "-"


def unhx(s):
    return b"" if s == "-" else bytes.fromhex(s)


def kv(out):
    d = {}
    for t in out.split():
        if "=" in t:
            a, b = t.split("=", 1)
            d[a] = b
    return d


def hash_u32(x):
    x &= M32
    x ^= x >> 17; x = (x * 0xed5ad4bb) & M32
    x ^= x >> 11; x = (x * 0xac4c1b51) & M32
    x ^= x >> 15; x = (x * 0x31848bab) & M32
    x ^= x >> 14
    return x


def hash_u64(x):
    x &= (1 << 64) - 1
    return hash_u32(x & M32) ^ hash_u32((x >> 31) & M32)


# ------------------------------------------------------------------------------------------------ generators
def gen_hm(rng, size):
    kind = rng.weighted([("u32", 4), ("u64", 2), ("str", 2), ("ptr", 3), ("skv", 1)])
    # ramp scripts cross the bucket-count thresholds (64 -> 128 -> 256 and back) with observations at the borders
    ramp = rng.weighted([(0, 5), (66, 2), (72, 1), (130, 2), (140, 1), (260, 1)])
    if ramp:
        lru = rng.choice([-1, -1, ramp + 5, 70, 130, 300])
    else:
        lru = rng.weighted([(-1, 4), (0, 1), (1, 1), (2, 2), (3, 2), (5, 1), (8, 1), (70, 1), (130, 1)])
    # key universe with bucket collisions (mask 63 / 127) and, for ptr, equal full hashes
    npool = ramp + 20 if ramp else rng.weighted([(6, 2), (20, 3), (90, 2), (200, 2), (300, 1)])
    keys = []
    if kind in ("u32", "u64"):
        hf = hash_u32 if kind == "u32" else hash_u64
        top = M32 if kind == "u32" else (1 << 64) - 1
        target = rng.below(64)
        cand = 0
        while len(keys) < npool:
            if rng.chance(1, 2):
                # search a key of the target bucket (modulo 64, often also modulo 128)
                for _ in range(400):
                    cand = rng.below(1 << 20) if rng.chance(3, 4) else rng.u64() & top
                    if hf(cand) & 63 == target:
                        break
            else:
                cand = rng.choice([rng.below(300), rng.u64() & top, top, top - 1, 0, 1 << 31, (1 << 31) - 1])
            if str(cand) not in keys:
                keys.append(str(cand))
    elif kind == "ptr":
        base = rng.range(1, 96)
        while len(keys) < npool:
            c = base + 97 * rng.below(400) if rng.chance(2, 3) else rng.range(1, 5000)
            if str(c) not in keys:
                keys.append(str(c))
    else:
        while len(keys) < npool:
            n = rng.weighted([(0, 1), (1, 3), (3, 3), (4, 2), (8, 3), (9, 3), (17, 2), (40, 1)])
            s = bytes(rng.range(1, 255) for _ in range(n))
            if hx(s) not in keys:
                keys.append(hx(s))
    lines = ["hm new %s %d" % (kind, lru)]
    vid = [rng.range(1, 1000) * 1000]
    # iwhmap_lru_init in the middle of the life of the map (entries exist, possibly a second time with another bound)
    late = rng.weighted([(0, 3), (1, 2), (2, 1)])
    open_ = True   # the former VERIF_CONT_OPEN gate: the defects these scripts trip are fixed (a8b271d, a22623c, e161ae8)
    failing = rng.chance(1, 3)     # scripts with allocation failures inside iwhmap.c

    def val():
        vid[0] += 1
        return 0 if rng.chance(1, 40) else vid[0]
    live = []   # generator's own rough idea of present keys, only to aim the choices
    borders = (62, 63, 64, 65, 66, 67, 126, 127, 128, 129, 130, 254, 255, 256, 257, 31, 32, 33)
    if ramp:
        for k in keys[:ramp]:
            lines.append("hm put %s %d" % (k, val()))
            live.append(k)
            if len(live) in borders:
                lines.append("hm shape")
                if rng.chance(1, 3):
                    lines.append("hm iter")
        lines += ["hm shape", "hm lru"]
    n = size if not ramp else size // 3
    phase = "grow"
    for i in range(n):
        if i == n // 2 and rng.chance(1, 2):
            phase = "shrink"
        if i == 3 * n // 4 and rng.chance(1, 2):
            phase = "mixed"
        w = {"grow": [("put", 60), ("get", 10), ("rm", 6), ("ren", 8), ("clear", 1), ("obs", 6)],
             "shrink": [("put", 10), ("get", 10), ("rm", 60), ("ren", 8), ("clear", 1), ("obs", 6)],
             "mixed": [("put", 30), ("get", 15), ("rm", 25), ("ren", 12), ("clear", 2), ("obs", 8)]}[phase]
        op = rng.weighted(w)
        if ramp and op == "clear" and rng.chance(3, 4):
            op = "get"
        if failing and rng.chance(1, 12):
            # hm failat: the n-th allocation of iwhmap.c at one of the listed sites returns NULL.  `readd` (_entry_add inside
            # _rehash, fixed a8b271d) and `add` in front of a rename (fixed a22623c)
            if open_ and rng.chance(1, 2):
                lines.append("hm failat %d %s" % (rng.range(1, 30), rng.choice(["all", "readd", "add,readd", "readd,rehash,node"])))
            elif rng.chance(1, 3):
                kk = rng.choice(keys)
                lines += ["hm failat 1 add", "hm put %s %d" % (kk, val()), "hm failoff"]
                # the generator does not know whether the put went through; `live` is only a hint
            else:
                lines.append("hm failat %d %s" % (rng.range(1, 8), rng.choice(["node", "rehash", "shrink", "clear", "strdup",
                                                                                "rehash,shrink", "node,strdup,clear", "node,rehash,shrink,clear,strdup"])))
        if failing and rng.chance(1, 40):
            lines.append("hm failoff")
        if late and (i == n // 3 or (late == 2 and i == 2 * n // 3) or rng.chance(1, 150)):
            lines.append("hm lruinit %d" % rng.weighted([(0, 1), (1, 2), (2, 2), (3, 2), (len(live) // 2 + 1, 3), (len(live), 2), (len(live) + 1, 2), (len(live) + 5, 2), (300, 1)]))
            lines.append("hm lru")
        k = rng.choice(live) if live and rng.chance(1, 2) else rng.choice(keys)
        if op == "put":
            lines.append("hm put %s %d" % (k, val()))
            if k not in live:
                live.append(k)
        elif op == "get":
            lines.append("hm get %s" % k)
        elif op == "rm":
            lines.append("hm rm %s" % k)
            if k in live:
                live.remove(k)
        elif op == "ren":
            k2 = rng.choice(live) if live and rng.chance(1, 3) else rng.choice(keys)
            lines.append("hm ren %s %s" % (k, k2))
            if k in live:
                live.remove(k)
                if k2 not in live:
                    live.append(k2)
        elif op == "clear":
            lines.append("hm clear")
            live = []
        else:
            lines.append("hm " + rng.choice(["iter", "lru", "shape", "count", "lru"]))
            if rng.chance(1, 4):
                lines.append(rng.choice(["hm evmax %d" % len(live), "hm evmax %d" % max(0, len(live) - 1), "hm evmax %d" % (len(live) + 1),
                                         "hm create0", "hm null", "hm kvfree", "hm iter0"] + (["hm iterx"] if open_ else [])))
    if ramp and rng.chance(4, 5):
        # ramp down through the shrink thresholds (count < mask / 2), oldest or newest first
        order = list(live)
        if rng.chance(1, 2):
            order.reverse()
        for k in order:
            lines.append("hm rm %s" % k)
            live.remove(k)
            if len(live) in borders or len(live) % 16 == 0:
                lines.append("hm shape")
        if rng.chance(1, 2):
            for k in keys[:rng.range(3, 70)]:
                lines.append("hm put %s %d" % (k, val()))
    lines += ["hm failoff", "hm iter", "hm lru", "hm shape", "hm destroy"] if failing else ["hm iter", "hm lru", "hm shape", "hm destroy"]
    return {"c": "hm", "lines": lines, "tag": "hm-%s-lru%s-%s%s" % (kind, "off" if lru < 0 else "on", ("ramp%d" % ramp) if ramp else ("big" if npool > 64 else "small"), "-af" if failing else "")}


def gen_ul(rng, size):
    us = rng.choice([1, 2, 4, 8, 3])
    il = rng.choice([0, 0, 1, 2, 31, 32, 33, 40])
    lines = ["ul %s %d %d" % (rng.choice(["new", "new", "newinit"]), us, il)]
    universe = [hx(rng.bytes(us)) for _ in range(rng.choice([3, 10, 60]))]
    n = 0
    phase = "grow"
    for i in range(size):
        if i == size // 2:
            phase = rng.choice(["shrink", "mixed"])
        w = {"grow": [("push", 30), ("unshift", 20), ("insert", 15), ("pop", 4), ("shift", 4), ("rm", 4), ("set", 5), ("q", 10), ("misc", 4)],
             "shrink": [("push", 4), ("unshift", 4), ("insert", 3), ("pop", 25), ("shift", 25), ("rm", 20), ("set", 3), ("q", 10), ("misc", 3)],
             "mixed": [("push", 15), ("unshift", 15), ("insert", 10), ("pop", 12), ("shift", 12), ("rm", 12), ("set", 6), ("q", 10), ("misc", 5)]}[phase]
        op = rng.weighted(w)
        u = rng.choice(universe)
        if op in ("push", "unshift"):
            lines.append("ul %s %s" % (op, u)); n += 1
        elif op in ("pop", "shift"):
            lines.append("ul " + op); n = max(0, n - 1)
        elif op == "insert":
            i2 = rng.choice([0, n, rng.range(0, n), rng.range(0, n), n + 1])
            lines.append("ul insert %d %s" % (i2, u))
            if i2 <= n:
                n += 1
        elif op == "set":
            lines.append("ul set %d %s" % (rng.choice([0, max(0, n - 1), n, rng.range(0, n)]), u))
        elif op == "rm":
            i2 = rng.choice([0, max(0, n - 1), n, rng.range(0, n), rng.range(0, n)])
            lines.append("ul rm %d" % i2)
            if i2 < n:
                n -= 1
        elif op == "q":
            lines.append(rng.choice(["ul find %s" % u, "ul at %d" % rng.range(0, n + 1), "ul clone", "ul dump",
                                     "ul copy %d" % rng.choice([0, 1, 40]), "ul clone",
                                     "ul copy %d %s" % (rng.choice([0, 1, 2, 33]), ".".join(rng.choice(universe) for _ in range(rng.choice([1, 2, 33]))))]))
        else:
            c = rng.choice(["rmby", "sort", "clear", "reset", "rmby", "sort"])
            if c == "rmby":
                lines.append("ul rmby %s" % u)   # n tracked only roughly from here on
            else:
                lines.append("ul " + c)
                if c in ("clear", "reset"):
                    n = 0
    lines += ["ul clone", "ul dump", "ul destroy"]
    return {"c": "ul", "lines": lines, "tag": "ul-us%d-%s" % (us, "il0" if il == 0 else "il")}


def gen_pl(rng, size):
    lines = ["pl %s %d" % (rng.choice(["new", "new", "newinit"]), rng.choice([0, 0, 1, 2, 33]))]
    n = 0

    def item():
        return hx(bytes(rng.range(1, 255) for _ in range(rng.weighted([(0, 1), (1, 3), (3, 3), (12, 2), (40, 1)]))))
    phase = "grow"
    for i in range(size):
        if i == size // 2:
            phase = rng.choice(["shrink", "mixed"])
        w = {"grow": [("push", 30), ("unshift", 25), ("insert", 15), ("take", 8), ("set", 6), ("q", 8)],
             "shrink": [("push", 5), ("unshift", 5), ("insert", 4), ("take", 60), ("set", 4), ("q", 8)],
             "mixed": [("push", 15), ("unshift", 15), ("insert", 10), ("take", 35), ("set", 8), ("q", 8)]}[phase]
        op = rng.weighted(w)
        if op in ("push", "unshift"):
            lines.append("pl %s %s" % (op, item())); n += 1
        elif op == "insert":
            i2 = rng.choice([0, n, rng.range(0, n), n + 1])
            lines.append("pl insert %d %s" % (i2, item()))
            if i2 <= n:
                n += 1
        elif op == "take":
            c = rng.choice(["pop", "shift", "shift", "rm"])
            # a trailing "n" = the optional osize argument is NULL.  iwlist_shift / iwlist_remove dereference it all the same
            # until 6c4e8aa (finding cont-iwlist-osize-null)
            if c == "rm":
                i2 = rng.choice([0, max(0, n - 1), n, rng.range(0, n)])
                lines.append("pl rm %d%s" % (i2, " n" if rng.below(4) == 0 else ""))
                if i2 < n:
                    n -= 1
            else:
                lines.append("pl " + c + (" n" if rng.below(4) == 0 else "")); n = max(0, n - 1)
        elif op == "set":
            lines.append("pl set %d %s" % (rng.choice([0, max(0, n - 1), n, rng.range(0, n)]), item()))
        else:
            lines.append(rng.choice(["pl at %d" % rng.range(0, n + 1), "pl at %d n" % rng.range(0, n + 1), "pl clone", "pl sort", "pl dump", "pl clone"]))
    lines += ["pl clone", "pl dump", "pl destroy"]
    return {"c": "pl", "lines": lines, "tag": "pl"}


def gen_pl_long(rng, size):
    # iwlist_shift compacts only when start reaches a multiple of 256 with start > num / 2
    n = rng.choice([300, 520, 700])
    lines = ["pl new %d" % rng.choice([0, 33])]
    for i in range(n):
        lines.append("pl push %02x" % (1 + i % 250))
    k = rng.choice([256, 257, n - 20]) if n >= 520 else 257
    for i in range(min(k, n)):
        lines.append("pl shift")
    for i in range(20):
        lines.append(rng.choice(["pl push 4142", "pl unshift 43", "pl shift", "pl pop", "pl at 0", "pl insert 1 44", "pl rm 0"]))
    lines += ["pl clone", "pl destroy"]
    return {"c": "pl", "lines": lines, "tag": "pl-long"}


def gen_sa(rng, size):
    cap = rng.choice([1, 2, 8, 64])
    span = rng.choice([3, 12, 100])
    lines = ["sa new %d" % cap]
    tag = 0
    for i in range(size):
        k = rng.range(-span, span)
        op = rng.weighted([("ins", 35), ("rm", 25), ("find", 20), ("find2", 20)])
        if op == "ins":
            tag += 1
            lines.append("sa ins %d %d %d" % (k, tag, 1 if rng.chance(1, 2) else 0))
        else:
            lines.append("sa %s %d" % (op, k))
    return {"c": "sa", "lines": lines, "tag": "sa-cap%d" % cap}


def gen_rb(rng, size):
    us = rng.choice([1, 2, 4])
    ln = rng.choice([1, 2, 3, 5, 8])
    lines = ["rb new %d %d" % (us, ln)]
    if rng.below(4) == 0:
        # the same ring inside a caller's buffer (iwrb_wrap): header + ln units + 0 .. us-1 spare bytes
        lines = ["rb wrap %d %d" % (us, RB_HDR + us * ln + rng.below(us))]
    ctr = rng.below(200)
    for i in range(size):
        op = rng.weighted([("put", 60), ("back", 20), ("clear", 4), ("state", 6)])
        if op == "put":
            ctr += 1
            lines.append("rb put %s" % hx((ctr % (1 << (8 * us))).to_bytes(us, "little")))
        else:
            lines.append("rb " + op)
    lines.append("rb destroy")
    return {"c": "rb", "lines": lines, "tag": "rb-len%d" % ln}


def gen_xs(rng, size):
    lines = [rng.choice(["xs new 0", "xs new 0", "xs new 1", "xs new 2", "xs new 16", "xs new 17", "xs new 100", "xs empty"])]
    sz = 0
    tokc = [0]

    def data(maxn=40):
        n = rng.weighted([(0, 1), (1, 3), (5, 3), (15, 2), (16, 2), (17, 2), (maxn, 1)])
        return bytes(rng.range(1, 255) for _ in range(n))
    for i in range(size):
        op = rng.weighted([("cat", 25), ("unshift", 12), ("shift", 10), ("pop", 10), ("insert", 15), ("printf", 6),
                           ("iprintf", 4), ("clear", 2), ("clone", 5), ("wrap", 3), ("cat2", 3), ("setsize", 5), ("ud", 4),
                           ("udget", 1), ("uddetach", 2), ("palloc", 2), ("newprintf", 2), ("cat2null", 1)])
        if op == "setsize":
            k = rng.choice([0, sz, max(0, sz - 1), sz + 1, sz + rng.range(1, 40), rng.range(0, sz + 1), sz // 2])
            lines.append("xs setsize %d %d %d" % (k, rng.range(1, 255), rng.choice([0, 0, 65])))
            sz = k
            continue
        if op == "ud":
            tokc[0] += 1
            lines.append("xs ud %d %d" % (rng.choice([tokc[0], tokc[0], 0]), rng.below(2)))
            continue
        if op in ("udget", "uddetach", "cat2null"):
            lines.append("xs " + op); continue
        if op in ("palloc", "newprintf"):
            n = rng.weighted([(0, 2), (3, 4), (13, 2), (14, 2), (1021, 1), (1022, 1), (1100, 1)])
            lines.append("xs %s %s %d" % (op, hx(bytes(rng.range(1, 255) for _ in range(n))), rng.choice([0, 7, -5])))
            continue
        if op in ("cat", "unshift", "cat2"):
            d = data()
            lines.append("xs %s %s" % (op, hx(d))); sz += len(d)
        elif op in ("shift", "pop"):
            k = rng.choice([0, 1, 2, sz, sz + 1, rng.range(0, sz + 2), 7])
            lines.append("xs %s %d" % (op, k)); sz = max(0, sz - k)
        elif op == "insert":
            d = data()
            p = rng.choice([0, sz, sz + 1, rng.range(0, sz), rng.range(0, sz)])
            lines.append("xs insert %d %s" % (p, hx(d)))
            if p <= sz:
                sz += len(d)
        elif op in ("printf", "iprintf"):
            n = rng.weighted([(0, 1), (3, 4), (30, 2), (1020, 1), (1021, 1), (1022, 1), (1023, 1), (1100, 1)])
            s = bytes(rng.range(1, 255) for _ in range(n))
            v = rng.choice([0, 7, -5, 123456, -2147483648])
            if op == "printf":
                lines.append("xs printf %s %d" % (hx(s), v)); sz += n + 2
            else:
                p = rng.choice([0, sz, sz + 1, rng.range(0, sz)])
                lines.append("xs iprintf %d %s %d" % (p, hx(s), v))
                if p <= sz:
                    sz += n + 2
        elif op == "clear":
            lines.append("xs clear"); sz = 0
        elif op == "clone":
            lines.append("xs clone")
        else:
            d = data(20)
            lines.append("xs wrap %s %d" % (hx(d), rng.choice([0, 1, len(d), len(d) + 1, len(d) + 8, max(0, len(d) - 1)])))
    lines += ["xs clone", rng.choice(["xs destroy", "xs destroy", "xs keepptr"])]
    return {"c": "xs", "lines": lines, "tag": "xs"}


def gen_av(rng, size):
    span = rng.choice([8, 40, 200])
    lines = ["av new"]
    mode = rng.choice(["rand", "asc", "desc", "rand"])
    c = 0
    for i in range(size):
        op = rng.weighted([("ins", 45), ("rm", 35), ("find", 17), ("lookn", 4), ("post", 3)] if i < size * 2 // 3
                          else [("ins", 20), ("rm", 60), ("find", 15), ("lookn", 3), ("post", 3)])
        if op == "post":
            lines.append("av post"); continue
        if op == "ins" and mode != "rand":
            c += 1
            k = c if mode == "asc" else span - c
        else:
            k = rng.range(0, span)
        lines.append("av %s %d" % (op, k))
    lines.append("av destroy")
    return {"c": "av", "lines": lines, "tag": "av-" + mode}


def gen_po(rng, size):
    first = rng.choice(["po new 0", "po new 1", "po new 8", "po new 64", "po new 100", "po newempty"])
    lines = [first]
    refs = 1
    nch = 0
    alive = []
    for i in range(size):
        op = rng.weighted([("alloc", 30), ("calloc", 8), ("strdup", 8), ("strdupx", 6), ("printf", 4), ("printfva", 3), ("split", 14),
                           ("psplit", 5), ("cstrarr", 8), ("child", 6), ("dchild", 6), ("udata", 3), ("ref", 1), ("unref", 2)])
        if op in ("alloc", "calloc"):
            lines.append("po %s %d" % (op, rng.weighted([(0, 1), (1, 3), (7, 2), (8, 3), (9, 2), (24, 3), (63, 1), (64, 1), (65, 1), (200, 1), (9000, 1)])))
        elif op == "strdup":
            lines.append("po strdup %s" % hx(bytes(rng.range(1, 255) for _ in range(rng.choice([0, 1, 7, 8, 30])))))
        elif op == "strdupx":
            lines.append("po strdupx %d %s" % (rng.below(3), hx(bytes(rng.range(1, 255) for _ in range(rng.choice([0, 1, 7, 8, 30]))))))
        elif op in ("printf", "printfva"):
            lines.append("po %s %s %d" % (op, hx(bytes(rng.range(33, 126) for _ in range(rng.choice([0, 3, 40])))), rng.choice([0, -9, 4711])))
        elif op == "split":
            # plain text, or a haystack dominated by separators (more tokens than half its length: every slot of the pointer array
            # of strlen + 1 entries is needed; an array that is too small is overwritten inside the pool unit, where no heap
            # sanitizer sees it - only the token-by-token comparison does)
            alpha = rng.choice([b"ab ,;\t x\n\r\x0b\x0c\x8a", b",,,,;;, a", b",,,,,,,,,x"])
            hay = bytes(rng.choice(alpha) for _ in range(rng.weighted([(0, 1), (1, 2), (2, 2), (3, 3), (6, 4), (12, 3), (20, 2), (40, 1)])))
            lines.append("po split %s %s %d" % (hx(hay), hx(rng.choice([b",", b",;", b";", b"x,", b"", b" "])), rng.below(2)))
        elif op == "psplit":
            alpha = b"ab ,; x"
            hay = bytes(rng.choice(alpha) for _ in range(rng.weighted([(0, 1), (1, 2), (3, 3), (6, 4), (12, 3)])))
            lines.append("po psplit %s %d %s %d" % (hx(hay), rng.choice([0, -9, 4711]), hx(rng.choice([b",", b":", b",:;", b"7"])), rng.below(2)))
        elif op == "cstrarr":
            k = rng.choice([0, 1, 2, 3, 5])
            items = [hx(bytes(rng.range(33, 126) for _ in range(rng.choice([1, 2, 7, 8, 9])))) for _ in range(k)]
            lines.append("po cstrarr %s" % (".".join(items) if items else "none"))
        elif op == "child":
            if nch < 8:
                lines.append("po child %d" % rng.choice([0, 16, 100])); alive.append(nch); nch += 1
        elif op == "dchild":
            if alive:
                c = rng.choice(alive); alive.remove(c)
                lines.append("po dchild %d" % c)
        elif op == "udata":
            lines.append("po udata")
        elif op == "ref":
            if refs < 3:
                lines.append("po ref"); refs += 1
        elif op == "unref":
            if refs > 1:
                lines.append("po destroy"); refs -= 1
    while refs > 0:
        lines.append("po destroy"); refs -= 1
    return {"c": "po", "lines": lines, "tag": "po"}


# ------------------------------------------------------------------------------------------------ pool forest (pf)
class PfRef:
    """Tree-level reference of the pool hierarchy with reference counts (no pointers, no chains): what the documentation
    of iwpool.h promises.  A pool is released exactly when its count reaches 0; the death of a parent takes one
    reference from every child still attached (newest child first) and detaches it; release order of one pool:
    its attached children, its units, its user data destructor, the pool itself."""

    def __init__(self):
        self.P = {}
        self.n = 0

    def create(self, parent=None):
        i = self.n
        self.n += 1
        self.P[i] = {"refs": 1, "parent": parent, "ud": 0, "fn": 0, "strs": [], "units": None}
        return i

    def kids(self, p):
        return sorted((c for c, d in self.P.items() if d["parent"] == p), reverse=True)

    def destroy(self, p, ev):
        d = self.P[p]
        d["refs"] -= 1
        if d["refs"] > 0:
            return False
        d["parent"] = None
        for c in self.kids(p):
            self.P[c]["parent"] = None
            self.destroy(c, ev)
        ev.append(("b", p))
        if d["fn"]:
            ev.append("d%d" % d["ud"])
        ev.append("f%d" % p)
        del self.P[p]
        return True

    def drain(self, ev):
        for i in sorted(self.P):
            if i in self.P and self.P[i]["parent"] is None:
                for _ in range(self.P[i]["refs"]):
                    if i in self.P:
                        self.destroy(i, ev)

    def depth(self, p):
        k = 0
        while self.P[p]["parent"] is not None:
            p = self.P[p]["parent"]; k += 1
        return k


PF_SIZES = ("e", "1", "8", "16", "24", "64", "100", "0")


def _pf_fill(rng, ref, lines, p, n=1):
    """unit growth on pool p: allocations / strings that cross the unit size"""
    for _ in range(n):
        k = rng.below(4)
        if k == 0:
            lines.append("pf alloc %d %d" % (p, rng.choice([1, 7, 8, 9, 24, 63, 64, 65, 200])))
        elif k == 1:
            lines.append("pf chk %d" % p)
        else:
            lines.append("pf put %d %s" % (p, hx(bytes(rng.range(1, 255) for _ in range(rng.choice([1, 7, 8, 9, 30, 70]))))))


def gen_pf(rng, size):
    """random forest: attach below any live pool (several levels), extra references, user data, unit growth, destroys of
    any live pool at any time; then every reference is dropped in one of four orders"""
    ref = PfRef()
    lines = ["pf reset"]
    tok = [0]
    maxp = rng.choice([4, 8, 14, 24])
    deep = rng.below(3) == 0

    def live():
        return sorted(ref.P)
    for _ in range(size):
        lv = live()
        op = rng.weighted([("new", 6), ("attach", 22 if len(lv) else 0), ("ref", 12), ("destroy", 14), ("fill", 16), ("ud", 8),
                           ("udget", 2), ("uddetach", 3), ("nil", 1), ("freefn", 2), ("attachnil", 1)])
        if op in ("new", "attachnil") or (not lv and op != "nil"):
            if ref.n < 200 and len(lv) < maxp:
                lines.append(("pf new %s" if op != "attachnil" else "pf attach nil %s") % rng.choice(PF_SIZES)); ref.create()
        elif op == "attach":
            if ref.n < 200 and len(lv) < maxp:
                q = max(lv, key=lambda x: (ref.depth(x), x)) if deep and rng.below(2) else rng.choice(lv)
                lines.append("pf attach %d %s" % (q, rng.choice(PF_SIZES))); ref.create(q)
        elif op == "ref":
            q = rng.choice(lv)
            if ref.P[q]["refs"] < 4:
                lines.append("pf ref %d" % q); ref.P[q]["refs"] += 1
        elif op in ("destroy", "freefn"):
            q = rng.choice(lv)
            lines.append("pf %s %d" % (op, q)); ref.destroy(q, [])
        elif op == "fill":
            _pf_fill(rng, ref, lines, rng.choice(lv))
        elif op == "ud":
            q = rng.choice(lv)
            k = rng.below(8)
            if k == 0:
                t, fn = 0, 1
            else:
                tok[0] += 1; t, fn = tok[0], int(k != 1)
            lines.append("pf ud %d %d %d" % (q, t, fn)); ref.P[q]["ud"], ref.P[q]["fn"] = t, fn
        elif op == "udget":
            lines.append("pf udget %d" % rng.choice(lv))
        elif op == "uddetach":
            q = rng.choice(lv)
            lines.append("pf uddetach %d" % q); ref.P[q]["fn"] = 0
        elif op == "nil":
            lines.append("pf destroy nil")
    order = rng.choice(["parents", "children", "mixed", "drain"])
    _pf_finish(rng, ref, lines, order)
    return {"c": "pf", "lines": lines, "tag": "pf-" + order}


def _pf_finish(rng, ref, lines, order, grow=True):
    """drops every reference still held: parents first / children first / one reference of a random pool at a time / `drain`;
    survivors keep allocating in between"""
    if order == "drain":
        lines.append("pf drain"); ref.drain([])
    guard = 0
    while ref.P and guard < 5000:
        guard += 1
        lv = sorted(ref.P)
        q = lv[0] if order == "parents" else lv[-1] if order == "children" else rng.choice(lv)
        n = 1 if order == "mixed" else ref.P[q]["refs"]
        for _ in range(n):
            if q in ref.P:
                lines.append("pf destroy %d" % q); ref.destroy(q, [])
        if grow and ref.P and rng.below(3) == 0:
            _pf_fill(rng, ref, lines, rng.choice(sorted(ref.P)))
    lines.append("pf end")


def _pf_script(tag, shape, refs, order, rng, grow=True, ud=True):
    """shape: list of parents (None = root) in creation order; refs: extra references per pool; order: pool numbers, one
    iwpool_destroy each (skipped when the pool is gone); then the rest parents-first."""
    ref = PfRef()
    lines = ["pf reset"]
    for i, q in enumerate(shape):
        siz = ("8", "16", "e", "64")[i % 4]
        lines.append("pf new %s" % siz if q is None else "pf attach %d %s" % (q, siz)); ref.create(q)
        if ud:
            lines.append("pf ud %d %d 1" % (i, i + 1)); ref.P[i]["ud"], ref.P[i]["fn"] = i + 1, 1
        lines.append("pf put %d %s" % (i, hx(b"pool%03d" % i)))
    for i, k in enumerate(refs):
        for _ in range(k):
            lines.append("pf ref %d" % i); ref.P[i]["refs"] += 1
    for q in order:
        if q in ref.P:
            lines.append("pf destroy %d" % q); ref.destroy(q, [])
            if grow:
                for x in sorted(ref.P):
                    lines.append("pf put %d %s" % (x, hx(b"survivor-%03d-after-%03d-xxxxxxxxxxxxxxxx" % (x, q))))
                    lines.append("pf chk %d" % x)
    _pf_finish(rng, ref, lines, "parents", grow=False)
    return {"c": "pf", "lines": lines, "tag": tag}


def _perms(l):
    if len(l) <= 1:
        return [list(l)]
    return [[x] + r for i, x in enumerate(l) for r in _perms(l[:i] + l[i + 1:])]


def directed_pf(rng):
    """hierarchy x reference counting x destruction order, exhaustively for the small shapes: every subset of pools holding an
    extra reference, every order of the first destroy of each pool (parent first / child first / interleaved), unit growth
    of the survivors after every step"""
    ss = []
    # chains root <- c1 <- c2 (<- c3)
    for depth in (1, 2, 3):
        n = depth + 1
        shape = [None] + list(range(depth))
        cases = [(m, pm) for m in range(1 << n) for pm in _perms(list(range(n)))]
        if depth == 3:
            cases = [cases[rng.below(len(cases))] for _ in range(40)]
        for m, pm in cases:
            refs = [(m >> i) & 1 for i in range(n)]
            ss.append(_pf_script("dir-pf-chain%d" % depth, shape, refs, pm, rng, grow=depth < 3))
    # star: one parent, three children (the removal of the head / middle / last child of the chain included)
    shape = [None, 0, 0, 0]
    for m in range(8):
        refs = [0] + [(m >> i) & 1 for i in range(3)]
        for order in ([0], [1, 0], [2, 0], [3, 0], [3, 2, 1, 0], [1, 2, 3, 0], [2, 0, 2]):
            ss.append(_pf_script("dir-pf-star", shape, refs, order, rng))
    for refs in ([0, 2, 0, 1], [1, 1, 1, 1], [0, 0, 3, 0]):
        ss.append(_pf_script("dir-pf-star", shape, refs, [0, 0], rng))
    # two levels below the root: 0 <- {1 <- {3, 4}, 2 <- {5}}
    shape = [None, 0, 0, 1, 1, 2]
    for _ in range(24):
        refs = [rng.weighted([(0, 5), (1, 3), (2, 1)]) for _ in shape]
        order = [rng.below(6) for _ in range(rng.range(1, 5))]
        ss.append(_pf_script("dir-pf-tree", shape, refs, order, rng))
    ss.append(_pf_script("dir-pf-tree", shape, [0, 1, 0, 1, 0, 1], [0], rng))
    ss.append(_pf_script("dir-pf-tree", shape, [0, 0, 1, 0, 1, 0], [0], rng))
    # a deep chain, references on every other level: the death of the root stops at each of them in turn
    for par in (0, 1):
        shape = [None] + list(range(11))
        ss.append(_pf_script("dir-pf-deep", shape, [int(i % 2 == par and i > 0) for i in range(12)], [0], rng, grow=False))
        ss.append(_pf_script("dir-pf-deep", shape, [int(i % 2 == par and i > 0) for i in range(12)], [6, 0, 3], rng, grow=False))
    # a wide parent: 40 children, some with references, some destroyed first (chain surgery at head / middle / tail)
    shape = [None] + [0] * 40
    refs = [0] + [int(rng.below(3) == 0) for _ in range(40)]
    ss.append(_pf_script("dir-pf-wide", shape, refs, [40, 1, 20, 39, 2, 0], rng, grow=False, ud=False))
    ss.append(_pf_script("dir-pf-wide", shape, refs, [rng.range(1, 40) for _ in range(25)] + [0], rng, grow=False))
    # the documented use: a child retained by a second owner outlives its parent and keeps growing (round-5 seeded miss)
    lines = ["pf reset", "pf new 64", "pf attach 0 64", "pf attach 0 64", "pf attach 0 64"]
    lines += ["pf ud %d %d 1" % (i, i + 1) for i in range(4)]
    lines += ["pf put 2 " + hx(b"kept alive by the second owner"), "pf ref 2", "pf destroy 0"]
    lines += ["pf put 2 " + hx(b"kept alive by the second owner/%d" % i) for i in range(50)]
    lines += ["pf chk 2", "pf udget 2", "pf destroy 2", "pf end"]
    ss.append({"c": "pf", "lines": lines, "tag": "dir-pf-second-owner"})
    return ss


GENS = {"hm": gen_hm, "ul": gen_ul, "pl": gen_pl, "sa": gen_sa, "rb": gen_rb, "xs": gen_xs, "av": gen_av, "po": gen_po, "pf": gen_pf}


# ------------------------------------------------------------------------------------------------ directed scripts
# Every container has growth / shrink / compaction thresholds that random scripts of a few hundred operations never
# reach.  The constants below are the ones of the sources (T1 pins MIN_BUCKETS, STEPS, IWULIST_ALLOC_UNIT,
# IWXSTR_AUNIT, the pool alignment; the 256 of iwlist_shift and the 1024 byte printf buffer are literals of the code):
#   iwlist   anum 32 (or given) -> anum + num + 1 when start + num >= anum (push/insert) or start == 0 and num >= anum
#            (unshift, which then relocates the items to the end of the array); shift compacts when the new start is a
#            multiple of 256 and start > num / 2; no shrink
#   iwulist  same growth; pop/shift/remove shrink to max(num, 32) and compact when anum > 32 and anum >= 2 * num
#   iwhmap   64 buckets; doubled when count > mask, halved when mask > 63 and count < mask / 2; bucket arrays in steps
#            of 4 (grow at used + 1 >= total, shrink when used / 4 + 1 < total / 4); LRU eviction after the resize
#   iwrb     wrap at pos == len, back at pos == 1;   iwxstr  asize 16 doubled (or set to the need) when asize < size +
#            add + 1, printf through a 1024 byte stack buffer;   iwpool  a new unit when usiz + roundup8(siz) > asiz
#   sorted-array helpers: insertion that fills the caller's array to its last element
# The scripts below cross each of them from both sides with the element count just below / at / above the threshold.
# Long list scripts run with `brief 1` (state = n, start, anum, CRC-32 of the contents, first and last element) and
# end with a full dump; every element is unique so a wrong / duplicated / lost element cannot hide.
LIST_FILL = (255, 256, 257, 511, 512, 513, 600, 767, 768, 1024, 1100)


class _Ids:
    def __init__(self, nbytes, base):
        self.n, self.c = nbytes, base

    def __call__(self):
        self.c += 1
        return "%0*x" % (2 * self.n, self.c)


def _tail(c, rng, n, item, k):
    """k mixed operations on a list of n elements (c = 'pl' / 'ul'); returns (lines, new n)"""
    out = []
    for _ in range(k):
        op = rng.weighted([("unshift", 4), ("push", 2), ("ins0", 2), ("insmid", 2), ("insend", 1), ("shift", 4), ("pop", 2),
                           ("rm0", 2), ("rmmid", 2), ("rmlast", 1), ("at", 2), ("clone", 1), ("set", 1)])
        if op in ("unshift", "push"):
            out.append("%s %s %s" % (c, op, item())); n += 1
        elif op.startswith("ins"):
            j = 0 if op == "ins0" else n if op == "insend" else n // 2
            out.append("%s insert %d %s" % (c, j, item())); n += 1
        elif op in ("shift", "pop"):
            out.append("%s %s" % (c, op)); n = max(0, n - 1)
        elif op.startswith("rm"):
            j = 0 if op == "rm0" else max(0, n - 1) if op == "rmlast" else n // 2
            out.append("%s rm %d" % (c, j))
            if j < n:
                n -= 1
        elif op == "at":
            out.append("%s at %d" % (c, rng.choice([0, max(0, n - 1), n, n // 2])))
        elif op == "set":
            out.append("%s set %d %s" % (c, rng.choice([0, max(0, n - 1), n // 2]), item()))
        else:
            out.append("%s clone" % c)
    return out, n


def _take_line(c, op, n):
    if op in ("pop", "shift"):
        return "%s %s" % (c, op)
    return "%s rm %d" % (c, 0 if op == "rm0" else max(0, n - 1) if op == "rmlast" else n // 2)


def directed_pl(rng):
    ss = []

    def mk(tag, an, body):
        ss.append({"c": "pl", "tag": "dir-pl-" + tag,
                   "lines": ["pl new %d" % an, "pl brief 1"] + body + ["pl dump", "pl clone", "pl destroy"]})
    item = _Ids(3, 0x100000)
    # queue use: push N, shift everything (+1 on the empty list), with the initial allocation below / at / above N
    for i, n in enumerate(LIST_FILL):
        an = (0, 33, n, n + 1, 1)[i % 5]
        body = ["pl push " + item() for _ in range(n)] + ["pl at 0", "pl at %d" % (n - 1)] + ["pl shift"] * (n + 1)
        body += ["pl push " + item(), "pl unshift " + item(), "pl shift", "pl push " + item()]
        mk("queue%d" % n, an, body)
    # stop after K shifts (start just below / at / above the compaction point) and go on with other operations
    for n, k in ((513, 255), (513, 256), (513, 257), (600, 256), (1024, 511), (1024, 512), (1024, 513), (1100, 512)):
        body = ["pl push " + item() for _ in range(n)] + ["pl shift"] * k
        t, m = _tail("pl", rng, n - k, item, 16)
        body += t + ["pl dump"]
        # ... and cross the next multiple of 256 coming from there
        body += ["pl shift"] * min(m, 260)
        mk("stop%d-%d" % (n, k), rng.choice([0, 33]), body)
    # the start offset reached through unshift (relocation to the end of the array), then drained from the front
    for n in (300, 600, 1100):
        body = ["pl unshift " + item() for _ in range(n)] + ["pl shift"] * (n + 1)
        mk("unshift%d" % n, rng.choice([0, 1, 2]), body)
    # mixed fill (push / unshift / insert in the middle), drained from both ends and the middle
    body, n = [], 0
    for i in range(600):
        body.append(("pl push %s", "pl unshift %s", "pl insert %d %%s" % (n // 2))[i % 3] % item()); n += 1
    for i in range(601):
        body.append(_take_line("pl", ("shift", "shift", "pop", "rmmid", "shift", "rm0")[i % 6], n)); n = max(0, n - 1)
    mk("mixed600", 0, body)
    # growth 32 -> 65 -> 131 -> 263 by insert at the end / at the front, removal from the end
    for where in ("end", "front"):
        body = ["pl insert %s %s" % ("%d" % i if where == "end" else "0", item()) for i in range(270)]
        body += ["pl rm %d" % (269 - i) for i in range(270)] + ["pl pop", "pl rm 0"]
        mk("insert-" + where, 0, body)
    if True:
        # finding cont-iwlist-osize-null (fixed 6c4e8aa): iwlist_shift / iwlist_remove wrote through the osize pointer the header calls optional
        ss.append({"c": "pl", "tag": "dir-pl-osize-null", "lines": ["pl new 0", "pl push 6162", "pl push 63", "pl push 64", "pl pop n", "pl at 0 n",
                                                                     "pl shift n", "pl rm 0 n", "pl destroy"]})
    return ss


def directed_ul(rng):
    ss = []

    def mk(tag, us, il, body):
        ss.append({"c": "ul", "tag": "dir-ul-" + tag,
                   "lines": ["ul new %d %d" % (us, il), "ul brief 1"] + body + ["ul dump", "ul clone", "ul destroy"]})
    item = _Ids(4, 0x10000000)
    item2 = _Ids(2, 0x1000)
    # fill by push to just below / at the growth points (33, 66, 132, 264, 528, 1056 pushes grow the array), then take
    # everything back through the shrink points (anum >= 2 * num) from the end / the front / the middle
    small = (32, 33, 65, 66, 131, 132)
    for n in small:
        for op in ("pop", "shift", "rm0", "rmlast", "rmmid"):
            body = ["ul push " + item() for _ in range(n)]
            m = n
            for _ in range(n + 1):
                body.append(_take_line("ul", op, m)); m = max(0, m - 1)
            body += ["ul push " + item(), "ul unshift " + item()]
            mk("fill%d-%s" % (n, op), 4, 0, body)
    for n, op in ((263, "pop"), (264, "shift"), (527, "rm0"), (528, "rmlast"), (600, "shift"), (1055, "pop"), (1056, "shift"),
                  (1100, "rmmid")):
        body = ["ul push " + item() for _ in range(n)]
        m = n
        for _ in range(n + 1):
            body.append(_take_line("ul", op, m)); m = max(0, m - 1)
        body += ["ul push " + item(), "ul unshift " + item()]
        mk("fill%d-%s" % (n, op), 4, 0, body)
    # initial allocation just below / at / above the number of pushes
    for n in (33, 64, 65, 200):
        for il in (n - 1, n, n + 1):
            body = ["ul push " + item2() for _ in range(n)]
            m = n
            op = rng.choice(["pop", "shift", "rm0", "rmmid"])
            for _ in range(n):
                body.append(_take_line("ul", op, m)); m -= 1
            mk("il%d-%d-%s" % (il, n, op), 2, il, body)
    # oscillate around a growth / shrink point
    for n in (33, 66, 132, 264, 528):
        body = ["ul push " + item() for _ in range(n - 1)]
        m = n - 1
        for _ in range(40):
            if m <= n - 3 or (m < n + 3 and rng.chance(1, 2)):
                body.append(rng.choice(["ul push %s", "ul unshift %s", "ul insert 0 %s", "ul insert %d %%s" % (m // 2),
                                        "ul insert %d %%s" % m]) % item()); m += 1
            else:
                body.append(_take_line("ul", rng.choice(["pop", "shift", "rm0", "rmmid", "rmlast"]), m)); m -= 1
        mk("osc%d" % n, 4, 0, body)
    # front fill, drained from the front; mixed tail in the middle of a big list
    body = ["ul unshift " + item() for _ in range(600)] + ["ul shift"] * 601
    mk("unshift600", 4, rng.choice([0, 1, 40]), body)
    body = ["ul push " + item() for _ in range(530)]
    t, m = _tail("ul", rng, 530, item, 30)
    body += t + ["ul dump"] + ["ul shift", "ul pop"] * (m // 2 + 1)
    mk("tail530", 4, 0, body)
    return ss


def directed_hm_af(key, val):
    """allocation failure at every allocation site of iwhmap.c x the interesting states (harness: hm failat <n> <sites>)"""
    ss = []
    open_ = True   # the former VERIF_CONT_OPEN gate: the defects these scripts trip are fixed (a8b271d, a22623c, e161ae8)

    def add(tag, lines):
        ss.append({"c": "hm", "tag": "dir-hm-af-" + tag, "lines": lines + ["hm failoff", "hm destroy"]})
    # iwhmap_create: malloc / calloc
    for kind in ("u32", "str", "ptr"):
        add("create-" + kind, ["hm failat 1 chm", "hm new %s 3" % kind, "hm put %s 1" % key(kind, 1), "hm count", "hm failat 1 cbk",
                               "hm new %s -1" % kind, "hm iter", "hm failat 2 chm,cbk", "hm new %s 2" % kind, "hm new %s 2" % kind,
                               "hm put %s %d" % (key(kind, 1), val()), "hm iter"])
    # _entry_add from put: first allocation of a bucket, then every step of 4 of ONE bucket (equal hashes); put again after the failure
    for kind in ("u32", "u64", "str", "skv", "ptr"):
        lines = ["hm new %s -1" % kind, "hm failat 1 add", "hm put %s %d" % (key(kind, 0), val()), "hm count", "hm shape", "hm failoff",
                 "hm put %s %d" % (key(kind, 0), val()), "hm failat 1 add", "hm put %s %d" % (key(kind, 0), val()), "hm failoff", "hm iter"]
        if kind in ("str", "skv"):
            lines += ["hm failat 1 strdup", "hm put %s %d" % (key(kind, 5), val()), "hm put %s %d" % (key(kind, 5), val()), "hm iter"]
        add("put-" + kind, lines)
    lines = ["hm new ptr -1"]
    for j in range(14):
        k = str(7 + 97 * j)
        # armed: the put of the new key and the replacing put (a replace grows the bucket too when used + 1 >= total)
        lines += ["hm failat 1 add", "hm put %s %d" % (k, val()), "hm put %s %d" % (k, val()), "hm failoff", "hm shape",
                  "hm put %s %d" % (k, val()), "hm shape"]
    lines += ["hm iter"]
    add("bucket-steps", lines)
    # _rehash: calloc fails at 64 -> 128 and 128 -> 256 (the map stays dense, the next put retries), and on the way down
    for kind in ("u32", "str"):
        lines = ["hm new %s -1" % kind]
        for i in range(140):
            if i in (63, 64, 127, 128):
                lines += ["hm failat 1 rehash"]
            lines.append("hm put %s %d" % (key(kind, i), val()))
            if i in (63, 64, 65, 127, 128, 129):
                lines += ["hm shape", "hm failoff"]
        lines += ["hm iter"]
        n = 140
        for i in range(140):
            if n in (64, 63, 32, 31):
                lines += ["hm failat 1 rehash"]
            lines.append("hm rm %s" % key(kind, i)); n -= 1
            if n in (63, 62, 61, 31, 30, 29):
                lines += ["hm shape", "hm failoff"]
        lines += ["hm iter", "hm put %s %d" % (key(kind, 1), val()), "hm iter"]
        add("rehash-calloc-" + kind, lines)
    # _lru_entry_update: the first node, a later node, a get of a node-less entry, after a late lru_init, with eviction going on
    for kind in ("u32", "str", "ptr"):
        lines = ["hm new %s 3" % kind, "hm failat 1 node", "hm put %s %d" % (key(kind, 0), val()), "hm lru",
                 "hm put %s %d" % (key(kind, 1), val()), "hm failat 1 node", "hm put %s %d" % (key(kind, 2), val()), "hm lru",
                 "hm failat 1 node", "hm get %s" % key(kind, 0), "hm lru", "hm get %s" % key(kind, 0), "hm lru",
                 "hm put %s %d" % (key(kind, 3), val()), "hm lru", "hm count", "hm put %s %d" % (key(kind, 4), val()), "hm lru", "hm count",
                 "hm failat 1 node", "hm ren %s %s" % (key(kind, 2), key(kind, 9)), "hm lru", "hm iter",
                 "hm failat 2 node", "hm put %s %d" % (key(kind, 5), val()), "hm put %s %d" % (key(kind, 6), val()), "hm lru", "hm count", "hm iter",
                 "hm clear", "hm put %s %d" % (key(kind, 1), val()), "hm put %s %d" % (key(kind, 2), val()), "hm lruinit 1",
                 "hm failat 1 node", "hm get %s" % key(kind, 1), "hm lru", "hm get %s" % key(kind, 2), "hm lru", "hm put %s %d" % (key(kind, 3), val()),
                 "hm lru", "hm iter"]
        add("node-" + kind, lines)
    # _entry_remove: the realloc that gives back steps of 4 fails (ignored: total stays), one bucket of 14 drained
    lines = ["hm new ptr -1"] + ["hm put %d %d" % (9 + 97 * j, val()) for j in range(14)] + ["hm shape"]
    for j in range(14):
        lines += ["hm failat 1 shrink", "hm rm %d" % (9 + 97 * j), "hm shape", "hm failoff"]
    lines += ["hm put 9 %d" % val(), "hm shape", "hm iter"]
    add("shrink", lines)
    # iwhmap_clear of a large map: realloc to MIN_BUCKETS fails, the large zeroed array stays; everything works afterwards
    for kind, lru in (("u64", -1), ("str", 200)):
        lines = ["hm new %s %d" % (kind, lru)] + ["hm put %s %d" % (key(kind, i), val()) for i in range(135)]
        lines += ["hm shape", "hm failat 1 clear", "hm clear", "hm shape", "hm lru", "hm iter"]
        lines += ["hm put %s %d" % (key(kind, i), val()) for i in range(70)] + ["hm shape", "hm iter", "hm clear", "hm shape",
                  "hm put %s %d" % (key(kind, 3), val()), "hm iter"]
        add("clear-" + kind, lines)
    # several failures in a row while a map with LRU works
    lines = ["hm new u32 40"]
    for i in range(120):
        if i % 7 == 3:
            lines.append("hm failat %d node,rehash,shrink" % (1 + i % 3))
        lines.append("hm put %s %d" % (key("u32", i % 90), val()))
        if i % 5 == 0:
            lines.append("hm get %s" % key("u32", (i * 7) % 90))
        if i % 20 == 19:
            lines += ["hm lru", "hm shape", "hm count"]
    lines += ["hm iter"]
    add("mix-lru", lines)
    if open_:
        # finding cont-hmap-rehash-fail: _entry_add fails inside _rehash (grow at 64 and 128, shrink), then every key is looked up
        for kind, n0, fa in (("u32", 63, 20), ("u32", 63, 1), ("u32", 63, 2), ("u64", 63, 40), ("str", 63, 33), ("ptr", 63, 5),
                             ("u32", 127, 50), ("str", 127, 90)):
            lines = ["hm new %s -1" % kind] + ["hm put %s %d" % (key(kind, i), val()) for i in range(n0)]
            lines += ["hm failat %d readd" % fa, "hm put %s %d" % (key(kind, n0), val()), "hm shape", "hm count"]
            lines += ["hm get %s" % key(kind, i) for i in range(n0 + 1)] + ["hm iter", "hm put %s %d" % (key(kind, n0 + 1), val()), "hm shape", "hm iter"]
            add("rehash-readd-%s-%d-%d" % (kind, n0, fa), lines)
        lines = ["hm new u32 -1"] + ["hm put %s %d" % (key("u32", i), val()) for i in range(140)]
        lines += ["hm rm %s" % key("u32", i) for i in range(76)] + ["hm shape", "hm failat 9 readd"]
        lines += ["hm rm %s" % key("u32", i) for i in range(76, 80)] + ["hm shape"] + ["hm get %s" % key("u32", i) for i in range(76, 140)] + ["hm iter"]
        add("rehash-readd-shrink", lines)
        lines = ["hm new ptr 70"] + ["hm put %d %d" % (5 + i, val()) for i in range(63)]
        lines += ["hm failat 3 readd", "hm put 900 %d" % val(), "hm lru", "hm shape"] + ["hm put %d %d" % (901 + i, val()) for i in range(12)] + ["hm lru", "hm shape", "hm iter"]
        add("rehash-readd-lru", lines)
        # finding cont-hmap-rename-fail: _entry_add(key_new) fails after _entry_remove(key_old)
        for kind, lru in (("u32", -1), ("u32", 2), ("str", -1), ("skv", 3), ("ptr", -1)):
            lines = ["hm new %s %d" % (kind, lru), "hm put %s %d" % (key(kind, 1), val()), "hm put %s %d" % (key(kind, 2), val()),
                     "hm failat 1 add", "hm ren %s %s" % (key(kind, 1), key(kind, 3)), "hm count", "hm lru", "hm get %s" % key(kind, 1),
                     "hm get %s" % key(kind, 3), "hm failoff", "hm ren %s %s" % (key(kind, 2), key(kind, 3)), "hm iter"]
            add("rename-add-%s%s" % (kind, "-lru" if lru >= 0 else ""), lines)
    return ss


def directed_hm(rng):
    ss = []

    def key(kind, i):
        if kind == "u32":
            return str(1000 + 7 * i)
        if kind == "u64":
            return str((1 << 40) + 0x10001 * i)
        if kind in ("str", "skv"):
            return hx(b"k%03d" % i)
        return str(5 + i)
    vid = [70000]

    def val():
        vid[0] += 1
        return vid[0]
    borders = (62, 63, 64, 65, 66, 126, 127, 128, 129, 130, 254, 255, 256, 257, 258)
    # up through 64 -> 128 -> 256 -> 512 buckets and down again, an observation on both sides of every resize
    for kind in ("u32", "u64", "str", "ptr"):
        lines = ["hm new %s -1" % kind]
        for i in range(260):
            lines.append("hm put %s %d" % (key(kind, i), val()))
            if i + 1 in borders:
                lines += ["hm shape"] + (["hm iter"] if (i + 1) % 2 else [])
        order = list(range(260))
        if kind in ("u64", "ptr"):
            order.reverse()
        n = 260
        for i in order:
            lines.append("hm rm %s" % key(kind, i)); n -= 1
            if n in borders or n % 32 == 0:
                lines += ["hm shape"] + (["hm iter"] if n in (63, 126, 254) else [])
        for i in range(70):
            lines.append("hm put %s %d" % (key(kind, i * 3), val()))
        lines += ["hm iter", "hm shape", "hm destroy"]
        ss.append({"c": "hm", "tag": "dir-hm-ramp-" + kind, "lines": lines})
    # LRU bound at / next to a resize point: the put that doubles the bucket array also evicts
    for kind, bound in (("u32", 64), ("u64", 65), ("str", 128), ("ptr", 129), ("u32", 63), ("str", 66)):
        lines = ["hm new %s %d" % (kind, bound)]
        for i in range(bound + 12):
            lines.append("hm put %s %d" % (key(kind, i), val()))
            if bound - 3 <= i + 1 <= bound + 4:
                lines += ["hm shape", "hm lru"]
        for i in range(8):
            lines.append("hm get %s" % key(kind, rng.range(0, bound + 11)))
        for i in range(12):
            lines.append("hm put %s %d" % (key(kind, bound + 12 + i), val()))
        lines += ["hm lru", "hm iter", "hm shape"]
        for i in range(bound + 24):
            lines.append("hm rm %s" % key(kind, i))
            if i % 16 == 0:
                lines += ["hm shape", "hm lru"]
        lines += ["hm iter", "hm destroy"]
        ss.append({"c": "hm", "tag": "dir-hm-lru%d-%s" % (bound, kind), "lines": lines})
    # one bucket (equal full hashes) through the steps of 4, up and down; then the same bucket across a resize
    for top, order in ((14, "fifo"), (14, "lifo"), (14, "mid"), (70, "fifo")):
        base = rng.range(1, 96)
        ks = [str(base + 97 * j) for j in range(top)]
        lines = ["hm new ptr -1"]
        for k in ks:
            lines += ["hm put %s %d" % (k, val()), "hm shape"]
        lines.append("hm iter")
        live = list(ks)
        while live:
            k = live.pop(0 if order == "fifo" else -1 if order == "lifo" else len(live) // 2)
            lines += ["hm rm %s" % k, "hm shape"]
            if len(live) in (9, 5):
                lines += ["hm put %s %d" % (k, val()), "hm shape", "hm rm %s" % k]
        lines += ["hm put %s %d" % (ks[0], val()), "hm iter", "hm destroy"]
        ss.append({"c": "hm", "tag": "dir-hm-bucket%d-%s" % (top, order), "lines": lines})
    # iwhmap_lru_init when entries exist: old entries have no node, victims come only from the keys touched since, the
    # eviction loop stops on an empty list although count > max; a second init with a lower / higher bound; across a resize
    for kind, pre, b1, b2 in (("u32", 6, 2, 9), ("u64", 10, 10, 3), ("str", 5, 0, 4), ("ptr", 12, 11, 1), ("skv", 7, 3, 1),
                              ("u32", 70, 64, 10), ("str", 130, 100, 127), ("ptr", 66, 3, 200)):
        lines = ["hm new %s -1" % kind]
        for i in range(pre):
            lines.append("hm put %s %d" % (key(kind, i), val()))
        lines += ["hm evmax %d" % pre, "hm evmax %d" % (pre - 1), "hm evmax %d" % (pre + 1),
                  "hm lruinit %d" % b1, "hm lru", "hm count", "hm shape"]
        lines += ["hm put %s %d" % (key(kind, pre), val()), "hm lru", "hm count"]           # evicts itself when pre >= b1
        lines += ["hm get %s" % key(kind, 0), "hm get %s" % key(kind, 1), "hm lru"]          # old entries get nodes
        lines += ["hm put %s %d" % (key(kind, pre + 1), val()), "hm lru", "hm count", "hm iter"]
        lines += ["hm ren %s %s" % (key(kind, 2), key(kind, pre + 2)), "hm lru"]             # node-less entry renamed
        lines += ["hm ren %s %s" % (key(kind, 3), key(kind, 4)), "hm lru", "hm count"]       # onto a node-less live key
        lines += ["hm rm %s" % key(kind, 4), "hm rm %s" % key(kind, 0), "hm lru"]
        lines += ["hm put %s %d" % (key(kind, 3), val()), "hm lru", "hm shape"]
        lines += ["hm lruinit %d" % b2, "hm lru", "hm count"]
        for i in range(6):
            lines += ["hm put %s %d" % (key(kind, pre + 10 + i), val()), "hm lru", "hm count"]
        lines += ["hm get %s" % key(kind, pre // 2), "hm lru", "hm iter", "hm shape"]
        for i in range(pre + 16):
            lines.append("hm rm %s" % key(kind, i))
            if i % 8 == 0:
                lines += ["hm lru", "hm count"]
        lines += ["hm iter", "hm put %s %d" % (key(kind, 1), val()), "hm lru", "hm clear", "hm lruinit 2",
                  "hm put %s %d" % (key(kind, 1), val()), "hm put %s %d" % (key(kind, 2), val()),
                  "hm put %s %d" % (key(kind, 3), val()), "hm lru", "hm iter", "hm destroy"]
        ss.append({"c": "hm", "tag": "dir-hm-lruinit-%s-%d" % (kind, pre), "lines": lines})
    # header functions without a live map, eviction predicate at count == max / max + 1, iterator on empty / one-entry maps,
    # ownership of keys: str map, rename of an absent key (the caller keeps key_new), replace, clear, destroy with entries left
    for kind in ("str", "skv", "u64"):
        lines = ["hm create0", "hm null", "hm kvfree", "hm iter0", "hm new %s 3" % kind, "hm iter", "hm iter0", "hm evmax 0",
                 "hm put %s %d" % (key(kind, 1), val()), "hm iter", "hm evmax 0", "hm evmax 1", "hm evmax 2",
                 "hm ren %s %s" % (key(kind, 7), key(kind, 8)), "hm ren %s %s" % (key(kind, 1), key(kind, 1)), "hm iter",
                 "hm put %s %d" % (key(kind, 1), val()), "hm put %s 0" % key(kind, 2), "hm put %s %d" % (key(kind, 3), val()),
                 "hm evmax 3", "hm evmax 2", "hm put %s %d" % (key(kind, 4), val()), "hm lru", "hm iter",
                 "hm ren %s %s" % (key(kind, 3), key(kind, 4)), "hm iter", "hm clear", "hm iter", "hm null",
                 "hm put %s %d" % (key(kind, 5), val()), "hm put %s %d" % (key(kind, 6), val()), "hm create0", "hm destroy"]
        ss.append({"c": "hm", "tag": "dir-hm-header-" + kind, "lines": lines})
    ss += directed_hm_af(key, val)
    if True:
        # finding hmap-iter-next-past-end (fixed e161ae8): one more iwhmap_iter_next after the call that returned false
        ss.append({"c": "hm", "tag": "dir-hm-iterx", "lines": ["hm new u32 -1", "hm iterx", "hm put 1 5", "hm iterx", "hm destroy"]})
    return ss


def directed_rb(rng):
    ss = []
    ctr = [0]
    # iwrb_wrap: buffer sizes around "header + k units" for k = 0, 1, 2, 3 (NULL below header + one unit)
    for us in (1, 2, 4, 7):
        lines = []
        for k in (0, 1, 2, 3):
            for dl in (-1, 0, 1):
                bl = RB_HDR + k * us + dl
                lines += ["rb wrap %d %d" % (us, bl), "rb put 11", "rb put 22", "rb state", "rb back", "rb put 33", "rb put 44", "rb put 55",
                          "rb state", "rb back", "rb state"]
        lines += ["rb wrap %d 0" % us, "rb state", "rb wrap %d %d" % (us, RB_HDR - 1), "rb wrap %d %d" % (us, RB_HDR + 5 * us), "rb put aa", "rb destroy"]
        ss.append({"c": "rb", "tag": "dir-rb-wrap-us%d" % us, "lines": lines})
    # finding cont-rb-capacity-zero (fixed 7d7a602): a ring of capacity 0 accepted a put (heap overflow) ...
    ss.append({"c": "rb", "tag": "dir-rb-cap0", "lines": ["rb new 4 0", "rb state", "rb put 01020304", "rb state", "rb destroy"]})
    # ... and iwrb_wrap with a unit size of 0 divided by zero
    ss.append({"c": "rb", "tag": "dir-rb-wrap-usize0", "lines": ["rb wrap 0 64", "rb state", "rb wrap 0 0", "rb wrap 0 31"]})
    # KNOWN FINDING C18-rb-back-wrapped: iwrb_back on a wrapped ring cannot drop a unit (the ring has no count field): the unit
    # taken back reappears as the oldest one and the count stays at capacity.  This family is judged by the bounded-deque reference
    # (strict); each script is minimal: fill, wrap by k puts, b backs, look.  Every other rb script keeps the tolerant reading
    # (only the units known to be present are compared), so any OTHER misbehaviour of the ring is an ordinary violation.
    for ln in (1, 2, 3, 5):
        for extra in (1, 2, ln + 1):
            for backs in (1, ln):
                lines = ["rb new 1 %d" % ln] + ["rb put %02x" % (i + 1) for i in range(ln + extra)] + ["rb back"] * backs + ["rb state", "rb destroy"]
                ss.append({"c": "rb", "tag": "dir-rb-back-wrapped-%d-%d-%d" % (ln, extra, backs), "origin": RB_BACK_ORIGIN, "lines": lines})

    def put():
        ctr[0] += 1
        return "rb put %04x" % (0x1000 + ctr[0])
    for ln in (1, 2, 3, 4, 8, 9):
        lines = ["rb new 2 %d" % ln, "rb state", "rb back"]
        lines += [put() for _ in range(ln - 1)] + ["rb state", put(), "rb state", "rb back", put()]   # full, not wrapped
        lines += [put(), "rb state", "rb back", "rb state", put(), put()]                                # wrapped; back at pos 1
        lines += ["rb back"] * (ln + 2) + [put() for _ in range(2 * ln + 1)] + ["rb state", "rb clear", "rb state"]
        lines += [put() for _ in range(ln)] + ["rb back"] * ln + ["rb state", put(), "rb destroy"]
        ss.append({"c": "rb", "tag": "dir-rb-len%d" % ln, "lines": lines})
    return ss


def _fib_shape(h, lo):
    """(shape, next free key): minimal AVL tree of height h (left subtree the higher one), keys lo.. in in-order"""
    if h <= 0:
        return None, lo
    l, k = _fib_shape(h - 1, lo)
    r, nxt = _fib_shape(h - 2, k + 1)
    return (k, l, r), nxt


def _bfs_keys(t):
    out, q = [], [t]
    while q:
        n = q.pop(0)
        if n:
            out.append(n[0]); q += [n[1], n[2]]
    return out


def directed_av(rng):
    ss = []

    def mk(tag, body):
        ss.append({"c": "av", "tag": "dir-av-" + tag, "lines": ["av new", "av post"] + body + ["av post", "av destroy"]})
    n = 40
    mk("asc", ["av ins %d" % k for k in range(1, n + 1)] + ["av post"] + ["av rm %d" % k for k in range(1, n + 1)])
    mk("desc", ["av ins %d" % k for k in range(n, 0, -1)] + ["av post"] + ["av rm %d" % k for k in range(n, 0, -1)])
    zig = [x for p in zip(range(1, n // 2 + 1), range(n, n // 2, -1)) for x in p]
    mk("zigzag", ["av ins %d" % k for k in zig] + ["av post"] + ["av lookn %d" % k for k in (0, 1, n // 2, n, n + 1)] +
       ["av rm %d" % k for k in reversed(zig)])
    mk("dups", ["av ins 5", "av ins 5", "av ins 3", "av ins 3", "av ins 8", "av rm 4", "av rm 5", "av rm 5", "av ins 5", "av find 5", "av find 4"])
    # minimal (Fibonacci) trees: every removal on the short side retraces with rotations towards the root
    for h in (3, 4, 5, 6, 7):
        shape, nxt = _fib_shape(h, 1)
        keys = _bfs_keys(shape)
        ins = ["av ins %d" % k for k in keys]
        for order, ks in (("max", sorted(keys, reverse=True)), ("min", sorted(keys)), ("root", keys), ("leaves", list(reversed(keys)))):
            body = list(ins) + ["av post"]
            for j, k in enumerate(ks):
                body.append("av rm %d" % k)
                if j % 5 == 4:
                    body += ["av post", "av lookn %d" % ks[-1]]
            mk("fib%d-%s" % (h, order), body)
    # removal of a node with two children whose successor is / is not its right child, at the root and deeper
    mk("two-children", ["av ins %d" % k for k in (50, 30, 70, 20, 40, 60, 80, 35, 45, 65)] +
       ["av rm 50", "av post", "av rm 30", "av rm 60", "av post", "av rm 70", "av rm 65", "av rm 80", "av post"])
    return ss


def directed_xs(rng):
    ss = []

    def grow(asz, need):
        while asz < need:
            asz <<= 1
            if asz < need:
                asz = need
        return asz

    def filler(n):
        return hx(bytes(1 + (i * 7 + n) % 250 for i in range(n)))
    for init in (0, 1, 17):
        for op in ("cat", "unshift", "ins0", "insmid", "insend", "printf", "iprintf"):
            asz = init or 16
            sz = 0
            lines = ["xs new %d" % init]
            add = 1 if op in ("cat", "unshift", "ins0", "insmid", "insend") else 3

            def step():
                if op in ("cat", "unshift"):
                    return "xs %s %s" % (op, filler(add))
                if op.startswith("ins"):
                    return "xs insert %d %s" % (0 if op == "ins0" else sz if op == "insend" else sz // 2, filler(add))
                if op == "printf":
                    return "xs printf %s 7" % filler(add - 2)
                return "xs iprintf %d %s 7" % (sz // 2, filler(add - 2))
            while asz <= 2048:
                # fill so that one more step fits exactly (size + add + 1 == asize), then step twice: fits, grows
                pad = asz - 1 - add - sz
                if pad > 0:
                    lines.append("xs cat " + filler(pad)); sz += pad
                for _ in range(2):
                    lines.append(step()); sz += add
                    asz = grow(asz, sz + 1)
                lines.append("xs clone")
            lines += ["xs pop 1", "xs shift 1", "xs shift %d" % (sz + 5), "xs cat 41", "xs destroy"]
            ss.append({"c": "xs", "tag": "dir-xs-%s-%d" % (op, init), "lines": lines})
    # growth where doubling is not enough; printf/insert_printf around the 1024 byte stack buffer (text = s + ":7")
    lines = ["xs new 0", "xs cat " + filler(5000), "xs cat 41", "xs unshift " + filler(9000), "xs insert 3 " + filler(40000),
             "xs clone", "xs clear"]
    for n in (1020, 1021, 1022, 1023, 1024):
        lines += ["xs printf %s 7" % filler(n), "xs iprintf 1 %s 7" % filler(n), "xs clear"]
    lines += ["xs destroy"]
    ss.append({"c": "xs", "tag": "dir-xs-jump", "lines": lines})
    # iwxstr_set_size: shrink to every size (no terminator is written: the byte there is the old data byte), keep, grow by 1,
    # to asize - 1 (fits), to asize (one more byte: doubling), far beyond (jump); then the calls that copy the byte after the
    # data along (insert) or do nothing (shift 0, pop 0) and the ones that terminate again
    for init in (0, 1, 17):
        asz = init or 16
        lines = ["xs new %d" % init, "xs cat " + filler(9)]
        sz = 9
        for k in (8, 8, 3, 0, 0):
            lines += ["xs setsize %d 1 0" % k, "xs pop 0", "xs shift 0", "xs insert 0 -", "xs insert %d 6162" % (k // 2)]
            sz = k + 2
            lines += ["xs clone", "xs setsize %d 1 0" % (sz - 1), "xs cat 63"]
            sz = sz
        for k in (sz + 1, max(asz, sz) - 1, max(asz, sz), max(asz, sz) * 2, max(asz, sz) * 4 + 3, 5000):
            lines += ["xs setsize %d 120 0" % k, "xs clone", "xs setsize %d 121 65" % (k + 1), "xs insert 1 7a7a", "xs cat 41", "xs clone"]
            asz = grow(asz, k + 2)
        lines += ["xs setsize 2 1 0", "xs unshift 7171", "xs setsize 1 1 0", "xs clear", "xs cat2null", "xs destroy"]
        ss.append({"c": "xs", "tag": "dir-xs-setsize-%d" % init, "lines": lines})
    # the other entry points of the printf family around the 1024 byte stack buffer and around the first allocation of
    # iwxstr_printf_alloc (asize 0 -> exactly the need) / iwxstr_new_printf (asize 16: 13 + ":7" + NUL fits, 14 grows)
    lines = ["xs empty"]
    for n in (0, 1, 12, 13, 14, 15, 29, 30, 1020, 1021, 1022, 1023, 1024, 3000):
        lines += ["xs palloc %s 7" % filler(n), "xs newprintf %s 7" % filler(n)]
    lines += ["xs destroy"]
    ss.append({"c": "xs", "tag": "dir-xs-printf-entry", "lines": lines})
    # user data: every order of set (with / without destructor, NULL datum) / get / detach, ended by destroy or destroy_keep_ptr
    k = 0
    for end in ("destroy", "keepptr"):
        for seq in (["ud 1 1"], ["ud 1 0"], ["ud 1 1", "ud 2 1"], ["ud 1 1", "uddetach"], ["ud 1 1", "uddetach", "ud 2 1"],
                    ["ud 1 0", "ud 2 1", "udget"], ["ud 0 1"], ["ud 0 1", "ud 3 1", "uddetach", "uddetach", "udget"],
                    ["udget", "uddetach"], ["ud 1 1", "ud 2 0", "ud 3 1", "ud 4 1", "uddetach", "ud 5 1"]):
            lines = ["xs new 0", "xs cat 6162"] + ["xs " + x for x in seq] + ["xs udget", "xs " + end]
            ss.append({"c": "xs", "tag": "dir-xs-ud-%d" % k, "lines": lines}); k += 1
    return ss


def directed_sa(rng):
    ss = []
    for cap in (1, 2, 3, 8, 33):
        tag = [0]

        def ins(k, sk=0):
            tag[0] += 1
            return "sa ins %d %d %d" % (k, tag[0], sk)
        lines = ["sa new %d" % cap, "sa find 1", "sa find2 1", "sa rm 1"]
        lines += [ins(2 * i) for i in range(cap)] + [ins(1), ins(2 * cap)]              # ascending to full, then refused
        for k in range(-1, 2 * cap + 1):
            lines += ["sa find %d" % k, "sa find2 %d" % k]
        lines += ["sa rm %d" % (2 * i) for i in range(cap)] + ["sa rm 0"]                # from the front
        lines += [ins(2 * (cap - i)) for i in range(cap)]                               # descending to full
        lines += ["sa rm %d" % (2 * (cap - i)) for i in range(cap)]                     # from the end
        mid = list(range(cap))
        mid.sort(key=lambda i: abs(i - cap // 2))
        lines += [ins(2 * i) for i in mid[:-1]]                                         # middle out, one slot left
        last = 2 * mid[-1]
        lines += [ins(2 * mid[0], 1) if cap > 1 else ins(last, 1), ins(last), ins(last)]  # skipeq on a present key, fill, refused
        lines += ["sa rm %d" % (2 * i) for i in mid]
        lines += [ins(5) for _ in range(cap)] + ["sa find 5", "sa find2 5", "sa rm 5", ins(4), ins(6), "sa rm 5"]  # duplicates
        ss.append({"c": "sa", "tag": "dir-sa-cap%d" % cap, "lines": lines})
    return ss


def directed_po(rng):
    ss = []
    for siz in (8, 16, 64, 100, 1024):
        asz = (siz + 7) // 8 * 8
        for rest in (0, 8, 16):
            if rest > asz:
                continue
            for d in (-1, 0, 1):
                if rest + d < 0:
                    continue
                lines = ["po new %d" % siz]
                if asz - rest:
                    lines.append("po alloc %d" % (asz - rest))
                lines += ["po %s %d" % (rng.choice(["alloc", "calloc"]), rest + d), "po alloc 1", "po alloc 8", "po alloc 9",
                          "po strdup " + hx(b"abcdefg"), "po strdup " + hx(b"abcdefgh"), "po printf %s 7" % hx(b"xy"),
                          "po alloc %d" % (2 * asz), "po alloc 0", "po destroy"]
                ss.append({"c": "po", "tag": "dir-po-%d-%d%+d" % (siz, rest, d), "lines": lines})
    # size_t requests near SIZE_MAX: below / at / above the point where IW_ROUNDUP(siz, 8) wraps, on a fresh unit, after an allocation, on
    # an empty pool; the allocation that follows must not get the address handed out for the huge request
    for first in ("po new 64", "po new 8", "po newempty"):
        lines = [first, "po alloc 8"]
        for n in (SIZE_MAX - 3, SIZE_MAX, SIZE_MAX - 6, SIZE_MAX - 7, SIZE_MAX - 8, SIZE_MAX - 15, 1 << 63, (1 << 63) + 5):
            lines += ["po allocbig %d" % n, "po alloc 16"]
        if JUDGE_POOL_WRAP:
            for n in (SIZE_MAX - 3, SIZE_MAX, SIZE_MAX - 7, 1 << 63):
                lines += ["po callocbig %d" % n, "po strndupbig %d" % n, "po strndupbig %d" % (n - 1), "po alloc 8"]
        lines += ["po destroy"]
        ss.append({"c": "po", "tag": "dir-po-sizewrap-" + first.split()[1] + first.split()[-1], "lines": lines})
    # iwpool_split_string: every shape of the token rule (separator first / last / doubled, blank tokens, a last token of blanks
    # only, one character, nothing) with and without trimming, on a pool whose unit ends inside the token allocations
    hays = [b"", b",", b"a", b" ", b"a,", b",a", b"a,b", b"a,,b", b",,", b" a , b ", b"a, ,b", b" , ", b"  ", b"a,b,", b"a,b, ", b"\t\n a\r,\x0b\x0cb ",
            b"abc;def,ghi", b" ;, ", b"x" * 30 + b"," + b"y" * 30, b", ,bcd,e", b"a, ,bcd,e",
            # separators only / almost only: strlen tokens need strlen + 1 pointer slots
            b",,,", b",,,,,,,,,,,,", b"id,,,,,,,,x", b";" * 20, b",a,,b,,,c,,,,", b"," * 63, b"k,,,,,,,,,,,,,,,,,,,,,,,,,,,,,,v"]
    for ws in (0, 1):
        for unit in (8, 64):
            lines = ["po new %d" % unit]
            for h in hays:
                lines.append("po split %s %s %d" % (hx(h), hx(b",;"), ws))
            lines += ["po psplit %s 42 %s %d" % (hx(b"k, v"), hx(b",:"), ws), "po psplit - 0 %s %d" % (hx(b":"), ws),
                      "po psplit %s 1 %s %d" % (hx(b",,,,,,,,,,"), hx(b",:"), ws),
                      "po printfva %s -1" % hx(b"abc"), "po strdupx 0 %s" % hx(b"abcdefgh"), "po strdupx 1 %s" % hx(b"abcdefg"),
                      "po strdupx 2 -", "po destroy"]
            ss.append({"c": "po", "tag": "dir-po-split-ws%d-u%d" % (ws, unit), "lines": lines})
    return ss


def directed(rng):
    out = []
    for f in (directed_pl, directed_ul, directed_hm, directed_rb, directed_xs, directed_sa, directed_av, directed_po, directed_pf):
        out += f(rng.fork())
    return out


# ------------------------------------------------------------------------------------------------ oracles
# each oracle returns a list of (line index, message); `outs` are the implementation's output lines
def oracle_hm(lines, outs):
    bad = []
    d, rec, lru, kind = {}, [], -1, None

    def fk(k):
        return "0" if kind in ("u32", "u64") else k

    def flog(o):
        f = kv(o).get("f", "-")
        return [x for x in ([] if f == "-" else f.split(",")) if x != "0/0"]

    def exp(pairs):
        # kind skv: kv_free_fn = iwhmap_kv_free, nothing is logged (ASan / LSan judge the releases)
        return [] if kind == "skv" else [x for x in ("%s/%s" % p for p in pairs) if x != "0/0"]
    for i, (l, o) in enumerate(zip(lines, outs)):
        t = l.split()
        op = t[1]
        r = kv(o)
        # af = allocation sites of iwhmap.c that returned NULL during this call (reported by the harness' hooks)
        af = [x for x in r.get("af", "").split(",") if x]
        if op == "new":
            d, rec, kind, lru = {}, [], t[2], int(t[3])
            if o.startswith("null"):
                # iwhmap_create under a failing allocator: no map (the old one was destroyed by the harness before)
                kind = None
                if not (set(af) & {"chm", "cbk"}):
                    bad.append((i, "iwhmap_create returned NULL without an allocation failure: %s" % o))
            elif af:
                bad.append((i, "iwhmap_create returned a map although its allocation failed: %s" % o))
            continue
        if op in ("failat", "failoff"):
            continue
        if "FAULT" in o:
            bad.append((i, "model-side fault marker in implementation output")); continue
        if op == "create0":
            if o != "null=1":
                bad.append((i, "iwhmap_create without hash function returned a map: %s" % o))
            continue
        if op in ("null", "kvfree"):
            if o != "ok":
                bad.append((i, "%s: %s" % (op, o)))
            continue
        if op == "iter0":
            if r.get("r") != "00":
                bad.append((i, "iwhmap_iter_next on an iterator without map returned true: %s" % o))
            continue
        if kind is None or o == "nohm":
            continue
        if op == "lruinit":
            # iwhmap_lru_init at any time: the bound changes, the recency list keeps what it has (nothing when LRU was off)
            lru = int(t[2])
            if o != "ok":
                bad.append((i, "lruinit: %s" % o))
            continue
        if op == "evmax":
            if r.get("r") != ("1" if len(d) > int(t[2]) else "0"):
                bad.append((i, "iwhmap_lru_eviction_max_count(%s) with %d entries answered %s" % (t[2], len(d), o)))
            continue
        if op in ("put", "ren") and r.get("rc") != "0" and not (set(af) & {"add", "strdup"}):
            bad.append((i, "%s failed without an allocation failure: %s" % (op, o)))
            continue
        if op == "put" and (set(af) & {"add", "strdup"}):
            # a failed put changes nothing, reports the error, frees nothing (key and value stay with the caller)
            if r.get("rc") == "0" or r.get("n") != str(len(d)) or flog(o):
                bad.append((i, "put whose allocation failed: expected rc=err n=%d f=-, got %s" % (len(d), o)))
            continue
        if "node" in af and op in ("put", "get", "ren"):
            kk = t[3] if op == "ren" else t[2]
            if kk in rec and not (op == "ren" and t[2] == kk):
                bad.append((i, "an LRU node was allocated for key %s that has one" % kk))
        if op == "put":
            k, v = t[2], t[3]
            ef = []
            if k in d:
                ef.append((fk(k), d[k]))
            d[k] = v
            if lru >= 0:
                if k in rec:
                    rec.remove(k)
                if "node" not in af:      # malloc of the node failed: the entry stays without node
                    rec.append(k)
                while len(d) > lru and rec:
                    vic = rec.pop(0)
                    ef.append((fk(vic), d.pop(vic)))
            if r.get("rc") != "0" or r.get("n") != str(len(d)):
                bad.append((i, "put: rc/count differ from the reference map (expected n=%d): %s" % (len(d), o)))
            if flog(o) != exp(ef):
                bad.append((i, "put: freed/evicted %s, reference %s" % (flog(o), exp(ef))))
        elif op == "get":
            k = t[2]
            ev = d.get(k)
            if k in d and lru >= 0 and "node" not in af:
                if k in rec:
                    rec.remove(k)
                rec.append(k)
            if r.get("v") != ("nil" if ev in (None, "0") else ev) or r.get("n") != str(len(d)) or flog(o):
                bad.append((i, "get: %s, reference v=%s n=%d" % (o, ev, len(d))))
        elif op == "rm":
            k = t[2]
            ef = []
            er = "0"
            if k in d:
                er = "1"
                ef.append((fk(k), d.pop(k)))
                if k in rec:
                    rec.remove(k)
            if r.get("r") != er or r.get("n") != str(len(d)) or flog(o) != exp(ef):
                bad.append((i, "remove: %s, reference r=%s n=%d freed %s" % (o, er, len(d), exp(ef))))
        elif op == "ren":
            a, b = t[2], t[3]
            ef = []
            if a in d and "add" in af:
                # _entry_add(key_new) failed after the old entry was removed: the entry is gone, rc != 0, key_new stays with
                # the caller and the VALUE must have been handed to kv_free_fn (finding cont-hmap-rename-fail: it is dropped)
                v = d.pop(a)
                if a in rec:
                    rec.remove(a)
                ef = [(fk(a), "0"), ("0", v)]
                if r.get("rc") == "0" or r.get("n") != str(len(d)):
                    bad.append((i, "rename whose allocation failed: expected rc=err n=%d, got %s" % (len(d), o)))
                if flog(o) != exp(ef):
                    bad.append((i, "rename whose allocation failed lost the value %s: freed %s, expected %s" % (v, flog(o), exp(ef))))
                continue
            if a in d:
                v = d.pop(a)
                ef.append((fk(a), "0"))
                if b in d:
                    ef.append((fk(b), d[b]))
                d[b] = v
                if a in rec:
                    rec.remove(a)
                if b in rec:
                    rec.remove(b)
                if lru >= 0 and "node" not in af:
                    rec.append(b)
            if r.get("rc") != "0" or r.get("n") != str(len(d)) or flog(o) != exp(ef):
                bad.append((i, "rename: %s, reference n=%d freed %s" % (o, len(d), exp(ef))))
        elif op in ("clear", "destroy"):
            ef = sorted(exp([(fk(k), v) for k, v in d.items()]))
            if sorted(flog(o)) != ef or (op == "clear" and r.get("n") != "0"):
                bad.append((i, "%s: freed %s, reference %s" % (op, sorted(flog(o))[:8], ef[:8])))
            d, rec = {}, []
        elif op == "count":
            if r.get("n") != str(len(d)):
                bad.append((i, "count %s, reference %d" % (o, len(d))))
        elif op in ("iter", "iterx"):
            it = r.get("it", "-")
            got = sorted([] if it == "-" else it.split(","))
            if got != sorted("%s:%s" % p for p in d.items()):
                bad.append((i, "iteration differs from the reference map: %d pairs, reference %d" % (len(got), len(d))))
            if r.get("st") != str(len(d)):
                bad.append((i, "iterator made %s successful steps on a map of %d entries" % (r.get("st"), len(d))))
            if op == "iterx" and r.get("again") != "0":
                bad.append((i, "iwhmap_iter_next after the end of the iteration did not return false: %s" % o[-60:]))
        elif op == "lru":
            er = ",".join(rec) if (lru >= 0 and rec) else "-"
            if r.get("wf") != "1" or r.get("lru") != er:
                bad.append((i, "recency list %s, reference wf=1 lru=%s" % (o[:200], er[:200])))
        elif op == "shape":
            b = r.get("b", "-")
            used = sum(int(x.split(":")[1].split("/")[0]) for x in ([] if b == "-" else b.split(",")))
            if used != len(d):
                bad.append((i, "bucket fill %d differs from the reference count %d" % (used, len(d))))
    return bad


def _units(d):
    return [] if d == "-" else d.split(".")


def oracle_ul(lines, outs):
    bad = []
    ref, us = [], 1

    def norm(h):
        return hx((unhx(h) + bytes(us))[:us])

    def state(i, o, what):
        r = kv(o)
        if "crc" in r:
            # brief state line of the long directed scripts: count, checksum of all units, first and last unit
            e = ("%08x" % zlib.crc32(bytes.fromhex("".join(ref))), ref[0] if ref else "none", ref[-1] if ref else "none")
            if r.get("n") != str(len(ref)) or (r.get("crc"), r.get("hd"), r.get("tl")) != e:
                bad.append((i, "%s: list is %s, reference n=%d crc=%s hd=%s tl=%s" % (what, o[:200], len(ref), e[0], e[1], e[2])))
        elif r.get("n") != str(len(ref)) or _units(r.get("d", "-")) != ref:
            bad.append((i, "%s: list is %s, reference %s" % (what, o[:200], ".".join(ref)[:200] or "-")))
        if "st" in r and "an" in r and int(r["st"]) + int(r["n"]) > int(r["an"]):
            bad.append((i, "%s: start+num exceeds the allocation: %s" % (what, o[:120])))
    for i, (l, o) in enumerate(zip(lines, outs)):
        t = l.split()
        op = t[1]
        r = kv(o)
        rc = "0"
        if op in ("new", "newinit"):
            ref, us = [], int(t[2])
            state(i, o, op); continue
        if op == "destroy":
            if o != "d":
                bad.append((i, "destroy: %s (iwulist_destroy_keep must zero the caller's struct)" % o))
            continue
        if op == "brief":
            continue
        if op == "push":
            ref.append(norm(t[2]))
        elif op == "unshift":
            ref.insert(0, norm(t[2]))
        elif op == "pop":
            rc = "0" if ref else "oob"
            if ref:
                ref.pop()
        elif op == "shift":
            rc = "0" if ref else "oob"
            if ref:
                ref.pop(0)
        elif op == "insert":
            j = int(t[2])
            rc = "0" if j <= len(ref) else "oob"
            if j <= len(ref):
                ref.insert(j, norm(t[3]))
        elif op == "set":
            j = int(t[2])
            rc = "0" if j < len(ref) else "oob"
            if j < len(ref):
                ref[j] = norm(t[3])
        elif op == "rm":
            j = int(t[2])
            rc = "0" if j < len(ref) else "oob"
            if j < len(ref):
                ref.pop(j)
        elif op == "rmby":
            u = norm(t[2])
            er = "1" if u in ref else "0"
            if u in ref:
                ref.remove(u)
            if r.get("r") != er:
                bad.append((i, "remove_first_by returned %s, reference %s" % (r.get("r"), er)))
            state(i, o, op); continue
        elif op == "find":
            u = norm(t[2])
            e = str(ref.index(u)) if u in ref else "-1"
            if r.get("i") != e:
                bad.append((i, "find_first %s, reference %s" % (o, e)))
            continue
        elif op == "at":
            j = int(t[2])
            e = ("0", ref[j]) if j < len(ref) else ("oob", "nil")
            if (r.get("rc"), r.get("v")) != e or r.get("same") != "1":
                bad.append((i, "at(%d): %s, reference rc=%s v=%s" % (j, o, e[0], e[1])))
            continue
        elif op in ("clone", "copy"):
            if op == "copy" and len(t) > 3:
                # iwulist_copy into a target that already holds units: they stay in front
                keep = ref
                ref = [norm(h) for h in t[3].split(".")] + keep
                state(i, o, op)
                ref = keep
                continue
            state(i, o, op); continue
        elif op in ("clear", "reset"):
            ref = []
        elif op == "sort":
            ref.sort(key=lambda h: unhx(h))
        elif op == "dump":
            if r.get("arr") != "1":
                bad.append((i, "iwulist_array does not point at unit 0"))
        elif op == "destroy":
            continue
        if r.get("rc") != rc:
            bad.append((i, "%s returned %s, reference %s" % (op, r.get("rc"), rc)))
        state(i, o, op)
    return bad


def oracle_pl(lines, outs):
    bad = []
    ref = []

    enc = {}

    def e1(h):
        b = enc.get(h)
        if b is None:
            d = unhx(h)
            b = enc[h] = bytes([len(d) & 255]) + d
        return b

    def state(i, o, what):
        r = kv(o)
        if "crc" in r:
            # brief state line of the long directed scripts: count, checksum of (size, bytes) of all items, first and last item
            e = ("%08x" % zlib.crc32(b"".join(map(e1, ref))), ref[0] if ref else "none", ref[-1] if ref else "none")
            if r.get("n") != str(len(ref)) or (r.get("crc"), r.get("hd"), r.get("tl")) != e or r.get("z") != "1":
                bad.append((i, "%s: list is %s, reference n=%d crc=%s hd=%s tl=%s" % (what, o[:200], len(ref), e[0], e[1], e[2])))
            return
        got = [] if r.get("n") == "0" else r.get("d", "").split(".")
        if r.get("n") != str(len(ref)) or got != ref or r.get("z") != "1":
            bad.append((i, "%s: list is %s, reference %s" % (what, o[:200], ".".join(ref)[:200] or "-")))
    for i, (l, o) in enumerate(zip(lines, outs)):
        t = l.split()
        op = t[1]
        r = kv(o)
        rc, ev = "0", None
        if op == "brief":
            continue
        if op in ("new", "newinit"):
            ref = []
        elif op == "push":
            ref.append(t[2])
        elif op == "unshift":
            ref.insert(0, t[2])
        elif op in ("pop", "shift", "rm"):
            j = len(ref) - 1 if op == "pop" else 0 if op == "shift" else int(t[2])
            if 0 <= j < len(ref):
                ev = ref.pop(j)
            else:
                rc, ev = "oob", "nil"
            if r.get("v") != ev:
                bad.append((i, "%s returned element %s, reference %s" % (op, r.get("v"), ev)))
            if "own=dup" in o:
                bad.append((i, "%s handed out an element that the list still references (owned twice)" % op))
        elif op == "insert":
            j = int(t[2])
            rc = "0" if j <= len(ref) else "oob"
            if j <= len(ref):
                ref.insert(j, t[3])
        elif op == "set":
            j = int(t[2])
            rc = "0" if j < len(ref) else "oob"
            if j < len(ref):
                ref[j] = t[3]
        elif op == "at":
            j = int(t[2])
            e = ("0", ref[j]) if j < len(ref) else ("oob", "nil")
            if (r.get("rc"), r.get("v")) != e or r.get("same") != "1":
                bad.append((i, "at(%d): %s, reference rc=%s v=%s" % (j, o, e[0], e[1])))
            continue
        elif op == "sort":
            ref.sort(key=lambda h: unhx(h))
        elif op == "destroy":
            if o != "d":
                bad.append((i, "destroy: %s (iwlist_destroy_keep must reset the caller's struct)" % o))
            continue
        if op not in ("new", "newinit", "clone") and r.get("rc") != rc:
            bad.append((i, "%s returned %s, reference %s" % (op, r.get("rc"), rc)))
        state(i, o, op)
    return bad


def oracle_sa(lines, outs):
    bad = []
    ref, cap = [], 0

    def arr(o):
        d = kv(o).get("d", "-")
        return [] if d == "-" else [tuple(int(x) for x in e.split(":")) for e in d.split(",")]
    for i, (l, o) in enumerate(zip(lines, outs)):
        t = l.split()
        op = t[1]
        r = kv(o)
        if op == "new":
            ref, cap = [], int(t[2]); continue
        k = int(t[2])
        present = [j for j, e in enumerate(ref) if e[0] == k]
        if op == "ins":
            if len(ref) >= cap:
                continue
            e = (k, int(t[3]))
            got, idx = arr(o), int(r.get("i", "-9"))
            if t[4] != "0" and present:
                if idx != -1 or got != ref:
                    bad.append((i, "insert(skipeq) of a present key must return -1 and change nothing: %s" % o[:160]))
                continue
            if 0 <= idx < len(got) and got[idx] == e and got[:idx] + got[idx + 1:] == ref \
                    and all(got[j][0] <= got[j + 1][0] for j in range(len(got) - 1)):
                ref = got
            else:
                bad.append((i, "sorted insert of %s: %s, before %s" % (e, o[:160], ref[:20])))
                ref = sorted(ref + [e], key=lambda x: x[0])
        elif op == "rm":
            got, idx = arr(o), int(r.get("i", "-9"))
            if not present:
                if idx != -1 or got != ref:
                    bad.append((i, "remove of an absent key must return -1 and change nothing: %s" % o[:160]))
            else:
                if idx in present and got == ref[:idx] + ref[idx + 1:]:
                    ref = got
                else:
                    bad.append((i, "sorted remove of %d: %s, before %s" % (k, o[:160], ref[:20])))
                    ref = ref[:present[0]] + ref[present[0] + 1:]
        elif op == "find":
            idx = int(r.get("i", "-9"))
            if (present and idx not in present) or (not present and idx != -1):
                bad.append((i, "find(%d) returned %d, array %s" % (k, idx, ref[:20])))
        elif op == "find2":
            idx, f = int(r.get("i", "-9")), r.get("found")
            if present:
                ok = f == "1" and idx in present
            else:
                ok = f == "0" and 0 <= idx <= len(ref) and all(e[0] < k for e in ref[:idx]) and all(e[0] > k for e in ref[idx:])
            if not ok:
                bad.append((i, "find2(%d): %s, array %s" % (k, o, ref[:20])))
    return bad


def oracle_rb(lines, outs, strict=False):
    # d: true contents newest first; stale: slots still counted by the ring after back() on a wrapped ring
    bad = []
    d, stale, wrapped, ln = [], 0, False, 1
    for i, (l, o) in enumerate(zip(lines, outs)):
        t = l.split()
        op = t[1]
        if op == "destroy":
            continue
        if op == "new":
            d, stale, wrapped, ln = [], 0, False, int(t[3])
            us = int(t[2])
            if ln == 0:
                # a ring without slots cannot hold a unit: the reference refuses to create it (finding cont-rb-capacity-zero)
                ln = None
                if o != "null":
                    bad.append((i, "iwrb_create with capacity 0 must fail: %s" % o[:100]))
                continue
        elif op == "wrap":
            us, bl = int(t[2]), int(t[3])
            d, stale, wrapped = [], 0, False
            if us == 0 or bl < RB_HDR + us:
                ln = None
                if o != "null":
                    bad.append((i, "iwrb_wrap of a %d byte buffer (unit %d) must fail: %s" % (bl, us, o[:100])))
                continue
            ln = (bl - RB_HDR) // us
            if o == "null" or kv(o).get("len") != str(ln) or kv(o).get("inbuf") != "1":
                bad.append((i, "iwrb_wrap(%d bytes, unit %d): %s, reference capacity %d inside the buffer" % (bl, us, o[:100], ln)))
                continue
        elif ln is None:
            if o != "norb":
                bad.append((i, "no ring exists, answer %s" % o[:80]))
            continue
        elif op == "put":
            if len(d) + stale >= ln:
                wrapped = True
            d.insert(0, hx((unhx(t[2]) + bytes(us))[:us]))
            if stale:
                stale -= 1
            d = d[:ln]
        elif op == "back":
            if d:
                d.pop(0)
                if wrapped:
                    stale += 1
            elif wrapped and stale:
                pass  # nothing known is left; the ring keeps stepping over stale slots
        elif op == "clear":
            d, stale, wrapped = [], 0, False
        r = kv(o)
        it = _units(r.get("it", "-"))
        if stale == 0 or strict:
            ok = r.get("n") == str(len(d)) and it == d and r.get("pk") == (d[0] if d else "nil")
        else:
            ok = it[:len(d)] == d and (not d or r.get("pk") == d[0]) and len(it) <= ln
        if not ok:
            bad.append((i, "ring shows %s, reference (newest first) %s%s" % (o[:160], ".".join(d) or "-", " + %d stale" % stale if stale else "")))
    return bad


def oracle_xs(lines, outs):
    bad = []
    ref = bytearray()
    term = 0          # the byte where the terminator belongs (iwxstr_set_size writes none)
    ud, udfn = 0, False   # user datum (token, 0 = NULL) and whether a destructor guards it

    def fmt(s, v):
        return unhx(s) + b":" + str(int(v)).encode()
    for i, (l, o) in enumerate(zip(lines, outs)):
        t = l.split()
        op = t[1]
        r = kv(o)
        rc = "0"
        if op in ("destroy", "keepptr"):
            e = str(ud) if udfn else "-"
            if r.get("ud") != e:
                bad.append((i, "%s: destructor calls %s, reference %s" % (op, r.get("ud"), e)))
            if op == "keepptr" and (r.get("v") != hx(ref) or r.get("z") != ("1" if term == 0 else "0")):
                bad.append((i, "destroy_keep_ptr: buffer %s, reference %s" % (o[:160], hx(ref)[:120])))
            ud, udfn = 0, False
            continue
        if op in ("ud", "udget", "uddetach"):
            e = "-"
            if op == "ud":
                if udfn:
                    e = str(ud)
                ud, udfn = int(t[2]), t[3] != "0"
            else:
                if r.get("v") != str(ud):
                    bad.append((i, "%s returned %s, reference %d" % (op, r.get("v"), ud)))
                if op == "uddetach":
                    udfn = False
            if r.get("ud") != e:
                bad.append((i, "%s: destructor calls %s, reference %s" % (op, r.get("ud"), e)))
            continue
        if op in ("palloc", "newprintf"):
            e = fmt(t[2], t[3])
            if op == "palloc":
                if r.get("v") != hx(e) or r.get("us") != "1":
                    bad.append((i, "printf_alloc: %s, reference %s in a block with room for the terminator" % (o[:160], hx(e)[:120])))
            elif r.get("sz") != str(len(e)) or r.get("d") != hx(e) or r.get("z") != "1" or int(r.get("asz", "0")) <= len(e):
                bad.append((i, "new_printf: %s, reference %s" % (o[:160], hx(e)[:120])))
            continue
        if op in ("new", "empty"):
            ref = bytearray(); term = 0
            ud, udfn = 0, False
        elif op in ("cat", "cat2"):
            ref += unhx(t[2]); term = 0
        elif op == "cat2null":
            pass
        elif op == "unshift":
            ref[0:0] = unhx(t[2]); term = 0
        elif op == "shift":
            if int(t[2]):
                del ref[:min(int(t[2]), len(ref))]; term = 0
        elif op == "pop":
            k = min(int(t[2]), len(ref))
            if k:
                del ref[len(ref) - k:]
            if int(t[2]):
                term = 0
        elif op in ("insert", "iprintf"):
            p = int(t[2])
            b = unhx(t[3]) if op == "insert" else fmt(t[3], t[4])
            if p > len(ref):
                rc = "oob"
            else:
                ref[p:p] = b
        elif op == "printf":
            ref += fmt(t[2], t[3]); term = 0
        elif op == "clear":
            ref = bytearray(); term = 0
        elif op == "setsize":
            k = int(t[2])
            if k <= len(ref):
                term = (ref + bytes([term]))[k]
                del ref[k:]
            else:
                ref += bytes([int(t[3])]) * (k - len(ref)); term = int(t[4])
        elif op == "wrap":
            b, a = unhx(t[2]), int(t[3])
            e = b[:min(len(b), a)]
            if r.get("sz") != str(len(e)) or r.get("d") != hx(e) or r.get("z") != "1" or int(r.get("asz", "0")) <= len(e):
                bad.append((i, "wrap: %s, reference %s" % (o[:160], hx(e))))
            continue
        if op not in ("new", "empty", "clone") and r.get("rc") != rc:
            bad.append((i, "%s returned %s, reference %s" % (op, r.get("rc"), rc)))
        if op == "clone":
            zexp = "1"   # the clone is always terminated
        else:
            zexp = "1" if term == 0 else "0"
        if r.get("sz") != str(len(ref)) or r.get("d") != hx(ref) or r.get("z") != zexp or int(r.get("asz", "0")) <= len(ref):
            bad.append((i, "%s: string is %s, reference size %d %s (byte after the data %s, asize > size)" % (op, o[:200], len(ref), hx(ref)[:120], "0" if zexp == "1" else "not 0")))
    return bad


def _parse_tree(s):
    pos = [0]

    def node():
        if s[pos[0]] == ".":
            pos[0] += 1
            return None
        assert s[pos[0]] == "("
        j = s.index(" ", pos[0])
        k = int(s[pos[0] + 1:j])
        j2 = s.index(" ", j + 1)
        bf = int(s[j + 1:j2])
        pos[0] = j2 + 1
        left = node()
        assert s[pos[0]] == " "
        pos[0] += 1
        right = node()
        assert s[pos[0]] == ")"
        pos[0] += 1
        return (k, bf, left, right)
    t = node()
    return t


def _check_tree(t, lo, hi, keys):
    """returns height, raises ValueError with the reason"""
    if t is None:
        return 0
    k, bf, l, r = t
    if not ((lo is None or k > lo) and (hi is None or k < hi)):
        raise ValueError("search-tree order broken at key %d" % k)
    keys.append(k)
    hl = _check_tree(l, lo, k, keys)
    hr = _check_tree(r, k, hi, keys)
    if hr - hl != bf or abs(bf) > 1:
        raise ValueError("balance factor of key %d is %d, heights %d/%d" % (k, bf, hl, hr))
    return 1 + max(hl, hr)


def _valid_bst_postorder(po):
    """is po the postorder of some binary search tree (distinct keys)?  last = root, the prefix splits into smaller | larger"""
    stack = [(0, len(po), None, None)]
    while stack:
        a, b, lo, hi = stack.pop()
        if a >= b:
            continue
        root = po[b - 1]
        if (lo is not None and root <= lo) or (hi is not None and root >= hi):
            return False
        m = a
        while m < b - 1 and po[m] < root:
            m += 1
        if any(x <= root for x in po[m:b - 1]):
            return False
        stack.append((a, m, lo, root)); stack.append((m, b - 1, root, hi))
    return True


def oracle_av(lines, outs):
    bad = []
    ref = set()
    for i, (l, o) in enumerate(zip(lines, outs)):
        t = l.split()
        op = t[1]
        if op in ("post", "destroy"):
            # the three traversal macros: in-order, reverse, and a postorder in which every key comes after the keys of both its subtrees
            r = kv(o)
            srt = sorted(ref)
            msg = None
            if op == "post" and (r.get("io") != (",".join(map(str, srt)) or "-") or r.get("ro") != (",".join(map(str, reversed(srt))) or "-")):
                msg = "in-order / reverse traversal"
            po = [] if r.get("po", "-") == "-" else r["po"].split(",")
            try:
                po = [int(x) for x in po]
            except ValueError:
                po = None
            if po is None or sorted(po) != srt or not _valid_bst_postorder(po):
                msg = "postorder traversal is not a postorder of a search tree over the stored keys"
            if msg:
                bad.append((i, "%s: %s, reference keys %s" % (msg, o[:200], ",".join(map(str, srt))[:100])))
            if op == "destroy":
                ref = set()
            continue
        if op == "new":
            ref = set(); continue
        k = int(t[2])
        r = kv(o)
        if op == "lookn":
            if r.get("r") != ("1" if k in ref else "0") or r.get("unl") != "1,0":
                bad.append((i, "lookup_node / unlinked mark of %d: %s" % (k, o)))
            continue
        if op == "find":
            lb = max([x for x in ref if x <= k], default=None)
            ub = min([x for x in ref if x >= k], default=None)
            e = ("1" if k in ref else "0", "nil" if lb is None else str(lb), "nil" if ub is None else str(ub))
            if (r.get("r"), r.get("lb"), r.get("ub")) != e:
                bad.append((i, "lookup/bounds of %d: %s, reference r=%s lb=%s ub=%s" % (k, o, e[0], e[1], e[2])))
            continue
        er = "1" if k in ref else "0"
        if op == "ins":
            ref.add(k)
        else:
            ref.discard(k)
        srt = sorted(ref)
        try:
            # the tree text contains spaces: take it between " t=" and " pp="
            tt = o[o.index(" t=") + 3:o.index(" pp=")]
            keys = []
            _check_tree(_parse_tree(tt), None, None, keys)
            io = ",".join(map(str, srt)) or "-"
            ro = ",".join(map(str, reversed(srt))) or "-"
            if r.get("r") != er or o.split()[1] != "n=%d" % len(ref) or sorted(keys) != srt or r.get("pp") != "1" \
                    or r.get("io") != io or r.get("ro") != ro:
                bad.append((i, "%s %d: %s, reference r=%s keys %s" % (op, k, o[:200], er, io[:100])))
        except (ValueError, AssertionError, IndexError) as e:
            bad.append((i, "%s %d: tree is not a balanced search tree (%s): %s" % (op, k, e, o[:200])))
    return bad


def ref_split(hay, seps, ws):
    segs, cur = [], b""
    for ch in hay:
        if ch in seps:
            segs.append(cur); cur = b""
        else:
            cur += bytes([ch])
    if cur:
        segs.append(cur)
    if ws:
        segs = [s.strip(b" \t\n\r\x0b\x0c") for s in segs]
    return segs


def oracle_po(lines, outs):
    bad = []
    regions, refs, nud, kids = [], 1, 0, []
    for i, (l, o) in enumerate(zip(lines, outs)):
        t = l.split()
        op = t[1]
        r = kv(o)
        if op in ("new", "newempty"):
            regions, refs, nud, kids = [], 1, 0, []
            continue
        if op in ("alloc", "calloc"):
            n = int(t[2])
            if n == 0 and r.get("p") == "0":
                continue   # iwpool_alloc(0) of a pool without units returns the (null) heap pointer
            if r.get("p") != "1" or r.get("in") != "1" or r.get("al") != "1" or r.get("z") != "1":
                bad.append((i, "%s(%d): %s (expected a zeroed/aligned region inside one unit)" % (op, n, o))); continue
            u, off = int(r["unit"]), int(r["off"])
            for (u2, o2, n2) in regions:
                if u2 == u and off < o2 + n2 and o2 < off + n:
                    bad.append((i, "%s(%d) overlaps an earlier region of the same unit: %s vs (%d,%d,%d)" % (op, n, o, u2, o2, n2)))
                    break
            if n:
                regions.append((u, off, n))
        elif op in ("allocbig", "callocbig", "strndupbig"):
            # no pool can satisfy a request above PTRDIFF_MAX: the reference answer is NULL
            n = int(t[2])
            if n > (1 << 63) - 1 and r.get("p") != "0":
                wraps = n > SIZE_MAX - 7 or (op == "strndupbig" and n + 1 > SIZE_MAX - 7)
                if JUDGE_POOL_WRAP or not wraps:
                    bad.append((i, "%s(%d) returned a pointer (%s): no region of that size exists, the reference answer is NULL" % (op, n, o[:100])))
        elif op == "strdup":
            if r.get("rc") != "0" or r.get("v") != t[2] or r.get("in") != "1":
                bad.append((i, "strndup: %s, reference %s" % (o[:160], t[2])))
        elif op == "strdupx":
            b = unhx(t[3])
            if r.get("rc") != "0" or r.get("v") != hx(b) or r.get("in") != "1":
                bad.append((i, "strdup family: %s, reference %s" % (o[:160], hx(b))))
        elif op in ("printf", "printfva"):
            e = hx(unhx(t[2]) + b":" + str(int(t[3])).encode())
            if r.get("v") != e:
                bad.append((i, "%s: %s, reference %s" % (op, o[:160], e)))
        elif op == "psplit":
            e = ref_split(unhx(t[2]) + b":" + str(int(t[3])).encode(), unhx(t[4]), t[5] != "0")
            es = ".".join(hx(x) for x in e) if e else "none"
            if r.get("v") != es:
                bad.append((i, "printf_split: %s, reference %s" % (o[:160], es)))
        elif op == "split":
            e = ref_split(unhx(t[2]), unhx(t[3]), t[4] != "0")
            es = ".".join(hx(x) for x in e) if e else "none"
            if r.get("v") != es:
                bad.append((i, "split_string: %s, reference %s" % (o[:160], es)))
        elif op == "cstrarr":
            if t[2] == "none":
                if r.get("v") != "null":
                    bad.append((i, "copy of an empty array: %s" % o[:100]))
            elif r.get("v") != t[2] or r.get("term") != "1":
                bad.append((i, "copy_cstring_array: %s, reference %s terminated" % (o[:160], t[2])))
        elif op == "child":
            if "c" in r:
                kids.append(int(r["c"]))
                if r.get("p") != "1":
                    bad.append((i, "allocation from a child pool failed"))
        elif op == "dchild":
            c = int(t[2])
            if c in kids:
                kids.remove(c)
                if r.get("r") != "1" or r.get("linked") != str(len(kids)):
                    bad.append((i, "destroy of child %d: %s, reference r=1 linked=%d" % (c, o, len(kids))))
        elif op == "ref":
            refs += 1
            if r.get("refs") != str(refs):
                bad.append((i, "ref: %s, reference %d" % (o, refs)))
        elif op == "udata":
            if r.get("udf") != str(nud):
                bad.append((i, "user data free count %s, reference %d" % (o, nud)))
            nud += 1
        elif op == "destroy":
            refs -= 1
            e = ("1", str(nud)) if refs == 0 else ("0", str(max(0, nud - 1)))
            if (r.get("r"), r.get("udf")) != e:
                bad.append((i, "destroy: %s, reference r=%s udf=%s" % (o, e[0], e[1])))
    return bad


def _pf_dump(o):
    """white-box part of a pf answer: {id: (refs, parent, kids, units, ud, fn)}"""
    d = {}
    if "|" not in o:
        return None
    for t in o.split("|", 1)[1].split():
        f = t.split(":")
        if len(f) != 10:
            return None
        d[int(f[0])] = (f[1], f[2], f[3], int(f[8]), f[9], int(f[7]))
    return d


def oracle_pf(lines, outs):
    """the tree-level reference PfRef decides: results, reference counts, which pools exist, who is attached to whom,
    which releases a call causes and in which order (units, user data destructor, pool; each exactly once), contents of
    the surviving pools, nothing alive and no freed block modified at the end"""
    bad = []
    ref = PfRef()
    units = {}
    for i, (l, o) in enumerate(zip(lines, outs)):
        t = l.split()
        op = t[1]
        r = kv(o.split("|")[0])
        if op == "reset":
            ref = PfRef(); units = {}
            continue
        if op == "end":
            if r.get("live") != str(len(ref.P)):
                bad.append((i, "%s pools are alive after every reference was dropped, reference %d (%s)" % (r.get("live"), len(ref.P), o)))
            elif r.get("dirty") != "0":
                bad.append((i, "%s released block(s) were written to after free()" % r.get("dirty")))
            continue
        ev = []
        exp = None
        if op in ("new", "attach"):
            q = None if op == "new" or t[2] == "nil" else int(t[2])
            if q is not None and q not in ref.P:
                continue
            exp = "id=%d" % ref.create(q)
        elif op == "drain":
            ref.drain(ev); exp = "ok"
        elif op == "destroy" and t[2] == "nil":
            exp = "r=0"
        else:
            p = int(t[2])
            if p not in ref.P:
                continue            # the caller broke the contract (not generated)
            d = ref.P[p]
            if op == "ref":
                d["refs"] += 1; exp = "refs=%d" % d["refs"]
            elif op == "destroy":
                exp = "r=%d" % int(ref.destroy(p, ev))
            elif op == "freefn":
                ref.destroy(p, ev); exp = "r=-"
            elif op == "alloc":
                if not (int(t[3]) == 0 and r.get("p") == "0") and (r.get("p") != "1" or r.get("in") != "1" or r.get("al") != "1"):
                    bad.append((i, "alloc(%s) from pool %d: %s (expected an aligned region inside one unit)" % (t[3], p, o[:120])))
            elif op == "put":
                d["strs"].append(unhx(t[3]))
                if r.get("v") != t[3] or r.get("in") != "1":
                    bad.append((i, "string duplicated into pool %d reads back %s" % (p, o[:120])))
            elif op == "chk":
                exp = "n=%d t=1 crc=%08x" % (len(d["strs"]), zlib.crc32(b"".join(d["strs"])) & M32)
            elif op == "ud":
                if d["fn"]:
                    ev.append("d%d" % d["ud"])
                d["ud"], d["fn"] = int(t[3]), int(t[4] != "0"); exp = "ok"
            elif op == "udget":
                exp = "ud=%d" % d["ud"]
            elif op == "uddetach":
                exp = "ud=%d" % d["ud"]; d["fn"] = 0
        head = o.split(" ev=")[0]
        if exp is not None and head != exp:
            bad.append((i, "%s, reference %s" % (o[:100], exp)))
            continue
        dump = _pf_dump(o)
        if dump is None:
            bad.append((i, "malformed answer %s" % o[:100])); continue
        # releases caused by the call, in order; the number of unit blocks of a pool is taken from its last dump
        eev = []
        for e in ev:
            if isinstance(e, tuple):
                if units.get(e[1]):
                    eev.append("b%d" % (2 * units[e[1]]))
            else:
                eev.append(e)
        # which releases, each exactly once (the ORDER inside one call is the model's business: T2)
        got = [] if r.get("ev", "-") == "-" else r["ev"].split(",")
        if sorted(got) != sorted(eev):
            bad.append((i, "releases %s, reference %s in some order (b<n> = n unit blocks, d<t> = user data destructor on t, f<i> = pool i)" % (
                r.get("ev"), ",".join(eev) or "-")))
            continue
        units = {k: v[5] for k, v in dump.items()}
        if sorted(dump) != sorted(ref.P):
            bad.append((i, "live pools %s, reference %s" % (sorted(dump), sorted(ref.P)))); continue
        for k in sorted(dump):
            refs, par, kids, ud, fn, _ = dump[k]
            d = ref.P[k]
            if par == "!" or "!" in kids:
                bad.append((i, "pool %d keeps a %s link to a released pool (%s)" % (k, "parent" if par == "!" else "child", o.split("|")[1][:160]))); break
            e = (str(d["refs"]), "-" if d["parent"] is None else str(d["parent"]), ",".join(map(str, ref.kids(k))) or "-", d["ud"], str(d["fn"]))
            if (refs, par, kids, ud, fn) != e:
                bad.append((i, "pool %d: refs:parent:children:user data:fn = %s, reference %s" % (k, ":".join(map(str, (refs, par, kids, ud, fn))), ":".join(map(str, e))))); break
    return bad


ORACLES = {"hm": oracle_hm, "ul": oracle_ul, "pl": oracle_pl, "sa": oracle_sa, "rb": oracle_rb, "xs": oracle_xs,
           "av": oracle_av, "po": oracle_po, "pf": oracle_pf}


# ------------------------------------------------------------------------------------------------ running
def run_scripts(exe, scripts, env=None):
    """Feeds the scripts to one process after the other script crashed it.  Returns (outs per script or None, crashes)
    crashes: list of (script index, line index, stderr tail, output lines of that script before the crash).  A non-zero
    exit after all output (leak report) is returned as (-1, -1, stderr, [])."""
    outs = [None] * len(scripts)
    crashes = []
    start = 0
    guard = 0
    while start < len(scripts) and guard < 12:
        guard += 1
        chunk = scripts[start:]
        text = "".join("\n".join(s["lines"]) + "\n" for s in chunk)
        rc, out, err = vlib.run_lines(exe, text, timeout=600, env=env)
        if out and out[-1] == "":
            out = out[:-1]
        pos = 0
        done = True
        for j, s in enumerate(chunk):
            n = len(s["lines"])
            if pos + n <= len(out):
                outs[start + j] = out[pos:pos + n]
                pos += n
            else:
                # died inside this script
                outs[start + j] = None
                crashes.append((start + j, len(out) - pos, err, out[pos:]))
                start = start + j + 1
                done = False
                break
        if done:
            if rc != 0:
                crashes.append((-1, -1, err, []))
            break
    return outs, crashes


def san_summary(err):
    for l in err.split("\n"):
        if "ERROR: AddressSanitizer" in l or "ERROR: LeakSanitizer" in l or "runtime error" in l:
            return l.strip()[:200]
    return (err.strip().split("\n") or [""])[-1][:200]


def load_corpus():
    out = []
    d = os.path.join(vlib.VERIF, "corpus", "C18")
    if os.path.isdir(d):
        for f in sorted(os.listdir(d)):
            ls = [x.strip() for x in open(os.path.join(d, f)) if x.strip() and not x.startswith("#")]
            if ls:
                out.append({"c": ls[0].split()[0], "lines": ls, "tag": "corpus-" + f})
    return out


def evaluate(run, scripts, impl, asan, model, record=True):
    """runs everything on the scripts; returns number of violations found"""
    by_c = {}
    for s in scripts:
        by_c.setdefault(s["c"], []).append(s)
    # one process per group: at most 24 scripts / ~4000 lines (the long directed scripts get groups of their own)
    groups = []
    for c, ss in sorted(by_c.items()):
        cur, w = [], 0
        for s in ss:
            if cur and (len(cur) >= 24 or w + len(s["lines"]) > 4000):
                groups.append((c, cur)); cur, w = [], 0
            cur.append(s); w += len(s["lines"])
        if cur:
            groups.append((c, cur))
    groups.sort(key=lambda g: -sum(len(s["lines"]) for s in g[1]))
    env_asan = dict(os.environ, ASAN_OPTIONS="detect_leaks=1:abort_on_error=0:exitcode=23:allocator_may_return_null=1:print_legend=0:malloc_context_size=8",
                    UBSAN_OPTIONS="print_stacktrace=0")
    jobs = []
    with ThreadPoolExecutor(max(2, vlib.NCPU // 2)) as ex:
        for c, ss in groups:
            jobs.append((c, ss, ex.submit(run_scripts, impl, ss), ex.submit(run_scripts, asan, ss, env_asan),
                         ex.submit(run_scripts, model, ss) if c in MODELLED else None))
        results = [(c, ss, a.result(), b.result(), m.result() if m else None) for c, ss, a, b, m in jobs]
    validated = 0
    seen_c = set()
    # found: (priority, replay, note) - the oracle's verdicts first (they name the wrong answer), then sanitizer reports,
    # crashes, differences between the builds, leaks
    found = []

    def oracle(c, s, o, partial):
        origin = s.get("origin", "generated")
        if origin == RB_BACK_ORIGIN:
            bad = oracle_rb(s["lines"][:len(o)], o, strict=True)
        else:
            bad = ORACLES[c](s["lines"][:len(o)], o)
        if bad:
            li, msg = bad[0]
            found.append((0, {"kind": "oracle", "container": c, "origin": origin, "script": s["lines"][:li + 1], "line": li, "impl": o[li][:2000]},
                          "%s: `%s` -> %s%s" % (c, s["lines"][li], msg, " (the script crashed later)" if partial else "")))
        return bool(bad)
    for c, ss, (outs, crashes), (aouts, acrashes), mres in results:
        for (si, li, err, part) in crashes:
            if si < 0:
                continue
            # what the implementation answered before it died is judged as well
            complete = [x for x in part[:li] if x is not None]
            if complete:
                oracle(c, ss[si], complete, True)
            found.append((2, {"kind": "crash", "container": c, "script": ss[si]["lines"], "line": li, "stderr": err[-600:]},
                          "implementation crashed in `%s` (line %d of the script)" % (
                              ss[si]["lines"][min(li, len(ss[si]["lines"]) - 1)], li)))
        for (si, li, err, part) in acrashes:
            if si < 0:
                # leak report at exit: name the container group; the scripts are the replay
                found.append((4, {"kind": "leak", "container": c, "script": [l for s in ss for l in s["lines"]][:12000],
                                  "stderr": err[-900:]},
                              "LeakSanitizer: %s container scripts leave memory unreleased: %s" % (c, san_summary(err))))
            else:
                found.append((1, {"kind": "sanitizer", "container": c, "script": ss[si]["lines"], "line": li, "stderr": err[-900:]},
                              "sanitizer report in `%s`: %s" % (ss[si]["lines"][min(li, len(ss[si]["lines"]) - 1)], san_summary(err))))
        for si, s in enumerate(ss):
            o = outs[si]
            if o is None:
                continue
            if record:
                run.case(json.dumps(s["lines"]), nontrivial=True,
                         sample=({"container": c, "script_head": s["lines"][:6], "impl_head": [x[:300] for x in o[:6]]}
                                 if si == 0 and not s["tag"].startswith(("corpus", "dir-")) and c not in seen_c else None))
                if not s["tag"].startswith(("corpus", "dir-")):
                    seen_c.add(c)
                run.dist(s["tag"])
                run.dist("ops-" + c, len(s["lines"]))
            oracle(c, s, o, False)
            if aouts[si] is not None and aouts[si] != o:
                # the two builds of the same code disagree: uninitialised memory was printed
                k = next(j for j in range(len(o)) if j >= len(aouts[si]) or aouts[si][j] != o[j])
                found.append((3, {"kind": "nondeterminism", "container": c, "script": s["lines"][:k + 1], "line": k,
                                  "impl": o[k][:2000], "asan": aouts[si][k][:2000] if k < len(aouts[si]) else None},
                              "plain and sanitizer builds print different results for `%s`: %s / %s" % (
                                  s["lines"][k], o[k][:120], (aouts[si][k] if k < len(aouts[si]) else "")[:120])))
            if mres is not None:
                mo = mres[0][si]
                if mo is None:
                    run.broken.append("T2 harness: model driver died on a %s script" % c)
                else:
                    diff = [j for j in range(len(o)) if j >= len(mo) or (mo[j] != o[j] and mo[j] != "nomodel")]
                    if diff:
                        j = diff[0]
                        run.broken.append("T2 correspondence (%s): `%s` impl=`%s` model=`%s`" % (
                            c, s["lines"][j], o[j][:200], (mo[j] if j < len(mo) else "<missing>")[:200]))
                        if os.environ.get("VERIF_DEBUG"):
                            print("T2 script:", json.dumps(s["lines"][:j + 1]))
                    else:
                        validated += len(o)
    found.sort(key=lambda f: f[0])
    nviol = acc = 0
    for _, rep, note in found:
        nviol += 1
        if acc < 12 and run.violation(rep, note):   # every one is a replay file; the first ones tell the story
            acc += 1
    run.cov["traces_validated_against_impl"] += validated
    # keep the report readable
    if len(run.broken) > 6:
        run.broken[:] = run.broken[:6] + ["... %d more" % (len(run.broken) - 6)]
    return nviol


def check(run):
    global RB_HDR
    rng = run.rng
    proofs_ok = run.proofs()
    RB_HDR = _rb_hdr()
    impl = vlib.build_harness("h_cont")
    asan = vlib.build_harness("h_cont", "asan")
    model = vlib.build_model("cont")
    quick = run.tier == "quick"
    mult = 1 if proofs_ok else 10
    # scripts per container and operations per script
    plan = {"hm": (70, 300), "ul": (50, 180), "pl": (30, 140), "sa": (30, 120), "rb": (30, 80), "xs": (40, 90),
            "av": (30, 180), "po": (30, 60), "pf": (60, 110)}
    if not quick:
        plan = {c: (n * 120, sz * 2) for c, (n, sz) in plan.items()}
    scripts = load_corpus()
    for c in sorted(plan):
        n, sz = plan[c]
        for _ in range(n):
            scripts.append(GENS[c](rng.fork(), rng.range(max(10, sz // 4), sz)))
    for _ in range(1 if quick else 12):
        scripts.append(gen_pl_long(rng.fork(), 0))
    # the directed threshold scripts: the same set on every run (their mixed tails depend on the seed)
    for _ in range(1 if quick else 6):
        scripts += directed(rng.fork())
    nviol = evaluate(run, scripts, impl, asan, model)
    if run.broken and not nviol:
        # proofs or correspondence broken: widen the search for a failing input
        more = []
        for c in sorted(plan):
            n, sz = plan[c]
            for _ in range(n * 9):
                more.append(GENS[c](rng.fork(), rng.range(max(10, sz // 4), sz)))
        keep = list(run.broken)
        evaluate(run, more, impl, asan, model)
        run.broken[:] = keep
    return run.finish(level=LEVEL,
                      rule="one case = one call script for one container instance (hash map: 4 key kinds x LRU bound, key pools "
                           "colliding modulo the bucket mask, grow/shrink/mixed phases across 64<->128<->256 buckets, rename onto "
                           "live keys, clear-then-reuse; lists: both ends, insert/remove at the borders, anum 32 crossed both ways; "
                           "sorted arrays with duplicates; ring wrap + back; string doubling, printf across the 1024 byte stack "
                           "buffer; AVL ascending/descending/random; pool units, children, split; pf = forests of pools: attach several levels deep, "
                           "extra references, user data, unit growth, destroy of any live pool, then every reference dropped parents first / "
                           "children first / one at a time / drain) + the directed threshold scripts (tags dir-*: "
                           "lists of 255..1100 unique elements filled and drained from either end / the middle across the growth, "
                           "shrink and start-offset-compaction points; bucket array 64<->512 with and without LRU bound, one bucket "
                           "through its steps of 4; ring wrap/back per length; string growth per doubling step; pool unit exact fit; "
                           "sorted arrays filled to capacity; dir-pf-*: chains, stars and trees of pools with every subset of extra references "
                           "x every order of destruction, survivors growing in between). distinct = distinct script text",
                      assumptions=["allocation failures are not injected (malloc/realloc succeed)",
                                   "ring buffer: after iwrb_back on a wrapped ring only the units still known to be present are compared "
                                   "(the ring keeps reporting len cached units)",
                                   "iwpool_split_string reference: split at every separator, final empty segment dropped, segments trimmed when asked"])


def replay(run, path):
    r = json.load(open(path))
    c = r.get("container")
    if not c or "script" not in r:
        print(json.dumps(r, indent=1)[:3000]); return 1
    s = {"c": c, "lines": r["script"], "tag": "replay"}
    kind = r.get("kind")
    exe = vlib.build_harness("h_cont", "asan" if kind in ("sanitizer", "leak") else "plain")
    env = dict(os.environ, ASAN_OPTIONS="detect_leaks=1:exitcode=23")
    outs, crashes = run_scripts(exe, [s], env)
    print("container:", c, " kind:", kind, " note:", r.get("note"))
    for l, o in zip(r["script"][-8:], (outs[0] or [])[-8:]):
        print("  %-40s -> %s" % (l[:40], o[:160]))
    part = outs[0] if outs[0] is not None else (crashes[0][3] if crashes and crashes[0][0] >= 0 else [])
    if r.get("origin") == RB_BACK_ORIGIN:
        bad = oracle_rb(s["lines"][:len(part)], part, strict=True)
    else:
        bad = [] if kind == "leak" else ORACLES[c](s["lines"][:len(part)], part)
    for li, msg in bad[:3]:
        print("oracle: line %d `%s`: %s" % (li, s["lines"][li], msg))
    if crashes:
        print("crash/sanitizer:", san_summary(crashes[0][2]))
        return 1
    return 1 if bad else 0
