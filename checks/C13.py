# C13 - JSON text is parsed to the value it denotes and printed text parses back
#
# T2: the extracted model (coq/JSON/Text.v) against the implementation on parse / print / unescape / utf8 / strtoll
#     queries (valid documents, mutated documents, arbitrary trees).
# ORACLE (independent of the model): Python's json module as the reference parser on grammar-generated valid
#     documents; print -> parse round trip through the library and through Python; pure-ASCII with the code-point flag.
#     Numbers: STRUCTURE (the parse consumes exactly the number: token sequence of the reference parser, no tolerance)
#     before VALUE (1e-9 relative, iwstrtod is inexact).
# PRINT CHANNELS: every exported way of turning a document into text (PRINT_API below, classified against the headers on every
#     run) is a channel of harness/h_jtext.c; `chan`/`jchan` queries print one tree through ALL of them: same status, same bytes
#     (count printer: their number), equal to the model's sinks folded over the model's chunks (T2), valid JSON for the tree.
# env: VERIF_DEBUG=1 prints T2 mismatches; VERIF_JTEXT_OPEN=range-exp[,range-mant,refused]|all judges the recorded limits of iwstrtod too.
import os, sys, json, struct, math, re, glob
from decimal import Decimal
import vlib
from common import diff_run

LEVEL = "proof"
MAXNEST = 999
PFS = [0, 1, 2, 3, 5, 9, 7, 11]          # JBL_PRINT_PRETTY=1, CODEPOINTS=2, INDENT2=5, INDENT4=9
I64MIN, I64MAX = -(1 << 63), (1 << 63) - 1
SHORT = {0x22: b'"', 0x5c: b'\\', 0x2f: b'/', 8: b'b', 0xc: b'f', 0xa: b'n', 0xd: b'r', 9: b't'}
EDGE_CPS = [0, 1, 7, 8, 9, 0xa, 0xb, 0xc, 0xd, 0xe, 0x1f, 0x20, 0x22, 0x2f, 0x5c, 0x7e, 0x7f, 0x80, 0x81, 0xe9, 0x7ff, 0x800,
            0x801, 0x20ac, 0xd7ff, 0xe000, 0xfffd, 0xffff, 0x10000, 0x10001, 0x1f600, 0x10fffe, 0x10ffff]

sys.setrecursionlimit(20000)


# ------------------------------------------------------------------------------------------------ values
# abstract value: ('n',) ('t',) ('f',) ('i', int, text) ('d', text) ('s', [cp]) ('a', [v]) ('o', [([cp], v)])
def gen_cp(rng):
    k = rng.below(10)
    if k < 5:
        return rng.range(0x20, 0x7e)
    if k < 8:
        return rng.choice(EDGE_CPS)
    while True:
        c = rng.weighted([(rng.range(0, 0x7f), 2), (rng.range(0x80, 0x7ff), 2), (rng.range(0x800, 0xffff), 2),
                          (rng.range(0x10000, 0x10ffff), 2)])
        if not (0xd800 <= c <= 0xdfff):
            return c


def gen_cps(rng):
    n = rng.weighted([(0, 2), (1, 4), (2, 3), (5, 3), (20, 1)])
    return [gen_cp(rng) for _ in range(n)]


def gen_int(rng):
    k = rng.below(10)
    if k < 3:
        v = rng.choice([0, 1, -1, 7, 10, -10, 99, 100, I64MAX, I64MIN, I64MAX - 1, I64MIN + 1, 1 << 53, -(1 << 53), (1 << 53) + 1,
                        (1 << 53) - 1, 1 << 62, 1 << 32, (1 << 31) - 1, -(1 << 31), 8, 9, 16, 255, 1000000007])
    elif k < 5:
        e = rng.range(0, 18)
        v = (10 ** e + rng.range(-1, 1)) * rng.choice([1, -1])
    else:
        bits = rng.range(1, 63)
        v = (rng.u64() >> (64 - bits)) * rng.choice([1, -1])
    v = max(I64MIN, min(I64MAX, v))
    txt = str(v)
    if v == 0 and rng.chance(1, 3):
        txt = "-0"
    return ('i', v, txt)


def gen_float(rng):
    ip = str(rng.choice([0, 1, 2, 9, 10, 123, 99999, rng.below(10 ** rng.range(1, 15))]))
    s = ("-" if rng.chance(1, 3) else "") + ip
    frac = exp = ""
    k = rng.below(4)
    if k in (0, 2):
        frac = "." + "".join(str(rng.below(10)) for _ in range(rng.range(1, 9)))
    if k in (1, 2) or not frac:
        e = rng.choice([0, 0, 1, 2, 5, 10, 15, rng.range(0, 20)])
        ed = str(e)
        if rng.chance(1, 4):
            ed = "0" * rng.range(1, 2) + ed
        exp = rng.choice(["e", "E"]) + rng.choice(["", "+", "-"]) + ed
    return ('d', s + frac + exp)


def gen_scalar(rng):
    k = rng.below(12)
    if k == 0:
        return ('n',)
    if k == 1:
        return ('t',)
    if k == 2:
        return ('f',)
    if k < 6:
        return gen_int(rng)
    if k < 7:
        return gen_float(rng)
    return ('s', gen_cps(rng))


def gen_value(rng, depth, floats=True):
    if depth <= 0 or rng.chance(2, 5):
        v = gen_scalar(rng)
        while v[0] == 'd' and not floats:
            v = gen_scalar(rng)
        return v
    n = rng.weighted([(0, 2), (1, 3), (2, 3), (4, 2), (12, 1)])
    if rng.chance(1, 2):
        return ('a', [gen_value(rng, depth - 1, floats) for _ in range(n)])
    mem = []
    for _ in range(n):
        k = gen_cps(rng)
        if mem and rng.chance(1, 10):
            k = mem[0][0]
        mem.append((k, gen_value(rng, depth - 1, floats)))
    return ('o', mem)


def utf8(cp):
    return chr(cp).encode("utf-8", "surrogatepass")


def hex4(rng, x):
    s = "%04x" % x
    return "".join(c.upper() if rng.chance(1, 2) else c for c in s).encode()


def spell_cp(rng, cp, style):
    """style: 0 random, 1 prefer raw, 2 always escaped"""
    opts = []
    if cp >= 0x20 and cp not in (0x22, 0x5c):
        opts += ["raw"] * (6 if style == 1 else 2 if style == 0 else 0)
    if cp in SHORT:
        opts += ["short"] * 2
    opts.append("u")
    o = rng.choice(opts)
    if o == "raw":
        return utf8(cp)
    if o == "short":
        return b"\\" + SHORT[cp]
    if cp < 0x10000:
        return b"\\u" + hex4(rng, cp)
    c = cp - 0x10000
    return b"\\u" + hex4(rng, 0xd800 | (c >> 10)) + b"\\u" + hex4(rng, 0xdc00 | (c & 0x3ff))


def spell_str(rng, cps, style):
    return b'"' + b"".join(spell_cp(rng, c, style) for c in cps) + b'"'


def ws(rng, layout):
    if layout == 0 or not rng.chance(1, 3):
        return b""
    return bytes(rng.choice(b" \t\n\r") for _ in range(rng.range(1, 3)))


def spell(rng, v, layout, style):
    t = v[0]
    if t == 'n':
        return b"null"
    if t == 't':
        return b"true"
    if t == 'f':
        return b"false"
    if t == 'i':
        return v[2].encode()
    if t == 'd':
        return v[1].encode()
    if t == 's':
        return spell_str(rng, v[1], style)
    if t == 'a':
        out = b"[" + ws(rng, layout)
        for i, x in enumerate(v[1]):
            if i:
                out += b"," + ws(rng, layout)
            out += spell(rng, x, layout, style) + ws(rng, layout)
        return out + b"]"
    out = b"{" + ws(rng, layout)
    for i, (k, x) in enumerate(v[1]):
        if i:
            out += b"," + ws(rng, layout)
        out += spell_str(rng, k, style) + ws(rng, layout) + b":" + ws(rng, layout) + spell(rng, x, layout, style) + ws(rng, layout)
    return out + b"}"


def depth_of(v):
    if v[0] == 'a':
        return 1 + max([depth_of(x) for x in v[1]] or [0])
    if v[0] == 'o':
        return 1 + max([depth_of(x) for _, x in v[1]] or [0])
    return 0


# ------------------------------------------------------------------------------------------------ reference
def py_parse(text):
    """reference parser: bytes -> canonical token list (floats as ('d', text))"""
    if text.startswith(b"\xef\xbb\xbf"):
        text = text[3:]
    s = text.decode("utf-8")  # raises on invalid UTF-8
    v = json.loads(s, parse_int=lambda x: ('i', int(x)), parse_float=lambda x: ('d', x),
                   object_pairs_hook=lambda ps: ('o', ps), strict=True)
    out = []
    py_dump(v, out)
    return out


def py_dump(v, out):
    if v is None:
        out.append("n")
    elif v is True:
        out.append("t")
    elif v is False:
        out.append("f")
    elif isinstance(v, str):
        out.append("s" + v.encode("utf-8", "surrogatepass").hex())
    elif isinstance(v, list):
        out.append("[")
        for x in v:
            py_dump(x, out)
        out.append("]")
    elif isinstance(v, tuple) and v[0] == 'i':
        if I64MIN <= v[1] <= I64MAX:
            out.append("i%d" % v[1])
        else:                                     # an integer text beyond int64 is read as a double (fix g)
            try:
                out.append(("d", float(v[1]), str(v[1])))
            except OverflowError:
                out.append(("d", math.inf if v[1] > 0 else -math.inf))
    elif isinstance(v, tuple) and v[0] == 'd':
        out.append(("d", float(v[1]), v[1]))
    elif isinstance(v, tuple) and v[0] == 'o':
        out.append("{")
        for k, x in v[1]:
            out.append("k" + k.encode("utf-8", "surrogatepass").hex())
            py_dump(x, out)
        out.append("}")
    else:
        raise ValueError("reference value %r" % (v,))


def has_dup_keys(tokens):
    st = []
    for t in tokens:
        if t == "{":
            st.append(set())
        elif t == "[":
            st.append(None)
        elif t in ("}", "]"):
            st.pop()
        elif isinstance(t, str) and t.startswith("k") and st and st[-1] is not None:
            t = bytes.fromhex(t[1:]).lower()      # the binary form compares member names with strncasecmp
            if t in st[-1]:
                return True
            st[-1].add(t)
    return False


def bits_to_float(h):
    return struct.unpack(">d", bytes.fromhex(h))[0]


BEYOND = "beyond-one-rounding"     # class of the known finding C13-reader-beyond-one-rounding (replay field "class")


def same_tokens(lib, ref, ftol):
    """lib: tokens of the library dump; ref: tokens from py_parse. Returns None or a reason.
    ftol None: structure only (same tokens, a double wherever the reference has a non-int64 number)"""
    if len(lib) != len(ref):
        return "different shape (%d vs %d tokens)" % (len(lib), len(ref))
    beyond = None
    for a, b in zip(lib, ref):
        if isinstance(b, tuple):
            if not a.startswith("d"):
                return "number %r is not a double in the library (%s)" % (b[1], a[:40])
            x = bits_to_float(a[1:17])
            if ftol is not None and not (abs(x - b[1]) <= ftol(b[1])):
                return "double differs: library %r reference %r" % (x, b[1])
            if ftol is not None and "nearest" in OPEN and len(b) > 2 and struct.pack(">d", b[1]).hex() != a[1:17]:
                why = "not the nearest double: %s is read as %r (%s), the nearest double is %r (%s)" % (
                    b[2][:40], x, a[1:17], b[1], struct.pack(">d", b[1]).hex())
                if one_rounding(b[2]):
                    return why
                beyond = beyond or BEYOND + ": " + why   # known finding; a failure inside the class elsewhere in the document goes first
        elif a != b:
            return "token differs: library %s reference %s" % (a[:60], b[:60])
    return beyond


def tol_parse(x):     # iwstrtod accumulates rounding errors (known, floats are outside the model): gross errors only
    return 1e-9 * max(abs(x), 1e-300)


def tol_print(x):     # %.8Lf: at most eight fraction digits
    return 0.5000001e-8 + 1e-9 * abs(x)


def tree_tokens(v):
    """abstract value (generator form) -> dump tokens as the harness prints them; floats by text"""
    t = v[0]
    if t in "ntf":
        return [t]
    if t == 'i':
        return ["i%d" % v[1]]
    if t == 'd':
        return [("d", float(v[1]))]
    if t == 's':
        return ["s" + b"".join(utf8(c) for c in v[1]).hex()]
    if t == 'a':
        return ["["] + [y for x in v[1] for y in tree_tokens(x)] + ["]"]
    out = ["{"]
    for k, x in v[1]:
        out.append("k" + b"".join(utf8(c) for c in k).hex())
        out += tree_tokens(x)
    return out + ["}"]


# ------------------------------------------------------------------------------------------------ raw trees for print
def gen_bytes(rng):
    k = rng.below(6)
    if k < 2:
        return b"".join(utf8(c) for c in gen_cps(rng))
    if k < 4:
        return bytes(rng.choice([0, 1, 8, 9, 10, 11, 12, 13, 14, 31, 32, 34, 47, 92, 126, 127, 128, 0xc2, 0xa9, 0xe2, 0x82, 0xac, 0xf0, 0x9f,
                                 0x98, 0x80, 0xed, 0xa0, 0xf4, 0x90, 0xc0, 0xff, 65]) for _ in range(rng.range(0, 6)))
    return rng.bytes(rng.range(0, 5))


def gen_tree(rng, depth, floats):
    """dump tokens of an arbitrary tree (byte strings need not be UTF-8); returns (tokens, all_utf8)"""
    if depth <= 0 or rng.chance(2, 5):
        k = rng.below(10)
        if k == 0:
            return ["n"], True
        if k == 1:
            return [rng.choice(["t", "f"])], True
        if k < 4:
            return ["i%d" % gen_int(rng)[1]], True
        if k == 4 and floats:
            x = rng.choice([0.0, 1.0, -1.5, 0.1, 0.3, 1e-9, 123456.789, 1e15, -2.5e-7, 3.14159265358979, 1e21])
            return ["d" + struct.pack(">d", x).hex()], True
        b = gen_bytes(rng)
        return ["s" + b.hex()], is_utf8(b)
    n = rng.weighted([(0, 2), (1, 3), (2, 3), (4, 2)])
    ok = True
    if rng.chance(1, 2):
        out = ["["]
        for _ in range(n):
            t, u = gen_tree(rng, depth - 1, floats)
            out += t
            ok = ok and u
        return out + ["]"], ok
    out = ["{"]
    for _ in range(n):
        kb = gen_bytes(rng)
        t, u = gen_tree(rng, depth - 1, floats)
        out += ["k" + kb.hex()] + t
        ok = ok and u and is_utf8(kb)
    return out + ["}"], ok


def is_utf8(b):
    try:
        b.decode("utf-8")
        return True
    except UnicodeDecodeError:
        return False


def same_masked(lib, tree):
    """re-parsed dump against the printed tree; a double may come back as a double or (integral value) as an integer"""
    if len(lib) != len(tree):
        return False
    for a, t in zip(lib, tree):
        if t.startswith("d"):
            if not (a.startswith("d") or a.startswith("i")):
                return False
        elif a != t:
            return False
    return True


# ------------------------------------------------------------------------------------------------ mutation (T2 only)
def mutate(rng, doc):
    b = bytearray(doc)
    for _ in range(rng.range(1, 3)):
        k = rng.below(4)
        pos = rng.below(len(b) + 1)
        ins = rng.choice(b'"\\{}[]:,-+.eE0123456789xXabfnrtu \t\n\r/\'\x7f\x80\xc3\xef\xbb\xbf\x01')
        if k == 0 and b:
            del b[min(pos, len(b) - 1)]
        elif k == 1:
            b.insert(pos, ins)
        elif k == 2 and b:
            b[min(pos, len(b) - 1)] = ins
        else:
            b = b[:pos]
    return bytes(x for x in b if x != 0)


def gen_body(rng):
    """string body for direct unescape queries: mostly valid escapes, sometimes broken ones"""
    out = b""
    for _ in range(rng.range(0, 8)):
        k = rng.below(10)
        if k < 6:
            out += spell_cp(rng, gen_cp(rng), 0)
        elif k == 6:
            out += b"\\" + bytes([rng.choice(b"xuU0a'v \\")])
        elif k == 7:
            out += b"\\u" + bytes(rng.choice(b"0123456789abcdefABCDEFgd8DC\\u\"") for _ in range(rng.range(0, 5)))
        elif k == 8:
            out += b"\\u" + hex4(rng, rng.range(0xd800, 0xdfff)) + rng.choice([b"", b"\\", b"\\u", b"\\u" + hex4(rng, rng.range(0xdb00, 0xe0ff)), b"x"])
        else:
            out += rng.bytes(1).replace(b"\0", b"1")
    if rng.chance(5, 6):
        out += b'"' + rng.choice([b"", b" tail", b":1"])
    return bytes(x for x in out if x != 0)


# ------------------------------------------------------------------------------------------------ doubles, value level
import math

DBL_MAX = 1.7976931348623157e308


def gen_doubles(rng, n):
    """doubles over the whole normal range: m * 10^k for k in -8..307, the fixed/exponent notation boundary
    (decades 1e21..1e23), exponents that are multiples of ten, DBL_MAX; no subnormals, no inf/nan"""
    out = []
    for k in range(-8, 308):
        for m in (1.0, 9.5, rng.range(1000, 9999) / 1000.0):
            try:
                x = float("%re%d" % (m, k))
            except OverflowError:
                continue
            if x <= DBL_MAX:
                out.append(x)
    for k in range(10, 301, 10):
        out += [float("1e%d" % k), float("7.25e%d" % k), float("1e%d" % (k + 1)), float("1e%d" % (k - 1))]
    for base in (1e21, 5e21, 9.999e21, 1e22, 1.0000001e22, 5e22, 1e23, 9.9999999999e22, 2.0 ** 63, 2.0 ** 64, 2.0 ** 70, 2.0 ** 73, 2.0 ** 74):
        x = base
        out.append(x)
        for _ in range(3):
            x = math.nextafter(x, math.inf); out.append(x)
        x = base
        for _ in range(3):
            x = math.nextafter(x, 0.0); out.append(x)
    out += [DBL_MAX, math.nextafter(DBL_MAX, 0.0), 1e308, 1.5, 0.1, 0.3, 123456.789, 0.00000001, 0.000000004, 0.000000006,
            99999999.99999999, 4503599627370496.5, 9007199254740993.0, 0.0, 2.2250738585072014e-308, 1e-300]
    while len(out) < n:
        e = rng.range(-30, 307)
        out.append(float("%d.%015de%d" % (rng.range(1, 9), rng.below(10 ** 15), e)))
    out = [x for x in out if x == x and abs(x) <= DBL_MAX]
    return out + [-x for x in out]


def check_printed_double(x, text):
    """text: bytes of the printed array [x]. Returns None or the reason it does not denote x
    (fixed notation: rounded to eight fraction digits and nothing else; exponent notation: exact round trip)"""
    try:
        v = json.loads(text.decode("ascii"), strict=True)
    except (ValueError, UnicodeDecodeError) as e:
        return "not valid JSON (%s)" % str(e)[:60]
    if not (isinstance(v, list) and len(v) == 1 and isinstance(v[0], (int, float)) and not isinstance(v[0], bool)):
        return "does not denote an array of one number"
    num = text.strip(b"[] \n\t\r")
    try:
        y = float(v[0])
    except OverflowError:
        return "denotes a number beyond the double range"
    if b"e" in num or b"E" in num:
        if y != x:
            return "exponent notation does not round-trip: denotes %r" % y
    elif not abs(y - x) <= 0.5e-8 + math.ulp(x):
        return "fixed notation is off by more than eight fraction digits: denotes %r" % y
    return None


# ------------------------------------------------------------------------------------------------ number texts
# Round 4 (seeded miss: the fraction loop of iwstrtod stopped after ~24 digits): number texts at the limits of every loop
# and accumulator of the number scanner, each placed at top level, inside arrays (followed by more elements) and as an
# object member value.  Two oracles: STRUCTURE (the parse consumes exactly the number: same token sequence as the
# reference parser; needs no tolerance) and VALUE (tol_parse, iwstrtod is inexact).
NUM_LENS = [1, 15, 16, 17, 19, 20, 24, 25, 26, 40, 55, 100, 400]
NUM_EXPS = [0, 1, 22, 23, 307, 308, 309, 323, 324, 400]
NUM_START = re.compile(rb"[.\-0-9]")
NUM_RE = re.compile(r"^(-?)(\d+)(?:\.(\d+))?(?:[eE]([+-]?\d+))?$")
EXACT_DOUBLES = [0.1, 0.3, 1.0 / 3, 2.0 ** -1074, 2.0 ** -1022, math.nextafter(2.0 ** -1022, 0.0), 1.7976931348623157e308,
                 2.0 ** -30, 1e-7, 5e-5, 123456.789, 1e22, 1e23, 2.0 ** 63, 2.0 ** 64, 4503599627370496.5, 2.0 ** -60, 1e-25, 1e-24, 1e-26]
DBL_MAX_TEXT = format(Decimal(1.7976931348623157e308), "f")
# range-exp (exponents beyond +-308 of representable numbers) is judged by default since the repair a215cb1 in /repo
# refused: 2.2250738585072011e-308 must be accepted (repair 14689de); nearest: EVERY number text must be read as the NEAREST double, bit
# for bit (the property's words).  Texts of the class `one_rounding` are read so since the repair 7355ecb - a miss there is a VIOLATION;
# a miss outside the class carries "class": "beyond-one-rounding" in its replay = known finding C13-reader-beyond-one-rounding.
# All three are judged by default.
OPEN = set(os.environ.get("VERIF_JTEXT_OPEN", "range-exp,refused,nearest").replace("all", "range-exp,range-mant,refused,nearest").replace("range,", "range-exp,").split(",")) - {""}
if "range" in OPEN:
    OPEN.add("range-exp")


def one_rounding(txt):
    """number texts whose nearest double needs ONE rounding: at most 19 significant digits (so they fit into 64 bits) that make an integer
    below 2^64, or a significand up to 2^53 times / divided by a power of ten up to 10^22 (both exact doubles).  This is the class
    fixes/jtext-strtod-nearest.diff reads exactly; judged bit for bit with VERIF_JTEXT_OPEN=nearest, otherwise with tol_parse."""
    m = NUM_RE.match(txt)
    if not m:
        return False
    sg, ip, fp, ex = m.groups()
    fp = (fp or "").rstrip("0")                   # trailing zeros of the fraction, and of an integer, carry no digit
    if fp:
        digs, k = (ip + fp).lstrip("0"), -len(fp)
    else:
        digs = ip.rstrip("0")
        k = len(ip) - len(digs)
    if len(digs) > 19 or (ex and len(ex) > 6):
        return False
    k += int(ex or "0")
    mm = int(digs or "0")
    if mm == 0 or (0 <= k <= 20 and mm * 10 ** k < 1 << 64):
        return True
    while k < 0 and mm % 10 == 0:
        mm //= 10; k += 1
    if k == 0:
        return mm < 1 << 64
    while mm > 1 << 53 and mm % 10 == 0:
        mm //= 10; k += 1
    return mm <= 1 << 53 and -22 <= k <= 22


def num_digits(rng, n, pat, nonzero_first=False):
    if pat == "9":
        return "9" * n
    if pat == "10":
        return "1" + "0" * (n - 1)                # trailing zeros
    if pat == "01":
        return "0" * (n - 1) + "1"                # leading zeros
    if pat == "5":
        return ("1234567890" * (n // 10 + 1))[:n]
    d = "".join(str(rng.below(10)) for _ in range(n))
    if nonzero_first and d[0] == "0":
        d = str(rng.range(1, 9)) + d[1:]
    return d


def num_scope(txt):
    """'ok': the reference value must be met; 'overflow': beyond the double range (nothing to compare); the others are limits
    of iwstrtod's method d * pow(10, e) recorded in notes/jtext.md, where the value is representable but the text is
    rejected (ERANGE) or read imprecisely: 'range-exp' exponent outside -308..308, 'range-mant' the digit string alone
    leaves the double range, 'refused' 2.2250738585072011e-308 (refused on purpose).  These are judged by T2 and, when the
    library accepts the text, by the structural oracle; rejection and value only with VERIF_JTEXT_OPEN=<class,...|all>"""
    m = NUM_RE.match(txt)
    assert m, txt
    sg, ip, fp, ex = m.groups()
    if ip != "0" and ip[0] == "0":
        raise ValueError("not a JSON number: " + txt[:40])
    if fp is None and ex is None and len(ip) <= 18:
        return "ok"
    if math.isinf(float(txt)):
        return "overflow"
    mant = float(ip + "." + (fp or "0"))
    if mant > 1.797e308 and ip != DBL_MAX_TEXT:
        return "range-mant"
    if ex is not None:
        e = int(ex)
        if mant < 1e-290 and e > 0 and (ip + (fp or "")).strip("0"):
            return "range-mant"                   # the fraction loop's base is a subnormal (or 0) by then
        if e < -308 or e > 308:                   # pow(10, e) overflows, underflows (ERANGE) or is a subnormal with few bits left
            return "range-exp"
        if e == -308 and mant == 2.2250738585072011:
            return "refused"
    return "ok"


def number_edges(rng):
    """deterministic part: every length in NUM_LENS for each of the three digit runs, every exponent in NUM_EXPS with every
    sign, the exact decimal expansions of doubles"""
    out = []
    E = lambda: rng.choice("eE")
    for i, n in enumerate(NUM_LENS):
        for j, pat in enumerate(("9", "10", "r", "5")):                      # integer part
            ip = num_digits(rng, n, pat, True)
            out.append(ip)
            out.append(ip + [".5", "e0", ".0", E() + "+1", ".25" + E() + "-%d" % n, "e-0"][(i + j) % 6])
        for j, pat in enumerate(("9", "10", "01", "r", "5")):                # fraction
            fp = num_digits(rng, n, pat)
            out.append("0." + fp)
            out.append(["1", "9", "10", "123456789012345678", "0", "99999"][(i + j) % 6] + "." + fp +
                       ["", "e5", E() + "-5", "", "e+%d" % min(n, 300), E() + "0"][(i + 2 * j) % 6])
        for j, v in enumerate((0, 1, 5, 22, 307)):                           # exponent digits: leading zeros up to length n
            ex = str(v).rjust(n, "0")
            if len(ex) == n:
                out.append(["1", "2.5", "0.001", "12345678901234567890"][(i + j) % 4] + E() + ["", "+", "-"][(i + j) % 3] + ex)
        out.append("1" + E() + ["", "+", "-"][i % 3] + num_digits(rng, n, "9"))   # over/underflowing exponents of every length
    for i, e in enumerate(NUM_EXPS):
        for j, sg in enumerate(("", "+", "-")):
            for k, mant in enumerate(("1", "2.5", "0.001", "123456789012345678", "0", "9.999999999999999999999999999")):
                out.append(mant + E() + sg + str(e))
            out.append("1" + "0" * e + E() + "-" + str(e)) if sg == "-" else out.append("0." + "0" * e + "1" + E() + sg + str(e))
    for x in EXACT_DOUBLES:
        t = format(Decimal(x), "f")
        out += [t, t + "e0", t + E() + "-5", t + E() + "+5"]
        if "." in t:
            out.append(t.rstrip("0") + "0" * 30)
    out += ["123456789012345683968", "1e23", "51.0E-24", "0.1318609e-20", "4276604189125701.3e-8"]   # beyond the one-rounding class: live reproduction of the known finding
    out += ["9223372036854775808", "9223372036854775808.0", "9223372036854774784.0", "9223372036854777856", "18446744073709551615",
            "18446744073709551615.0", "10000000000000000000", "0.1", "0.3", "0.7", "1.1", "4503599627370497.5", "9007199254740992e22",
            "9007199254740991e-22", "123456789012345678e-2", "1e22", "1e-22", "8.5e-21", "1234567.12345678", "0.00000001",
            "2.2250738585072011E-308", "22.250738585072011e-309"]
    out += ["9007199254740993", "9007199254740993.0", "9007199254740993e0", "2.2250738585072011e-308", "2.2250738585072012e-308",
            "2.2250738585072012e-309", "0.0", "0e0", "0.0e0", "0E-0", "0e+00", "1e00", "1.5E+000", "0.1e1", "0.5", "1e-7", "4.9e-323", "1e-323",
            "1.7976931348623157e308", "1.7976931348623157E+308", "17976931348623157e292", "0.00000000000000000000000000000012345",
            "1.0000000000000000000000000000000000000001e5", "0.1234567890123456789012345678901234567890", "18446744073709551615",
            "18446744073709551616", "9223372036854775807", "9223372036854775808", "9223372036854775808.0", "99999999999999999999.99999999999999999999"]
    res = []
    for t in out:
        res.append(t)
        res.append("-" + t)
    return res


def gen_number(rng):
    near = lambda n: max(1, n + rng.choice([0, 0, 0, -1, 1]))
    ln = lambda: near(rng.weighted([(rng.choice(NUM_LENS[:9]), 6), (rng.choice(NUM_LENS), 3), (rng.range(1, 60), 3)]))
    pat = lambda: rng.choice(["9", "10", "01", "r", "r", "r", "5"])
    ip = "0" if rng.chance(1, 4) else num_digits(rng, ln() if rng.chance(1, 2) else rng.range(1, 6), rng.choice(["9", "10", "r", "r", "5"]), True)
    s = ("-" if rng.chance(1, 3) else "") + ip
    k = rng.below(8)
    if k < 6:
        s += "." + num_digits(rng, ln() if rng.chance(2, 3) else rng.range(1, 6), pat())
    if k >= 4 or (k == 3):
        e = max(0, rng.choice(NUM_EXPS + [2, 5, 10, 15, 21, 24, 100, 300]) + rng.choice([0, 0, -1, 1]))
        s += rng.choice("eE") + rng.choice(["", "+", "-"]) + "0" * rng.choice([0, 0, 0, 1, 2, 20, 100]) + str(e)
    return s


NUM_PLACES = 8


def place_number(rng, t, j):
    """document around the number text t, and the number of copies of t inside"""
    o = num_digits(rng, rng.range(1, 3), "r", True)
    w = lambda: rng.choice(["", "", " ", "\n", "\t ", "\r\n"])
    j %= NUM_PLACES
    if j == 0:
        return t
    if j == 1:
        return "[%s]" % t
    if j == 2:
        return "[%s,%s]" % (t, o)                                    # followed by more elements
    if j == 3:
        return '{"a":%s,"b":true}' % t                               # member value followed by another member
    if j == 4:
        return '{"a":%s}' % t
    if j == 5:
        return "[%s%s%s,%s%s%s,%snull,%s]" % (w(), o, w(), w(), t, w(), w(), t)
    if j == 6:
        return '{%s"k"%s:%s%s%s,"n":[%s,"x"],"%s":%s}' % (w(), w(), w(), t, w(), t, o, o)
    return "[[%s],[%s,%s],{\"v\":%s}]" % (t, t, o, t)


def scan_sweep():
    """complete sweep of the scanner's branch combinations: white space x sign x integer digits x fraction x exponent x follower"""
    out = []
    for a in ("", " ", "\t\n"):
        for b in ("", "-", "+"):
            for c in ("", "0", "12", "007"):
                for d in ("", ".", ".5", ".50", ".."):
                    for e in ("", "e", "E5", "e+", "E-", "e-07", "e00", "e+x", "ex", "e0000x", "e000", "e+0012"):
                        for f in ("", "]", "5", ".1", "e1", "-1", ", 2"):
                            out.append((a + b + c + d + e + f).encode())
    return out


# ------------------------------------------------------------------------------------------------ the check
# ------------------------------------------------------------------------------------------------ print channels
ALLPFS = list(range(16))                  # every combination of the four flag bits (INDENT2/INDENT4 carry the PRETTY bit as well)
NODE_CHANNELS = ["n.xstr", "n.fmem", "n.file", "n.count", "n.rec", "n.alloc"]
JBL_CHANNELS = ["b.xstr", "b.fmem", "b.file", "b.count", "b.rec", "b.alloc"]
TREE_CHANNELS = ["t.xstr", "t.fmem", "t.file", "t.count", "t.rec", "t.alloc"]     # jbn_as_json on a tree borrowed from a binary document
XML_CHANNELS = ["x.xstr", "x.fmem", "x.file", "x.count", "x.rec"]
REG_CHANNELS = ["r.sync"]

# Every exported function of src/**/*.h that the scan below takes for a printing entry point, and every library function that
# calls one (P: producer with its channels in harness/h_jtext.c, S: sink = printer callback, A: agreement of the sinks only,
# U: reaches a classified producer, X: outside - does not turn a document into text).  A new or vanished name fails the check.
PRINT_API = {
    "jbn_as_json": "P:n.xstr n.fmem n.file n.count n.rec",
    "jbn_as_json_alloc": "P:n.alloc",
    "jbl_as_json": "P:b.xstr b.fmem b.file b.count b.rec",
    "jbl_as_json_alloc": "P:b.alloc",
    "jbl_xstr_json_printer": "S:xstr alloc (Coq: xstr_put)",
    "jbl_fstream_json_printer": "S:fmem (open_memstream) file (tmpfile) r.sync (Coq: fstream_put)",
    "jbl_count_json_printer": "S:count (Coq: count_put)",
    "jbn_as_xml": "A:x.xstr x.fmem x.file x.count x.rec - XML markup is not JSON text: no model, the sinks must agree (keys without NUL)",
    "iwjsreg_sync": "P:r.sync - jbn_as_json + jbl_fstream_json_printer + JBL_PRINT_PRETTY_INDENT2 into the registry file",
    "iwjsreg_close": "U:iwjsreg_sync", "iwjsreg_set_str": "U:iwjsreg_sync (IWJSREG_AUTOSYNC)", "iwjsreg_set_i64": "U:iwjsreg_sync (IWJSREG_AUTOSYNC)",
    "iwjsreg_inc_i64": "U:iwjsreg_sync (IWJSREG_AUTOSYNC)", "iwjsreg_set_bool": "U:iwjsreg_sync (IWJSREG_AUTOSYNC)",
    "iwjsreg_merge": "U:iwjsreg_sync (IWJSREG_AUTOSYNC)", "iwjsreg_replace": "U:iwjsreg_sync (IWJSREG_AUTOSYNC); used by the r.sync channel",
    "jbl_as_buf": "X:the binary form, not text (C14)",
    "jbl_ptr_serialize": "X:writes a JSON pointer, not a document (C14)",
}
PRINT_FLAGS = ["JBL_PRINT_CODEPOINTS", "JBL_PRINT_PRETTY", "JBL_PRINT_PRETTY_INDENT2", "JBL_PRINT_PRETTY_INDENT4"]
PRINTER_TYPE = "typedef iwrc (*jbl_json_printer)(const char *data, int size, char ch, int count, void *op);"
API_NAME = re.compile(r"(_as_|_printer$|print(?!f)|serialize|_to_str|dump|_write|_sync$|_save)")
API_PARAM = re.compile(r"jbl_json_printer|jbl_print_flags_t|\bFILE\b|struct iwxstr|IWXSTR|jbn_as_xml_spec")


def _nocomment(t):
    t = re.sub(r"/\*.*?\*/", "", t, flags=re.S)
    return re.sub(r"//[^\n]*", "", t)


def print_api_scan(repo):
    """(candidates, flags, printer typedef found) of the current tree: exported declarations whose name or parameters look like
    printing, plus the library functions whose body calls a classified producer or sink"""
    cand, flags, typedef_ok = {}, set(), False
    for hp in sorted(glob.glob(os.path.join(repo, "src", "**", "*.h"), recursive=True)):
        h = _nocomment(open(hp, errors="replace").read())
        if "jbl_json_printer" not in h and "struct jbl" not in h and "JBL" not in h:
            continue
        for m in re.finditer(r"IW_EXPORT\s+(?:[\w\*]+\s+)*?\**\s*(\w+)\s*\(([^;]*?)\)\s*(?:__attribute__\s*\(\(.*?\)\)\s*)?;", h, flags=re.S):
            if API_NAME.search(m.group(1)) or API_PARAM.search(m.group(2)):
                cand[m.group(1)] = os.path.relpath(hp, repo)
        flags |= set(re.findall(r"#\s*define\s+(JBL_PRINT_\w+)", h))
        if PRINTER_TYPE in " ".join(h.split()):
            typedef_ok = True
    names = [n for n, c in PRINT_API.items() if c[0] in "PSA"]
    pat = re.compile(r"\b(%s)\b" % "|".join(names))
    for cp in sorted(glob.glob(os.path.join(repo, "src", "**", "*.c"), recursive=True)):
        rel = os.path.relpath(cp, repo)
        if "/tests/" in rel or "/tools/" in rel:
            continue
        src = _nocomment(open(cp, errors="replace").read())
        for m in re.finditer(r"^([A-Za-z_][^\n;{}]*?\b(\w+)\s*\([^;{}]*\)\s*)\{(.*?)^\}", src, flags=re.S | re.M):
            if m.group(1).startswith("static"):
                continue
            if set(pat.findall(m.group(3))) - {m.group(2)}:
                cand.setdefault(m.group(2), rel)
    return cand, flags, typedef_ok


BYTE_CLASSES = [
    ("nul", b"\x00"), ("c0-short", b"\b\t\n\f\r"), ("c0-vt", b"\x0b"), ("c0-u", b"\x01\x1f"), ("del", b"\x7f"),
    ("quote", b'"\\/'), ("ascii", b"aZ~ "),
    ("u2", "\u0080\u00e9\u07ff".encode()), ("u3", "\u0800\u20ac\ud7ff\ue000\uffff".encode("utf-8", "surrogatepass")),
    ("u4", "\U00010000\U0001d306\U0010ffff".encode()),
    ("inv-cont", b"\x80"), ("inv-cont2", b"a\xbf"), ("inv-overlong2", b"\xc0\x80"), ("inv-overlong3", b"\xe0\x80\x80"),
    ("inv-trunc2", b"\xc3"), ("inv-trunc3", b"\xe2\x82"), ("inv-trunc4", b"\xf0\x9f\x98"),
    ("inv-surr-hi", b"\xed\xa0\x80"), ("inv-surr-lo", b"\xed\xb0\x80"), ("inv-surr-pair", b"\xed\xa0\xb4\xed\xbc\x86"),
    ("inv-beyond", b"\xf4\x90\x80\x80"), ("inv-f5", b"\xf5"), ("inv-fe", b"\xfe"), ("inv-ff", b"\xff"),
    ("mix", b"a\x00\xc3\xa9\"\xff\n"), ("mix-valid", "\u00e9\n\U0001f600\x7f\u20ac".encode()),
]


def tree_strings(t):
    return [bytes.fromhex(x[1:]) for x in t if x[0] in "sk"]


def jbl_eligible(t):
    """jbl_from_node keeps the tree as it is: container root, member names unique (ASCII case ignored), no NUL bytes"""
    return t[0] in "[{" and not has_dup_keys(t) and not any(0 in b for b in tree_strings(t))


def reg_changes(t):
    """would a JSON merge of the tree into an empty registry change it?  (null members are deletions, empty names address the parent)"""
    st = []
    for i, x in enumerate(t):
        if x in ("{", "["):
            st.append(x)
        elif x in ("}", "]"):
            st.pop()
        elif x[0] == "k" and (len(x) == 1 or "2f" in re.findall("..", x[1:]) or "7e" in re.findall("..", x[1:])):
            return True
        elif x == "n" and st and st[-1] == "{":
            return True
    return False


def parse_groups(line):
    """`chan` answer -> ({channel: (status, payload)}, diagnostics) ; payload: bytes, int (count) or error name"""
    main, _, diag = line.partition(" ## ")
    res = {}
    for g in main.split(" | "):
        f = g.split()
        if len(f) != 3 or f[0] not in ("ok", "err"):
            return None, diag
        if f[0] == "err":
            pay = f[1]
        elif f[1].startswith("#"):
            pay = int(f[1][1:])
        else:
            pay = bytes.fromhex(f[1]) if f[1] != "-" else b""
        for name in f[2].split(","):
            res[name] = (f[0], pay)
    return res, diag


def nums_tables(impl, docs):
    """oracle inputs: iwstrtod at every possible number start, from the implementation"""
    need = [i for i, d in enumerate(docs) if NUM_START.search(d)]
    tabs = ["-"] * len(docs)
    if need:
        rc, out, err = vlib.run_lines(impl, "".join("nums %s\n" % vlib.hexs(docs[i]) for i in need))
        for j, i in enumerate(need):
            tabs[i] = out[j] if j < len(out) and out[j] else "-"
    return tabs


def check(run):
    tier, rng = run.tier, run.rng
    proofs_ok = run.proofs()
    # T1: every exported printing entry point of the current tree is classified (and has its channels in the harness)
    try:
        cand, flags, typedef_ok = print_api_scan(vlib.REPO)
        new = sorted(f for f in cand if f not in PRINT_API)
        gone = sorted(f for f in PRINT_API if f not in cand)
        if new or gone:
            run.broken.append("T1 print API: the tree exports / calls printing entry points %s that PRINT_API (checks/C13.py) does not classify; "
                              "classified but no longer found: %s - every way of turning a document into text must be a channel of "
                              "harness/h_jtext.c" % (["%s (%s)" % (f, cand[f]) for f in new] or "-", gone or "-"))
        if sorted(flags) != PRINT_FLAGS:
            run.broken.append("T1 print API: print flags of iwjson.h are %s, classified %s" % (sorted(flags), PRINT_FLAGS))
        if not typedef_ok:
            run.broken.append("T1 print API: the type jbl_json_printer is no longer `%s` (chunk model of coq/JSON/TextChan.v)" % PRINTER_TYPE)
        run.cov["print_api"] = {"candidates": len(cand), "producers": sorted(f for f, c in PRINT_API.items() if c[0] == "P"),
                                "sinks": sorted(f for f, c in PRINT_API.items() if c[0] == "S"),
                                "channels": NODE_CHANNELS + JBL_CHANNELS + TREE_CHANNELS + XML_CHANNELS + REG_CHANNELS, "flag_sets": len(ALLPFS)}
    except OSError as e:
        run.broken.append("T1 print API: cannot scan the headers (%s)" % e)
    impl = vlib.build_harness("h_jtext")
    model = vlib.build_model("jtext")
    mult = 1 if proofs_ok else 10
    N = (3000 if tier == "quick" else 150000) * mult

    # ---------------- documents: (bytes, in_scope, kind)
    docs = []
    cdir = os.path.join(vlib.VERIF, "corpus", "C13")
    ctrees, cchans = [], []
    for cf in sorted(os.listdir(cdir)) if os.path.isdir(cdir) else []:
        for l in open(os.path.join(cdir, cf)):
            f = l.split()
            if not f or f[0].startswith("#"):
                continue
            if f[0] == "doc":
                docs.append((bytes.fromhex(f[1]), True, "corpus"))
            elif f[0] == "tree":
                ctrees.append((int(f[1]), f[2:]))
            elif f[0] == "chan":                   # a tree printed through every channel
                cchans.append((int(f[1]), f[2:]))
    # every code point edge x every spelling, every control character
    for cp in EDGE_CPS + list(range(0, 0x20)):
        for style in (0, 1, 2):
            docs.append((spell_str(rng, [cp], style), True, "edge-cp"))
        docs.append((b'{' + spell_str(rng, [0x61, cp, 0x62], 2) + b':' + spell_str(rng, [cp], 0) + b'}', True, "edge-cp"))
    for v in [0, 1, -1, I64MAX, I64MIN, I64MAX - 1, I64MIN + 1, 1 << 53, -(1 << 53), (1 << 53) + 1]:
        docs.append((str(v).encode(), True, "edge-int"))
        docs.append((b"[" + str(v).encode() + b"]", True, "edge-int"))
    docs.append((b"-0", True, "edge-int"))
    for t in [b"1e0", b"[1e0]", b"[1e0,2]", b"[1.5e00 ]", b"{\"a\":2E-0}", b"[0.5,1.25e1,-3.5E+2]", b"[1e00,1e01,10e-01]"]:
        docs.append((t, True, "edge-float"))
    # nesting around the limit
    for k in (MAXNEST - 1, MAXNEST, MAXNEST + 1, MAXNEST + 2):
        for inner in (b"", b"1", b'"x"'):
            docs.append((b"[" * k + inner + b"]" * k, k <= MAXNEST, "nest"))
        docs.append((b'{"a":' * k + b"null" + b"}" * k, k <= MAXNEST, "nest"))
        docs.append((b'[{"k":' * (k // 2) + b"[]" + b"}]" * (k // 2), k // 2 * 2 + 1 <= MAXNEST, "nest"))
    # number texts at the limits of the scanner: top level, array element followed by more, member value followed by more
    numtexts = []
    for i, t in enumerate(number_edges(rng.fork())):
        numtexts.append((t, [0, 2, 3, (1, 4, 5, 6, 7)[i % 5]]))
    for i in range((500 if tier == "quick" else 20000) * mult):
        r = rng.fork()
        numtexts.append((gen_number(r), [r.below(NUM_PLACES), 2 + r.below(2)]))
    for t, places in numtexts:
        sc = num_scope(t)
        for j in places:
            docs.append((place_number(rng, t, j).encode(), True if (sc == "ok" or sc in OPEN) else "struct",
                         "number" if sc == "ok" else "number/" + sc))
    for i in range(N):
        r = rng.fork()
        v = gen_value(r, r.weighted([(0, 2), (1, 3), (2, 4), (3, 3), (5, 1)]))
        layout = r.below(2)
        txt = spell(r, v, layout, r.below(3))
        if layout:
            txt = ws(r, 1) + txt + ws(r, 1)
        if r.chance(1, 12):
            txt = b"\xef\xbb\xbf" + txt
        docs.append((txt, depth_of(v) <= MAXNEST, "grammar"))
    nvalid = len(docs)
    for i in range(N // 2):
        r = rng.fork()
        base = docs[r.below(nvalid)][0]
        if len(base) < 400:
            docs.append((mutate(r, base), False, "mutated"))

    tabs = nums_tables(impl, [d for d, _, _ in docs])
    lines, meta = [], []
    for (d, scope, kind), tb in zip(docs, tabs):
        lines.append("parse %s %s" % (vlib.hexs(d), tb)); meta.append(("parse", d, scope, kind))

    # ---------------- arbitrary trees for the printer
    trees = [(pf, t, all(is_utf8(bytes.fromhex(x[1:])) for x in t if x[0] in "sk")) for pf, t in ctrees]
    for i in range(N):
        r = rng.fork()
        t, u8ok = gen_tree(r, r.weighted([(0, 3), (1, 3), (2, 3), (3, 1)]), floats=r.chance(1, 3))
        trees.append((r.choice(PFS), t, u8ok))
    for b in range(256):                         # every byte alone, raw and with the code-point flag
        trees.append((0, ["s%02x" % b], b < 128))
        trees.append((2, ["s61%02x62" % b], b < 128))
        trees.append((0, ["{", "k%02x" % b, "n", "}"], b < 128))
    for cp in EDGE_CPS:
        trees.append((2, ["s" + utf8(cp).hex()], True))
        trees.append((3, ["[", "s" + (utf8(cp) + b"x" + utf8(cp)).hex(), "]"], True))
    dbl = sorted({x[1:17] for _, t, _ in trees for x in t if x[0] == "d"})
    ftxt = {}
    if dbl:
        rc, out, err = vlib.run_lines(impl, "".join("ftoa %s\n" % h for h in dbl))
        ftxt = {h: (out[i] if out[i] != "-" else "") for i, h in enumerate(dbl)}
    for pf, t, u8ok in trees:
        toks = [(x + ":" + ftxt.get(x[1:17], "")) if x[0] == "d" else x for x in t]
        lines.append("print %d %s" % (pf, " ".join(toks))); meta.append(("print", pf, t, u8ok))

    # the binary form in between (jbl_from_node + jbl_as_json): container roots, member names unique, no NUL bytes
    for pf, t, u8ok in trees:
        if t[0] in "[{" and not has_dup_keys(t) and not any(0 in bytes.fromhex(x[1:17] if x[0] == "d" else x[1:]) for x in t if x[0] in "sk"):
            toks = [(x + ":" + ftxt.get(x[1:17], "")) if x[0] == "d" else x for x in t]
            lines.append("jprint %d %s" % (pf, " ".join(toks))); meta.append(("jprint", pf, t, u8ok))

    # ---------------- print channels: every tree through every exported way of printing it, every flag set
    def add_chan(pf, t, kind, chunks=False):
        if any(x[0] == "d" for x in t):
            toks = [(x + ":" + ftxt.get(x[1:17], "")) if x[0] == "d" else x for x in t]
        else:
            toks = t
        u8ok = all(is_utf8(b) for b in tree_strings(t))
        dump = " ".join(toks)
        lines.append("chan %d %s" % (pf, dump)); meta.append(("chan", pf, t, u8ok, kind))
        if chunks:
            lines.append("chunks %d %s" % (pf, dump)); meta.append(("chunks", pf, t, u8ok, kind))
        if jbl_eligible(t):
            lines.append("jchan %d %s" % (pf, dump)); meta.append(("jchan", pf, t, u8ok, kind))
            lines.append("tchan %d %s" % (pf, dump)); meta.append(("tchan", pf, t, u8ok, kind))
            if chunks:
                lines.append("jchunks %d %s" % (pf, dump)); meta.append(("jchunks", pf, t, u8ok, kind))

    for pf, t in cchans:
        add_chan(pf, t, "corpus", True)
    for name, b in BYTE_CLASSES:                 # every byte class as a value, as a member name and inside longer strings x every flag set
        h = b.hex()
        for pf in ALLPFS:
            add_chan(pf, ["[", "s" + h, "{", "k" + h, "s61" + h + "62", "}", "]"], "class/" + name, True)
    for b in range(256):                         # every byte alone, as value and member name
        for pf in (0, 5) if tier == "quick" else ALLPFS:
            add_chan(pf, ["{", "k%02x" % b, "s%02x" % b, "}"], "byte", pf == 0)
    for cp in EDGE_CPS:
        u = utf8(cp).hex()
        add_chan(rng.choice(ALLPFS), ["{", "k" + u, "[", "s" + u, "s78" + u + u, "]", "}"], "edge-cp", True)
    for depth, pfs in ((30, ALLPFS), (100, (1, 5, 9, 11))):      # indentation: one call with a count per line
        for pf in pfs:
            add_chan(pf, ["[", "{", "k61"] * depth + ["s62"] + ["}", "]"] * depth, "deep")
    for j, (pf, t, u8ok) in enumerate(trees):
        if j % 2 == 0 or j < len(ctrees):
            add_chan(pf if j % 4 == 0 else rng.choice(ALLPFS), t, "tree", j % 8 == 0)

    # ---------------- unescape, utf8, strtoll
    for i in range(N):
        r = rng.fork()
        body = gen_body(r)
        for dlen in (0, r.range(0, 12), 64):
            lines.append("unesc %s %d" % (vlib.hexs(body), dlen)); meta.append(("unesc", body, dlen))
    cps = set(EDGE_CPS) | {0xd800, 0xdbff, 0xdc00, 0xdfff, 0x110000, 0x110001, -1, -2 ** 31, 2 ** 31 - 1, 0x7ffff}
    for i in range(N // 4):
        cps.add(rng.range(-5, 0x110005))
    for c in sorted(cps):
        lines.append("enc %d" % c); meta.append(("enc", c))
    for i in range(N):
        r = rng.fork()
        k = r.below(3)
        if k == 0:
            c = gen_cp(r)
            b = utf8(c) + r.bytes(r.below(2))
            if r.chance(1, 4):
                b = b[:r.range(1, len(b))]
        elif k == 1:
            b = bytes([r.choice([0xc0, 0xc1, 0xc2, 0xdf, 0xe0, 0xed, 0xef, 0xf0, 0xf4, 0xf5, 0xff, 0x80, 0xbf, 0x7f])]) + \
                bytes(r.choice([0x7f, 0x80, 0x8f, 0x90, 0x9f, 0xa0, 0xbf, 0xc0]) for _ in range(r.range(0, 3)))
        else:
            b = r.bytes(r.range(1, 4))
        lines.append("iter %s" % vlib.hexs(b)); meta.append(("iter", b))
    for i in range(N // 2):
        r = rng.fork()
        s = r.choice([b"", b"-", b"+", b" ", b"\t-"]) + r.choice([b"", b"0", b"0x", b"0X", b"00", b"09", b"08"]) + \
            bytes(r.choice(b"0123456789abcdefABCDEFxzZ.-e") for _ in range(r.weighted([(0, 1), (1, 3), (5, 3), (19, 2), (21, 1)])))
        if r.chance(1, 5):
            s = str(r.choice([I64MAX, I64MIN, I64MAX + 1, I64MIN - 1, 1 << 64])).encode() + r.choice([b"", b"]", b".5", b"0"])
        s = bytes(x for x in s if x != 0)
        lines.append("strtoll %s" % vlib.hexs(s)); meta.append(("strtoll", s))

    # the number scanner alone: every generated number text with followers, and the complete sweep of its branch combinations
    FOL = [b"", b"]", b",", b"}", b" ", b"\n", b"x", b".", b"e", b"E+", b"e-]", b"5", b"-", b"+1", b"e5", b".5", b"\t1", b"0"]
    for t, _ in numtexts:
        tb = t.encode()
        for f in (b"", rng.choice(FOL), rng.choice(FOL)):
            q = rng.choice([b"", b"", b"", b" ", b"+", b"\t"]) + tb + f
            lines.append("strtod %s" % vlib.hexs(q)); meta.append(("strtod", q))
        if len(tb) > 3 and rng.chance(1, 2):
            q = mutate(rng, tb)
            lines.append("strtod %s" % vlib.hexs(q)); meta.append(("strtod", q))
    for q in scan_sweep():
        lines.append("strtod %s" % vlib.hexs(q)); meta.append(("strtod", q))

    out_i, out_m, mism, err = diff_run(impl, model, lines)
    if err:
        run.broken.append("T2 harness: " + err)
    # a failed channel reports what it left in the sink after " ## ": diagnostics, not part of the answer
    mism = [i for i in mism if not (i < len(out_i) and i < len(out_m) and out_i[i].partition(" ## ")[0] == out_m[i])]

    # ---------------- second round: the printed texts are parsed again (T2 + oracle); parsed documents go through the channels
    lines2, meta2, seen2 = [], [], {}
    for i, m in enumerate(meta):
        if m[0] in ("print", "chan", "jchan", "tchan") and i < len(out_i) and out_i[i].startswith("ok "):
            txt = bytes.fromhex(out_i[i].split()[1]) if out_i[i].split()[1] != "-" else b""
            if 0 not in txt:
                if txt not in seen2:
                    seen2[txt] = len(lines2)
                    lines2.append(txt)
                meta2.append((i, seen2[txt]))
    tabs2 = nums_tables(impl, lines2)
    q2 = ["parse %s %s" % (vlib.hexs(t), tb) for t, tb in zip(lines2, tabs2)]
    nparse2 = len(q2)
    mchan2 = []
    for i, m in enumerate(meta):                  # escapes, surrogate pairs, raw UTF-8 of the documents: what the parser built, on every channel
        if m[0] != "parse" or i >= len(out_i) or not out_i[i].startswith("ok ") or len(m[1]) > 400:
            continue
        kind = m[3]
        if not (kind in ("edge-cp", "corpus") or (kind == "grammar" and i % 4 == 0)):
            continue
        t = out_i[i].split()[1:]
        if not t or t[0] == "none" or any(x[0] == "d" for x in t):
            continue
        u8ok = all(is_utf8(b) for b in tree_strings(t))
        for cmd in ("chan", "jchan") if jbl_eligible(t) else ("chan",):
            pf = rng.choice(ALLPFS)
            q2.append("%s %d %s" % (cmd, pf, " ".join(t))); mchan2.append((cmd, pf, t, u8ok, "doc/" + kind, m[1]))
    out_i2, out_m2, mism2, err2 = diff_run(impl, model, q2)
    if err2:
        run.broken.append("T2 harness (round 2): " + err2)
    mism2 = [i for i in mism2 if not (i < len(out_i2) and i < len(out_m2) and out_i2[i].partition(" ## ")[0] == out_m2[i])]

    nl = len(lines) + len(q2)
    for i, l in enumerate(lines):
        run.case(l, nontrivial=True, sample=({"query": l[:300], "impl": (out_i[i] if i < len(out_i) else None) and out_i[i][:300]}
                                             if i % max(1, len(lines) // 5) == 0 else None))
        run.dist(meta[i][0] + ("/" + meta[i][3] if meta[i][0] == "parse" else "/" + meta[i][4].split("/")[0] if len(meta[i]) > 4 else ""))
    for j, l in enumerate(q2):
        run.case(l, nontrivial=True)
        run.dist("parse/printed" if j < nparse2 else mchan2[j - nparse2][0] + "/doc")
    run.cov["traces_validated_against_impl"] = nl - len(mism) - len(mism2)
    allm = [(lines, out_i, out_m, i) for i in mism] + [(q2, out_i2, out_m2, i) for i in mism2]
    if allm and os.environ.get("VERIF_DEBUG"):
        for ls, oi, om, i in allm[:30]:
            print("MISMATCH `%s` impl=`%s` model=`%s`" % (ls[i][:200], oi[i][:200] if i < len(oi) else None, om[i][:200] if i < len(om) else None))
    if allm:
        ls, oi, om, i = allm[0]
        run.broken.append("T2 correspondence: %d of %d queries differ, first: `%s` impl=`%s` model=`%s`" % (
            len(allm), nl, ls[i][:300], oi[i][:200] if i < len(oi) else None, om[i][:200] if i < len(om) else None))

    # ---------------- ORACLE 1: valid documents against the reference parser
    nviol = {}

    def viol(q, impl_out, why, kind, doc=None, extra=None):
        m_ = re.search(re.escape(BEYOND) + ": ", why)
        if m_:                                     # the reader's accuracy outside the one-rounding class: matched by the known finding
            why, extra = why[:m_.start()] + why[m_.end():], dict(extra or {}, **{"class": BEYOND})
        ck = kind + "/" + (extra or {}).get("class", "")
        nviol[ck] = nviol.get(ck, 0) + 1
        if nviol[ck] <= 3:                         # a few replays per kind of failure are enough
            r = {"query": q, "impl": impl_out, "kind": kind}
            if doc is not None:
                r["document"] = doc.decode("latin-1")[:2000]
            if extra:
                r.update(extra)
            run.violation(r, why)

    scope_docs = []
    for i, m in enumerate(meta):
        if m[0] != "parse" or i >= len(out_i):
            continue
        d, scope = m[1], m[2]
        if not scope:
            continue
        try:
            ref = py_parse(d)
        except (ValueError, UnicodeDecodeError, RecursionError) as e:
            run.broken.append("generator produced a document the reference parser rejects: %r (%s)" % (d[:80], e))
            continue
        o = out_i[i].split()
        nk = "num-" if m[3].startswith("number") else ""
        if scope == "struct":                     # beyond the double range / a recorded limit of iwstrtod: structure only, if accepted
            why = same_tokens(o[1:], ref, None) if o and o[0] == "ok" else None
            if why:
                viol(lines[i], out_i[i], "parse does not consume the text as the reference parser does on %r: %s" % (d[:120], why), nk + "structure", d)
            continue
        scope_docs.append((d, ref))
        if not o or o[0] != "ok":
            viol(lines[i], out_i[i], "valid JSON document rejected: %r -> %s" % (d[:120], out_i[i][:60]), nk + "reject", d)
            continue
        # STRUCTURE first (no tolerance): the same token sequence, numbers where the reference has numbers
        why = same_tokens(o[1:], ref, None)
        if why:
            viol(lines[i], out_i[i], "parse does not consume the text as the reference parser does on %r: %s" % (d[:120], why), nk + "structure", d)
            continue
        why = same_tokens(o[1:], ref, tol_parse)
        if why:
            viol(lines[i], out_i[i], "parsed value differs from the reference parser on %r: %s" % (d[:120], why), nk + "value", d)

    # ---------------- ORACLE 2: print -> parse round trips on the valid documents, every flag set
    rtl, rtm = [], []
    for j, (d, ref) in enumerate(scope_docs):
        if len(d) > 600 and j % 4:
            continue
        for pf in (PFS if (tier != "quick" or j % 3 == 0) else [rng.choice(PFS)]):
            rtl.append("rt %d %s" % (pf, vlib.hexs(d))); rtm.append((pf, d, ref))
        if len(d) < 600 and b"\\u0000" not in d and ref and ref[0] in ("[", "{") and not has_dup_keys(ref):
            # jbl_from_json (binary form in between): container roots only, member names unique, no U+0000
            rtl.append("jrt %d %s" % (rng.choice([0, 1, 2, 3]), vlib.hexs(d))); rtm.append((-1, d, ref))
    rc, rto, rterr = vlib.run_lines(impl, "\n".join(rtl) + "\n")
    if rc != 0:
        run.broken.append("harness failed on round trips: rc=%d %s" % (rc, rterr[-300:]))
    for l, (pf, d, ref), o in zip(rtl, rtm, rto):
        run.case(l, nontrivial=True)
        run.dist("roundtrip" if pf >= 0 else "roundtrip/jbl")
        f = o.split()
        if not f or f[0] != "ok":
            viol(l, o, "valid document %r could not be parsed/printed (%s)" % (d[:100], o[:40]), "rt-print")
            continue
        txt = bytes.fromhex(f[1]) if f[1] != "-" else b""
        flagcp = (pf >= 0 and pf & 2) or (pf < 0 and int(l.split()[1]) & 2)
        if flagcp and any(b >= 128 for b in txt):
            viol(l, o, "JBL_PRINT_CODEPOINTS output is not pure ASCII for %r" % d[:100], "ascii")
        try:
            ref2 = py_parse(txt)
        except (ValueError, UnicodeDecodeError) as e:
            viol(l, o, "printed text is not valid JSON for the reference parser: %r (%s)" % (txt[:120], str(e)[:80]), "rt-invalid")
            continue
        refx = [(t if not isinstance(t, tuple) else t) for t in ref]
        why = None
        if len(ref2) != len(refx):
            why = "shape"
        else:
            for a, b in zip(ref2, refx):
                if isinstance(b, tuple):
                    av = a[1] if isinstance(a, tuple) else (float(a[1:]) if a.startswith("i") else None)
                    if av is None or not abs(av - b[1]) <= tol_print(b[1]) + tol_parse(b[1]):
                        why = "number %r printed as %r" % (b[1], a)
                elif a != b:
                    why = "token %s vs %s" % (str(a)[:50], str(b)[:50])
                if why:
                    break
        if why:
            viol(l, o, "printed text %r denotes a different value than %r: %s" % (txt[:100], d[:100], why), "rt-value")
            continue
        if pf >= 0:
            if len(f) < 3 or f[2] != "ok":
                viol(l, o, "the library rejects its own output %r" % txt[:120], "rt-self")
            else:
                lib2 = f[3:]
                why = None
                if len(lib2) != len(refx):
                    why = "shape"
                else:
                    for a, b in zip(lib2, refx):
                        if isinstance(b, tuple):
                            continue
                        if a != b:
                            why = "token %s vs %s" % (a[:50], b[:50]); break
                if why:
                    viol(l, o, "library re-parse of its own output differs (%s) for %r" % (why, d[:100]), "rt-self")

    # ---------------- ORACLE 3: arbitrary trees: printed text is valid JSON for the same value; the library reads it back
    back = {mi: k for mi, k in meta2}
    for i, m in enumerate(meta):
        if m[0] not in ("print", "jprint") or i >= len(out_i):
            continue
        pf, t, u8ok = m[1], m[2], m[3]
        o = out_i[i].split()
        if not o or o[0] != "ok":
            if u8ok or not (pf & 2):
                viol(lines[i], out_i[i], "printer failed on a tree with valid strings: %s" % out_i[i][:60], "print-fail")
            continue
        txt = bytes.fromhex(o[1]) if o[1] != "-" else b""
        if (pf & 2) and any(b >= 128 for b in txt):
            viol(lines[i], out_i[i], "JBL_PRINT_CODEPOINTS output is not pure ASCII", "ascii")
        has_d = any(x[0] == "d" for x in t)
        if u8ok:
            try:
                ref = py_parse(txt)
                if not has_d and ref != t:
                    viol(lines[i], out_i[i], "printed text %r does not denote the printed tree" % txt[:120], "print-value")
            except (ValueError, UnicodeDecodeError) as e:
                viol(lines[i], out_i[i], "printed text is not valid JSON: %r (%s)" % (txt[:120], str(e)[:80]), "print-invalid")
        if i in back and back[i] < len(out_i2):
            o2 = out_i2[back[i]].split()
            if not o2 or o2[0] != "ok":
                viol(lines[i], out_i[i], "the library rejects its own output %r" % txt[:120], "print-self")
            elif not same_masked(o2[1:], t):
                viol(lines[i], out_i[i], "library re-parse of %r differs from the printed tree" % txt[:120], "print-self")

    # ---------------- ORACLE 6: print channels - every exported way of printing a tree gives the same answer, and the right one
    FLAGNAMES = {1: "PRETTY", 2: "CODEPOINTS", 4: "INDENT2", 8: "INDENT4"}

    def flag_text(pf):
        return "|".join(n for b, n in FLAGNAMES.items() if pf & b) or "0"

    def judge_channels(l, o, m, expected, what):
        """all channels of one query agree; returns the common text or None.  m = (cmd, pf, tree, u8ok, kind[, document])"""
        pf, t, u8ok = m[1], m[2], m[3]
        res, diag = parse_groups(o)
        prod = "/" + {"n": "jbn", "b": "jbl", "x": "xml", "r": "reg", "t": "borrowed"}[expected[0][0]]
        if res is None or sorted(res) != sorted(expected):
            if o.startswith("err1 "):
                if u8ok:
                    viol(l, o, "%s: the tree could not be converted (%s)" % (what, o[:40]), "chan-fail" + prod)
            else:
                run.broken.append("T2 harness: answer `%s` to `%s` does not list the channels %s" % (o[:200], l[:100], expected))
            return None
        good = [n for n in expected if res[n][0] == "ok" and isinstance(res[n][1], bytes)]
        extra = {"flags": pf, "flag_names": flag_text(pf), "tree": " ".join(t)[:2000], "left_in_sink": diag[:600]}
        if len(m) > 5:
            extra["source_document"] = m[5].decode("latin-1")[:2000]
        doc = res[good[0]][1] if good else None
        failed = sorted(n for n in expected if res[n][0] != "ok")
        if failed:
            alike = len(failed) == len(expected) and {res[n][1] for n in failed} == {"E_UTF8"}
            if not (alike and (pf & 2) and not u8ok):
                extra["channel"] = failed
                viol(l, o, "%s with flags %s: channel(s) %s fail with %s%s on the tree `%s`" % (
                    what, flag_text(pf), ",".join(failed), "/".join(sorted({res[n][1] for n in failed})),
                    " while %s print %r" % (",".join(good), doc[:80]) if good else "", " ".join(t)[:160]), "chan-fail" + prod, doc, extra)
            return None
        texts = {}
        for n in good:
            texts.setdefault(res[n][1], []).append(n)
        if len(texts) > 1:
            major = max(texts.values(), key=len)
            extra["channel"] = sorted(n for ns in texts.values() if ns is not major for n in ns)
            viol(l, o, "%s with flags %s: the channels write different text for the tree `%s`: %s" % (
                what, flag_text(pf), " ".join(t)[:160], "; ".join("%s -> %r" % (",".join(ns), tx[:80]) for tx, ns in texts.items())),
                "chan-differ" + prod, doc, extra)
            return None
        for n in expected:
            if n.endswith(".count") and res[n][1] != len(doc):
                extra["channel"] = [n]
                viol(l, o, "%s with flags %s: the count printer reports %r bytes, the text has %d: %r" % (
                    what, flag_text(pf), res[n][1], len(doc), doc[:80]), "chan-count" + prod, doc, extra)
                return None
        return doc

    def judge_chan_text(l, o, m, txt, reparsed):
        pf, t, u8ok = m[1], m[2], m[3]
        extra = {"flags": pf, "flag_names": flag_text(pf), "tree": " ".join(t)[:2000], "channel": "all"}
        if (pf & 2) and any(b >= 128 for b in txt):
            viol(l, o, "JBL_PRINT_CODEPOINTS output is not pure ASCII", "ascii", txt, extra)
        if u8ok:
            try:
                ref = py_parse(txt)
                if not any(x[0] == "d" for x in t) and ref != t:
                    viol(l, o, "printed text %r does not denote the printed tree" % txt[:120], "chan-value", txt, extra)
            except (ValueError, UnicodeDecodeError) as e:
                viol(l, o, "printed text is not valid JSON: %r (%s)" % (txt[:120], str(e)[:80]), "chan-invalid", txt, extra)
        if reparsed is not None:
            o2 = reparsed.split()
            if not o2 or o2[0] != "ok":
                viol(l, o, "the library rejects its own output %r" % txt[:120], "chan-self", txt, extra)
            elif not same_masked(o2[1:], t):
                viol(l, o, "library re-parse of %r differs from the printed tree" % txt[:120], "chan-self", txt, extra)

    WHAT = {"chan": ("jbn_as_json / jbn_as_json_alloc", NODE_CHANNELS), "jchan": ("jbl_from_node + jbl_as_json / jbl_as_json_alloc", JBL_CHANNELS),
            "tchan": ("jbl_to_node(clone_strings = false) + jbn_as_json / jbn_as_json_alloc", TREE_CHANNELS)}
    for i, m in enumerate(meta):
        if m[0] in WHAT and i < len(out_i):
            txt = judge_channels(lines[i], out_i[i], m, WHAT[m[0]][1], WHAT[m[0]][0])
            if txt is not None:
                judge_chan_text(lines[i], out_i[i], m, txt, out_i2[back[i]] if i in back and back[i] < len(out_i2) else None)
    for j, m in enumerate(mchan2):
        k = nparse2 + j
        if k < len(out_i2):
            txt = judge_channels(q2[k], out_i2[k], m, WHAT[m[0]][1], WHAT[m[0]][0])
            if txt is not None:
                judge_chan_text(q2[k], out_i2[k], m, txt, None)

    # the sinks under jbn_as_xml (no model: agreement only; keys without NUL, attribute names are written with an explicit size) and the
    # registry file written by iwjsreg_sync (objects with unique non-empty member names and no null members: what a merge keeps as it is)
    xl, xm = [], []
    for j, (pf, t, u8ok) in enumerate(trees):
        if j % (10 if tier == "quick" else 3) == 0 and not any(x[0] == "k" and "00" in re.findall("..", x[1:]) for x in t):
            toks = [(x + ":" + ftxt.get(x[1:17], "")) if x[0] == "d" else x for x in t]
            for p2 in (pf, rng.choice(ALLPFS)):
                xl.append("xml %d %s" % (p2, " ".join(toks))); xm.append(("xml", p2, t, u8ok, "tree"))
    for name, b in BYTE_CLASSES:
        if 0 not in b:
            for pf in (0, 1, 5, 9):
                t = ["{", "k" + b.hex(), "s" + b.hex(), "k3e" + b.hex(), "s" + b.hex(), "}"]
                xl.append("xml %d %s" % (pf, " ".join(t))); xm.append(("xml", pf, t, is_utf8(b), "class/" + name))
    regs = [["{", "k" + b.hex(), "s" + b.hex(), "k78", "[", "s" + b.hex(), "n", "]", "}"] for name, b in BYTE_CLASSES if 0 not in b]
    regs += [t for j, (pf, t, u8ok) in enumerate(trees) if t[0] == "{" and len(t) > 2 and jbl_eligible(t) and "k" not in t
             and not any(x[0] == "d" for x in t) and not reg_changes(t)][:150 if tier == "quick" else 5000]
    for t in regs:
        xl.append("reg %s" % " ".join(t)); xm.append(("reg", 5, t, all(is_utf8(b) for b in tree_strings(t)), "reg"))
        xl.append("chan 5 %s" % " ".join(t)); xm.append(("regref", 5, t, True, "reg"))
    rc, xo, xerr = vlib.run_lines(impl, "\n".join(xl) + "\n")
    if rc != 0:
        run.broken.append("harness failed on xml/registry channels: rc=%d %s" % (rc, xerr[-300:]))
    for j, (l, m, o) in enumerate(zip(xl, xm, xo)):
        if m[0] == "regref":
            continue
        run.case(l, nontrivial=True)
        run.dist(m[0] + "/" + m[4].split("/")[0])
        if m[0] == "xml":
            res, _ = parse_groups(o)
            if res is not None and all(res.get(n, ("", ""))[0] == "err" for n in XML_CHANNELS) and len({res[n][1] for n in XML_CHANNELS}) == 1:
                continue                           # refused alike by every sink (not a JSON text question)
            judge_channels(l, o, m, XML_CHANNELS, "jbn_as_xml")
        else:
            txt = judge_channels(l, o, m, REG_CHANNELS, "iwjsreg_replace + iwjsreg_sync (registry file)")
            refres, _ = parse_groups(xo[j + 1]) if j + 1 < len(xo) else (None, "")
            if txt is not None and refres and refres.get("n.xstr", ("", ""))[0] == "ok" and refres["n.xstr"][1] != txt:
                viol(l, o, "the registry file %r is not the text jbn_as_json writes for the same tree with JBL_PRINT_PRETTY_INDENT2: %r" % (
                    txt[:100], refres["n.xstr"][1][:100]), "chan-differ", txt, {"flags": 5, "channel": ["r.sync"], "tree": " ".join(m[2])[:2000]})

    # ---------------- ORACLE 5: printed doubles denote the printed value (independent of the model: doubles are oracle inputs there)
    dl, dm = [], []
    for j, x in enumerate(gen_doubles(rng, 1200 if tier == "quick" else 20000)):
        pf = 0 if j % 4 else rng.choice(PFS)
        dl.append("dbl %d %s" % (pf, struct.pack(">d", x).hex())); dm.append(x)
    rc, dout, derr = vlib.run_lines(impl, "\n".join(dl) + "\n")
    if rc != 0:
        run.broken.append("harness failed on doubles: rc=%d %s" % (rc, derr[-300:]))
    for l, x, o in zip(dl, dm, dout):
        run.case(l, nontrivial=True)
        run.dist("double")
        f = o.split()
        if len(f) < 4 or f[0] != "ok":
            viol(l, o, "double %r could not be printed (%s)" % (x, o[:60]), "dbl-print")
            continue
        for which, h in (("jbn_as_json", f[1]), ("jbl_as_json", f[2])):
            why = check_printed_double(x, bytes.fromhex(h))
            if why:
                viol(l, o, "%s prints %r as %r: %s" % (which, x, bytes.fromhex(h), why), "dbl-value")
                break
        else:
            if f[3] != "ok" or len(f) != 7 or f[5][0] not in "di":
                viol(l, o, "the library does not read back its own text %r for %r" % (bytes.fromhex(f[1]), x), "dbl-self")
            else:
                y = bits_to_float(f[5][1:17]) if f[5][0] == "d" else float(int(f[5][1:]))
                if not abs(y - x) <= 0.5e-8 + 1e-9 * abs(x):          # iwstrtod accumulates rounding errors: gross errors only
                    viol(l, o, "the library reads its own text %r back as %r instead of %r" % (bytes.fromhex(f[1]), y, x), "dbl-self")
                elif "nearest" in OPEN and f[5][0] == "d":
                    t = bytes.fromhex(f[1]).decode()[1:-1]
                    if struct.pack(">d", y) != struct.pack(">d", float(t)):
                        viol(l, o, ("" if one_rounding(t) else BEYOND + ": ") + "the library reads its own text %s back as %r (%s), the nearest double is %r%s" % (
                            t, y, struct.pack(">d", y).hex(), float(t), " - the printed value itself" if float(t) == x else ""), "dbl-nearest")

    # ---------------- ORACLE 4: utf8 encoder against Python's
    for i, m in enumerate(meta):
        if i >= len(out_i):
            break
        if m[0] == "enc":
            c = m[1]
            valid = 0 <= c < 0x110000 and not (0xd800 <= c <= 0xdfff)
            f = out_i[i].split()
            if f[0] != ("1" if valid else "0") or (valid and f[1] != utf8(c).hex()):
                viol(lines[i], out_i[i], "utf8 encoding / validity of code point %d wrong: %s" % (c, out_i[i]), "enc")
        elif m[0] == "iter":
            b = m[1]
            exp = "err"
            for n in (1, 2, 3, 4):
                try:
                    ch = b[:n].decode("utf-8")
                    if len(ch) == 1:
                        exp = "%d %d" % (ord(ch), n)
                        break
                except UnicodeDecodeError:
                    pass
            if out_i[i] != exp:
                viol(lines[i], out_i[i], "utf8 decoding of %s: library %s, reference %s" % (b.hex(), out_i[i], exp), "iter")

    return run.finish(level=LEVEL,
                      rule="grammar-generated valid JSON documents (every escape spelling, code-point edges 0x7F/0x80/0x7FF/0x800/0xFFFF/"
                           "0x10000/0x10FFFF, all control characters, integers around +-2^63 and 2^53, nesting 998..1001, whitespace layouts, BOM), "
                           "number texts at the limits of the number scanner (integer / fraction / exponent digit runs of 1..400 digits, all nines, "
                           "leading and trailing zeros, exact decimal expansions of doubles incl. 2^-1074, 2^-1022, DBL_MAX, exponents 0..400 with "
                           "either sign and up to 100 leading zeros; each at top level, in arrays followed by more elements, as member values; "
                           "structural oracle = same token sequence as the reference parser, value oracle = 1e-9 relative), the scanner alone on "
                           "every such text with followers and on a complete sweep of its branch combinations (strtod queries, T2), "
                           "mutated documents (T2 only), arbitrary trees with arbitrary byte strings x print flags, "
                           "print channels: every tree also through EVERY exported way of printing it (jbn_as_json / jbl_as_json x "
                           "jbl_xstr_json_printer, jbl_fstream_json_printer on a memory stream and on a file, jbl_count_json_printer, a callback of "
                           "the caller; jbn_as_json_alloc, jbl_as_json_alloc; iwjsreg_sync; jbn_as_xml for the agreement of the sinks) x all 16 flag "
                           "sets: byte classes (each control, DEL, quote/backslash, UTF-8 of 2/3/4 bytes, continuation/overlong/truncated/"
                           "surrogate/beyond-range/F5..FF bytes) as values and member names, every byte 0..255 alone, code-point edges, "
                           "nesting 60 and 200 (indentation counts to 800), parsed documents (escapes, surrogate pairs), and the calls the "
                           "printer makes (chunks queries, T2); string bodies x buffer sizes, "
                           "code points, byte sequences, strtoll texts; a case is one query line; distinct = distinct query text",
                      assumptions=["doubles are outside the model: number->double (iwstrtod) and double->text (iwjson_ftoa) are oracle inputs taken "
                                   "from the implementation; the reference comparison of doubles is approximate (1e-9 relative on parse, 8 fraction "
                                   "digits on print); the END of a number is decided by the model (strtod_end) and, independently, by the "
                                   "structural oracle",
                                   "limits of iwstrtod's method d * pow(10, e), recorded in notes/jtext.md: numbers whose exponent is outside "
                                   "-308..308 or whose digit string alone exceeds the double range (rejected with ERANGE or imprecise although the "
                                   "value may be representable) and 2.2250738585072011e-308 (refused on purpose) are judged by T2 and the "
                                   "structural oracle only; VERIF_JTEXT_OPEN=range-exp,range-mant,refused|all makes them full oracle cases",
                                   "documents are shorter than 2^31 bytes (C int lengths)",
                                   "print channels: no I/O or allocation failure is injected into a sink; the binary-form channels (jbl_*) get "
                                   "container roots with unique member names and no NUL bytes; jbn_as_xml only with member names free of NUL "
                                   "(an attribute name holding a NUL is written differently by the FILE* and the xstr callback - XML, not C13); "
                                   "the registry channel gets objects a JSON merge leaves as they are",
                                   "errno is 0 when jbn_from_json is entered (stale ERANGE is finding C17)"])


def replay(run, path):
    r = json.load(open(path))
    impl = vlib.build_harness("h_jtext")
    if "query" in r:
        rc, out, err = vlib.run_lines(impl, r["query"] + "\n")
        print("query:", r["query"][:400]); print("impl :", out[0][:400]); print("recorded:", (r.get("impl") or "")[:400]); print("note:", r.get("note"))
        return 1 if out[0] == r.get("impl") else 0
    print(json.dumps(r, indent=1)); return 1
