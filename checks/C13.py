# C13 - JSON text is parsed to the value it denotes and printed text parses back
#
# T2: the extracted model (coq/JSON/Text.v) against the implementation on parse / print / unescape / utf8 / strtoll
#     queries (valid documents, mutated documents, arbitrary trees).
# ORACLE (independent of the model): Python's json module as the reference parser on grammar-generated valid
#     documents; print -> parse round trip through the library and through Python; pure-ASCII with the code-point flag.
#     Numbers: STRUCTURE (the parse consumes exactly the number: token sequence of the reference parser, no tolerance)
#     before VALUE (1e-9 relative, iwstrtod is inexact).
# env: VERIF_DEBUG=1 prints T2 mismatches; VERIF_JTEXT_OPEN=range-exp[,range-mant,refused]|all judges the recorded limits of iwstrtod too.
import os, sys, json, struct, math, re
from decimal import Decimal
import vlib
from common import diff_run

LEVEL = "proof"
MAXNEST = 999
PFS = [0, 1, 2, 3, 5, 9, 7, 11]          # JBL_PRINT_PRETTY=1, CODEPOINTS=2, INDENT2=5, INDENT4=9
I64MIN, I64MAX = -(1 << 63), (1 << 63) - 1
SHORT = {0x22: b'"', 0x5c: b'\\', 0x2f: b'/', 8: b'b', 0xc: b'f', 0xa: b'n', 0xd: b'r', 9: b't'}
EDGE_CPS = [0, 1, 7, 8, 9, 0xa, 0xb, 0xc, 0xd, 0xe, 0x1f, 0x20, 0x22, 0x2f, 0x5c, 0x7e, 0x7f, 0x80, 0x81, 0xe9, 0x7ff, 0x800,
            0x801, 0x20ac, 0xd7ff, 0xe000, 0xfffd, 0xffff, 0x10000, 0x10001, 0x1f600, 0x10fffe, 0x10ffff]

sys.setrecursionlimit(20000)


# ------------------------------------------------------------------------------------------------ values
# abstract value: ('n',) ('t',) ('f',) ('i', int, text) ('d', text) ('s', [cp]) ('a', [v]) ('o', [([cp], v)])
def gen_cp(rng):
    k = rng.below(10)
    if k < 5:
        return rng.range(0x20, 0x7e)
    if k < 8:
        return rng.choice(EDGE_CPS)
    while True:
        c = rng.weighted([(rng.range(0, 0x7f), 2), (rng.range(0x80, 0x7ff), 2), (rng.range(0x800, 0xffff), 2),
                          (rng.range(0x10000, 0x10ffff), 2)])
        if not (0xd800 <= c <= 0xdfff):
            return c


def gen_cps(rng):
    n = rng.weighted([(0, 2), (1, 4), (2, 3), (5, 3), (20, 1)])
    return [gen_cp(rng) for _ in range(n)]


def gen_int(rng):
    k = rng.below(10)
    if k < 3:
        v = rng.choice([0, 1, -1, 7, 10, -10, 99, 100, I64MAX, I64MIN, I64MAX - 1, I64MIN + 1, 1 << 53, -(1 << 53), (1 << 53) + 1,
                        (1 << 53) - 1, 1 << 62, 1 << 32, (1 << 31) - 1, -(1 << 31), 8, 9, 16, 255, 1000000007])
    elif k < 5:
        e = rng.range(0, 18)
        v = (10 ** e + rng.range(-1, 1)) * rng.choice([1, -1])
    else:
        bits = rng.range(1, 63)
        v = (rng.u64() >> (64 - bits)) * rng.choice([1, -1])
    v = max(I64MIN, min(I64MAX, v))
    txt = str(v)
    if v == 0 and rng.chance(1, 3):
        txt = "-0"
    return ('i', v, txt)


def gen_float(rng):
    ip = str(rng.choice([0, 1, 2, 9, 10, 123, 99999, rng.below(10 ** rng.range(1, 15))]))
    s = ("-" if rng.chance(1, 3) else "") + ip
    frac = exp = ""
    k = rng.below(4)
    if k in (0, 2):
        frac = "." + "".join(str(rng.below(10)) for _ in range(rng.range(1, 9)))
    if k in (1, 2) or not frac:
        e = rng.choice([0, 0, 1, 2, 5, 10, 15, rng.range(0, 20)])
        ed = str(e)
        if rng.chance(1, 4):
            ed = "0" * rng.range(1, 2) + ed
        exp = rng.choice(["e", "E"]) + rng.choice(["", "+", "-"]) + ed
    return ('d', s + frac + exp)


def gen_scalar(rng):
    k = rng.below(12)
    if k == 0:
        return ('n',)
    if k == 1:
        return ('t',)
    if k == 2:
        return ('f',)
    if k < 6:
        return gen_int(rng)
    if k < 7:
        return gen_float(rng)
    return ('s', gen_cps(rng))


def gen_value(rng, depth, floats=True):
    if depth <= 0 or rng.chance(2, 5):
        v = gen_scalar(rng)
        while v[0] == 'd' and not floats:
            v = gen_scalar(rng)
        return v
    n = rng.weighted([(0, 2), (1, 3), (2, 3), (4, 2), (12, 1)])
    if rng.chance(1, 2):
        return ('a', [gen_value(rng, depth - 1, floats) for _ in range(n)])
    mem = []
    for _ in range(n):
        k = gen_cps(rng)
        if mem and rng.chance(1, 10):
            k = mem[0][0]
        mem.append((k, gen_value(rng, depth - 1, floats)))
    return ('o', mem)


def utf8(cp):
    return chr(cp).encode("utf-8", "surrogatepass")


def hex4(rng, x):
    s = "%04x" % x
    return "".join(c.upper() if rng.chance(1, 2) else c for c in s).encode()


def spell_cp(rng, cp, style):
    """style: 0 random, 1 prefer raw, 2 always escaped"""
    opts = []
    if cp >= 0x20 and cp not in (0x22, 0x5c):
        opts += ["raw"] * (6 if style == 1 else 2 if style == 0 else 0)
    if cp in SHORT:
        opts += ["short"] * 2
    opts.append("u")
    o = rng.choice(opts)
    if o == "raw":
        return utf8(cp)
    if o == "short":
        return b"\\" + SHORT[cp]
    if cp < 0x10000:
        return b"\\u" + hex4(rng, cp)
    c = cp - 0x10000
    return b"\\u" + hex4(rng, 0xd800 | (c >> 10)) + b"\\u" + hex4(rng, 0xdc00 | (c & 0x3ff))


def spell_str(rng, cps, style):
    return b'"' + b"".join(spell_cp(rng, c, style) for c in cps) + b'"'


def ws(rng, layout):
    if layout == 0 or not rng.chance(1, 3):
        return b""
    return bytes(rng.choice(b" \t\n\r") for _ in range(rng.range(1, 3)))


def spell(rng, v, layout, style):
    t = v[0]
    if t == 'n':
        return b"null"
    if t == 't':
        return b"true"
    if t == 'f':
        return b"false"
    if t == 'i':
        return v[2].encode()
    if t == 'd':
        return v[1].encode()
    if t == 's':
        return spell_str(rng, v[1], style)
    if t == 'a':
        out = b"[" + ws(rng, layout)
        for i, x in enumerate(v[1]):
            if i:
                out += b"," + ws(rng, layout)
            out += spell(rng, x, layout, style) + ws(rng, layout)
        return out + b"]"
    out = b"{" + ws(rng, layout)
    for i, (k, x) in enumerate(v[1]):
        if i:
            out += b"," + ws(rng, layout)
        out += spell_str(rng, k, style) + ws(rng, layout) + b":" + ws(rng, layout) + spell(rng, x, layout, style) + ws(rng, layout)
    return out + b"}"


def depth_of(v):
    if v[0] == 'a':
        return 1 + max([depth_of(x) for x in v[1]] or [0])
    if v[0] == 'o':
        return 1 + max([depth_of(x) for _, x in v[1]] or [0])
    return 0


# ------------------------------------------------------------------------------------------------ reference
def py_parse(text):
    """reference parser: bytes -> canonical token list (floats as ('d', text))"""
    if text.startswith(b"\xef\xbb\xbf"):
        text = text[3:]
    s = text.decode("utf-8")  # raises on invalid UTF-8
    v = json.loads(s, parse_int=lambda x: ('i', int(x)), parse_float=lambda x: ('d', x),
                   object_pairs_hook=lambda ps: ('o', ps), strict=True)
    out = []
    py_dump(v, out)
    return out


def py_dump(v, out):
    if v is None:
        out.append("n")
    elif v is True:
        out.append("t")
    elif v is False:
        out.append("f")
    elif isinstance(v, str):
        out.append("s" + v.encode("utf-8", "surrogatepass").hex())
    elif isinstance(v, list):
        out.append("[")
        for x in v:
            py_dump(x, out)
        out.append("]")
    elif isinstance(v, tuple) and v[0] == 'i':
        if I64MIN <= v[1] <= I64MAX:
            out.append("i%d" % v[1])
        else:                                     # an integer text beyond int64 is read as a double (fix g)
            try:
                out.append(("d", float(v[1])))
            except OverflowError:
                out.append(("d", math.inf if v[1] > 0 else -math.inf))
    elif isinstance(v, tuple) and v[0] == 'd':
        out.append(("d", float(v[1])))
    elif isinstance(v, tuple) and v[0] == 'o':
        out.append("{")
        for k, x in v[1]:
            out.append("k" + k.encode("utf-8", "surrogatepass").hex())
            py_dump(x, out)
        out.append("}")
    else:
        raise ValueError("reference value %r" % (v,))


def has_dup_keys(tokens):
    st = []
    for t in tokens:
        if t == "{":
            st.append(set())
        elif t == "[":
            st.append(None)
        elif t in ("}", "]"):
            st.pop()
        elif isinstance(t, str) and t.startswith("k") and st and st[-1] is not None:
            t = bytes.fromhex(t[1:]).lower()      # the binary form compares member names with strncasecmp
            if t in st[-1]:
                return True
            st[-1].add(t)
    return False


def bits_to_float(h):
    return struct.unpack(">d", bytes.fromhex(h))[0]


def same_tokens(lib, ref, ftol):
    """lib: tokens of the library dump; ref: tokens from py_parse. Returns None or a reason.
    ftol None: structure only (same tokens, a double wherever the reference has a non-int64 number)"""
    if len(lib) != len(ref):
        return "different shape (%d vs %d tokens)" % (len(lib), len(ref))
    for a, b in zip(lib, ref):
        if isinstance(b, tuple):
            if not a.startswith("d"):
                return "number %r is not a double in the library (%s)" % (b[1], a[:40])
            x = bits_to_float(a[1:17])
            if ftol is not None and not (abs(x - b[1]) <= ftol(b[1])):
                return "double differs: library %r reference %r" % (x, b[1])
        elif a != b:
            return "token differs: library %s reference %s" % (a[:60], b[:60])
    return None


def tol_parse(x):     # iwstrtod accumulates rounding errors (known, floats are outside the model): gross errors only
    return 1e-9 * max(abs(x), 1e-300)


def tol_print(x):     # %.8Lf: at most eight fraction digits
    return 0.5000001e-8 + 1e-9 * abs(x)


def tree_tokens(v):
    """abstract value (generator form) -> dump tokens as the harness prints them; floats by text"""
    t = v[0]
    if t in "ntf":
        return [t]
    if t == 'i':
        return ["i%d" % v[1]]
    if t == 'd':
        return [("d", float(v[1]))]
    if t == 's':
        return ["s" + b"".join(utf8(c) for c in v[1]).hex()]
    if t == 'a':
        return ["["] + [y for x in v[1] for y in tree_tokens(x)] + ["]"]
    out = ["{"]
    for k, x in v[1]:
        out.append("k" + b"".join(utf8(c) for c in k).hex())
        out += tree_tokens(x)
    return out + ["}"]


# ------------------------------------------------------------------------------------------------ raw trees for print
def gen_bytes(rng):
    k = rng.below(6)
    if k < 2:
        return b"".join(utf8(c) for c in gen_cps(rng))
    if k < 4:
        return bytes(rng.choice([0, 1, 8, 9, 10, 11, 12, 13, 14, 31, 32, 34, 47, 92, 126, 127, 128, 0xc2, 0xa9, 0xe2, 0x82, 0xac, 0xf0, 0x9f,
                                 0x98, 0x80, 0xed, 0xa0, 0xf4, 0x90, 0xc0, 0xff, 65]) for _ in range(rng.range(0, 6)))
    return rng.bytes(rng.range(0, 5))


def gen_tree(rng, depth, floats):
    """dump tokens of an arbitrary tree (byte strings need not be UTF-8); returns (tokens, all_utf8)"""
    if depth <= 0 or rng.chance(2, 5):
        k = rng.below(10)
        if k == 0:
            return ["n"], True
        if k == 1:
            return [rng.choice(["t", "f"])], True
        if k < 4:
            return ["i%d" % gen_int(rng)[1]], True
        if k == 4 and floats:
            x = rng.choice([0.0, 1.0, -1.5, 0.1, 0.3, 1e-9, 123456.789, 1e15, -2.5e-7, 3.14159265358979, 1e21])
            return ["d" + struct.pack(">d", x).hex()], True
        b = gen_bytes(rng)
        return ["s" + b.hex()], is_utf8(b)
    n = rng.weighted([(0, 2), (1, 3), (2, 3), (4, 2)])
    ok = True
    if rng.chance(1, 2):
        out = ["["]
        for _ in range(n):
            t, u = gen_tree(rng, depth - 1, floats)
            out += t
            ok = ok and u
        return out + ["]"], ok
    out = ["{"]
    for _ in range(n):
        kb = gen_bytes(rng)
        t, u = gen_tree(rng, depth - 1, floats)
        out += ["k" + kb.hex()] + t
        ok = ok and u and is_utf8(kb)
    return out + ["}"], ok


def is_utf8(b):
    try:
        b.decode("utf-8")
        return True
    except UnicodeDecodeError:
        return False


def same_masked(lib, tree):
    """re-parsed dump against the printed tree; a double may come back as a double or (integral value) as an integer"""
    if len(lib) != len(tree):
        return False
    for a, t in zip(lib, tree):
        if t.startswith("d"):
            if not (a.startswith("d") or a.startswith("i")):
                return False
        elif a != t:
            return False
    return True


# ------------------------------------------------------------------------------------------------ mutation (T2 only)
def mutate(rng, doc):
    b = bytearray(doc)
    for _ in range(rng.range(1, 3)):
        k = rng.below(4)
        pos = rng.below(len(b) + 1)
        ins = rng.choice(b'"\\{}[]:,-+.eE0123456789xXabfnrtu \t\n\r/\'\x7f\x80\xc3\xef\xbb\xbf\x01')
        if k == 0 and b:
            del b[min(pos, len(b) - 1)]
        elif k == 1:
            b.insert(pos, ins)
        elif k == 2 and b:
            b[min(pos, len(b) - 1)] = ins
        else:
            b = b[:pos]
    return bytes(x for x in b if x != 0)


def gen_body(rng):
    """string body for direct unescape queries: mostly valid escapes, sometimes broken ones"""
    out = b""
    for _ in range(rng.range(0, 8)):
        k = rng.below(10)
        if k < 6:
            out += spell_cp(rng, gen_cp(rng), 0)
        elif k == 6:
            out += b"\\" + bytes([rng.choice(b"xuU0a'v \\")])
        elif k == 7:
            out += b"\\u" + bytes(rng.choice(b"0123456789abcdefABCDEFgd8DC\\u\"") for _ in range(rng.range(0, 5)))
        elif k == 8:
            out += b"\\u" + hex4(rng, rng.range(0xd800, 0xdfff)) + rng.choice([b"", b"\\", b"\\u", b"\\u" + hex4(rng, rng.range(0xdb00, 0xe0ff)), b"x"])
        else:
            out += rng.bytes(1).replace(b"\0", b"1")
    if rng.chance(5, 6):
        out += b'"' + rng.choice([b"", b" tail", b":1"])
    return bytes(x for x in out if x != 0)


# ------------------------------------------------------------------------------------------------ doubles, value level
import math

DBL_MAX = 1.7976931348623157e308


def gen_doubles(rng, n):
    """doubles over the whole normal range: m * 10^k for k in -8..307, the fixed/exponent notation boundary
    (decades 1e21..1e23), exponents that are multiples of ten, DBL_MAX; no subnormals, no inf/nan"""
    out = []
    for k in range(-8, 308):
        for m in (1.0, 9.5, rng.range(1000, 9999) / 1000.0):
            try:
                x = float("%re%d" % (m, k))
            except OverflowError:
                continue
            if x <= DBL_MAX:
                out.append(x)
    for k in range(10, 301, 10):
        out += [float("1e%d" % k), float("7.25e%d" % k), float("1e%d" % (k + 1)), float("1e%d" % (k - 1))]
    for base in (1e21, 5e21, 9.999e21, 1e22, 1.0000001e22, 5e22, 1e23, 9.9999999999e22, 2.0 ** 63, 2.0 ** 64, 2.0 ** 70, 2.0 ** 73, 2.0 ** 74):
        x = base
        out.append(x)
        for _ in range(3):
            x = math.nextafter(x, math.inf); out.append(x)
        x = base
        for _ in range(3):
            x = math.nextafter(x, 0.0); out.append(x)
    out += [DBL_MAX, math.nextafter(DBL_MAX, 0.0), 1e308, 1.5, 0.1, 0.3, 123456.789, 0.00000001, 0.000000004, 0.000000006,
            99999999.99999999, 4503599627370496.5, 9007199254740993.0, 0.0, 2.2250738585072014e-308, 1e-300]
    while len(out) < n:
        e = rng.range(-30, 307)
        out.append(float("%d.%015de%d" % (rng.range(1, 9), rng.below(10 ** 15), e)))
    out = [x for x in out if x == x and abs(x) <= DBL_MAX]
    return out + [-x for x in out]


def check_printed_double(x, text):
    """text: bytes of the printed array [x]. Returns None or the reason it does not denote x
    (fixed notation: rounded to eight fraction digits and nothing else; exponent notation: exact round trip)"""
    try:
        v = json.loads(text.decode("ascii"), strict=True)
    except (ValueError, UnicodeDecodeError) as e:
        return "not valid JSON (%s)" % str(e)[:60]
    if not (isinstance(v, list) and len(v) == 1 and isinstance(v[0], (int, float)) and not isinstance(v[0], bool)):
        return "does not denote an array of one number"
    num = text.strip(b"[] \n\t\r")
    try:
        y = float(v[0])
    except OverflowError:
        return "denotes a number beyond the double range"
    if b"e" in num or b"E" in num:
        if y != x:
            return "exponent notation does not round-trip: denotes %r" % y
    elif not abs(y - x) <= 0.5e-8 + math.ulp(x):
        return "fixed notation is off by more than eight fraction digits: denotes %r" % y
    return None


# ------------------------------------------------------------------------------------------------ number texts
# Round 4 (seeded miss: the fraction loop of iwstrtod stopped after ~24 digits): number texts at the limits of every loop
# and accumulator of the number scanner, each placed at top level, inside arrays (followed by more elements) and as an
# object member value.  Two oracles: STRUCTURE (the parse consumes exactly the number: same token sequence as the
# reference parser; needs no tolerance) and VALUE (tol_parse, iwstrtod is inexact).
NUM_LENS = [1, 15, 16, 17, 19, 20, 24, 25, 26, 40, 55, 100, 400]
NUM_EXPS = [0, 1, 22, 23, 307, 308, 309, 323, 324, 400]
NUM_START = re.compile(rb"[.\-0-9]")
NUM_RE = re.compile(r"^(-?)(\d+)(?:\.(\d+))?(?:[eE]([+-]?\d+))?$")
EXACT_DOUBLES = [0.1, 0.3, 1.0 / 3, 2.0 ** -1074, 2.0 ** -1022, math.nextafter(2.0 ** -1022, 0.0), 1.7976931348623157e308,
                 2.0 ** -30, 1e-7, 5e-5, 123456.789, 1e22, 1e23, 2.0 ** 63, 2.0 ** 64, 4503599627370496.5, 2.0 ** -60, 1e-25, 1e-24, 1e-26]
DBL_MAX_TEXT = format(Decimal(1.7976931348623157e308), "f")
# range-exp (exponents beyond +-308 of representable numbers) is judged by default since the repair a215cb1 in /repo
OPEN = set(os.environ.get("VERIF_JTEXT_OPEN", "range-exp").replace("all", "range-exp,range-mant,refused").replace("range,", "range-exp,").split(",")) - {""}
if "range" in OPEN:
    OPEN.add("range-exp")


def num_digits(rng, n, pat, nonzero_first=False):
    if pat == "9":
        return "9" * n
    if pat == "10":
        return "1" + "0" * (n - 1)                # trailing zeros
    if pat == "01":
        return "0" * (n - 1) + "1"                # leading zeros
    if pat == "5":
        return ("1234567890" * (n // 10 + 1))[:n]
    d = "".join(str(rng.below(10)) for _ in range(n))
    if nonzero_first and d[0] == "0":
        d = str(rng.range(1, 9)) + d[1:]
    return d


def num_scope(txt):
    """'ok': the reference value must be met; 'overflow': beyond the double range (nothing to compare); the others are limits
    of iwstrtod's method d * pow(10, e) recorded in notes/jtext.md, where the value is representable but the text is
    rejected (ERANGE) or read imprecisely: 'range-exp' exponent outside -308..308, 'range-mant' the digit string alone
    leaves the double range, 'refused' 2.2250738585072011e-308 (refused on purpose).  These are judged by T2 and, when the
    library accepts the text, by the structural oracle; rejection and value only with VERIF_JTEXT_OPEN=<class,...|all>"""
    m = NUM_RE.match(txt)
    assert m, txt
    sg, ip, fp, ex = m.groups()
    if ip != "0" and ip[0] == "0":
        raise ValueError("not a JSON number: " + txt[:40])
    if fp is None and ex is None and len(ip) <= 18:
        return "ok"
    if math.isinf(float(txt)):
        return "overflow"
    mant = float(ip + "." + (fp or "0"))
    if mant > 1.797e308 and ip != DBL_MAX_TEXT:
        return "range-mant"
    if ex is not None:
        e = int(ex)
        if mant < 1e-290 and e > 0 and (ip + (fp or "")).strip("0"):
            return "range-mant"                   # the fraction loop's base is a subnormal (or 0) by then
        if e < -308 or e > 308:                   # pow(10, e) overflows, underflows (ERANGE) or is a subnormal with few bits left
            return "range-exp"
        if e == -308 and mant == 2.2250738585072011:
            return "refused"
    return "ok"


def number_edges(rng):
    """deterministic part: every length in NUM_LENS for each of the three digit runs, every exponent in NUM_EXPS with every
    sign, the exact decimal expansions of doubles"""
    out = []
    E = lambda: rng.choice("eE")
    for i, n in enumerate(NUM_LENS):
        for j, pat in enumerate(("9", "10", "r", "5")):                      # integer part
            ip = num_digits(rng, n, pat, True)
            out.append(ip)
            out.append(ip + [".5", "e0", ".0", E() + "+1", ".25" + E() + "-%d" % n, "e-0"][(i + j) % 6])
        for j, pat in enumerate(("9", "10", "01", "r", "5")):                # fraction
            fp = num_digits(rng, n, pat)
            out.append("0." + fp)
            out.append(["1", "9", "10", "123456789012345678", "0", "99999"][(i + j) % 6] + "." + fp +
                       ["", "e5", E() + "-5", "", "e+%d" % min(n, 300), E() + "0"][(i + 2 * j) % 6])
        for j, v in enumerate((0, 1, 5, 22, 307)):                           # exponent digits: leading zeros up to length n
            ex = str(v).rjust(n, "0")
            if len(ex) == n:
                out.append(["1", "2.5", "0.001", "12345678901234567890"][(i + j) % 4] + E() + ["", "+", "-"][(i + j) % 3] + ex)
        out.append("1" + E() + ["", "+", "-"][i % 3] + num_digits(rng, n, "9"))   # over/underflowing exponents of every length
    for i, e in enumerate(NUM_EXPS):
        for j, sg in enumerate(("", "+", "-")):
            for k, mant in enumerate(("1", "2.5", "0.001", "123456789012345678", "0", "9.999999999999999999999999999")):
                out.append(mant + E() + sg + str(e))
            out.append("1" + "0" * e + E() + "-" + str(e)) if sg == "-" else out.append("0." + "0" * e + "1" + E() + sg + str(e))
    for x in EXACT_DOUBLES:
        t = format(Decimal(x), "f")
        out += [t, t + "e0", t + E() + "-5", t + E() + "+5"]
        if "." in t:
            out.append(t.rstrip("0") + "0" * 30)
    out += ["9007199254740993", "9007199254740993.0", "9007199254740993e0", "2.2250738585072011e-308", "2.2250738585072012e-308",
            "2.2250738585072012e-309", "0.0", "0e0", "0.0e0", "0E-0", "0e+00", "1e00", "1.5E+000", "0.1e1", "0.5", "1e-7", "4.9e-323", "1e-323",
            "1.7976931348623157e308", "1.7976931348623157E+308", "17976931348623157e292", "0.00000000000000000000000000000012345",
            "1.0000000000000000000000000000000000000001e5", "0.1234567890123456789012345678901234567890", "18446744073709551615",
            "18446744073709551616", "9223372036854775807", "9223372036854775808", "9223372036854775808.0", "99999999999999999999.99999999999999999999"]
    res = []
    for t in out:
        res.append(t)
        res.append("-" + t)
    return res


def gen_number(rng):
    near = lambda n: max(1, n + rng.choice([0, 0, 0, -1, 1]))
    ln = lambda: near(rng.weighted([(rng.choice(NUM_LENS[:9]), 6), (rng.choice(NUM_LENS), 3), (rng.range(1, 60), 3)]))
    pat = lambda: rng.choice(["9", "10", "01", "r", "r", "r", "5"])
    ip = "0" if rng.chance(1, 4) else num_digits(rng, ln() if rng.chance(1, 2) else rng.range(1, 6), rng.choice(["9", "10", "r", "r", "5"]), True)
    s = ("-" if rng.chance(1, 3) else "") + ip
    k = rng.below(8)
    if k < 6:
        s += "." + num_digits(rng, ln() if rng.chance(2, 3) else rng.range(1, 6), pat())
    if k >= 4 or (k == 3):
        e = max(0, rng.choice(NUM_EXPS + [2, 5, 10, 15, 21, 24, 100, 300]) + rng.choice([0, 0, -1, 1]))
        s += rng.choice("eE") + rng.choice(["", "+", "-"]) + "0" * rng.choice([0, 0, 0, 1, 2, 20, 100]) + str(e)
    return s


NUM_PLACES = 8


def place_number(rng, t, j):
    """document around the number text t, and the number of copies of t inside"""
    o = num_digits(rng, rng.range(1, 3), "r", True)
    w = lambda: rng.choice(["", "", " ", "\n", "\t ", "\r\n"])
    j %= NUM_PLACES
    if j == 0:
        return t
    if j == 1:
        return "[%s]" % t
    if j == 2:
        return "[%s,%s]" % (t, o)                                    # followed by more elements
    if j == 3:
        return '{"a":%s,"b":true}' % t                               # member value followed by another member
    if j == 4:
        return '{"a":%s}' % t
    if j == 5:
        return "[%s%s%s,%s%s%s,%snull,%s]" % (w(), o, w(), w(), t, w(), w(), t)
    if j == 6:
        return '{%s"k"%s:%s%s%s,"n":[%s,"x"],"%s":%s}' % (w(), w(), w(), t, w(), t, o, o)
    return "[[%s],[%s,%s],{\"v\":%s}]" % (t, t, o, t)


def scan_sweep():
    """complete sweep of the scanner's branch combinations: white space x sign x integer digits x fraction x exponent x follower"""
    out = []
    for a in ("", " ", "\t\n"):
        for b in ("", "-", "+"):
            for c in ("", "0", "12", "007"):
                for d in ("", ".", ".5", ".50", ".."):
                    for e in ("", "e", "E5", "e+", "E-", "e-07", "e00", "e+x", "ex", "e0000x", "e000", "e+0012"):
                        for f in ("", "]", "5", ".1", "e1", "-1", ", 2"):
                            out.append((a + b + c + d + e + f).encode())
    return out


# ------------------------------------------------------------------------------------------------ the check
def nums_tables(impl, docs):
    """oracle inputs: iwstrtod at every possible number start, from the implementation"""
    need = [i for i, d in enumerate(docs) if NUM_START.search(d)]
    tabs = ["-"] * len(docs)
    if need:
        rc, out, err = vlib.run_lines(impl, "".join("nums %s\n" % vlib.hexs(docs[i]) for i in need))
        for j, i in enumerate(need):
            tabs[i] = out[j] if j < len(out) and out[j] else "-"
    return tabs


def check(run):
    tier, rng = run.tier, run.rng
    proofs_ok = run.proofs()
    impl = vlib.build_harness("h_jtext")
    model = vlib.build_model("jtext")
    mult = 1 if proofs_ok else 10
    N = (3000 if tier == "quick" else 150000) * mult

    # ---------------- documents: (bytes, in_scope, kind)
    docs = []
    cdir = os.path.join(vlib.VERIF, "corpus", "C13")
    ctrees = []
    for cf in sorted(os.listdir(cdir)) if os.path.isdir(cdir) else []:
        for l in open(os.path.join(cdir, cf)):
            f = l.split()
            if not f or f[0].startswith("#"):
                continue
            if f[0] == "doc":
                docs.append((bytes.fromhex(f[1]), True, "corpus"))
            elif f[0] == "tree":
                ctrees.append((int(f[1]), f[2:]))
    # every code point edge x every spelling, every control character
    for cp in EDGE_CPS + list(range(0, 0x20)):
        for style in (0, 1, 2):
            docs.append((spell_str(rng, [cp], style), True, "edge-cp"))
        docs.append((b'{' + spell_str(rng, [0x61, cp, 0x62], 2) + b':' + spell_str(rng, [cp], 0) + b'}', True, "edge-cp"))
    for v in [0, 1, -1, I64MAX, I64MIN, I64MAX - 1, I64MIN + 1, 1 << 53, -(1 << 53), (1 << 53) + 1]:
        docs.append((str(v).encode(), True, "edge-int"))
        docs.append((b"[" + str(v).encode() + b"]", True, "edge-int"))
    docs.append((b"-0", True, "edge-int"))
    for t in [b"1e0", b"[1e0]", b"[1e0,2]", b"[1.5e00 ]", b"{\"a\":2E-0}", b"[0.5,1.25e1,-3.5E+2]", b"[1e00,1e01,10e-01]"]:
        docs.append((t, True, "edge-float"))
    # nesting around the limit
    for k in (MAXNEST - 1, MAXNEST, MAXNEST + 1, MAXNEST + 2):
        for inner in (b"", b"1", b'"x"'):
            docs.append((b"[" * k + inner + b"]" * k, k <= MAXNEST, "nest"))
        docs.append((b'{"a":' * k + b"null" + b"}" * k, k <= MAXNEST, "nest"))
        docs.append((b'[{"k":' * (k // 2) + b"[]" + b"}]" * (k // 2), k // 2 * 2 + 1 <= MAXNEST, "nest"))
    # number texts at the limits of the scanner: top level, array element followed by more, member value followed by more
    numtexts = []
    for i, t in enumerate(number_edges(rng.fork())):
        numtexts.append((t, [0, 2, 3, (1, 4, 5, 6, 7)[i % 5]]))
    for i in range((500 if tier == "quick" else 20000) * mult):
        r = rng.fork()
        numtexts.append((gen_number(r), [r.below(NUM_PLACES), 2 + r.below(2)]))
    for t, places in numtexts:
        sc = num_scope(t)
        for j in places:
            docs.append((place_number(rng, t, j).encode(), True if (sc == "ok" or sc in OPEN) else "struct",
                         "number" if sc == "ok" else "number/" + sc))
    for i in range(N):
        r = rng.fork()
        v = gen_value(r, r.weighted([(0, 2), (1, 3), (2, 4), (3, 3), (5, 1)]))
        layout = r.below(2)
        txt = spell(r, v, layout, r.below(3))
        if layout:
            txt = ws(r, 1) + txt + ws(r, 1)
        if r.chance(1, 12):
            txt = b"\xef\xbb\xbf" + txt
        docs.append((txt, depth_of(v) <= MAXNEST, "grammar"))
    nvalid = len(docs)
    for i in range(N // 2):
        r = rng.fork()
        base = docs[r.below(nvalid)][0]
        if len(base) < 400:
            docs.append((mutate(r, base), False, "mutated"))

    tabs = nums_tables(impl, [d for d, _, _ in docs])
    lines, meta = [], []
    for (d, scope, kind), tb in zip(docs, tabs):
        lines.append("parse %s %s" % (vlib.hexs(d), tb)); meta.append(("parse", d, scope, kind))

    # ---------------- arbitrary trees for the printer
    trees = [(pf, t, all(is_utf8(bytes.fromhex(x[1:])) for x in t if x[0] in "sk")) for pf, t in ctrees]
    for i in range(N):
        r = rng.fork()
        t, u8ok = gen_tree(r, r.weighted([(0, 3), (1, 3), (2, 3), (3, 1)]), floats=r.chance(1, 3))
        trees.append((r.choice(PFS), t, u8ok))
    for b in range(256):                         # every byte alone, raw and with the code-point flag
        trees.append((0, ["s%02x" % b], b < 128))
        trees.append((2, ["s61%02x62" % b], b < 128))
        trees.append((0, ["{", "k%02x" % b, "n", "}"], b < 128))
    for cp in EDGE_CPS:
        trees.append((2, ["s" + utf8(cp).hex()], True))
        trees.append((3, ["[", "s" + (utf8(cp) + b"x" + utf8(cp)).hex(), "]"], True))
    dbl = sorted({x[1:17] for _, t, _ in trees for x in t if x[0] == "d"})
    ftxt = {}
    if dbl:
        rc, out, err = vlib.run_lines(impl, "".join("ftoa %s\n" % h for h in dbl))
        ftxt = {h: (out[i] if out[i] != "-" else "") for i, h in enumerate(dbl)}
    for pf, t, u8ok in trees:
        toks = [(x + ":" + ftxt.get(x[1:17], "")) if x[0] == "d" else x for x in t]
        lines.append("print %d %s" % (pf, " ".join(toks))); meta.append(("print", pf, t, u8ok))

    # the binary form in between (jbl_from_node + jbl_as_json): container roots, member names unique, no NUL bytes
    for pf, t, u8ok in trees:
        if t[0] in "[{" and not has_dup_keys(t) and not any(0 in bytes.fromhex(x[1:17] if x[0] == "d" else x[1:]) for x in t if x[0] in "sk"):
            toks = [(x + ":" + ftxt.get(x[1:17], "")) if x[0] == "d" else x for x in t]
            lines.append("jprint %d %s" % (pf, " ".join(toks))); meta.append(("jprint", pf, t, u8ok))

    # ---------------- unescape, utf8, strtoll
    for i in range(N):
        r = rng.fork()
        body = gen_body(r)
        for dlen in (0, r.range(0, 12), 64):
            lines.append("unesc %s %d" % (vlib.hexs(body), dlen)); meta.append(("unesc", body, dlen))
    cps = set(EDGE_CPS) | {0xd800, 0xdbff, 0xdc00, 0xdfff, 0x110000, 0x110001, -1, -2 ** 31, 2 ** 31 - 1, 0x7ffff}
    for i in range(N // 4):
        cps.add(rng.range(-5, 0x110005))
    for c in sorted(cps):
        lines.append("enc %d" % c); meta.append(("enc", c))
    for i in range(N):
        r = rng.fork()
        k = r.below(3)
        if k == 0:
            c = gen_cp(r)
            b = utf8(c) + r.bytes(r.below(2))
            if r.chance(1, 4):
                b = b[:r.range(1, len(b))]
        elif k == 1:
            b = bytes([r.choice([0xc0, 0xc1, 0xc2, 0xdf, 0xe0, 0xed, 0xef, 0xf0, 0xf4, 0xf5, 0xff, 0x80, 0xbf, 0x7f])]) + \
                bytes(r.choice([0x7f, 0x80, 0x8f, 0x90, 0x9f, 0xa0, 0xbf, 0xc0]) for _ in range(r.range(0, 3)))
        else:
            b = r.bytes(r.range(1, 4))
        lines.append("iter %s" % vlib.hexs(b)); meta.append(("iter", b))
    for i in range(N // 2):
        r = rng.fork()
        s = r.choice([b"", b"-", b"+", b" ", b"\t-"]) + r.choice([b"", b"0", b"0x", b"0X", b"00", b"09", b"08"]) + \
            bytes(r.choice(b"0123456789abcdefABCDEFxzZ.-e") for _ in range(r.weighted([(0, 1), (1, 3), (5, 3), (19, 2), (21, 1)])))
        if r.chance(1, 5):
            s = str(r.choice([I64MAX, I64MIN, I64MAX + 1, I64MIN - 1, 1 << 64])).encode() + r.choice([b"", b"]", b".5", b"0"])
        s = bytes(x for x in s if x != 0)
        lines.append("strtoll %s" % vlib.hexs(s)); meta.append(("strtoll", s))

    # the number scanner alone: every generated number text with followers, and the complete sweep of its branch combinations
    FOL = [b"", b"]", b",", b"}", b" ", b"\n", b"x", b".", b"e", b"E+", b"e-]", b"5", b"-", b"+1", b"e5", b".5", b"\t1", b"0"]
    for t, _ in numtexts:
        tb = t.encode()
        for f in (b"", rng.choice(FOL), rng.choice(FOL)):
            q = rng.choice([b"", b"", b"", b" ", b"+", b"\t"]) + tb + f
            lines.append("strtod %s" % vlib.hexs(q)); meta.append(("strtod", q))
        if len(tb) > 3 and rng.chance(1, 2):
            q = mutate(rng, tb)
            lines.append("strtod %s" % vlib.hexs(q)); meta.append(("strtod", q))
    for q in scan_sweep():
        lines.append("strtod %s" % vlib.hexs(q)); meta.append(("strtod", q))

    out_i, out_m, mism, err = diff_run(impl, model, lines)
    if err:
        run.broken.append("T2 harness: " + err)

    # ---------------- second round: the printed texts are parsed again (T2 + oracle)
    lines2, meta2 = [], []
    for i, m in enumerate(meta):
        if m[0] == "print" and i < len(out_i) and out_i[i].startswith("ok "):
            txt = bytes.fromhex(out_i[i].split()[1]) if out_i[i].split()[1] != "-" else b""
            if 0 not in txt:
                lines2.append(txt); meta2.append(i)
    tabs2 = nums_tables(impl, lines2)
    q2 = ["parse %s %s" % (vlib.hexs(t), tb) for t, tb in zip(lines2, tabs2)]
    out_i2, out_m2, mism2, err2 = diff_run(impl, model, q2)
    if err2:
        run.broken.append("T2 harness (round 2): " + err2)

    nl = len(lines) + len(q2)
    for i, l in enumerate(lines):
        run.case(l, nontrivial=True, sample=({"query": l[:300], "impl": (out_i[i] if i < len(out_i) else None) and out_i[i][:300]}
                                             if i % max(1, len(lines) // 5) == 0 else None))
        run.dist(meta[i][0] + ("/" + meta[i][3] if meta[i][0] == "parse" else ""))
    for l in q2:
        run.case(l, nontrivial=True)
        run.dist("parse/printed")
    run.cov["traces_validated_against_impl"] = nl - len(mism) - len(mism2)
    allm = [(lines, out_i, out_m, i) for i in mism] + [(q2, out_i2, out_m2, i) for i in mism2]
    if allm and os.environ.get("VERIF_DEBUG"):
        for ls, oi, om, i in allm[:30]:
            print("MISMATCH `%s` impl=`%s` model=`%s`" % (ls[i][:200], oi[i][:200] if i < len(oi) else None, om[i][:200] if i < len(om) else None))
    if allm:
        ls, oi, om, i = allm[0]
        run.broken.append("T2 correspondence: %d of %d queries differ, first: `%s` impl=`%s` model=`%s`" % (
            len(allm), nl, ls[i][:300], oi[i][:200] if i < len(oi) else None, om[i][:200] if i < len(om) else None))

    # ---------------- ORACLE 1: valid documents against the reference parser
    nviol = {}

    def viol(q, impl_out, why, kind, doc=None):
        nviol[kind] = nviol.get(kind, 0) + 1
        if nviol[kind] <= 3:                       # a few replays per kind of failure are enough
            r = {"query": q, "impl": impl_out, "kind": kind}
            if doc is not None:
                r["document"] = doc.decode("latin-1")[:2000]
            run.violation(r, why)

    scope_docs = []
    for i, m in enumerate(meta):
        if m[0] != "parse" or i >= len(out_i):
            continue
        d, scope = m[1], m[2]
        if not scope:
            continue
        try:
            ref = py_parse(d)
        except (ValueError, UnicodeDecodeError, RecursionError) as e:
            run.broken.append("generator produced a document the reference parser rejects: %r (%s)" % (d[:80], e))
            continue
        o = out_i[i].split()
        nk = "num-" if m[3].startswith("number") else ""
        if scope == "struct":                     # beyond the double range / a recorded limit of iwstrtod: structure only, if accepted
            why = same_tokens(o[1:], ref, None) if o and o[0] == "ok" else None
            if why:
                viol(lines[i], out_i[i], "parse does not consume the text as the reference parser does on %r: %s" % (d[:120], why), nk + "structure", d)
            continue
        scope_docs.append((d, ref))
        if not o or o[0] != "ok":
            viol(lines[i], out_i[i], "valid JSON document rejected: %r -> %s" % (d[:120], out_i[i][:60]), nk + "reject", d)
            continue
        # STRUCTURE first (no tolerance): the same token sequence, numbers where the reference has numbers
        why = same_tokens(o[1:], ref, None)
        if why:
            viol(lines[i], out_i[i], "parse does not consume the text as the reference parser does on %r: %s" % (d[:120], why), nk + "structure", d)
            continue
        why = same_tokens(o[1:], ref, tol_parse)
        if why:
            viol(lines[i], out_i[i], "parsed value differs from the reference parser on %r: %s" % (d[:120], why), nk + "value", d)

    # ---------------- ORACLE 2: print -> parse round trips on the valid documents, every flag set
    rtl, rtm = [], []
    for j, (d, ref) in enumerate(scope_docs):
        if len(d) > 600 and j % 4:
            continue
        for pf in (PFS if (tier != "quick" or j % 3 == 0) else [rng.choice(PFS)]):
            rtl.append("rt %d %s" % (pf, vlib.hexs(d))); rtm.append((pf, d, ref))
        if len(d) < 600 and b"\\u0000" not in d and ref and ref[0] in ("[", "{") and not has_dup_keys(ref):
            # jbl_from_json (binary form in between): container roots only, member names unique, no U+0000
            rtl.append("jrt %d %s" % (rng.choice([0, 1, 2, 3]), vlib.hexs(d))); rtm.append((-1, d, ref))
    rc, rto, rterr = vlib.run_lines(impl, "\n".join(rtl) + "\n")
    if rc != 0:
        run.broken.append("harness failed on round trips: rc=%d %s" % (rc, rterr[-300:]))
    for l, (pf, d, ref), o in zip(rtl, rtm, rto):
        run.case(l, nontrivial=True)
        run.dist("roundtrip" if pf >= 0 else "roundtrip/jbl")
        f = o.split()
        if not f or f[0] != "ok":
            viol(l, o, "valid document %r could not be parsed/printed (%s)" % (d[:100], o[:40]), "rt-print")
            continue
        txt = bytes.fromhex(f[1]) if f[1] != "-" else b""
        flagcp = (pf >= 0 and pf & 2) or (pf < 0 and int(l.split()[1]) & 2)
        if flagcp and any(b >= 128 for b in txt):
            viol(l, o, "JBL_PRINT_CODEPOINTS output is not pure ASCII for %r" % d[:100], "ascii")
        try:
            ref2 = py_parse(txt)
        except (ValueError, UnicodeDecodeError) as e:
            viol(l, o, "printed text is not valid JSON for the reference parser: %r (%s)" % (txt[:120], str(e)[:80]), "rt-invalid")
            continue
        refx = [(t if not isinstance(t, tuple) else t) for t in ref]
        why = None
        if len(ref2) != len(refx):
            why = "shape"
        else:
            for a, b in zip(ref2, refx):
                if isinstance(b, tuple):
                    av = a[1] if isinstance(a, tuple) else (float(a[1:]) if a.startswith("i") else None)
                    if av is None or not abs(av - b[1]) <= tol_print(b[1]) + tol_parse(b[1]):
                        why = "number %r printed as %r" % (b[1], a)
                elif a != b:
                    why = "token %s vs %s" % (str(a)[:50], str(b)[:50])
                if why:
                    break
        if why:
            viol(l, o, "printed text %r denotes a different value than %r: %s" % (txt[:100], d[:100], why), "rt-value")
            continue
        if pf >= 0:
            if len(f) < 3 or f[2] != "ok":
                viol(l, o, "the library rejects its own output %r" % txt[:120], "rt-self")
            else:
                lib2 = f[3:]
                why = None
                if len(lib2) != len(refx):
                    why = "shape"
                else:
                    for a, b in zip(lib2, refx):
                        if isinstance(b, tuple):
                            continue
                        if a != b:
                            why = "token %s vs %s" % (a[:50], b[:50]); break
                if why:
                    viol(l, o, "library re-parse of its own output differs (%s) for %r" % (why, d[:100]), "rt-self")

    # ---------------- ORACLE 3: arbitrary trees: printed text is valid JSON for the same value; the library reads it back
    back = {mi: k for k, mi in enumerate(meta2)}
    for i, m in enumerate(meta):
        if m[0] not in ("print", "jprint") or i >= len(out_i):
            continue
        pf, t, u8ok = m[1], m[2], m[3]
        o = out_i[i].split()
        if not o or o[0] != "ok":
            if u8ok or not (pf & 2):
                viol(lines[i], out_i[i], "printer failed on a tree with valid strings: %s" % out_i[i][:60], "print-fail")
            continue
        txt = bytes.fromhex(o[1]) if o[1] != "-" else b""
        if (pf & 2) and any(b >= 128 for b in txt):
            viol(lines[i], out_i[i], "JBL_PRINT_CODEPOINTS output is not pure ASCII", "ascii")
        has_d = any(x[0] == "d" for x in t)
        if u8ok:
            try:
                ref = py_parse(txt)
                if not has_d and ref != t:
                    viol(lines[i], out_i[i], "printed text %r does not denote the printed tree" % txt[:120], "print-value")
            except (ValueError, UnicodeDecodeError) as e:
                viol(lines[i], out_i[i], "printed text is not valid JSON: %r (%s)" % (txt[:120], str(e)[:80]), "print-invalid")
        if i in back and back[i] < len(out_i2):
            o2 = out_i2[back[i]].split()
            if not o2 or o2[0] != "ok":
                viol(lines[i], out_i[i], "the library rejects its own output %r" % txt[:120], "print-self")
            elif not same_masked(o2[1:], t):
                viol(lines[i], out_i[i], "library re-parse of %r differs from the printed tree" % txt[:120], "print-self")

    # ---------------- ORACLE 5: printed doubles denote the printed value (independent of the model: doubles are oracle inputs there)
    dl, dm = [], []
    for j, x in enumerate(gen_doubles(rng, 1200 if tier == "quick" else 20000)):
        pf = 0 if j % 4 else rng.choice(PFS)
        dl.append("dbl %d %s" % (pf, struct.pack(">d", x).hex())); dm.append(x)
    rc, dout, derr = vlib.run_lines(impl, "\n".join(dl) + "\n")
    if rc != 0:
        run.broken.append("harness failed on doubles: rc=%d %s" % (rc, derr[-300:]))
    for l, x, o in zip(dl, dm, dout):
        run.case(l, nontrivial=True)
        run.dist("double")
        f = o.split()
        if len(f) < 4 or f[0] != "ok":
            viol(l, o, "double %r could not be printed (%s)" % (x, o[:60]), "dbl-print")
            continue
        for which, h in (("jbn_as_json", f[1]), ("jbl_as_json", f[2])):
            why = check_printed_double(x, bytes.fromhex(h))
            if why:
                viol(l, o, "%s prints %r as %r: %s" % (which, x, bytes.fromhex(h), why), "dbl-value")
                break
        else:
            if f[3] != "ok" or len(f) != 7 or f[5][0] not in "di":
                viol(l, o, "the library does not read back its own text %r for %r" % (bytes.fromhex(f[1]), x), "dbl-self")
            else:
                y = bits_to_float(f[5][1:17]) if f[5][0] == "d" else float(int(f[5][1:]))
                if not abs(y - x) <= 0.5e-8 + 1e-9 * abs(x):          # iwstrtod accumulates rounding errors: gross errors only
                    viol(l, o, "the library reads its own text %r back as %r instead of %r" % (bytes.fromhex(f[1]), y, x), "dbl-self")

    # ---------------- ORACLE 4: utf8 encoder against Python's
    for i, m in enumerate(meta):
        if i >= len(out_i):
            break
        if m[0] == "enc":
            c = m[1]
            valid = 0 <= c < 0x110000 and not (0xd800 <= c <= 0xdfff)
            f = out_i[i].split()
            if f[0] != ("1" if valid else "0") or (valid and f[1] != utf8(c).hex()):
                viol(lines[i], out_i[i], "utf8 encoding / validity of code point %d wrong: %s" % (c, out_i[i]), "enc")
        elif m[0] == "iter":
            b = m[1]
            exp = "err"
            for n in (1, 2, 3, 4):
                try:
                    ch = b[:n].decode("utf-8")
                    if len(ch) == 1:
                        exp = "%d %d" % (ord(ch), n)
                        break
                except UnicodeDecodeError:
                    pass
            if out_i[i] != exp:
                viol(lines[i], out_i[i], "utf8 decoding of %s: library %s, reference %s" % (b.hex(), out_i[i], exp), "iter")

    return run.finish(level=LEVEL,
                      rule="grammar-generated valid JSON documents (every escape spelling, code-point edges 0x7F/0x80/0x7FF/0x800/0xFFFF/"
                           "0x10000/0x10FFFF, all control characters, integers around +-2^63 and 2^53, nesting 998..1001, whitespace layouts, BOM), "
                           "number texts at the limits of the number scanner (integer / fraction / exponent digit runs of 1..400 digits, all nines, "
                           "leading and trailing zeros, exact decimal expansions of doubles incl. 2^-1074, 2^-1022, DBL_MAX, exponents 0..400 with "
                           "either sign and up to 100 leading zeros; each at top level, in arrays followed by more elements, as member values; "
                           "structural oracle = same token sequence as the reference parser, value oracle = 1e-9 relative), the scanner alone on "
                           "every such text with followers and on a complete sweep of its branch combinations (strtod queries, T2), "
                           "mutated documents (T2 only), arbitrary trees with arbitrary byte strings x print flags, string bodies x buffer sizes, "
                           "code points, byte sequences, strtoll texts; a case is one query line; distinct = distinct query text",
                      assumptions=["doubles are outside the model: number->double (iwstrtod) and double->text (iwjson_ftoa) are oracle inputs taken "
                                   "from the implementation; the reference comparison of doubles is approximate (1e-9 relative on parse, 8 fraction "
                                   "digits on print); the END of a number is decided by the model (strtod_end) and, independently, by the "
                                   "structural oracle",
                                   "limits of iwstrtod's method d * pow(10, e), recorded in notes/jtext.md: numbers whose exponent is outside "
                                   "-308..308 or whose digit string alone exceeds the double range (rejected with ERANGE or imprecise although the "
                                   "value may be representable) and 2.2250738585072011e-308 (refused on purpose) are judged by T2 and the "
                                   "structural oracle only; VERIF_JTEXT_OPEN=range-exp,range-mant,refused|all makes them full oracle cases",
                                   "documents are shorter than 2^31 bytes (C int lengths)",
                                   "errno is 0 when jbn_from_json is entered (stale ERANGE is finding C17)"])


def replay(run, path):
    r = json.load(open(path))
    impl = vlib.build_harness("h_jtext")
    if "query" in r:
        rc, out, err = vlib.run_lines(impl, r["query"] + "\n")
        print("query:", r["query"][:400]); print("impl :", out[0][:400]); print("recorded:", (r.get("impl") or "")[:400]); print("note:", r.get("note"))
        return 1 if out[0] == r.get("impl") else 0
    print(json.dumps(r, indent=1)); return 1
