# C19 - number codecs round-trip and key comparators are total orders
import os, json
import vlib
from common import diff_run

LEVEL = "proof"
MODES = ["000", "100", "010", "001", "101", "011"]


def hexb(b):
    return b.hex() if b else "-"


def gen_ints(rng, n):
    out = set()
    for k in range(0, 64):
        for d in (-1, 0, 1):
            out.add((1 << k) + d)
            out.add(-((1 << k) + d))
    for k in range(0, 20):
        for d in (-1, 0, 1):
            out.add(10 ** k + d)
            out.add(-(10 ** k + d))
    out |= {0, (1 << 63) - 1, -(1 << 63), 7, -7, 128, 127, 16383, 16384}
    while len(out) < n:
        bits = rng.range(1, 63)
        v = rng.u64() >> (64 - bits)
        out.add(v if rng.chance(1, 2) else -v)
    return sorted(x for x in out if -(1 << 63) <= x < (1 << 63))


def numstr(rng):
    s = b""
    if rng.chance(1, 5):
        s += rng.choice([b" ", b"\t", b"  ", b"\x7f"])
    if rng.chance(1, 3):
        s += b"-"
    nd = rng.weighted([(0, 2), (1, 4), (3, 4), (9, 2), (18, 2)])
    if rng.chance(1, 6):
        return (b"-" if rng.chance(1, 2) else b"") + rng.choice([b"0", b"", b"00"]) + b"." + bytes(48 + rng.below(10) for _ in range(rng.range(1, 6)))
    if rng.chance(1, 4):
        s += b"0" * rng.range(1, 3)
    for _ in range(nd):
        s += bytes([48 + rng.below(10)])
    if rng.chance(1, 2):
        s += b"."
        for _ in range(rng.range(0, 12)):
            s += bytes([48 + rng.below(10)])
    if rng.chance(1, 8):
        s += rng.choice([b"x", b"e5", b" ", b"\x00a", b"\x00b", b"."])
    if rng.chance(1, 12):
        # texts around and beyond the 115 cached bytes (zero padded: the value stays inside 64 bits)
        s = b"0" * (rng.choice([113, 114, 115, 116, 120, 140]) - len(s)) + s.lstrip(b" \t\x7f-")
    return s


def gen_key(rng, mode, pool):
    """logical key (data bytes, compound) for a mode"""
    comp = 0
    if mode[2] == "1":
        comp = rng.choice([0, 1, 2, 127, 128, 300, 1 << 20, (1 << 62) + 5, rng.below(1 << 40)])
    if mode[0] == "1":
        v = rng.choice(pool)
        data = vnum(v)
    elif mode[1] == "1":
        data = numstr(rng)
        if not data:
            data = b"0"
    else:
        k = rng.weighted([(0, 1), (1, 3), (2, 3), (5, 3), (114, 1), (115, 1), (116, 1), (200, 1)])
        base = rng.choice([b"", b"a", b"ab", b"k" * 113, b"k" * 114, b"k" * 115, b"k" * 116, b"\xff\xfe", b"\x00"])
        data = (base + rng.bytes(rng.below(3)))[:max(k, 1)] if rng.chance(1, 2) else base + rng.bytes(rng.below(4))
        if not data:
            data = b"\x00"
    return data, comp


def vnum(v):
    if v == 0:
        return b"\x00"
    out = b""
    while v > 0:
        rem = v & 0x7f
        v >>= 7
        out += bytes([(~rem) & 0xff]) if v > 0 else bytes([rem])
    return out


def stored(mode, data, comp):
    return (vnum(comp) + data) if mode[2] == "1" else data


def check(run):
    tier = run.tier
    rng = run.rng
    proofs_ok = run.proofs()
    impl = vlib.build_harness("h_conv")
    model = vlib.build_model("conv")
    tie = "memcmp"
    N = 300 if tier == "quick" else 6000
    mult = 1 if proofs_ok else 10
    N *= mult
    lines, meta = [], []
    ints = gen_ints(rng, 500 if tier == "quick" else 5000)
    # corpus of earlier failures (fixed defects) runs first
    for cf in sorted(os.listdir(os.path.join(vlib.VERIF, "corpus", "C19"))):
        for l in open(os.path.join(vlib.VERIF, "corpus", "C19", cf)):
            f = l.split()
            if not f:
                continue
            lines.append(l.strip())
            if f[0] == "itoa":
                meta.append(("itoa", int(f[1]), int(f[2])))
            elif f[0] in ("cmp", "afcmp"):
                meta.append(("neq",))
            else:
                meta.append(("corpus",))
    # --- codecs
    for v in ints:
        u = v & ((1 << 64) - 1)
        lines.append("vnum64 %d" % u); meta.append(("vnum64", u))
        lines.append("vnum32 %d" % (u & 0xffffffff)); meta.append(("vnum32", u & 0xffffffff))
        edge = v in (-(1 << 63), -(1 << 63) + 1, (1 << 63) - 1, 0, -1, 9, 10, -9, -10, 10 ** 18, -10 ** 18, 99999999999, -99999999999)
        # the extremes (INT64_MIN has its own branch in iwitoa) get every buffer size in every tier
        for mx in ([30, 21, 0, 1, 2, 3] if (tier == "quick" and not edge) else list(range(0, 25)) + [30, 64]) + [rng.range(0, 24)]:
            lines.append("itoa %d %d" % (v, mx)); meta.append(("itoa", v, mx))
        s = str(v).encode()
        if rng.chance(1, 4):
            s = rng.choice([b" ", b"\t\n", b"+", b""]) + s + rng.choice([b"", b"x", b" 1", b".5"])
        lines.append("atoi " + hexb(s)); meta.append(("atoi", s))
    for _ in range(N):
        b = rng.bytes(rng.range(0, 12))
        lines.append("bin2hex " + hexb(b)); meta.append(("bin2hex", b))
        h = bytes(rng.choice(b"0123456789abcdefABCDEF") for _ in range(rng.range(0, 17)))
        lines.append("hex2bin " + hexb(h)); meta.append(("hex2bin", h))
        lines.append("atoi " + hexb(numstr(rng))); meta.append(("atoi-free",))
        raw = rng.bytes(rng.range(1, 6))
        if raw and (raw[-1] & 0x80):
            raw = raw[:-1] + bytes([raw[-1] & 0x7f])
        lines.append("readv " + hexb(raw)) if False else None
    # --- macros
    for _ in range(N):
        a = rng.range(-5, 40); b = a + rng.range(1, 20); c = rng.range(-5, 40); d = c + rng.range(1, 20)
        lines.append("macro overlap %d %d %d %d" % (a, b, c, d)); meta.append(("overlap", a, b, c, d))
        x = rng.choice([0, 1, 127, 128, 129, 4095, 4096, 4097, rng.below(1 << 40)]); p = 1 << rng.range(0, 20)
        lines.append("macro roundup %d %d" % (x, p)); meta.append(("roundup", x, p))
        lines.append("macro rounddown %d %d" % (x, p)); meta.append(("rounddown", x, p))
    # --- comparators: triples of logical keys per mode
    triples = []
    pool = [v for v in ints if 0 <= v < (1 << 63)]
    for mode in MODES:
        for _ in range(N // 2):
            ks = [gen_key(rng, mode, pool) for _ in range(3)]
            if rng.chance(1, 3):
                ks[1] = (ks[0][0], ks[1][1])
            if rng.chance(1, 6):
                ks[2] = ks[0]
            if mode[1] == "1" and rng.chance(1, 4):
                ks[2] = (ks[0][0] + b"\x00" + rng.bytes(1), ks[0][1]); ks[0] = (ks[0][0] + b"\x00" + rng.bytes(1), ks[0][1])
            base = len(lines)
            for i in range(3):
                for j in range(3):
                    a, b = ks[i], ks[j]
                    lines.append("cmp %s %s %s %s %d" % (tie, mode, hexb(stored(mode, *a)), hexb(b[0]), b[1]))
                    meta.append(("cmp", mode, i, j))
            triples.append((mode, ks, base))
    # --- the node-level shortcut through the cached 115-byte prefix (_lx_sblk_cmp_key), called directly: for every pair of
    #     a triple the node caches the first 115 bytes of the stored key a (flag = whole key cached) and key b is looked up;
    #     the answer is the model's sblk_cmp_key (T2); a decided answer must be what the complete keys give (oracle, below)
    for mode, ks, base in triples:
        for i in range(3):
            for j in range(3):
                st = stored(mode, *ks[i])
                b = ks[j]
                lines.append("sblkcmp %s %s %d %s %d" % (mode, hexb(st[:115]), 1 if len(st) <= 115 else 0, hexb(b[0]), b[1]))
                meta.append(("sblkcmp", mode, base + 3 * i + j))
    # directed: stored keys longer than the cached part, look-up keys that end around its end (with compound parts whose
    # varints take 1, 2, 5 and 9 bytes, so that the cached part ends at different places inside the key bytes)
    for mode in ("000", "001"):
        for comp_s in ([0] if mode == "000" else [0, 5, 300, 1 << 30, (1 << 62) + 1]):
            for slen in (116, 117, 130):
                sdata = b"k" * (slen - 1) + b"m"
                st = stored(mode, sdata, comp_s)
                for klen in range(104, 119):
                    for tail in (b"", b"j", b"l"):
                        kdata = (sdata[:klen - len(tail)] + tail) if klen > len(tail) else tail
                        for comp_k in ([0] if mode == "000" else [comp_s, 1 << 40]):
                            lines.append("cmp %s %s %s %s %d" % (tie, mode, hexb(st), hexb(kdata), comp_k))
                            meta.append(("cmp-directed", mode))
                            lines.append("sblkcmp %s %s 0 %s %d" % (mode, hexb(st[:115]), hexb(kdata), comp_k))
                            meta.append(("sblkcmp", mode, len(lines) - 2))
    for _ in range(N):
        a, b = numstr(rng), numstr(rng)
        if rng.chance(1, 3):
            b = a + rng.choice([b"", b"0", b"\x00x", b" "])
        elif rng.chance(1, 3):
            a, b = a + b"\x00" + rng.bytes(1), a + b"\x00" + rng.bytes(1)
        lines.append("afcmp %s %s %s" % (tie, hexb(a), hexb(b))); meta.append(("afcmp", a, b))

    out_i, out_m, mism, err = diff_run(impl, model, lines)
    if err:
        run.broken.append("T2 harness: " + err)
    for i, l in enumerate(lines):
        run.case(l, nontrivial=True, sample=({"query": l, "impl": out_i[i] if i < len(out_i) else None}
                                             if i % max(1, len(lines) // 5) == 0 else None))
        run.dist(l.split()[0])
    run.cov["traces_validated_against_impl"] = len(lines) - len(mism)
    if mism and os.environ.get("VERIF_DEBUG"):
        for i in mism[:40]:
            print("MISMATCH `%s` impl=`%s` model=`%s`" % (lines[i], out_i[i] if i < len(out_i) else None, out_m[i] if i < len(out_m) else None))
    if mism:
        i = mism[0]
        run.broken.append("T2 correspondence: %d of %d queries differ, first: `%s` impl=`%s` model=`%s`" % (
            len(mism), len(lines), lines[i], out_i[i] if i < len(out_i) else None, out_m[i] if i < len(out_m) else None))

    # ---- oracle: the property statement itself, checked on the implementation's answers
    def viol(i, why):
        run.violation({"query": lines[i], "impl": out_i[i], "kind": meta[i][0]}, why)

    for i, m in enumerate(meta):
        if i >= len(out_i):
            break
        o = out_i[i]
        if m[0] in ("vnum64", "vnum32"):
            v = m[1]
            lim = 63 if m[0] == "vnum64" else 31
            f = o.split()
            if v < (1 << lim):
                if not (len(f) >= 5 and int(f[2]) == v and int(f[3]) == int(f[0]) and f[4] == "sz=%s" % f[0] and f[1] == hexb(vnum(v))):
                    viol(i, "varint does not decode to the encoded value / length: %s -> %s" % (lines[i], o))
            else:
                if f[0] != "0":
                    viol(i, "value with sign bit set must be rejected (len 0): %s -> %s" % (lines[i], o))
        elif m[0] == "itoa":
            v, mx = m[1], m[2]
            if o == "OOB":
                viol(i, "iwitoa wrote outside its buffer: %s" % lines[i])
            elif mx >= 21:
                f = o.split()
                txt = bytes.fromhex(f[1]).decode() if f[1] != "-" else ""
                if txt != str(v) or int(f[0]) != len(txt):
                    viol(i, "iwitoa text/length wrong: %s -> %s" % (lines[i], o))
        elif m[0] == "atoi":
            s = m[1]
            try:
                exp = int(s.decode())
                if -(1 << 63) <= exp < (1 << 63) and o != str(exp):
                    viol(i, "iwatoi(iwitoa-form text) != value: %s -> %s" % (s, o))
            except ValueError:
                pass
        elif m[0] == "sblkcmp":
            full = out_i[m[2]].split()[0] if m[2] < len(out_i) else None
            if o not in ("NONE", full) and m[1] in ("000", "001"):
                viol(i, "the cached prefix of a node decides %s where the complete stored key gives %s: %s" % (o, full, lines[i]))
        elif m[0] == "neq":
            if o.split()[0] == "0":
                viol(i, "different keys compare equal: %s" % lines[i])
        elif m[0] == "bin2hex":
            if o != hexb(m[1].hex().encode()):
                viol(i, "hex encoding wrong: %s -> %s" % (lines[i], o))
        elif m[0] == "hex2bin":
            h = m[1].decode()
            if len(h) % 2:
                h = "0" + h
            if o != hexb(bytes.fromhex(h)):
                viol(i, "hex decoding wrong: %s -> %s" % (lines[i], o))
        elif m[0] == "overlap":
            _, a, b, c, d = m
            exp = 1 if max(a, c) < min(b, d) else 0
            if o != str(exp):
                viol(i, "IW_RANGES_OVERLAP is not interval intersection: %s -> %s" % (lines[i], o))
        elif m[0] == "roundup":
            if o != str((m[1] + m[2] - 1) // m[2] * m[2]):
                viol(i, "IW_ROUNDUP wrong: %s -> %s" % (lines[i], o))
        elif m[0] == "rounddown":
            if o != str(m[1] // m[2] * m[2]):
                viol(i, "IW_ROUNDOWN wrong: %s -> %s" % (lines[i], o))
    # total order on triples
    for mode, ks, base in triples:
        if base + 9 > len(out_i):
            break
        try:
            c = [[int(out_i[base + 3 * i + j].split()[0]) for j in range(3)] for i in range(3)]
        except (ValueError, IndexError):
            continue
        desc = {"mode": mode, "keys": [[hexb(k[0]), k[1]] for k in ks], "matrix": c, "kind": "order"}
        if mode[1] == "1" and any(len(k[0].split(b".")[0].lstrip(b" \t\x7f-0")) > 17 for k in ks):
            continue
        for i in range(3):
            for j in range(3):
                if c[i][j] != -c[j][i]:
                    run.violation(desc, "comparator not antisymmetric on keys %d,%d" % (i, j))
                same = ks[i] == ks[j] if mode[2] == "1" else ks[i][0] == ks[j][0]
                if (c[i][j] == 0) != same:
                    run.violation(desc, "comparator equal iff identical fails on keys %d,%d" % (i, j))
                for k in range(3):
                    if c[i][j] > 0 and c[j][k] > 0 and not c[i][k] > 0:
                        run.violation(desc, "comparator not transitive on %d,%d,%d" % (i, j, k))
        if mode[1] == "1":
            import re as _re
            from decimal import Decimal as _D
            def num(b):
                t = b.decode("latin-1")
                if not _re.fullmatch(r"-?(\d{1,15}(\.\d{1,10})?|\.\d{1,10})", t):
                    return None
                return _D(t if not t.startswith("-.") and not t.startswith(".") else t.replace(".", "0.", 1))
            for i in range(3):
                for j in range(3):
                    a, b = num(ks[i][0]), num(ks[j][0])
                    if a is None or b is None or a == b:
                        continue
                    exp = -1 if a > b else 1
                    if c[i][j] != exp:
                        run.violation(desc, "real-number comparator disagrees with numeric order on keys %d,%d (%s vs %s)" % (i, j, ks[i][0], ks[j][0]))
        if mode[0] == "1":
            def dec(b):
                n, base_ = 0, 1
                for x in b:
                    if x < 128:
                        return n + base_ * x
                    n += base_ * (255 - x); base_ <<= 7
                return n
            for i in range(3):
                for j in range(3):
                    a, b = (dec(ks[i][0]), ks[i][1] if mode[2] == "1" else 0), (dec(ks[j][0]), ks[j][1] if mode[2] == "1" else 0)
                    exp = -1 if a > b else (1 if a < b else 0)
                    if c[i][j] != exp:
                        run.violation(desc, "integer-key comparator disagrees with numeric order on %d,%d" % (i, j))
    # ---- the cached 115-byte prefix of a node's first key, as the store maintains it: node-level comparisons through the
    #      prefix must route every look-up as the full key would (directed scripts around the prefix length: head key
    #      deleted / re-inserted, short and long keys mixed; oracle = reference map + structure walk with the prefix/flag test)
    import kvcommon
    kvcommon.drive(run, "map", 0, 0, theorem_pid="C19", boundary=(30 if tier == "quick" else 1200), slack=False)
    return run.finish(level=LEVEL,
                      rule="boundary integers (+-2^k+-1, +-10^k+-1) x buffer sizes, random byte strings, key triples per key mode "
                           "(shared prefixes around 115 bytes, compound suffixes, numeric strings with signs/fractions/zeros/NUL); "
                           "a case is one query line; distinct = distinct query text",
                      assumptions=["real-number comparator: fraction compared in exact rational arithmetic in the model (long double in C); "
                                   "generator keeps fractions <= 12 digits and integer parts <= 18 digits where both agree"])


def replay(run, path):
    r = json.load(open(path))
    impl = vlib.build_harness("h_conv")
    if "query" in r:
        rc, out, err = vlib.run_lines(impl, r["query"] + "\n")
        print("query:", r["query"]); print("impl :", out[0]); print("recorded:", r.get("impl")); print("note:", r.get("note"))
        return 1 if out[0] == r.get("impl") else 0
    print(json.dumps(r, indent=1)); return 1
