# C01 - KV store behaves as an ordered map for every operation history
import json, os
import vlib, kvcommon

LEVEL = "proof"

def check(run):
    n = 24 if run.tier == "quick" else 400
    ops = 350 if run.tier == "quick" else 2500
    kvcommon.drive(run, "map", n, ops, boundary=(60 if run.tier == "quick" else 2000),
                   thin=(16 if run.tier == "quick" else 300), hugekey=(10 if run.tier == "quick" else 200))
    return run.finish(level=LEVEL, rule=kvcommon.RULE, assumptions=kvcommon.ASSUME)

def replay(run, path):
    return kvcommon.replay(run, path)
