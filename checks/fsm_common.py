# Shared by C10.py and C11.py: op-script generator (adaptive: talks to the implementation harness line by line, so
# that frees/reallocations refer to regions the implementation really returned), the ORACLE (an interval set of the
# client's live regions + the property statements, evaluated on the implementation's answers only, independent of the
# Coq model), the differential run of the extracted model on the same concrete script (T2) and replay.
import os, re, json, subprocess, shutil, tempfile, hashlib
from concurrent.futures import ProcessPoolExecutor
import vlib

PAGE = 4096
F_NOOVER, F_NOEXT, F_PAGE, F_NOSTATS, F_SOLID, F_SYNCBM = 1, 2, 4, 8, 16, 32
E_NOSPACE, E_NOTALIGNED, E_SEG, E_INVARGS, E_MAXOFF, E_OVERFLOW = 74001, 74003, 74004, 70017, 73004, 70019
U32MAX = (1 << 32) - 1
WCAP = 3 * PAGE  # at most this many bytes of a region carry a pattern
GROW_CAP = 8 * PAGE  # bitmap bytes (262144 blocks) after which a script stops extending the bitmap
EDGE_CAP = 4 * PAGE  # the boundary / full-file rounds grow the bitmap themselves only below this size
# Findings on the unchanged library whose patch (fixes/fsm-*.diff) is not committed yet.  Each is tied to one position of the
# code-variant string read from the source (variant_of_source): while the source still has the old text the finding is
# counted in the evidence distribution and the script ends there (default), or it is reported as a violation when named in
# VERIF_FSM_OPEN (comma list / all); as soon as the source carries the fix there is no tolerance at all.
#   realloc : _fsm_reallocate releases the header / the allocator's own bitmap / inserts an empty extent for an empty
#             old region (no guard as in _fsm_deallocate)                                   fixes/fsm-realloc-guard.diff
#   hint    : a hint address or a request of 2^32 blocks or more makes every lookup fail: NO_FREE_SPACE although space is
#             free, or the bitmap grows until the file cannot grow any more                  fixes/fsm-alloc-overflow.diff
#   leak    : a bitmap growth that fails in _fsm_init_lw (file size limit) leaves the blocks carved out for the new
#             bitmap allocated for good                                                      fixes/fsm-resize-leak.diff
# (assert : fixes/fsm-setbit-assert.diff is committed - a failing range assert is a violation, always.)
#   recheck : _fsm_reallocate looks at the old range only BEFORE it allocates the new region: a free "old region" can receive the
#             relocated bitmap and the final release frees it (strict mode too); strict refusal / failed copy leave the new
#             region allocated; a negative new length releases everything                  fixes/fsm-realloc-recheck.diff
KNOWN = {"realloc": 4, "hint": 5, "leak": 6, "recheck": 7, "solid": 8}
#   solid   : IWFSM_SOLID_ALLOCATED_SPACE that cannot extend the file returned IWFS_ERROR_MAXOFF after the region had been marked
#             allocated                                                          fixes/fsm-solid-rollback.diff (7b9f72c)
OPEN = set(x for x in os.environ.get("VERIF_FSM_OPEN", "").replace("all", ",".join(KNOWN)).split(",") if x)
VARIANT = None   # set per run (variant_of_source)


# all five are repaired in /repo (03fe895, ed23db4, cd47e17, a4374f7, 7b9f72c): the repaired behaviour is what the oracle demands,
# whatever tree is under test (a tree without a repair FAILS; the model still follows the text of that tree, so T2 stays exact and
# the pre-repair variants live on for the `_refuted` theorems).  A finding reported in a later round goes into KNOWN only.
REPAIRED = {"realloc", "hint", "leak", "recheck", "solid"}


def tolerated(name):
    """the finding `name` is known, not yet repaired in /repo, its patch is not in the source under test, and it was not asked to be reported"""
    if name in REPAIRED:
        return False
    v = VARIANT if VARIANT is not None else variant_of_source()
    return v[KNOWN[name]] == "0" and name not in OPEN
M64 = (1 << 64) - 1


def pat_byte(seed, i):
    """the byte pattern of harness/h_fsm.c"""
    z = (seed * 0x9E3779B97F4A7C15 + i * 0xBF58476D1CE4E5B9) & M64
    z ^= z >> 29
    return ((z * 0x94D049BB133111EB) & M64) >> 56


def ff_seed(start):
    """a pattern seed >= start whose first byte is 0xff (all eight bits set: a cleared bit is seen, a strict probe reads 1s)"""
    s = start
    while pat_byte(s, 0) != 0xff:
        s += 1
    return s


def variant_of_source():
    """which code variant the model has to follow: decided from the text of /repo's current iwfsmfile.c (T1-style:
    the two lines the fixes replace), validated by the differential run (T2)"""
    txt = open(os.path.join(vlib.REPO, "src", "fs", "iwfsmfile.c")).read()
    m = re.search(r"static iwrc _fsm_blk_deallocate_lw\(.*?\n}\n", txt, re.S)
    body = m.group(0) if m else ""
    lf = "0" if re.search(r"maxoff\s*=\s*lfbkoff\s*\?\s*lfbkoff\s*:", body) else "1"
    st = "1" if re.search(r"FSM_BM_DRY_RUN", body) else "0"
    m = re.search(r"static iwrc _fsm_blk_allocate_lw\(.*?\n}\n", txt, re.S)
    sy = "0" if re.search(r"sync_mmap\(pool,\s*fsm->bmoff\s*,", m.group(0) if m else "") else "1"
    m = re.search(r"static iwrc _fsm_deallocate\(.*?\n}\n", txt, re.S)
    sh = "1" if re.search(r"length_blk\s*<\s*1", m.group(0) if m else "") else "0"
    m = re.search(r"static iwrc _fsm_reallocate\(.*?\n}\n", txt, re.S)
    rg = "1" if re.search(r"IW_RANGES_OVERLAP\(oaddr_blk", m.group(0) if m else "") else "0"
    m = re.search(r"_fsm_find_matching_fblock_lw\(.*?\n}\n", txt, re.S)
    hi = "1" if re.search(r"offset_blk\s*=\s*\(uint32_t\)\s*-1", m.group(0) if m else "") else "0"
    m = re.search(r"static iwrc _fsm_resize_fsm_bitmap_lw\(.*?\n}\n", txt, re.S)
    lk = "1" if re.search(r"\bcarved\b", m.group(0) if m else "") else "0"
    m = re.search(r"static iwrc _fsm_reallocate\(.*?\n}\n", txt, re.S)
    rk = "1" if re.search(r"nlen\s*<\s*0", m.group(0) if m else "") else "0"
    m = re.search(r"static iwrc _fsm_blk_allocate_lw\(.*?\n}\n", txt, re.S)
    so = "1" if re.search(r"_fsm_blk_deallocate_lw\(fsm,\s*\*offset_blk,\s*\*olength_blk\)", m.group(0) if m else "") else "0"
    return lf + st + sy + sh + rg + hi + lk + rk + so


def roundup(x, v):
    return (x + v - 1) // v * v


class State:
    __slots__ = ("closed", "T", "n", "L", "B", "M", "F", "S", "A", "raw")

    def nbits(self):
        return self.M[1] * 8


def parse_out(out):
    """-> (rc, [ints], State|None)"""
    head, sep, st = out.partition(" | ")
    f = head.split()
    am = re.search(r" A=(\d+)$", out)
    st = re.sub(r" U=\d+(?= A=\d+$)", "", st)
    if not f or not re.match(r"^\d+$", f[0]):
        return None, [], None
    rc = int(f[0])
    vals = []
    for x in f[1:]:
        if re.match(r"^-?\d+$", x):
            vals.append(int(x))
    if not sep:
        return rc, vals, None
    s = State()
    s.raw = re.sub(r" A=\d+$", "", st)
    s.A = int(am.group(1)) if am else 0
    s.closed = st.startswith("closed")
    if s.closed:
        return rc, vals, s
    kv = dict(x.split("=", 1) for x in st.split())
    s.T = [] if kv["T"] == "-" else [tuple(int(y) for y in x.split(":")) for x in kv["T"].split(",")]
    s.n = int(kv["n"])
    s.L = tuple(int(y) for y in kv["L"].split(":"))
    s.B = None if kv["B"] == "?" else [int(x) for x in kv["B"].split(".")]
    s.M = tuple(int(y) for y in kv["M"].split(":"))  # bmoff, bmlen, hdrlen, bpow
    s.F = int(kv["F"])
    s.S = tuple(int(y) for y in kv["S"].split(":"))
    return rc, vals, s


def runs_of(B):
    """(zero runs [(off,len)], one runs [(off,len)]) of the RLE bitmap (alternating, starting with ones)"""
    z, o, pos = [], [], 0
    for i, c in enumerate(B):
        if c > 0:
            (z if i % 2 else o).append((pos, c))
        pos += c
    return z, o


def merge(iv):
    out = []
    for a, b in sorted(iv):
        if b <= a:
            continue
        if out and a <= out[-1][1]:
            out[-1][1] = max(out[-1][1], b)
        else:
            out.append([a, b])
    return [tuple(x) for x in out]


def aligned_path(T, L, au):
    """which path _fsm_blk_allocate_aligned_lw has to take for a request of L blocks over the free runs T = [(off,len)]
    (a function of the free-run layout only; used for the evidence distribution and by the layout generator, never for
    a verdict): 'none' | 'first' | 'scan' | 'scan-late' (full scan in which a run visited after the finally chosen one
    lies at a lower offset and is rejected) | 'scan-none' (full scan that finds nothing)"""
    def fits(o, l):
        n = roundup(o, au)
        return n < o + l and l - (n - o) >= L
    ks = sorted((l, o) for o, l in T)
    nn = next((k for k in ks if k[0] >= L + au), None) or next((k for k in ks if k[0] >= L), None)
    if nn is None:
        return "none"
    if fits(nn[1], nn[0]):
        return "first"
    ak, late = None, False
    for l, o in ks:
        if ak is None or o < ak:
            if fits(o, l):
                ak, late = o, False
            elif ak is not None:
                late = True
    return "scan-none" if ak is None else ("scan-late" if late else "scan")


class Oracle:
    """The abstract specification.  Knows only: what the client asked, what the implementation answered."""

    def __init__(self):
        self.live = {}    # addr -> len (bytes) : regions the client owns
        self.pat = {}     # addr -> (seed, nbytes) pattern the client wrote at addr
        self.st = None
        self.asserts = 0
        self.users = 0    # failures of the assert that restates the range guard on caller-supplied arguments
        self.init_sig = None
        self.cfg = None   # (bpow, strict, notrim, mmapall)
        self.pre_close = None
        self.v = []       # (property, message)
        self.cnt = {}     # which case splits the script reached (evidence distribution only)
        self.stop = False  # a tolerated known finding was hit: the map is no longer what the client thinks, the script ends
        self.maxoff = 0   # exfile size limit of the script (0 = none)

    def known(self, name, prop, msg):
        """a consequence of the known finding `name`: counted and the script ends (patch not committed, not asked for),
        otherwise a violation"""
        if name is not None and tolerated(name):
            self.count("open finding '%s' (fixes not committed; VERIF_FSM_OPEN=%s reports it)" % (name, name))
            self.stop = True
        else:
            self.bad(prop, msg)

    def count(self, k):
        self.cnt[k] = self.cnt.get(k, 0) + 1

    def bs(self):
        return 1 << self.st.M[3]

    def bad(self, prop, msg):
        self.v.append((prop, msg))

    def overlaps_live(self, a, l, skip=None):
        for x, xl in self.live.items():
            if x != skip and a < x + xl and x < a + l:
                return (x, xl)
        return None

    def ends_beyond(self, line):
        """does the request of `line` name a block range that ends behind the last block the bitmap describes"""
        f = line.split()
        if self.st is None or self.st.closed or f[0] not in ("free", "realloc", "chk"):
            return False
        bp = self.st.M[3]
        a, l = (int(f[2]), int(f[3])) if f[0] == "realloc" else (int(f[1]), int(f[2]))
        return a >= 0 and l >= 0 and (a >> bp) + (l >> bp) > self.st.nbits()

    def user_assert(self, line, u):
        if self.ends_beyond(line):
            # fixed by 6e3c8a6 (fixes/fsm-setbit-assert.diff): no tolerance any more
            self.bad("C10", "%s: a request that ends behind the bitmap fails an assert() of _fsm_set_bit_status_lw "
                            "before the guard that refuses it (a debug build aborts instead of returning an error)" % line)
        else:
            self.bad("C11", "%s: the range assert of _fsm_set_bit_status_lw failed for a request inside the bitmap (count %d -> %d)" % (
                line, self.users, u))
        self.users = u

    def unchanged(self, prev, s):
        """None or a text saying what differs between two printed states (map, index, cache, geometry, file size, counters)"""
        if prev is None or s is None or prev.closed or s.closed:
            return None
        for nm, x, y in (("bitmap", prev.B, s.B), ("free-extent tree", sorted(prev.T), sorted(s.T)), ("extent cache", prev.L, s.L),
                         ("number of extents", prev.n, s.n), ("bmoff:bmlen:hdrlen:bpow", prev.M, s.M), ("file size", prev.F, s.F),
                         ("allocation counters", prev.S, s.S)):
            if x != y:
                return "%s %s -> %s" % (nm, str(x)[:120], str(y)[:120])
        return None

    def hint_rules(self, line, ln, hint, fl, rc, prev, s):
        """the address hint is a hint: whether a request can be served does not depend on it.  (a) with NO_EXTEND the
        answer NO_FREE_SPACE is right only if no free run holds the request; (b) the bitmap does not grow while a free
        run holds the request; (c) a request that no file can hold (2^32 blocks or more: extents are 32-bit) is refused
        with everything unchanged.  Page-aligned requests aside (their fit depends on the alignment of the runs)."""
        bp = prev.M[3]
        want = roundup(ln, 1 << bp) >> bp
        hb = (hint & M64) >> bp
        big_hint = hb > U32MAX
        if big_hint:
            self.count("alloc with a hint of 2^32 blocks or more / negative")
        if want > U32MAX:
            self.count("alloc of 2^32 blocks or more")
            if rc == 0 or self.unchanged(prev, s):
                self.known("hint", "C10", "%s: a request of %d blocks (no extent can hold 2^32 blocks) %s" % (
                    line, want, "succeeded" if rc == 0 else "failed with rc=%d after changing the state: %s" % (rc, self.unchanged(prev, s))))
            return
        if fl & F_PAGE:
            return
        fit = any(l >= want for _, l in runs_of(prev.B)[0])
        if fit and rc == E_NOSPACE:
            self.known("hint" if big_hint else None, "C10",
                       "%s: NO_FREE_SPACE although a free run of >= %d blocks exists (hint block %d)" % (line, want, hb))
        elif fit and s.M[1] != prev.M[1]:
            self.known("hint" if big_hint else None, "C10",
                       "%s: the bitmap grew %d -> %d bytes although a free run of >= %d blocks existed (hint block %d), rc=%d" % (
                           line, prev.M[1], s.M[1], want, hb, rc))

    # ---- structural statements, after every operation that prints the state
    def structure(self, s, what):
        zr, on = runs_of(s.B)
        bsz = 1 << s.M[3]
        if sum(s.B) != s.M[1] * 8:
            self.bad("C11", "%s: bitmap has %d bits, bmlen*8 = %d" % (what, sum(s.B), s.M[1] * 8))
        if sorted(s.T) != zr:
            self.bad("C11", "%s: free-extent tree %s is not the set of maximal zero runs of the bitmap %s" % (
                what, sorted(s.T)[:12], zr[:12]))
        elif [(l, o) for o, l in s.T] != sorted((l, o) for o, l in s.T) or s.n != len(s.T):
            self.bad("C11", "%s: tree order/count broken: %s n=%d" % (what, s.T[:12], s.n))
        if s.A > self.asserts:
            self.bad("C11", "%s: an internal assert() of iwfsmfile.c failed (count %d -> %d)" % (what, self.asserts, s.A))
        self.asserts = s.A
        hdr = (0, s.M[2])
        bmp = (s.M[0], s.M[0] + s.M[1])
        for a, l in self.live.items():
            for nm, (x, y) in (("file header", hdr), ("allocator bitmap", bmp)):
                if a < y and x < a + l:
                    self.bad("C10", "%s: live region [%d,+%d) overlaps the %s [%d,%d)" % (what, a, l, nm, x, y))
        used = merge([(o * bsz, (o + l) * bsz) for o, l in on])
        owned = merge([hdr, bmp] + [(a, a + l) for a, l in self.live.items()])
        owned = merge([(a // bsz * bsz, roundup(b, bsz)) for a, b in owned])
        if used != owned:
            # which side is wrong
            lost = [iv for iv in owned if not any(u[0] <= iv[0] and iv[1] <= u[1] for u in used)]
            if lost:
                self.bad("C10", "%s: blocks of a live region / header / bitmap are marked free in the bitmap: owned %s used %s" % (
                    what, lost[:4], used[:6]))
            else:
                self.bad("C11", "%s: allocated blocks that nobody owns (not conserved): bitmap %s, owners %s" % (
                    what, used[:8], owned[:8]))

    def feed(self, line, out):
        """returns number of new violations"""
        n0 = len(self.v)
        f = line.split()
        c = f[0]
        if c == "hdr":    # header read-back: compared with the model only (T2)
            return 0
        if c == "maxoff":
            self.maxoff = int(f[1])
            return 0
        rc, vals, s = parse_out(out)
        um = re.search(r" U=(\d+) A=\d+$", out)
        if um and c != "open" and int(um.group(1)) > self.users:
            self.user_assert(line, int(um.group(1)))
        if rc is None:
            self.bad("C10", "implementation harness answered `%s` to `%s`" % (out[:80], line))
            return len(self.v) - n0
        prev = self.st
        if s is not None and not s.closed and s.B is None:
            self.bad("C11", "%s: the bitmap area of the implementation is no longer readable (not mapped / outside the file)" % line)
            self.bad("C10", "%s: the bitmap area of the implementation is no longer readable (not mapped / outside the file)" % line)
            return len(self.v) - n0
        if c == "open":
            self.live, self.pat, self.asserts, self.users = {}, {}, 0, 0
            self.cfg = (int(f[1]), f[4] == "1", f[5] == "1", f[6] == "1")
            if rc != 0 or s is None or s.closed:
                self.bad("C10", "open failed rc=%d" % rc)
                return len(self.v) - n0
            self.st = s
            self.init_sig = (sorted(s.T), s.B, s.M)
            self.structure(s, line)
        elif c == "alloc":
            ln, hint, fl = int(f[1]), int(f[2]), int(f[3])
            self.st = s
            bsz = self.bs()
            if (fl & F_PAGE) and ln > 0 and prev is not None and not prev.closed:
                self.count("page-aligned alloc: " + aligned_path(prev.T, roundup(ln, bsz) // bsz, max(1, PAGE // bsz)))
            if rc == 0:
                a, l = vals[0], vals[1]
                want = roundup(ln, bsz)
                if fl & F_SOLID:
                    self.count("solid alloc")
                    if l > want:
                        self.count("solid alloc, over-allocated")
                        if prev is not None and a + l > max(prev.F, roundup(a + want, PAGE)):
                            self.count("solid alloc, over-allocated tail beyond EOF in a further page")
                if a % bsz or l % bsz:
                    self.bad("C10", "%s: region (%d,%d) not aligned to the block size %d" % (line, a, l, bsz))
                if (fl & F_PAGE) and a % PAGE:
                    self.bad("C10", "%s: region at %d not page aligned" % (line, a))
                if l < want or ((fl & F_NOOVER) and l != want):
                    self.bad("C10", "%s: returned length %d, rounded request %d" % (line, l, want))
                if (fl & F_SOLID) and a + l > s.F:
                    self.bad("C10", "%s: solid space requested but region ends at %d beyond the file size %d" % (line, a + l, s.F))
                ov = self.overlaps_live(a, l)
                if ov:
                    self.bad("C10", "%s: returned region (%d,%d) overlaps live region %s" % (line, a, l, ov))
                self.live[a] = l
                self.pat.pop(a, None)
            elif not (rc == E_NOSPACE and (fl & F_NOEXT)) and not (rc == E_INVARGS and ln <= 0) and not (
                    self.maxoff and rc in (E_MAXOFF, E_OVERFLOW)):
                self.bad("C10", "%s: allocation failed with rc=%d" % (line, rc))
            if ln > 0 and prev is not None and not prev.closed and not self.stop:
                self.hint_rules(line, ln, hint, fl, rc, prev, s)
            if not self.stop:
                n1 = len(self.v)
                self.structure(s, line)
                if rc == E_MAXOFF and self.maxoff:
                    # a growth that failed at the file size limit: nothing may stay allocated for the bitmap that was not set up
                    lost = [x for x in self.v[n1:] if "nobody owns" in x[1]]
                    if lost:
                        self.v[n1:] = [x for x in self.v[n1:] if x not in lost]
                        self.known("solid" if (fl & F_SOLID) else "leak", "C11", "%s: failed with rc=%d at the file size limit %d and left blocks allocated: %s" % (
                            line, rc, self.maxoff, lost[0][1][:300]))
        elif c == "realloc":
            nlen, addr, olen, fl = int(f[1]), int(f[2]), int(f[3]), int(f[4])
            self.st = s
            bsz = self.bs()
            if f[-1] == "meta":      # generator's annotation: the old range is empty or touches the header / the bitmap area
                self.count("realloc of the header / the bitmap area / an empty region")
                if rc == 0:
                    self.known("realloc", "C10", "%s: reallocation of a range that is empty or belongs to the file header / the "
                               "allocator's bitmap accepted -> %s; header [0,%d) bitmap [%d,+%d)" % (line, vals, prev.M[2], prev.M[0], prev.M[1]))
                else:
                    d = self.unchanged(prev, s)
                    if d:   # (the growing branch allocates - and may relocate the bitmap - before it comes to the old range)
                        self.known("realloc", "C10", "%s: refused with rc=%d but the state changed: %s" % (line, rc, d))
                if not self.stop:
                    self.structure(s, line)
                return len(self.v) - n0
            if f[-1] in ("unowned", "negative"):
                # unowned: the old range is a free run (strict mode: any range with a free block): refused - in strict mode with
                # nothing changed; without strict mode the library cannot know, but its own areas stay intact and nothing is lost.
                # negative: a new length below zero: refused, nothing changes
                self.count("realloc of a range the caller does not own" if f[-1] == "unowned" else "realloc to a negative length")
                strict = self.cfg[1] if self.cfg else False
                d = self.unchanged(prev, s)
                if f[-1] == "negative" or strict:
                    if rc == 0:
                        self.known("recheck", "C10", "%s: accepted -> %s" % (line, vals))
                    elif d:
                        self.known("recheck", "C10", "%s: refused with rc=%d but the state changed: %s" % (line, rc, d))
                elif rc == 0:
                    a, l = vals[0], vals[1]
                    if l > 0:
                        self.live[a] = l
                if not self.stop:
                    n1 = len(self.v)
                    self.structure(s, line)
                    if self.v[n1:]:
                        msg = self.v[n1][1]
                        del self.v[n1:]
                        self.known("recheck", "C10", msg)
                return len(self.v) - n0
            if f[-1] == "invalid":   # generator's annotation: the old range does not lie inside the addressable space
                self.count("realloc-invalid")
                if rc == 0:
                    self.bad("C10", "%s: reallocation of a range that ends behind the addressable space accepted -> %s" % (line, vals))
                else:
                    d = self.unchanged(prev, s)
                    if d:
                        self.bad("C10", "%s: refused with rc=%d but the state changed: %s" % (line, rc, d))
                self.structure(s, line)
                return len(self.v) - n0
            if rc == 0:
                a, l = vals[0], vals[1]
                want = roundup(nlen, bsz)
                pat = self.pat.pop(addr, None)
                self.live.pop(addr, None)
                if want == olen:
                    if (a, l) != (addr, olen):
                        self.bad("C10", "%s: same size, region changed to (%d,%d)" % (line, a, l))
                elif want < olen:
                    if (a, l) != (addr, want):
                        self.bad("C10", "%s: shrink returned (%d,%d)" % (line, a, l))
                else:
                    if a % bsz or l % bsz or l < want or ((fl & F_NOOVER) and l != want) or ((fl & F_PAGE) and a % PAGE):
                        self.bad("C10", "%s: returned region (%d,%d) misaligned or too short" % (line, a, l))
                    ov = self.overlaps_live(a, l)
                    if ov:
                        self.bad("C10", "%s: returned region (%d,%d) overlaps live region %s" % (line, a, l, ov))
                    if (fl & F_SOLID) and a + l > s.F:
                        self.bad("C10", "%s: solid space requested but region ends at %d beyond the file size %d" % (line, a + l, s.F))
                if l > 0:
                    self.live[a] = l
                    if pat:
                        self.pat[a] = (pat[0], min(pat[1], l))
            elif not (rc == E_NOSPACE and (fl & F_NOEXT)) and not (self.maxoff and rc == E_MAXOFF):
                self.bad("C10", "%s: reallocation failed with rc=%d" % (line, rc))
            if rc == E_MAXOFF and self.maxoff:
                # the copy could not bring the new region inside the file: the new region must have been given back
                n1 = len(self.v)
                self.structure(s, line)
                lost = [x for x in self.v[n1:] if "nobody owns" in x[1]]
                if lost:
                    self.v[n1:] = [x for x in self.v[n1:] if x not in lost]
                    self.known("recheck", "C11", "%s: failed with rc=%d at the file size limit %d and left the new region allocated: %s" % (
                        line, rc, self.maxoff, lost[0][1][:300]))
                return len(self.v) - n0
            self.structure(s, line)
        elif c == "free":
            addr, ln = int(f[1]), int(f[2])
            self.st = s
            kind = f[3] if len(f) > 3 else "ok"   # generator's annotation: ok | invalid
            if kind == "invalid":
                if rc == 0:
                    self.bad("C10", "%s: invalid release accepted" % line)
                elif prev and (sorted(s.T), s.B, s.L) != (sorted(prev.T), prev.B, prev.L):
                    self.bad("C10", "%s: release refused with rc=%d but the map changed: bitmap %s -> %s, tree %s -> %s" % (
                        line, rc, prev.B[:10], s.B[:10], sorted(prev.T)[:8], sorted(s.T)[:8]))
                elif self.unchanged(prev, s):
                    self.bad("C10", "%s: release refused with rc=%d but the state changed: %s" % (line, rc, self.unchanged(prev, s)))
            else:
                if rc != 0:
                    self.bad("C10", "%s: release of a live range failed rc=%d" % (line, rc))
                else:
                    self.release(addr, ln)
            self.structure(s, line)
        elif c == "chk":
            exp = f[4] if len(f) > 4 else None
            if exp == "yes" and rc != 0:
                self.bad("C11", "%s: status query says no (rc=%d), oracle says yes" % (line, rc))
            if exp == "no" and rc == 0:
                self.bad("C11", "%s: status query says yes, oracle says no" % line)
        elif c == "w":
            if rc != 0 or vals[0] != int(f[2]):
                self.bad("C10", "%s: write into a live region failed: %s" % (line, out))
            else:
                self.pat[int(f[1])] = (int(f[3]), int(f[2]))
                if self.st is not None and len(vals) > 1:
                    self.st.F = vals[1]   # a write may grow the file
        elif c == "r":
            if rc != 0 or vals[0] != int(f[2]) or vals[1] != -1:
                self.bad("C10", "%s: bytes of a live region changed (rc, read, first bad index) = %s" % (line, out))
        elif c == "clear":
            self.st = s
            self.live, self.pat = {}, {}
            if rc != 0:
                self.bad("C11", "clear failed rc=%d" % rc)
            elif (s.M[0], s.M[2], s.M[3]) != (self.init_sig[2][0], self.init_sig[2][2], self.init_sig[2][3]) or (
                    s.M[1] == self.init_sig[2][1] and (sorted(s.T), s.B, s.M) != self.init_sig):
                self.bad("C11", "clear does not restore the initial state: %s vs %s" % ((sorted(s.T), s.B, s.M), self.init_sig))
            self.structure(s, line)
        elif c == "sync":
            self.st = s
            if rc != 0:
                self.bad("C11", "sync failed rc=%d" % rc)
            self.structure(s, line)
        elif c == "close":
            if rc != 0:
                self.bad("C11", "close failed rc=%d" % rc)
            self.pre_close = (prev, vals[0] if vals else -1)
            self._closed_notrim = self.cfg[2] if self.cfg else False
            am = re.search(r" A=(\d+)$", out)
            if am and int(am.group(1)) > self.asserts:
                self.bad("C11", "close: an internal assert() of iwfsmfile.c failed")
                self.asserts = int(am.group(1))
        elif c == "reopen":
            if rc != 0 or s is None or s.closed:
                self.bad("C11", "reopen failed rc=%d" % rc)
                return len(self.v) - n0
            self.st = s
            self.cfg = (s.M[3], f[1] == "1", f[2] == "1", f[3] == "1")
            self.structure(s, "close+reopen")   # same regions allocated and free as before
            before, fsz = self.pre_close
            if before is not None:
                if (s.M[1], s.M[2], s.M[3]) != (before.M[1], before.M[2], before.M[3]):
                    self.bad("C11", "reopen: bmlen/hdrlen/bpow changed %s -> %s (blocks_num %d -> %d)" % (
                        before.M, s.M, before.M[1] * 8, s.M[1] * 8))
                # the same blocks are allocated as before the close (the allocator's own bitmap area aside: trim may move it)
                def client_blocks(x):
                    bz = 1 << x.M[3]
                    own = (x.M[0] // bz, (x.M[0] + x.M[1]) // bz)
                    out = []
                    for o, l in runs_of(x.B)[1]:
                        for a, b in ((o, min(o + l, own[0])), (max(o, own[1]), o + l)):
                            if a < b:
                                out.append((a, b))
                    return merge(out)
                if client_blocks(before) != client_blocks(s):
                    self.bad("C11", "reopen: the set of allocated blocks differs from the one at close: %s -> %s" % (
                        client_blocks(before)[:8], client_blocks(s)[:8]))
                if not before.T:
                    self.count("close+reopen of a file without a free block")
                    if (before.M, before.B, before.F) != (s.M, s.B, s.F) or s.T:
                        self.bad("C11", "reopen of a file that had no free block at close: bitmap area/file size %s F=%d -> %s F=%d, "
                                        "free extents now %s" % (before.M, before.F, s.M, s.F, sorted(s.T)[:6]))
                _, on = runs_of(s.B)
                bsz = 1 << s.M[3]
                last = (on[-1][0] + on[-1][1]) * bsz if on else 0
                notrim = self._closed_notrim
                exp = before.F if notrim else min(before.F, roundup(last, PAGE))
                if fsz != exp and before.T:
                    self.bad("C11", "close: file size %d, expected %d (end of last used block %d, size before close %d, trim %s)" % (
                        fsz, exp, last, before.F, not notrim))
        return len(self.v) - n0

    _closed_notrim = False

    def release(self, addr, ln):
        """client gives back [addr, addr+ln) which lies inside one live region"""
        for a, l in list(self.live.items()):
            if a <= addr and addr + ln <= a + l:
                del self.live[a]
                pat = self.pat.pop(a, None)
                if addr > a:
                    self.live[a] = addr - a
                    if pat:
                        self.pat[a] = (pat[0], min(pat[1], addr - a))
                if addr + ln < a + l:
                    self.live[addr + ln] = a + l - (addr + ln)
                return
        self.bad("C10", "generator released a range it does not own (%d,%d)" % (addr, ln))


# ------------------------------------------------------------------------------------------------
class Impl:
    def __init__(self, exe, wd):
        self.p = subprocess.Popen([exe, wd], stdin=subprocess.PIPE, stdout=subprocess.PIPE, stderr=subprocess.DEVNULL)

    def ask(self, line):
        try:
            self.p.stdin.write((line + "\n").encode())
            self.p.stdin.flush()
            out = self.p.stdout.readline().decode("latin-1")
        except (BrokenPipeError, OSError):
            out = ""
        if not out:
            return "CRASHED rc=%s" % self.p.poll()
        return out.rstrip("\n")

    def close(self):
        try:
            self.p.stdin.close()
            self.p.wait(timeout=20)
        except Exception:
            self.p.kill()


SIZES_BLK = [(1, 6), (2, 4), (3, 2), (4, 8), (5, 1), (8, 3), (16, 2), (63, 1), (64, 2), (65, 1), (100, 1)]


def gen_script(rng, impl, nops, focus, scripted=None):
    """adaptive generation; returns (lines, outs, oracle, stop_index|None)"""
    orc = Oracle()
    lines, outs = [], []

    grace = [12]

    def do(line):
        out = impl.ask(line)
        lines.append(line)
        outs.append(out)
        n0 = len(orc.v)
        orc.feed(line, out)
        new = orc.v[n0:]
        if out.startswith("CRASHED") or orc.stop or any(p_ == focus for p_, _ in new):
            return False
        if new or grace[0] < 12:
            # the implementation already contradicts the OTHER property of the family (e.g. index != bitmap): a few more
            # operations are run so that the consequence under this property's statement (e.g. a region handed out twice) shows
            grace[0] -= 1
            if grace[0] <= 0:
                return False
        return True

    # every script starts with `maxoff n`: the exfile size limit of its opens (0 = none; the harness and the model driver keep
    # the value across scripts, so it is always stated)
    if scripted is not None:
        if not scripted[0].startswith("maxoff"):
            do("maxoff 0")
        for l in scripted:
            if not do(l):
                return lines, outs, orc, (None if orc.stop and not orc.v else len(lines) - 1)
        return lines, outs, orc, None

    bpow = rng.weighted([(6, 6), (0, 1), (7, 2), (8, 2), (9, 2), (10, 1), (11, 1), (12, 2)])
    strict = rng.chance(1, 2)
    notrim = rng.chance(1, 4)
    mmapall = rng.chance(1, 2)
    hdrlen = rng.choice([0, 0, 64, 100, 255, 4000])
    bmlen = rng.choice([0, 0, 0, 8192])
    overflow = rng.chance(1, 12)   # script kind "overflow": a file with a size limit, requests no block key can express
    do("maxoff %d" % (rng.choice([16, 32, 64]) * PAGE if overflow else 0))
    if not do("open %d %d %d %d %d %d" % (bpow, hdrlen, bmlen, strict, notrim, mmapall)):
        return lines, outs, orc, 1
    seedc = [rng.below(1 << 30)]
    favourite = rng.choice([1, 2, 4, 4, 8])  # scripts dominated by one size produce exact fits
    # script mode.  "mixed": the uniform mix.  "solid": statistics are kept, sizes cluster (so that the over-allocation
    # decision fires), regions are rarely written (so that the file stays short and free extents lie beyond its end) and
    # solid space is requested from extents whose remainder reaches into a further page.  "aligned": free-run layouts are
    # laid out around the fit threshold of a page-aligned request (length vs. distance to the next page boundary, no run
    # of request + one page), so that _fsm_blk_allocate_aligned_lw / bitmap relocation / trim take the full scan.
    mode = "overflow" if overflow else rng.weighted([("mixed", 13), ("solid", 3), ("aligned", 4 if bpow not in (12,) else 0)])
    wnum, wden = rng.choice([(0, 1), (1, 8), (1, 3)]) if mode == "solid" else (2, 3)
    orc.count("mode " + mode)

    def flags():
        if mode == "solid" and rng.chance(3, 4):
            return rng.weighted([(0, 4), (F_SOLID, 4), (F_SOLID | F_SYNCBM, 1), (F_NOOVER, 1), (F_SOLID | F_NOOVER, 1),
                                 (F_SOLID | F_NOSTATS, 1)])
        fl = rng.weighted([(F_NOOVER | F_NOSTATS, 5), (0, 3), (F_NOOVER, 1), (F_NOSTATS, 1), (-1, 3)])
        if fl == -1:
            fl = rng.below(64)
        return fl

    def alloc_line(ln, hint, fl, write=True):
        """one allocation; appends the observed over-allocation decision for the model; -> (ok, addr, len) """
        if orc.st.M[1] >= GROW_CAP:
            fl |= F_NOEXT
        ok = do("alloc %d %d %d" % (ln, hint, fl))
        rc, vals, _ = parse_out(outs[-1])
        if rc == 0 and len(vals) > 1 and vals[1] > roundup(ln, orc.bs()):
            lines[-1] += " 1"     # (also when the oracle has just objected: the model must follow the same decision)
        if not ok:
            return False, None, None
        if rc != 0:
            return True, None, None
        if write and not write_pat(vals[0], vals[1]):
            return False, vals[0], vals[1]
        return True, vals[0], vals[1]

    def run_at(blk):
        """the maximal free run of the current bitmap that contains block blk"""
        for o, l in runs_of(orc.st.B)[0]:
            if o <= blk < o + l:
                return o, l
        return None

    def do_solid_round():
        """clustered sizes with statistics and without writes, then solid requests a little shorter than a free extent"""
        bsz = orc.bs()
        au = max(1, PAGE // bsz)
        base = max(rng.range(2, 4) * au, 12) + rng.below(au)
        j = rng.range(1, 3)
        got = []
        for _ in range(rng.range(4, 9)):
            ln = max(1, base + rng.range(-j, j)) * bsz - rng.choice([0, 0, 1])
            ok, a, l = alloc_line(ln, 0, rng.weighted([(0, 6), (F_NOOVER, 2), (F_SOLID, 1)]), write=False)
            if not ok:
                return False
            if a is not None:
                got.append(a)
        victims = [got[i] for i in sorted(set(rng.below(len(got)) for _ in range(rng.range(1, 3))))] if got else []
        for a in victims:
            if a not in orc.live:
                continue
            if not do("free %d %d" % (a, orc.live[a])):
                return False
            r_ = run_at(a // bsz)
            if r_ is None:
                continue
            o, rl = r_
            r0 = (o + rl) % au or au          # blocks of the run behind its last page boundary
            rest = rng.choice([r0, r0, r0, r0 + 1, max(1, r0 - 1), rng.range(1, 6)])
            if rest >= rl or rl > 64 * au:
                continue
            fl = F_SOLID | rng.choice([0, 0, 0, F_SYNCBM, F_NOSTATS])
            ok, _, _ = alloc_line((rl - rest) * bsz - rng.choice([0, 0, 1]), o * bsz if rng.chance(2, 3) else 0, fl,
                                  write=rng.chance(1, 3))
            if not ok:
                return False
        return True

    def do_layout():
        """all free space is taken, then free runs are cut out of the largest live region at chosen distances from the
        page boundaries with lengths around the fit threshold of a page-aligned request of L blocks; then the request"""
        bsz = orc.bs()
        au = max(1, PAGE // bsz)
        zr = runs_of(orc.st.B)[0]
        if len(zr) > 10:
            return True
        for o, l in zr:
            ok, _, _ = alloc_line(l * bsz, o * bsz, F_NOOVER | F_NOSTATS | F_NOEXT, write=rng.chance(1, 4))
            if not ok:
                return False
        if not orc.live:
            return True
        ca = max(orc.live, key=lambda x: orc.live[x])
        cb, cl = ca // bsz, orc.live[ca] // bsz
        lk = rng.weighted([(1, 4), (2, 2), (3, 1)])
        L = lk * au if rng.chance(3, 4) else max(1, lk * au + rng.range(-2, 2))
        stride = lk + 3
        p0 = roundup(cb, au) // au + 1
        nslots = ((cb + cl) // au - p0) // stride
        n = min(rng.range(3, 9), nslots)
        if n < 1:
            return True
        span = min(nslots, rng.choice([n, 2 * n, 16, nslots]))
        slots = set()
        while len(slots) < n:
            slots.add(rng.below(max(span, n)))

        def pick(lo, hi):
            return lo if hi <= lo else rng.choice([lo, hi, min(lo + 1, hi), max(hi - 1, lo), rng.range(lo, hi)])

        # a run at distance delta behind a page boundary holds the aligned request iff its length >= T = L + (au - delta) % au.
        # Run kinds: too short for L / long enough for L but not from the next boundary on / fitting; lengths sit at the
        # two thresholds.  At most one run of L + au blocks or more per layout (then the first attempt is not abandoned).
        big = rng.chance(1, 6)
        specs = []
        for i in range(n):
            cat = rng.weighted([("short", 1), ("misfit", 4 if au > 1 else 0), ("fit", 3)])
            if cat == "misfit":
                delta = rng.choice([1, 1, 2 % au or 1, au - 1, au // 2 or 1, rng.range(1, au - 1)])
            else:
                delta = rng.choice([0, 0, 0, 1, au - 1, au // 2, rng.below(au)]) % au
            T = L + (au - delta) % au
            if cat == "short":
                ln = pick(1, L - 1)
            elif cat == "misfit":
                ln = rng.choice([T - 1, T - 1, L, pick(L, T - 1)])
            else:
                ln = rng.choice([T, T, T + 1, pick(T, L + au - 1)])
            if big and i == 0:
                ln = L + au + rng.range(0, 3)
            specs.append((ln, delta))
        # the index is walked in (length, offset) order while the scan prefers low offsets: offset order against /
        # along / independent of the length order
        order = rng.weighted([("anti", 2), ("corr", 1), ("rand", 1)])
        slots = sorted(slots, key=lambda x: (x * 2654435761) & 0xffff)
        if order != "rand":
            specs.sort()
            slots = sorted(slots, reverse=(order == "anti"))
        start = 0
        for (ln, delta), sl in zip(specs, slots):
            pb = p0 + sl * stride
            start = pb * au + delta
            ln = max(1, min(ln, (pb + stride) * au - 1 - start, cb + cl - start))
            if not do("free %d %d" % (start * bsz, ln * bsz)):
                return False
        for _ in range(rng.range(1, 3)):
            fl = F_PAGE | rng.choice([F_NOEXT, F_NOEXT, 0]) | rng.choice([0, 0, F_NOOVER | F_NOSTATS, F_SOLID, F_NOSTATS])
            ok, _, _ = alloc_line(L * bsz - rng.choice([0, 0, 0, 1]), rng.choice([0, 0, start * bsz]), fl)
            if not ok:
                return False
        return True

    def do_alloc():
        s = orc.st
        bsz = 1 << s.M[3]
        zr, _ = runs_of(s.B)
        # the bitmap may grow up to GROW_CAP bytes per script; beyond that allocations carry NO_EXTEND (the list-based
        # model is linear in the bitmap length, a script that keeps doubling it would dominate the whole run)
        capped = s.M[1] >= GROW_CAP
        kind = rng.weighted([("fav", 8), ("small", 6), ("bytes", 3), ("exact", 5), ("page", 2),
                             ("big", 1 if (rng.chance(1, 3) and not capped) else 0), ("zero", 1),
                             ("near", 5 if mode == "solid" else 1)])
        fl = flags()
        hint = 0
        if kind == "fav":
            ln = favourite * bsz
        elif kind == "small":
            ln = rng.weighted(SIZES_BLK) * bsz
        elif kind == "bytes":
            ln = max(1, rng.weighted(SIZES_BLK) * bsz + rng.range(-2, 2))
        elif kind == "exact" and zr:
            small = [r_ for r_ in zr if r_[1] <= 2048]
            o, l = rng.choice(small) if small and not rng.chance(1, 8) else rng.choice(zr)
            ln = l * bsz
            hint = o * bsz if rng.chance(2, 3) else 0
            if rng.chance(1, 2):
                fl |= F_NOEXT
            if l > 4096:
                fl &= ~F_SOLID
        elif kind == "near" and [r_ for r_ in zr if 2 <= r_[1] <= 2048]:
            # a little less than a free run: the remainder is what the over-allocation decision looks at; the lengths aim
            # at a request that ends at the last page boundary inside the run
            o, l = rng.choice([r_ for r_ in zr if 2 <= r_[1] <= 2048])
            au = max(1, PAGE // bsz)
            d = rng.choice([1, 2, (o + l) % au or au, rng.range(1, 6)])
            ln = max(1, l - d) * bsz
            hint = o * bsz if rng.chance(2, 3) else 0
        elif kind == "page":
            ln = rng.range(1, 3) * PAGE
            fl |= F_PAGE if rng.chance(3, 4) else 0
        elif kind == "big":
            tail = zr[-1][1] if zr else 1
            ln = max(1, min(tail + rng.range(-2, 40), 40000)) * bsz
            fl &= ~F_SOLID
        elif kind == "zero":
            ln = rng.choice([0, -1])
        else:
            ln = bsz
        if rng.chance(1, 4) and orc.live:
            hint = rng.choice(sorted(orc.live)) + rng.choice([0, 1, bsz])
        elif rng.chance(1, 6) and zr:
            hint = rng.choice(zr)[0] * bsz
        if (fl & F_SOLID) and ln > 64 * PAGE:
            fl &= ~F_SOLID
        if capped:
            fl |= F_NOEXT
        ok = do("alloc %d %d %d" % (ln, hint, fl))
        rc, vals, _ = parse_out(outs[-1])
        # the oracle decision of the over-allocation heuristic, observed on the implementation
        if rc == 0 and len(vals) > 1 and vals[1] > roundup(ln, bsz):
            lines[-1] += " 1"
        if not ok:
            return False
        if rc == 0:
            return write_pat(vals[0], vals[1])
        return True

    def write_pat(a, l):
        if wnum and rng.chance(wnum, wden) and l > 0:
            n = min(l, WCAP)
            seedc[0] += 1
            return do("w %d %d %d" % (a, n, seedc[0]))
        return True

    def read_pat(a):
        p = orc.pat.get(a)
        if p and p[1] > 0:
            return do("r %d %d %d" % (a, p[1], p[0]))
        return True

    def do_free():
        if not orc.live:
            return True
        bsz = orc.bs()
        a = rng.choice(sorted(orc.live))
        l = orc.live[a]
        if not read_pat(a):
            return False
        nb = l // bsz
        how = rng.weighted([("all", 8), ("prefix", 1), ("suffix", 1), ("middle", 1)]) if nb > 1 else "all"
        if how == "all":
            o, k = 0, nb
        elif how == "prefix":
            o, k = 0, rng.range(1, nb - 1)
        elif how == "suffix":
            k = rng.range(1, nb - 1); o = nb - k
        else:
            o = rng.range(0, nb - 1); k = rng.range(1, nb - o)
        return do("free %d %d" % (a + o * bsz, k * bsz))

    def do_free_neighbours():
        """release two or three address-adjacent live regions one after another, in ascending or descending order"""
        if len(orc.live) < 2:
            return do_free()
        ks = sorted(orc.live)
        i = rng.below(len(ks) - 1)
        grp = [ks[i]]
        while len(grp) < 3 and i + 1 < len(ks) and ks[i + 1] == grp[-1] + orc.live[grp[-1]]:
            i += 1
            grp.append(ks[i])
        if rng.chance(1, 2):
            grp.reverse()
        for a in grp:
            if not do("free %d %d" % (a, orc.live[a])):
                return False
        return True

    def do_realloc():
        if not orc.live:
            return True
        bsz = orc.bs()
        a = rng.choice(sorted(orc.live))
        l = orc.live[a]
        nb = l // bsz
        kind = rng.weighted([("grow", 5), ("shrink", 3), ("same", 1), ("zero", 1)])
        if kind == "grow":
            nl = l + rng.weighted(SIZES_BLK) * bsz - rng.choice([0, 0, 1])
        elif kind == "shrink" and nb > 1:
            nl = rng.range(1, nb - 1) * bsz - rng.choice([0, 0, 1])
        elif kind == "zero":
            nl = 0
        else:
            nl = l - rng.choice([0, 1])
        fl = flags()
        if not (mode == "solid" and nl <= 64 * PAGE):
            fl &= ~F_SOLID
        if orc.st.M[1] >= GROW_CAP:
            fl |= F_NOEXT
        ok = do("realloc %d %d %d %d" % (nl, a, l, fl))
        rc, vals, _ = parse_out(outs[-1])
        if rc == 0 and len(vals) > 1 and vals[1] > roundup(nl, bsz) and roundup(nl, bsz) > l:
            lines[-1] += " 1"
        if not ok:
            return False
        if rc == 0 and vals[1] > 0:
            return read_pat(vals[0])
        return True

    def do_invalid():
        s = orc.st
        bsz = orc.bs()
        zr, _ = runs_of(s.B)
        kind = rng.weighted([("unaligned", 2), ("header", 2), ("bitmap", 2), ("short", 2 if orc.live else 0),
                             ("strictfree", 4 if orc.cfg[1] else 0), ("edge", 5)])
        if kind == "edge":
            return edge_request()
        if kind == "short":  # less than one block: nothing can be released
            return do("free %d %d invalid" % (rng.choice(sorted(orc.live)), rng.choice([0, 1, bsz - 1])))
        if kind == "unaligned":
            a = (rng.choice(sorted(orc.live)) if orc.live else 10 * bsz) + rng.range(1, bsz - 1)
            return do("free %d %d invalid" % (a, bsz))
        if kind == "header":
            return do("free %d %d invalid" % (0, rng.choice([bsz, s.M[2], s.M[2] + bsz])))
        if kind == "bitmap":
            o, k = rng.choice([(s.M[0] - bsz, 2), (s.M[0], 1), (s.M[0] + s.M[1] - bsz, 2), (s.M[0], s.M[1] // bsz)])
            return do("free %d %d invalid" % (o, k * bsz))
        # strict mode: a range that is not fully allocated (free blocks only, or a live region plus free blocks after it)
        if not zr:
            return True
        if orc.live and rng.chance(1, 2):
            for a in sorted(orc.live):
                e = a + orc.live[a]
                if any(o * bsz == e for o, _ in zr):
                    return do("free %d %d invalid" % (a, orc.live[a] + bsz))
        o, l = rng.choice(zr)
        return do("free %d %d invalid" % (o * bsz, min(l, rng.range(1, 3)) * bsz))


    PAST = [1, 1, 7, 8, 9, 63, 64, 65]   # blocks behind the end: inside the last byte's slack, at byte / word boundaries

    def edge_request():
        """one INVALID request aimed at a boundary of the addressable space [0, bmlen*8 blocks): the range starts inside
        and ends 1..65 blocks behind the end / starts exactly at the end / starts beyond it / touches the allocator's own
        bitmap blocks or the header from either side; as a release, as the shrinking branch of reallocate, as a status
        query; plus dry-run probes of _fsm_set_bit_status_lw at the same offsets (model against implementation)"""
        s = orc.st
        bsz = orc.bs()
        nb = s.nbits()
        E = nb * bsz
        bo, bl, hl = s.M[0], s.M[1], s.M[2]
        d = rng.choice(PAST)
        k = rng.choice([1, 1, 2, 7, 8, 63, 64])
        tail = rng.choice([0, 0, 0, 1, bsz - 1])       # stray bytes behind the last whole block of the length
        kind = rng.weighted([("in-past", 6), ("at-end", 3), ("beyond", 2), ("far", 1), ("bitmap", 3), ("header", 2),
                             ("shrink", 3), ("query", 2), ("probe", 3), ("re-header", 2), ("re-bitmap", 3), ("re-empty", 1),
                             ("negative", 1), ("re-unowned", 3), ("re-negative", 1)])
        orc.count("edge request: " + kind)
        if kind in ("re-header", "re-bitmap", "re-empty"):
            # reallocate whose OLD range is the header / the allocator's own bitmap (whole, a part, reached from a live
            # neighbour) or is empty: growing (the whole old range is released after the copy), shrinking (its tail is
            # released), to zero; must be refused with nothing changed - as deallocate refuses these ranges
            hb, bb, nbm = hl // bsz, bo // bsz, bl // bsz
            if kind == "re-header":
                ob, on = rng.choice([(0, hb), (0, 1), (0, hb + k), (max(hb - 1, 0), 1), (max(hb - 1, 0), 1 + k), (0, hb + 1)])
            elif kind == "re-bitmap":
                ob, on = rng.choice([(bb, nbm), (bb, 1), (bb + nbm - 1, 1), (bb + rng.below(nbm), 1), (max(bb - k, hb), k + 1),
                                     (bb + nbm - 1, 1 + k), (bb, nbm + k), (max(bb - 1, hb), nbm + 2)])
                near = [a for a in orc.live if a + orc.live[a] == bo]
                if near and rng.chance(1, 2):      # a live region that ends where the bitmap starts, taken one block too long
                    ob, on = near[0] // bsz, orc.live[near[0]] // bsz + rng.choice([1, 1, nbm])
            else:
                ob, on = rng.choice([(0, 0), (hb, 0), (bb, 0), (rng.choice(sorted(orc.live)) // bsz if orc.live else bb + nbm, 0),
                                     (nb - 1, 0), (bb + nbm + 5, 0)])
            ones = runs_of(s.B)[1]
            if on > 0 and not any(o <= ob and ob + on <= o + l for o, l in ones):
                # only ranges whose blocks are all allocated (header, bitmap, live regions): with a free block in the old range
                # the new region may be carved out of it, and the copy of overlapping ranges fails in its own way
                ob, on = (0, hb) if kind == "re-header" else (bb, nbm)
            if on > 0:
                nlb = rng.choice([on + 1, on + k, max(on - 1, 0), 1 if on > 1 else 0, 0, on + 64])
            else:
                nlb = rng.choice([1, 1, k, 64])
            if nlb == on:
                nlb = on + 1
            fl2 = (flags() | F_NOOVER) & ~(F_SOLID | F_PAGE | F_SYNCBM)
            if s.M[1] >= GROW_CAP or nlb > on:
                # no bitmap relocation inside the request: the old bitmap area would be released and the new region could be
                # carved out of the old range (copy of overlapping ranges fails in its own way, not modelled)
                fl2 |= F_NOEXT
            return do("realloc %d %d %d %d meta" % (max(nlb * bsz - rng.choice([0, 0, 1]), 0) if nlb else 0, ob * bsz, on * bsz, fl2))
        if kind == "re-negative":   # reallocate to a negative length (-1 .. -bsz+1 used to wrap to "zero blocks")
            if not orc.live:
                return True
            a = rng.choice(sorted(orc.live))
            nl = -rng.choice([1, 1, 2, bsz - 1, bsz, bsz + 1, 1 << 40])
            return do("realloc %d %d %d %d negative" % (nl, a, orc.live[a], flags() & ~(F_SOLID | F_PAGE)))
        if kind == "re-unowned":
            # reallocate to a larger size where the "old region" is free: in strict mode any range inside a free run (or a live
            # region plus the free block behind it); without strict mode a whole maximal free run (its release is a no-op).
            # Half of the requests are longer than every free run: the bitmap doubles, and the new bitmap may be put INTO the
            # range the caller named - the final release of the "old region" then hits the live bitmap.
            zr = runs_of(s.B)[0]
            nbm = bl // bsz
            au = max(1, PAGE // bsz)
            cand = [r_ for r_ in zr if r_[1] <= 65536]
            if not cand:
                return True
            big = [r_ for r_ in cand if r_[1] >= 2 * nbm + au]
            o, l = rng.choice(big) if big and rng.chance(2, 3) else rng.choice(cand)
            if orc.cfg[1] and rng.chance(1, 2):       # strict: a part of the run / a live neighbour reaching into it
                k2 = rng.range(1, min(l, 4 * nbm))
                o2 = o + rng.choice([0, 0, l - k2])
                o, l = o2, k2
                near = [a for a in orc.live if a + orc.live[a] == o * bsz]
                if near and rng.chance(1, 3):
                    o, l = near[0] // bsz, orc.live[near[0]] // bsz + min(l, rng.choice([1, 1, 64]))
            # (without strict mode only requests that fit: once the bitmap moves, the released old area may merge with the run and
            # the "release" of what is then a PART of a free run is the double free that mode does not detect)
            grow = rng.chance(1, 2) and s.M[1] < EDGE_CAP and orc.cfg[1]
            mx = max([x[1] for x in zr])
            nlb = (mx + rng.choice([1, 2, 1000])) if grow else l + rng.choice([1, 1, 2, 64])
            fl2 = (flags() | F_NOOVER) & ~(F_SOLID | F_PAGE | F_SYNCBM)
            if not grow:
                fl2 |= F_NOEXT
            else:
                fl2 &= ~F_NOEXT
            return do("realloc %d %d %d %d unowned" % (nlb * bsz - rng.choice([0, 0, 1]), o * bsz, l * bsz, fl2))
        if kind == "negative":   # off_t arguments below zero: (uint64_t) casts make them huge; refused, nothing changes
            a = -rng.choice([1, bsz, 2 * bsz, 1 << 40, 1 << 62, (1 << 63) - bsz, 1 << 63]) // bsz * bsz
            how = rng.below(3)
            if how == 0:
                return do("free %d %d invalid" % (a, rng.choice([bsz, d * bsz, -bsz])))
            if how == 1:
                return do("free %d %d invalid" % (rng.choice([0, E - bsz, hl]), -rng.choice([1, bsz, 1 << 40, 1 << 62]) // bsz * bsz))
            return do("chk %d %d %d no" % (a, bsz, rng.below(2)))
        if kind == "in-past":
            a = E - k * bsz
            if a < 0:
                a = E - bsz
            return do("free %d %d invalid" % (a, E - a + d * bsz + tail))
        if kind == "at-end":
            return do("free %d %d invalid" % (E, d * bsz + tail))
        if kind == "beyond":
            return do("free %d %d invalid" % (E + rng.choice(PAST) * bsz, d * bsz + tail))
        if kind == "far":
            return do("free %d %d invalid" % (rng.choice([1 << 40, 1 << 50, (1 << 62) - (1 << 20)]) // bsz * bsz, d * bsz))
        if kind == "bitmap":   # the allocator's own blocks, approached from the left / from the right / covered
            o, n = rng.choice([(bo - k * bsz, k + 1), (bo - bsz, 1 + bl // bsz + 1), (bo + bl - bsz, 1 + k), (bo + bl - bsz, 1),
                               (bo, bl // bsz), (bo + bsz * rng.below(max(1, bl // bsz)), 1)])
            if o < 0:
                o, n = bo, 1
            return do("free %d %d invalid" % (o, n * bsz + tail))
        if kind == "header":
            hb = hl // bsz
            o, n = rng.choice([(0, 1), (0, hb), (0, hb + k), ((hb - 1) * bsz, 1), ((hb - 1) * bsz, 1 + k)])
            return do("free %d %d invalid" % (o, n * bsz + tail))
        if kind == "shrink":   # reallocate to fewer blocks releases [addr + nlen, addr + olen)
            a = max(E - k * bsz, 0)
            ob = (E - a) // bsz + d
            nlb = rng.choice([1, max(1, (E - a) // bsz), max(1, ob - 1)])
            if nlb >= ob:
                nlb = ob - 1
            return do("realloc %d %d %d %d invalid" % (nlb * bsz - rng.choice([0, 0, 1]), a, ob * bsz, flags() & ~F_SOLID))
        if kind == "query":
            a = max(E - k * bsz, 0) if rng.chance(2, 3) else E
            return do("chk %d %d %d no" % (a, E - a + d * bsz, rng.below(2)))
        # probe: the guard itself, both sides of the boundary (rc compared with the model's set_bit_status)
        off = max(0, nb - rng.choice([0, 1, 2, 7, 8, 63, 64, 65]))
        ln = nb - off + rng.choice([-1, 0, 0] + PAST)
        if ln < 0:
            ln = 0
        return do("sbs %d %d %d %d" % (off, ln, rng.below(2), rng.below(2)))

    def grow_once():
        """an allocation that no free run can hold: the bitmap doubles and moves; -> ok"""
        s = orc.st
        bsz = orc.bs()
        zr = runs_of(s.B)[0]
        mx = max([l for _, l in zr] + [0])
        need = mx + rng.choice([1, 1, 2, 64, 1000])
        ok, _, _ = alloc_line(need * bsz - rng.choice([0, 0, 1]), 0, rng.choice([F_NOOVER | F_NOSTATS, F_NOOVER | F_NOSTATS, 0, F_NOSTATS]),
                              write=rng.chance(1, 3))
        return ok

    def take_all(limit, ff):
        """every free run is taken by an exact-fit request, lowest first; the region that starts right behind the bitmap area
        and (ff) gets a pattern whose first byte is 0xff; -> (ok, full)"""
        bsz = orc.bs()
        for _round in range(3):
            zr = runs_of(orc.st.B)[0]
            if not zr:
                return True, True
            if len(zr) > limit:
                return True, False
            for o, l in zr:
                if run_at(o) != (o, l):
                    continue
                ok, a, _ = alloc_line(l * bsz, o * bsz, F_NOOVER | F_NOSTATS | F_NOEXT, write=False)
                if not ok:
                    return False, False
                if a is None:
                    continue
                if a == orc.st.M[0] + orc.st.M[1] and ff:
                    seedc[0] = ff_seed(seedc[0] + 1)
                    if not do("w %d %d %d" % (a, min(orc.live[a], rng.choice([1, bsz, WCAP])), seedc[0])):
                        return False, False
                elif rng.chance(1, 3):
                    seedc[0] += 1
                    if not do("w %d %d %d" % (a, min(orc.live[a], WCAP), seedc[0])):
                        return False, False
        return True, not runs_of(orc.st.B)[0]

    def check_all_patterns(limit=8):
        ks = sorted(orc.pat)
        first = [a for a in ks if a == orc.st.M[0] + orc.st.M[1]]
        for a in (first + ks[-2:] + ks[:limit])[:limit]:
            if a in orc.pat and not read_pat(a):
                return False
        return True

    def do_edge_round():
        """the boundaries of the addressable space with live data on both sides of them: (optionally right after a bitmap
        growth) every free block is taken, so the last block of the space and the block behind the bitmap area belong to
        live regions carrying patterns; then a burst of invalid requests; after it nothing may have changed: state lines,
        bytes of the live regions, and a one-block request without extension must still find nothing"""
        bsz = orc.bs()
        if rng.chance(1, 4) and orc.st.M[1] < 2 * PAGE and not grow_once():
            return False
        ok, full = take_all(24, True)
        if not ok:
            return False
        for _ in range(rng.range(4, 9)):
            if not edge_request():
                return False
        if not check_all_patterns():
            return False
        if full:
            orc.count("edge round on a full file")
            ok, _, _ = alloc_line(bsz, rng.choice([0, orc.st.nbits() * bsz - bsz]), F_NOOVER | F_NOSTATS | F_NOEXT)
            return ok and make_room()
        return True

    def make_room():
        """the largest live region is given back, so that the rest of the script does not have to grow the bitmap for every
        request (the list-based model is linear in the bitmap length)"""
        if not orc.live:
            return True
        a = max(orc.live, key=lambda x: orc.live[x])
        return read_pat(a) and do("free %d %d" % (a, orc.live[a]))

    def do_full_close():
        """close with an EMPTY free-extent tree (_fsm_close then writes no header and does not trim) after 0..2 bitmap
        relocations, with / without a sync in between; the next open must find the same bitmap area, the same allocated
        blocks, the same file size; the header is read back before and after (against the model)"""
        bsz = orc.bs()
        for _ in range(rng.weighted([(0, 3), (1, 5), (2, 1)])):
            if orc.st.M[1] < EDGE_CAP and not grow_once():
                return False
        if rng.chance(1, 4) and not do("sync"):      # a sync BEFORE the space is used up says nothing about the close
            return False
        ok, full = take_all(40, rng.chance(1, 2))
        if not ok:
            return False
        if not full:
            return True
        if rng.chance(1, 4) and not do("sync"):
            return False
        if not do("hdr"):
            return False
        if not do("close") or not do("hdr"):
            return False
        st2, nt2, mm2 = rng.chance(1, 2), rng.chance(1, 3), rng.chance(1, 2)
        if not do("reopen %d %d %d" % (st2, nt2, mm2)):
            return False
        for a in sorted(orc.live, key=lambda x: (x * 2654435761) & 0xffff)[:4]:
            if not do("chk %d %d 1 yes" % (a, orc.live[a])):
                return False
        if not check_all_patterns(4):
            return False
        ok, _, _ = alloc_line(bsz, 0, F_NOOVER | F_NOSTATS | F_NOEXT)    # the file was full
        return ok and make_room()

    def do_chk():
        s = orc.st
        bsz = orc.bs()
        zr, _ = runs_of(s.B)
        k = rng.below(3)
        if k == 0 and orc.live:
            a = rng.choice(sorted(orc.live))
            return do("chk %d %d 1 yes" % (a, orc.live[a]))
        if k == 1 and zr:
            o, l = rng.choice(zr)
            return do("chk %d %d 0 yes" % (o * bsz, min(l, 5) * bsz))
        if orc.live:
            for a in sorted(orc.live):
                e = a + orc.live[a]
                if any(o * bsz == e for o, _ in zr):
                    return do("chk %d %d %d no" % (a, orc.live[a] + bsz, rng.below(2)))
        return True

    def do_reopen():
        if not do("close"):
            return False
        st2, nt2, mm2 = rng.chance(1, 2), rng.chance(1, 4), rng.chance(1, 2)
        if not do("reopen %d %d %d" % (st2, nt2, mm2)):
            return False
        for a in sorted(orc.live)[:6]:
            if not read_pat(a):
                return False
        return True

    def do_cache_round():
        """The cached last free extent (lfbkoff/lfbklen) across a bitmap growth.  Layout, cut out of a full file by partial
        releases: a free run A in front of the bitmap area and a free run B right behind it, a page-aligned hole of exactly
        the size of the doubled bitmap (+0..3), a short free tail at the end of the space, everything else live.  Request R:
        longer than every free run (so the bitmap doubles: the new bitmap lands in the hole, the free tail is extended IN
        PLACE by the new coverage) but not longer than A + old bitmap + B (so, once the old area is released, R is served
        from there and the tail extent is not touched).  Then the live piece that ends exactly where the tail starts is
        released (_fsm_blk_deallocate_lw takes its right neighbour from the cache), then an exact-size and a larger
        request.  Lengths are perturbed so that neighbouring paths (bitmap lands in B, R served from the tail, no merge)
        are taken as well."""
        bsz = orc.bs()
        au = max(1, PAGE // bsz)
        if orc.st.M[1] >= EDGE_CAP:
            return True
        ok, full = take_all(40, False)
        if not ok or not full:
            return ok
        s = orc.st
        nbm, bb, nb = s.M[1] // bsz, s.M[0] // bsz, s.nbits()
        new = 2 * nbm
        ends = dict((a + l, a) for a, l in orc.live.items())
        T = ends.get(nb * bsz)
        if T is None:
            return True
        tb = T // bsz
        A = ends.get(bb * bsz)
        Bst = (bb + nbm) * bsz if (bb + nbm) * bsz in orc.live else None
        e = rng.choice([0, 0, 0, 1, 3])
        R = new + e + rng.choice([1, 1, 2, 10, au])
        a = min(orc.live[A] // bsz, rng.choice([1, au - 2, 30, 62, 1000])) if A is not None else 0
        a = max(a, 1) if A is not None else 0
        b = 0
        if Bst is not None:
            b = max(1, R - nbm - a + rng.choice([0, 0, 0, 1, 7, -1]))
            b = min(b, R - 1, orc.live[Bst] // bsz - 1)
        t_ = max(1, rng.choice([1, 2, 5, au - 1, au, min(R - 1, 100)]))
        x = rng.choice([1, 1, 2, 7, au, 63, 64, 65])
        lo = (bb + nbm + b + 1) if Bst == T else tb + 1      # first block the hole may use
        p_ = roundup(max(lo, tb + 1), au) + rng.choice([0, 0, 0, au, 3 * au])
        if b < 1 or p_ + new + e + 1 + x + t_ > nb or t_ >= R or p_ <= tb:
            return True
        orc.count("cache round (growth with the tail extended in place)")
        cuts = [(nb - t_, t_), (p_, new + e)]
        if Bst is not None:
            cuts.append((bb + nbm, b))
        if A is not None:
            cuts.append((bb - a, a))
        if rng.chance(1, 2):
            cuts.reverse()
        for o, n in cuts:
            if not do("free %d %d" % (o * bsz, n * bsz)):
                return False
        fl = rng.choice([F_NOOVER | F_NOSTATS, F_NOOVER | F_NOSTATS, F_NOSTATS | F_NOOVER | F_SYNCBM * 0, F_NOOVER])
        if not do("alloc %d %d %d" % (R * bsz - rng.choice([0, 0, 1]), rng.choice([0, 0, (nb - t_) * bsz]), fl)):
            return False
        rc, vals, _ = parse_out(outs[-1])
        if rc != 0:
            return True
        if rng.chance(1, 4) and not do("sync"):
            return False
        # the live piece in front of the tail: whole or in two steps (the second ends at the tail start, too)
        if x > 1 and rng.chance(1, 3):
            if not do("free %d %d" % ((nb - t_ - 1) * bsz, bsz)):
                return False
            x -= 1
            t_ += 1
        if not do("free %d %d" % ((nb - t_ - x) * bsz, x * bsz)):
            return False
        tail = [r_ for r_ in runs_of(orc.st.B)[0] if r_[0] + r_[1] == orc.st.nbits()]
        for ln in ([x + t_, x + t_ + rng.choice([1, 5, 64])] + ([tail[0][1]] if tail and tail[0][1] < 70000 else [])):
            ok, _, _ = alloc_line(ln * bsz, rng.choice([0, (nb - t_ - x) * bsz]), F_NOOVER | F_NOSTATS | rng.choice([0, F_NOEXT]))
            if not ok:
                return False
        return make_room()

    def do_small_close():
        """a SMALL file closed with trim: fewer than 64 blocks are in use behind the end of the bitmap area, and - with block
        sizes of 256 bytes and more - that end is not a multiple of 64 blocks: _fsm_trim_tail_lw looks for the last used block
        with a lower bound in the middle of a bitmap word.  The file must end at the page of the last used block; the bytes
        written there must be readable after the reopen."""
        bsz = orc.bs()
        s = orc.st
        endb = (s.M[0] + s.M[1]) // bsz
        zr = runs_of(s.B)[0]
        for o, l in zr:                      # the runs in front of the bitmap area first, so that requests reach the tail
            if o + l <= endb and l <= 4096:
                ok, _, _ = alloc_line(l * bsz, o * bsz, F_NOOVER | F_NOSTATS | F_NOEXT, write=False)
                if not ok:
                    return False
        room = 64 - endb % 64                # blocks left in the bitmap word that holds the end of the bitmap area
        used, got = 0, []
        for _ in range(rng.range(1, 5)):
            n = rng.choice([1, 1, 2, 3, max(1, room // 2), max(1, room - used - 1), max(1, room - used)])
            if used + n > room + rng.choice([0, 0, 0, 2]):
                break
            seedc[0] += 1
            ok = do("alloc %d 0 %d" % (n * bsz - rng.choice([0, 0, 1]), F_NOOVER | F_NOSTATS | F_NOEXT))
            rc, vals, _ = parse_out(outs[-1])
            if not ok:
                return False
            if rc != 0:
                break
            used += n
            got.append(vals[0])
            if rng.chance(3, 4) and not do("w %d %d %d" % (vals[0], min(vals[1], WCAP), seedc[0])):
                return False
        if len(got) > 1 and rng.chance(1, 3):    # a hole: the last used block is not the last one handed out
            v = rng.choice(got[:-1]) if rng.chance(2, 3) else got[-1]
            if v in orc.live and not do("free %d %d" % (v, orc.live[v])):
                return False
        orc.count("small-file close (bpow %d, bitmap area ends at block %d)" % (s.M[3], endb))
        return do_reopen()

    def do_overflow_script():
        """a file with a size limit (so that a bitmap growth ends): address hints of 2^32 blocks and more / negative ones
        (an uninitialised *oaddr), with and without NO_EXTEND; the last hint a block key can hold (a legitimate one);
        requests of 2^32 blocks and more; legitimate requests the limit cannot hold (the growth fails half way: nothing may
        stay allocated); in between small allocations, releases, close/reopen.  No writes, no solid space, no reallocate to
        a larger size: these would fail at the size limit by design."""
        bsz = orc.bs()
        bp = orc.st.M[3]

        def small():
            return do("alloc %d %d %d" % (rng.weighted(SIZES_BLK) * bsz, 0, F_NOEXT | F_NOOVER | F_NOSTATS))

        for _ in range(rng.below(6)):
            if not small():
                return False
        for _ in range(rng.range(3, 8)):
            zr = runs_of(orc.st.B)[0]
            kind = rng.weighted([("hint-big", 6), ("hint-edge", 2), ("len-big", 2), ("len-edge", 1), ("grow-fail", 2),
                                 ("small", 2), ("free", 2), ("reopen", 1), ("chk", 1), ("realloc-limit", 3 if orc.live else 0),
                                 ("solid-limit", 3)])
            orc.count("overflow script: " + kind)
            fl = rng.choice([0, 0, F_NOEXT, F_NOOVER | F_NOSTATS, F_NOEXT | F_NOOVER | F_NOSTATS, F_NOSTATS, F_NOOVER])
            ln = rng.weighted(SIZES_BLK) * bsz - rng.choice([0, 0, 1])
            if zr and rng.chance(1, 3):
                ln = min(rng.choice(zr)[1], 4096) * bsz
            if kind == "hint-big":
                hb = rng.choice([1 << 32, (1 << 32) + 1, 1 << 34, (1 << 40) >> bp, (1 << 62) >> bp, ((1 << 63) - 1) >> bp])
                hint = rng.choice([hb << bp, hb << bp, (hb << bp) + rng.below(bsz), -1, -bsz, -(1 << 63), -(1 << 40)])
                if hint >= 1 << 63:
                    hint = (1 << 63) - 1
            elif kind == "hint-edge":     # block 2^32 - 1: the last hint a key can hold; and small legitimate ones
                hint = rng.choice([U32MAX << bp, (U32MAX << bp) + bsz - 1, (U32MAX - 1) << bp, orc.st.nbits() << bp])
            elif kind == "len-big":
                hint = 0
                ln = ((1 << 32) + rng.choice([0, 0, 1, 1000, 1 << 20])) * bsz - rng.choice([0, 1, bsz - 1])
                if ln >= 1 << 63:
                    ln = (1 << 63) - 1 - bsz
                fl |= rng.choice([0, F_PAGE])
            elif kind == "len-edge":      # 2^32 - 1 blocks: a length a key can hold, but no file under the limit
                hint = 0
                ln = U32MAX * bsz - rng.choice([0, 1])
                if rng.chance(1, 2):
                    fl |= F_NOEXT
            elif kind == "grow-fail":     # more than the limit can hold
                hint = 0
                ln = orc.maxoff + rng.choice([0, bsz, PAGE, 10 * PAGE])
            elif kind == "solid-limit":   # solid space the size limit cannot hold: refused, and nothing stays allocated
                hint = 0
                ln = orc.maxoff + rng.choice([0, bsz, PAGE])
                fl = F_SOLID | F_NOOVER | F_NOSTATS | rng.choice([0, F_PAGE])
            elif kind == "realloc-limit":
                # a region grows by reallocate while every block below the size limit is taken: the new region lies behind the
                # limit, the copy cannot bring it inside the file, the call fails - and must give the new region back
                lim = orc.maxoff // bsz
                for o, l in zr:
                    if o < lim:
                        if not do("alloc %d %d %d" % (min(l, lim - o) * bsz, o * bsz, F_NOEXT | F_NOOVER | F_NOSTATS)):
                            return False
                if not orc.live:
                    continue
                a = rng.choice(sorted(orc.live))
                if not do("realloc %d %d %d %d" % (orc.live[a] + rng.choice([1, bsz, 10 * bsz]), a, orc.live[a],
                                                   F_NOOVER | F_NOSTATS | rng.choice([0, F_NOEXT]))):
                    return False
                continue
            elif kind == "small":
                if not small():
                    return False
                continue
            elif kind == "free":
                if not do_free():
                    return False
                continue
            elif kind == "reopen":
                if not do_reopen():
                    return False
                continue
            else:
                if not do_chk():
                    return False
                continue
            ok = do("alloc %d %d %d" % (ln, hint, fl))
            rc, vals, _ = parse_out(outs[-1])
            if rc == 0 and len(vals) > 1 and vals[1] > roundup(ln, bsz):
                lines[-1] += " 1"
            if not ok:
                return False
        return True

    if mode == "overflow":
        ok = do_overflow_script()
        return lines, outs, orc, (None if ok or (orc.stop and not orc.v) else len(lines) - 1)

    wa, wf = (10, 7) if focus == "C10" else (9, 8)
    # rounds aimed at the boundaries of the addressable space (C10) and at close/reopen of a full file (C11): most scripts
    # run one early - while the bitmap is short (the model is linear in its length) - and may run more later
    w_edge, w_full = ((3, 1) if focus == "C10" else (1, 3))
    if mode == "mixed" and bpow >= 8 and rng.chance(*((1, 3) if focus == "C11" else (1, 6))):
        if not do_small_close():
            return lines, outs, orc, (None if orc.stop and not orc.v else len(lines) - 1)
    elif mode == "mixed" and rng.chance(*((1, 5) if focus == "C10" else (1, 10))):
        for _ in range(rng.below(4)):
            if not do_alloc():
                return lines, outs, orc, (None if orc.stop and not orc.v else len(lines) - 1)
        if not do_cache_round():
            return lines, outs, orc, (None if orc.stop and not orc.v else len(lines) - 1)
    if mode == "mixed" and rng.chance(2, 5):
        first = rng.weighted([("edge", w_edge), ("full", w_full)])
        for _ in range(rng.below(6)):
            if not do_alloc():
                return lines, outs, orc, (None if orc.stop and not orc.v else len(lines) - 1)
        if not (do_edge_round() if first == "edge" else do_full_close()):
            return lines, outs, orc, (None if orc.stop and not orc.v else len(lines) - 1)
    if mode == "solid" and not do_solid_round():
        return lines, outs, orc, (None if orc.stop and not orc.v else len(lines) - 1)
    if mode == "aligned" and not do_layout():
        return lines, outs, orc, (None if orc.stop and not orc.v else len(lines) - 1)
    for _ in range(nops):
        if len(lines) >= 2 * nops + 20:
            break
        op = rng.weighted([("alloc", wa), ("free", wf), ("freen", 3), ("realloc", 4), ("invalid", 2), ("chk", 2),
                           ("reopen", 1 if focus == "C10" else 2), ("sync", 1), ("clear", 1 if rng.chance(1, 4) else 0),
                           ("freeall", 1 if rng.chance(1, 3) else 0),
                           ("solidround", 2 if mode == "solid" else 0), ("layout", 2 if mode == "aligned" else 0),
                           ("edgeround", 1 if rng.chance(w_edge, 16) else 0), ("fullclose", 1 if rng.chance(w_full, 16) else 0),
                           ("cacheround", 1 if (mode == "mixed" and rng.chance(1, 12)) else 0)])
        ok = True
        if op == "solidround":
            ok = do_solid_round()
        elif op == "edgeround":
            ok = do_edge_round()
        elif op == "fullclose":
            ok = do_full_close()
        elif op == "cacheround":
            ok = do_cache_round()
        elif op == "layout":
            ok = do_layout()
        elif op == "alloc":
            ok = do_alloc()
        elif op == "free":
            ok = do_free()
        elif op == "freen":
            ok = do_free_neighbours()
        elif op == "realloc":
            ok = do_realloc()
        elif op == "invalid":
            ok = do_invalid()
        elif op == "chk":
            ok = do_chk()
        elif op == "reopen":
            ok = do_reopen()
        elif op == "sync":
            ok = do("sync")
        elif op == "clear":
            ok = do("clear %d" % rng.below(2))
        elif op == "freeall":
            for a in sorted(orc.live, key=lambda x: (x * 2654435761) & 0xffff):
                if a in orc.live and not do("free %d %d" % (a, orc.live[a])):
                    ok = False
                    break
            # (the structural statement then demands: set bits = header + bitmap, tree = the runs between them)
        if not ok:
            return lines, outs, orc, (None if orc.stop and not orc.v else len(lines) - 1)
    return lines, outs, orc, None


def strip_a(o):
    return re.sub(r"( U=\d+)? A=\d+$", "", o)


def worker(args):
    """one process: generates scripts against the implementation, applies the oracle, then runs the model on the same
    concrete lines and diffs (in chunks of 40 scripts, so that memory stays flat in the thorough tier)"""
    exe, model, variant, seed, nscripts, nops, focus, corpus = args
    global VARIANT
    VARIANT = variant
    rng = vlib.Rng(seed)
    wd = tempfile.mkdtemp(prefix="fsm-w-", dir="/tmp")
    res = {"scripts": 0, "ops": 0, "dist": {}, "viol": [], "mism": [], "err": None, "canon": [], "samples": [], "validated": 0}
    try:
        impl = Impl(exe, wd)
        todo = [("corpus", c) for c in corpus] + [("gen", None)] * nscripts
        while todo:
            chunk, todo = todo[:40], todo[40:]
            all_lines, all_outs = [], []
            for kind, scripted in chunk:
                r = rng.fork()
                lines, outs, orc, stop = gen_script(r, impl, nops, focus, scripted)
                if any(o.startswith("CRASHED") for o in outs):
                    orc.bad(focus, "implementation harness crashed: %s" % [o for o in outs if o.startswith("CRASHED")][0])
                    impl.close()
                    impl = Impl(exe, wd)
                res["scripts"] += 1
                res["ops"] += len(lines)
                for l in lines:
                    k = l.split()[0]
                    if k == "free" and l.endswith("invalid"):
                        k = "free-invalid"
                    res["dist"][k] = res["dist"].get(k, 0) + 1
                for k, v in orc.cnt.items():
                    res["dist"][k] = res["dist"].get(k, 0) + v
                ck = "cfg bpow=%s" % lines[1].split()[1]
                res["dist"][ck] = res["dist"].get(ck, 0) + 1
                bml = set(m.group(1) for m in (re.search(r" M=\d+:(\d+):", o) for o in outs) if m)
                if len(bml) > 1:
                    res["dist"]["scripts that grew the bitmap"] = res["dist"].get("scripts that grew the bitmap", 0) + 1
                res["canon"].append(hashlib.sha256("\n".join(lines).encode()).hexdigest()[:16])
                if len(res["samples"]) < 1 and kind == "gen":
                    res["samples"].append({"script_head": lines[:6], "impl_head": [strip_a(o)[:160] for o in outs[:6]], "ops": len(lines)})
                for prop, msg in orc.v:
                    if len(res["viol"]) < 40:
                        res["viol"].append({"property": prop, "note": msg, "kind": kind,
                                            "script": lines[:(stop + 1 if stop is not None else len(lines))]})
                all_lines += lines
                all_outs += outs
            rc, mout, err = vlib.run_lines(["sh", "-c", 'ulimit -s unlimited 2>/dev/null; exec "$0" "$@"', model, variant],
                                           "\n".join(all_lines) + "\n", timeout=900)
            if rc != 0:
                res["err"] = "model driver exited %d: %s" % (rc, err[-400:])
            # diff per script (a script ends where the next `open` starts)
            start, bad_starts = 0, set()
            for i, l in enumerate(all_lines):
                if l.startswith("maxoff "):
                    start = i
                a = strip_a(all_outs[i])
                b = mout[i] if i < len(mout) else "<missing>"
                if a != b:
                    if start not in bad_starts and len(res["mism"]) < 20:
                        res["mism"].append({"start": start, "at": i - start, "line": l, "impl": a[:400], "model": b[:400],
                                            "script": all_lines[start:i + 1]})
                    bad_starts.add(start)
                else:
                    res["validated"] += 1
            res["nmism"] = res.get("nmism", 0) + len(bad_starts)
        impl.close()
    except Exception as e:  # noqa
        import traceback
        res["err"] = "worker failed: %s" % traceback.format_exc()[-800:]
    finally:
        shutil.rmtree(wd, ignore_errors=True)
    return res


def load_corpus(pid):
    d = os.path.join(vlib.VERIF, "corpus", pid)
    out = []
    if os.path.isdir(d):
        for fn in sorted(os.listdir(d)):
            ls = [l.strip() for l in open(os.path.join(d, fn)) if l.strip() and not l.startswith("#")]
            if ls:
                out.append(ls)
    return out


def run_scripts(run, focus, nscripts, nops, nworkers=None):
    """returns (variant, list of results)"""
    exe = vlib.build_harness("h_fsm")
    model = vlib.build_model("fsm")
    variant = variant_of_source()
    nworkers = nworkers or max(2, min(vlib.NCPU - 2, 14))
    per = max(1, (nscripts + nworkers - 1) // nworkers)
    corpus = load_corpus("C10") + load_corpus("C11")
    jobs = []
    for w in range(nworkers):
        jobs.append((exe, model, variant, run.rng.u64(), per, nops, focus, corpus if w == 0 else []))
    with ProcessPoolExecutor(nworkers) as ex:
        results = list(ex.map(worker, jobs))
    return variant, results


def account(run, focus, variant, results):
    """fold worker results into the Run: cases, distribution, T2 mismatches, violations of `focus`"""
    run.cov["model_variant"] = "%s (1 = model follows the code after fixes/fsm-lfbk / fsm-strict-dealloc / fsm-syncbmap / fsm-dealloc-short .diff)" % variant
    nm = 0
    for r in results:
        if r["err"]:
            run.broken.append("T2 harness: " + r["err"])
        for c in r["canon"]:
            run.case(c, nontrivial=True)
        for s_ in r["samples"]:
            run.case("sample", nontrivial=False, sample=s_)
            run.cov["evaluations"] -= 1
        for k, v in r["dist"].items():
            run.dist(k, v)
        run.cov["traces_validated_against_impl"] += r.get("validated", 0)
        run.cov["operations"] = run.cov.get("operations", 0) + r["ops"]
        nm += max(0, r.get("nmism", 0) - len(r["mism"]))
        for m in r["mism"]:
            nm += 1
            if not any(x.startswith("T2 correspondence") for x in run.broken):
                run.broken.append("T2 correspondence (model variant %s): op %d `%s` impl=`%s` model=`%s`" % (
                    variant, m["at"], m["line"], m["impl"][:200], m["model"][:200]))
                json.dump(m, open(os.path.join(vlib.VERIF, "replays", "%s-t2-mismatch.json" % focus), "w"), indent=1)
        for v in r["viol"]:
            if v["property"] != focus:
                run.cov.setdefault("other_property_signals", {})
                run.cov["other_property_signals"][v["property"]] = run.cov["other_property_signals"].get(v["property"], 0) + 1
                continue
            run.violation({"script": v["script"], "kind": "fsm-script", "origin": v["kind"], "at": len(v["script"]) - 1}, v["note"])
    if nm > 1:
        run.broken.append("T2 correspondence: %d scripts differ in total" % nm)


def replay_script(run, path, focus):
    r = json.load(open(path))
    if "script" not in r:
        print(json.dumps(r, indent=1)[:3000])
        return 1
    exe = vlib.build_harness("h_fsm")
    wd = tempfile.mkdtemp(prefix="fsm-r-", dir="/tmp")
    try:
        impl = Impl(exe, wd)
        lines, outs, orc, stop = gen_script(None, impl, 0, focus, scripted=r["script"])
        impl.close()
    finally:
        shutil.rmtree(wd, ignore_errors=True)
    for l, o in list(zip(lines, outs))[-12:]:
        print("> %s\n  %s" % (l, strip_a(o)[:300]))
    mine = [m for p, m in orc.v if p == focus]
    print("recorded:", r.get("note"))
    for m in mine:
        print("oracle  :", m[:400])
    return 1 if mine else 0
