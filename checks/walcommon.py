# helpers shared by the WAL family checks (C04, C05, C08): history generation, the python reference
# of a history (ordered dict per db - the abstract spec, independent of the Coq model), trace parsing,
# log framing, running harness/model lines in parallel.
import os, shutil, zlib, json, subprocess
from concurrent.futures import ThreadPoolExecutor
import vlib

SIZES = {127: 12, 1: 24, 2: 28, 3: 20, 4: 20, 5: 12, 6: 4}
KIND = {127: "SEP", 1: "SET", 2: "COPY", 3: "WRITE", 4: "RESIZE", 5: "SAVEPOINT", 6: "RESET"}


def khex(s):
    return s.encode().hex() if isinstance(s, str) else s.hex()


def genval(vlen, seed):
    return bytes(((seed * 31 + i * 7 + (i >> 8) * 13) & 0xff) for i in range(vlen))


def vrepr(v):
    if len(v) <= 32:
        return v.hex() if v else "-"
    return "L%dC%08x" % (len(v), zlib.crc32(v) & 0xffffffff)


class Ref:
    """abstract spec of a history: per db id an ordered map key -> value"""

    def __init__(self):
        self.dbs = {}

    def copy(self):
        r = Ref()
        r.dbs = {k: dict(v) for k, v in self.dbs.items()}
        return r

    def apply(self, op):
        """returns expected rc string"""
        c = op[0]
        if c == "n":
            self.dbs.setdefault(int(op[1]), {})
            return "0"
        if c == "x":
            if int(op[1]) not in self.dbs:
                return "NF"
            del self.dbs[int(op[1])]
            return "0"
        if c == "p":
            f = op[3:].split(":")
            db = int(op[1])
            if db not in self.dbs:
                return "NF"
            self.dbs[db][bytes.fromhex(f[0])] = genval(int(f[1]), int(f[2]))
            return "0"
        if c == "d":
            db = int(op[1])
            if db not in self.dbs:
                return "NF"
            k = bytes.fromhex(op[3:])
            if k in self.dbs[db]:
                del self.dbs[db][k]
                return "0"
            return "NF"
        return "0"

    def canon(self):
        """canonical text, same shape as the harness dump but keys sorted ascending"""
        out = []
        for db in sorted(self.dbs):
            out.append("db%d{%s}" % (db, ",".join("%s=%s" % (k.hex(), vrepr(v)) for k, v in sorted(self.dbs[db].items()))))
        return "".join(out) or "empty"


def canon_dump(d):
    """harness dump -> (canonical text with keys sorted, problems: list of str)"""
    if d in ("empty", "-", ""):
        return d or "-", []
    probs = []
    out = []
    for part in d.split("}"):
        if not part:
            continue
        if "{" not in part:
            probs.append("malformed:" + part[:40])
            continue
        name, body = part.split("{", 1)
        if "!" in body or "!" in name:
            probs.append("error-in-dump:" + part[:60])
        items = [x for x in body.split(",") if x]
        keys = [x.split("=")[0] for x in items]
        # cursor order of the default comparator is descending bytes; any strict monotone order is accepted
        bk = [bytes.fromhex(k) for k in keys if all(c in "0123456789abcdef" for c in k)]
        if len(set(keys)) != len(keys):
            probs.append("duplicate-key-in-scan:" + name)
        elif bk != sorted(bk) and bk != sorted(bk, reverse=True):
            probs.append("scan-not-monotone:" + name)
        out.append("%s{%s}" % (name, ",".join(sorted(items, key=lambda x: bytes.fromhex(x.split("=")[0]) if all(c in "0123456789abcdef" for c in x.split("=")[0]) else b""))))
    return "".join(out) or "empty", probs


def parse_trace(path):
    """-> dict: open (rc, walsz, mainsz), ops: list of dict(i, begun, rc, walsz, mainsz, dump), effects, nfx"""
    t = {"open": None, "ops": {}, "fx": [], "nfx": None, "dump0": None, "lsn": [], "marks": []}
    if not os.path.exists(path):
        return t
    for l in open(path, errors="replace"):
        f = l.rstrip("\n").split(" ")
        if f[0] == "O":
            t["open"] = (f[1], int(f[2]), int(f[3]))
        elif f[0] == "B":
            t["marks"].append(("B", int(f[1]), len(t["lsn"])))
            t["ops"][int(f[1])] = {"begun": True, "rc": None, "walsz": None, "mainsz": None, "dump": None, "fx0": len(t["fx"])}
        elif f[0] == "E" and len(f) >= 5:
            o = t["ops"].setdefault(int(f[1]), {"begun": True, "dump": None})
            o.update({"rc": f[2], "walsz": int(f[3]), "mainsz": int(f[4]), "fx1": len(t["fx"])})
        elif f[0] == "D" and len(f) >= 3:
            if f[1] == "-1":
                t["dump0"] = f[2]
            else:
                t["ops"][int(f[1])]["dump"] = f[2]
        elif f[0] == "F" and len(f) >= 6:
            t["fx"].append((int(f[2]), f[3], int(f[4]), int(f[5])))
        elif f[0] == "N":
            t["nfx"] = int(f[1])
        elif f[0] == "L":
            # listener calls; "L r" = the preceding onresize was answered "not handled" (WAL replaying)
            if f[1] == "r":
                for j in range(len(t["lsn"]) - 1, -1, -1):
                    if t["lsn"][j][1][0] == "R":
                        del t["lsn"][j]
                        break
            else:
                t["lsn"].append((len(t["fx"]), f[1:]))
    return t


def frame(wal):
    """framing of an intact log: list of (offset, opid, size); stops at the first irregularity"""
    out = []
    p = 0
    while p < len(wal):
        op = wal[p]
        if op not in SIZES:
            break
        sz = SIZES[op]
        if op == 3:
            if p + 20 > len(wal):
                break
            sz += int.from_bytes(wal[p + 8:p + 12], "little")
        out.append((p, op, sz))
        p += sz
    return out


def par_lines(exe, chunks, timeout=900):
    """run one process per chunk of lines in parallel; returns list of lists of output lines (or error text)"""
    def one(lines):
        if not lines:
            return []
        rc, out, err = vlib.run_lines(exe, "\n".join(lines) + "\n", timeout=timeout)
        if rc != 0:
            out = out + ["<exit %d %s>" % (rc, err[-200:])]
        return out
    with ThreadPoolExecutor(max(1, min(vlib.NCPU, len(chunks)))) as ex:
        return list(ex.map(one, chunks))


def harness_flags():
    """how effects can be numbered on the current tree: ('hook'|'wrap', extra compiler flags)"""
    try:
        hdr = open(os.path.join(vlib.REPO, "src", "platform", "iwp.h")).read()
    except OSError:
        hdr = ""
    if "IOWOW_VERIF_FX_HOOK" in hdr:
        return "hook", []
    syms = ["write", "pwrite", "pwrite64", "ftruncate", "ftruncate64", "fsync", "fdatasync", "msync"]
    return "wrap", ["-DHWAL_WRAP"] + ["-Wl,--wrap=" + s for s in syms]


def fields(line):
    """'wal exit=0 rc=0 applied=..' -> dict"""
    d = {}
    for tok in line.split(" ")[1:]:
        if "=" in tok:
            k, v = tok.split("=", 1)
            d[k] = v
    return d


def cfg_text(c):
    """option flags of harness/h_wal.c mkopts in words"""
    return "%s log buffer, checksum checking %s" % ("4 KB" if c & 2 else "default (8 MB)", "on" if c & 1 else "off")


def cross_configs(crc):
    """options for a recovering process that differ from the writer's in the log-buffer size (bit 2), in checksum
    checking (bit 1), or both; bit 4 (no trim on close) is kept"""
    return [crc ^ 2, crc ^ 1, crc ^ 3]


def cross_kind(wcrc, rcrc):
    out = []
    if (wcrc ^ rcrc) & 2:
        out.append("buffer_small_recovers_default" if rcrc & 2 else "buffer_default_recovers_small")
    if (wcrc ^ rcrc) & 1:
        out.append("checksums_on_recovers_off" if rcrc & 1 else "checksums_off_recovers_on")
    return out


def stable_harness(wd, name="h_wal"):
    """build the harness for the current tree and copy it into the run's scratch directory: other checks
    running in parallel may rebuild .build/impl-* (and delete the old directory) when /repo changes"""
    mode, extra = harness_flags()
    last = None
    for _ in range(4):
        exe = vlib.build_harness(name, extra=extra)
        try:
            dst = os.path.join(wd, name + "-" + mode)
            shutil.copyfile(exe, dst)
            os.chmod(dst, 0o755)
            return mode, dst
        except OSError as e:
            last = e
    raise vlib.BuildError("harness vanished while copying: %s" % last)


def proto_events(ops, tr):
    """event script for the extracted Proto model from a traced run: listener calls in order, plus the API-level
    savepoint/checkpoint calls the operations make (iwkv_sync and db creation end with _savepoint_exl(sync),
    'c' is _checkpoint_exl)"""
    lines = []
    starts = {i: n for (_, i, n) in tr["marks"]}
    order = sorted(starts)
    for idx, i in enumerate(order):
        a = starts[i]
        b = starts[order[idx + 1]] if idx + 1 < len(order) else len(tr["lsn"])
        for _, f in tr["lsn"][a:b]:
            lines.append(" ".join(f))
        o = tr["ops"].get(i, {})
        if o.get("rc") != "0":
            continue
        if ops[i][0] == "s" or ops[i][0] == "n":
            lines.append("P 1")
        elif ops[i][0] in "cq":          # q: iwkv_close ends with _onclosing -> _checkpoint_exl(wal, 0, false)
            lines.append("K")
    return lines


def proto_events_bracketed(ops, tr):
    """the same script with operation brackets for Hist.hitem (driver `crash`): "(" listener calls of one API call ")",
    then the P / K line of that call if it ends with a savepoint / checkpoint"""
    lines = []
    starts = {i: n for (_, i, n) in tr["marks"]}
    order = sorted(starts)
    for idx, i in enumerate(order):
        a = starts[i]
        b = starts[order[idx + 1]] if idx + 1 < len(order) else len(tr["lsn"])
        lines.append("(")
        for _, f in tr["lsn"][a:b]:
            lines.append(" ".join(f))
        lines.append(")")
        o = tr["ops"].get(i, {})
        if o.get("rc") != "0":
            continue
        if ops[i][0] == "s" or ops[i][0] == "n":
            lines.append("P 1")
        elif ops[i][0] in "cq":
            lines.append("K")
    return lines


def model_index(fx, k, with_records):
    """position in Proto.run's effect list that corresponds to "the first k effects of the real run happened" """
    return len(norm_real_fx(fx[:k], with_records))


def norm_real_fx(fx, with_records):
    out = []
    for k, c, off, ln in fx:
        if c == "W":
            out.append(("W", k, ln if k == 1 else 0))
        elif c == "R":
            if with_records:
                out.append(("R", off, ln))
        elif c == "M":
            out.append(("M", "msync") if k == 7 else ("M", "resize", off))
    return out


def norm_model_fx(path, with_records):
    out = []
    for l in open(path):
        k, f, off, ln = [int(x) for x in l.split()]
        if k in (1, 5, 3) and f == 1:
            out.append(("W", k, ln if k == 1 else 0))
        elif k == 8:
            if with_records:
                out.append(("R", off, ln))
        elif k == 7:
            out.append(("M", "msync"))
        elif k == 4:
            out.append(("M", "resize", off))
    return out


def masked_log_crc(wal, ccrc=True):
    """CRC of the log with savepoint timestamps and segment checksums zeroed (the model cannot know the clock)"""
    b = bytearray(wal)
    for p, op, sz in frame(wal):
        if op == 127:
            b[p + 4:p + 8] = b"\0\0\0\0"
        elif op == 5:
            b[p + 4:p + 12] = bytes(min(8, max(0, len(b) - p - 4)))
    return "%d:%08x" % (len(b), zlib.crc32(bytes(b)) & 0xffffffff)


def big_stack(exe):
    """the extracted list functions are not tail recursive: run the model with a large stack"""
    return ["sh", "-c", "ulimit -s 4000000 2>/dev/null || ulimit -s unlimited 2>/dev/null; exec '%s'" % exe]


def backup_event_files(d, ops, tr, ib, inside, at):
    """event scripts for Backup.backup_run: before the call, while the main file is copied, at the end of WAL_COPY1"""
    starts = {i: n for (_, i, n) in tr["marks"]}
    order = sorted(starts)

    def ev(i):
        idx = order.index(i)
        a = starts[i]
        b = starts[order[idx + 1]] if idx + 1 < len(order) else len(tr["lsn"])
        lines = [" ".join(f) for _, f in tr["lsn"][a:b]]
        o = tr["ops"].get(i, {})
        if o.get("rc") == "0":
            if ops[i][0] in "sn":
                lines.append("P 1")
            elif ops[i][0] == "c":
                lines.append("K")
        return lines
    pre, ins = [], []
    for i in order:
        if i < ib:
            pre += ev(i)
        elif ib < i <= ib + inside:
            ins += ev(i)
    if at == -1:            # released before the stage-2 checkpoint: part of what that checkpoint flushes
        pre += ins
    open(os.path.join(d, "events"), "w").write("\n".join(pre) + "\n")
    open(os.path.join(d, "eventsM"), "w").write("\n".join(ins if at >= 1 else []) + "\n")
    open(os.path.join(d, "eventsA"), "w").write("\n".join(ins if at == 0 else []) + "\n")


def masked_image_crc(img):
    """CRC of a backup image with the savepoint timestamps and segment checksums of its log part zeroed"""
    if len(img) < 12:
        return "%d:short" % len(img)
    mlen = int.from_bytes(img[-12:-4], "little")
    b = bytearray(img)
    logpart = bytes(img[mlen:len(img) - 12]) if mlen <= len(img) - 12 else b""
    for p, op, sz in frame(logpart):
        if op == 127:
            b[mlen + p + 4:mlen + p + 8] = b"\0\0\0\0"
        elif op == 5:
            b[mlen + p + 4:mlen + p + 12] = bytes(8)
    return "%d:%08x" % (len(b), zlib.crc32(bytes(b)) & 0xffffffff)
